"""Shared pieces for the MBF floating point properties (C03–C07): implementation adapter,
structured generators of byte patterns, exact rational value."""
import binascii
from fractions import Fraction

FMT = {'s': dict(size=4, w=24, bias=152), 'd': dict(size=8, w=56, bias=184)}


def hx(b):
    return binascii.hexlify(bytes(b)).decode() or '-'


def unhx(s):
    return b'' if s == '-' else binascii.unhexlify(s)


def val(fs, b):
    """Exact value of an MBF byte pattern (exponent byte 0 = zero)."""
    b = bytearray(b)
    f = FMT[fs]
    e = b[-1]
    if e == 0:
        return Fraction(0)
    m = int.from_bytes(bytes(b[:-1]), 'little')
    neg = m >= 1 << (f['w'] - 1)
    man = m | (1 << (f['w'] - 1))
    v = Fraction(man) * Fraction(2) ** (e - f['bias'])
    return -v if neg else v


def ulp(fs, b):
    """Unit in the last place of the pattern's binade."""
    e = bytearray(b)[-1]
    return Fraction(2) ** (e - FMT[fs]['bias'])


def make(fs, neg, man, e):
    """Pattern from sign, mantissa with implied bit (2^(w-1) <= man < 2^w), exponent byte."""
    w = FMT[fs]['w']
    m = (man & ((1 << (w - 1)) - 1)) | ((1 << (w - 1)) if neg else 0)
    return m.to_bytes(w // 8, 'little') + bytes([e])


class Impl(object):
    """numbers.Single / numbers.Double of the real code."""

    def __init__(self):
        from pcbasic.basic.values import values, numbers
        from pcbasic.basic.base import error
        self.values, self.numbers, self.error = values, numbers, error
        self.vs = values.Values(None, False)
        self.vs.set_handler(values.FloatErrorHandler(None))
        self.cls = {'s': numbers.Single, 'd': numbers.Double}

    def num(self, fs, b):
        return self.cls[fs](None, self.vs).from_bytes(bytes(b))

    def _res(self, fn):
        try:
            r = fn()
        except OverflowError as e:
            return 'err 6 ' + hx(e.args[0].to_bytes())
        except ZeroDivisionError as e:
            return 'err 11 ' + hx(e.args[0].to_bytes())
        except self.error.BASICError as e:
            return 'err %d' % e.err
        except Exception as e:
            return 'exc %s' % type(e).__name__
        if isinstance(r, bool):
            return 'ok %d' % int(r)
        if isinstance(r, int):
            return 'ok %d' % r
        return 'ok ' + hx(r.to_bytes())

    def call(self, op, fs, a, b=None):
        x = self.num(fs, a) if op != 'fromint' else None
        y = self.num(fs, b) if b is not None else None
        if op == 'add':
            return self._res(lambda: x.iadd(y))
        if op == 'sub':
            return self._res(lambda: x.isub(y))
        if op == 'mul':
            return self._res(lambda: x.imul(y))
        if op == 'div':
            return self._res(lambda: x.idiv(y))
        if op == 'gt':
            return self._res(lambda: bool(x.gt(y)))
        if op == 'eq':
            return self._res(lambda: bool(x.eq(y)))
        if op == 'toint':
            return self._res(lambda: int(x.to_int()))
        if op == 'trunc':
            return self._res(lambda: int(x.to_int_truncate()))
        if op == 'itrunc':
            return self._res(lambda: x.itrunc())
        if op == 'ifloor':
            return self._res(lambda: x.ifloor())
        if op == 'neg':
            return self._res(lambda: x.ineg())
        if op == 'abs':
            return self._res(lambda: x.iabs())
        if op == 'sign':
            return self._res(lambda: int(x.sign()))
        if op == 'tosingle':
            return self._res(lambda: x.to_single())
        if op == 'fromsingle':
            return self._res(lambda: x.to_double())
        if op == 'fromint':
            return self._res(lambda: self.cls[fs](None, self.vs).from_int(a))
        raise ValueError(op)


def line(op, fs, a, b=None):
    if op == 'fromint':
        return 'fromint %s %d' % (fs, a)
    if b is None:
        return '%s %s %s' % (op, fs, hx(a))
    return '%s %s %s %s' % (op, fs, hx(a), hx(b))


SPECIAL_MAN_LOW = [0, 1, 2, 0x7f, 0x80, 0x81, 0xff, 0x100, 0x17f, 0x180, 0x181, 0x1ff]


def gen_float(rng, fs):
    """One byte pattern from the classes the quantifier names."""
    f = FMT[fs]
    w = f['w']
    k = rng.random()
    if k < 0.04:
        return bytes(f['size'])                                   # canonical zero
    if k < 0.08:
        return bytes(rng.randrange(256) for _ in range(f['size'] - 1)) + b'\0'   # zero with garbage mantissa
    neg = rng.random() < 0.5
    ek = rng.random()
    if ek < 0.15:
        e = rng.choice([1, 2, 3, 254, 255])
    elif ek < 0.3:
        e = rng.choice([0x80, 0x81, 0x82, 0x84, 0x7f, 0x7e])
    elif ek < 0.6:
        e = rng.randrange(0x70, 0x9c)
    elif ek < 0.75:
        e = rng.randrange(f['bias'] - 4, min(f['bias'] + 12, 256))    # near the integer boundary 2^w
    else:
        e = rng.randrange(1, 256)
    mk = rng.random()
    top = 1 << (w - 1)
    if mk < 0.15:
        man = top                                                   # power of two
    elif mk < 0.25:
        man = (1 << w) - 1 - rng.choice([0, 1, 2, 0xff])            # all ones
    elif mk < 0.4:
        man = top | rng.choice(SPECIAL_MAN_LOW)
    elif mk < 0.55:
        # few significant bits (small integers, halves)
        bits = rng.randrange(1, 12)
        man = rng.randrange(1 << (bits - 1), 1 << bits) << (w - bits)
    elif mk < 0.65:
        # low bits set only in the bytes that to_single / rounding look at
        man = top | (rng.randrange(1 << 40) & ((1 << w) - 1)) if w > 24 else top | rng.randrange(1 << 10)
    else:
        man = top | rng.randrange(top)
    return make(fs, neg, man, e)


def gen_pair(rng, fs):
    """Operand pair: aligned, adjacent, cancellation-prone, extreme, or independent."""
    f = FMT[fs]
    w = f['w']
    a = gen_float(rng, fs)
    k = rng.random()
    if k < 0.35 or a[-1] == 0:
        return a, gen_float(rng, fs)
    e = a[-1]
    m = int.from_bytes(a[:-1], 'little')
    neg = m >= 1 << (w - 1)
    man = m | (1 << (w - 1))
    if k < 0.5:     # same exponent, nearby mantissa (cancellation)
        man2 = max(1 << (w - 1), min((1 << w) - 1, man + rng.choice([-3, -2, -1, 0, 1, 2, 3, 0x80, -0x80])))
        return a, make(fs, rng.random() < 0.7 and not neg or (rng.random() < 0.3 and neg), man2, e)
    if k < 0.7:     # exponent differs by a small amount (alignment / sticky bits)
        d = rng.choice([1, 2, 7, 8, 9, w - 1, w, w + 1, w + 7, w + 8, w + 9])
        e2 = min(255, max(1, e + rng.choice([-d, d])))
        b = gen_float(rng, fs)
        return a, b[:-1] + bytes([e2])
    if k < 0.8:     # equal magnitude
        return a, make(fs, rng.random() < 0.5, man, e)
    if k < 0.9:     # products / quotients at the range limits
        e2 = min(255, max(1, rng.choice([f['bias'] - w + 128 - (e - 128), 256 + 128 - e, 129 - e + 128,
                                         128 + 128 - e, 127 + 128 - e])))
        b = gen_float(rng, fs)
        return a, b[:-1] + bytes([e2 & 0xff or 1])
    return gen_float(rng, fs), a
