"""Generate lean/PcbV/Gen/DosTables.lean: data the path/DOS-name models (C27, C28) depend on."""
from gen_tables import generator, HEADER, lean_list, lean_bytes


@generator('DosTables')
def gen_dos_tables():
    import sys
    import pcbasic.basic.codepage  # noqa (pcbasic.basic.codepage the attribute is shadowed by a function)
    codepage = sys.modules['pcbasic.basic.codepage']
    from pcbasic.basic.base import tokens
    from pcbasic.basic.devices import disk, files
    # the default code page of a Session (codepage=None), as used by DiskDevice for host names
    cp = codepage.Codepage(None, True)
    table = []
    for i in range(256):
        u = cp.bytes_to_unicode(bytes(bytearray([i])), box_protect=False)
        assert len(u) == 1, (i, u)
        table.append(ord(u))
    out = [HEADER, 'namespace PcbV.Gen.DosTables\n']
    out.append('/-- code point of each byte under Codepage(None).bytes_to_unicode(box_protect=False) -/')
    out.append('def cpTable : List Nat := %s\n' % lean_list(table))
    out.append('/-- disk.ALLOWABLE_CHARS, sorted -/')
    out.append('def allowable : List Nat := %s\n' % lean_list(sorted(bytearray(bytes(bytearray(disk.ALLOWABLE_CHARS))))))
    out.append('/-- files.DRIVE_LETTERS -/')
    out.append('def driveLetters : List Nat := %s\n' % lean_bytes(files.DRIVE_LETTERS))
    out.append('/-- files.DOS_DEVICE_FILES -/')
    out.append('def dosDeviceFiles : List (List Nat) := [%s]\n'
               % ', '.join(lean_bytes(x) for x in files.DOS_DEVICE_FILES))
    out.append('end PcbV.Gen.DosTables\n')
    return '\n'.join(out)
