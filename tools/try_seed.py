#!/usr/bin/env python3
"""Confirm a seeded change and run the property's check against it, in a scratch worktree of /repo
(so that concurrent work on /repo is not disturbed).
usage: try_seed.py <seed_dir> [--no-baseline] [--tier quick] [--check PID]"""
import json, os, subprocess, sys, tempfile
d = os.path.abspath(sys.argv[1])
meta = json.load(open(os.path.join(d, 'meta.json')))
pid = meta['property']
if '--check' in sys.argv:
    pid = sys.argv[sys.argv.index('--check') + 1]
tier = 'quick'
if '--tier' in sys.argv:
    tier = sys.argv[sys.argv.index('--tier') + 1]
def sh(cmd, **kw):
    p = subprocess.run(cmd, shell=True, stdout=subprocess.PIPE, stderr=subprocess.STDOUT, text=True, **kw)
    return p.returncode, p.stdout
wt = tempfile.mkdtemp(prefix='evalrepo_')
os.rmdir(wt)
res = {'property': pid, 'seed': os.path.basename(d)}
rc, out = sh('git -C /repo worktree add --detach %s HEAD' % wt)
try:
    rc, out = sh('timeout 600 /venv/bin/python %s/demo.py %s' % (d, wt))
    res['demo_clean_exit'] = rc
    rc, out = sh('git -C %s apply %s/patch.diff' % (wt, d))
    if rc != 0:
        res['error'] = 'patch does not apply: ' + out
    else:
        rc, out = sh('timeout 600 /venv/bin/python %s/demo.py %s' % (d, wt))
        res['demo_seeded_exit'] = rc
        res['demo_seeded_out'] = out[-300:]
        if '--no-baseline' not in sys.argv:
            rc, out = sh('python3 /verif/tools/baseline.py %s' % wt)
            res['baseline'] = out.strip().splitlines()[0] if out.strip() else ''
            res['baseline_ok'] = (rc == 0)
        ev = '/verif/evidence/%s.json' % pid
        ev_saved = open(ev).read() if os.path.exists(ev) else None
        rc, out = sh('cd /verif && PCBV_REPO=%s ./check %s --tier %s' % (wt, pid, tier))
        if ev_saved is not None:
            open(ev, 'w').write(ev_saved)   # evidence must come from runs against /repo itself
        res['check_exit'] = rc
        res['check_lines'] = [l for l in out.splitlines() if l.startswith(('VIOLATION', 'KNOWN-FINDING'))][:6]
        res['check_tail'] = out.strip().splitlines()[-1] if out.strip() else ''
finally:
    sh('git -C /repo worktree remove --force %s' % wt)
    # the check regenerates tables from the scratch tree; restore them from /repo
    sh('cd /verif && PYTHONPATH=/repo:/verif /venv/bin/python gen/gen_tables.py')
print(json.dumps(res, indent=1))
if '--record' in sys.argv:
    meta['verif_run'] = {k: res.get(k) for k in ('demo_clean_exit', 'demo_seeded_exit', 'baseline', 'check_exit', 'check_lines', 'check_tail')}
    meta['verif_run']['ran'] = 'tools/try_seed.py (scratch worktree of /repo HEAD + patch; demo.py; baseline; ./check %s --tier %s)' % (pid, tier)
    meta['detected'] = (res.get('check_exit') == 1)
    json.dump(meta, open(os.path.join(d, 'meta.json'), 'w'), indent=1)
