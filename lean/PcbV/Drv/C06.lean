import PcbV.Drv.MbfCommon
import PcbV.Model.Compare
namespace PcbV.Drv.C06
open PcbV PcbV.Mbf PcbV.Compare

/-- typed operand: `i`/`s`/`d` + little-endian hex of the stored bytes -/
def parseNum (t h : String) : Option Num :=
  match ofHex h with
  | none => none
  | some b =>
    match t with
    | "i" => if b.length = 2 then some (.int (b.foldr (fun x acc => x + 256 * acc) 0)) else none
    | "s" => if b.length = 4 then some (.sng (MbfCommon.ofBytes b)) else none
    | "d" => if b.length = 8 then some (.dbl (MbfCommon.ofBytes b)) else none
    | _ => none

def showOpt : Option Bool → String
  | some b => "ok " ++ showBool b
  | none => "none"

/-- `<op> <type> <hex> <type> <hex>`: the six relational operators of values.py (reply: the Integer
    pattern of the result) and the method-level `mgt`/`meq`; everything else is the shared MBF
    protocol (`gt s <a> <b>`, `eq …`, `fromint …`, `fromsingle …`). -/
def handle : List String → String
  | [op, ta, a, tb, b] =>
    match parseNum ta a, parseNum tb b with
    | some x, some y =>
      match op with
      | "eq" => "ok " ++ toString (Compare.eq x y)
      | "neq" => "ok " ++ toString (Compare.neq x y)
      | "gt" => "ok " ++ toString (Compare.gt x y)
      | "gte" => "ok " ++ toString (Compare.gte x y)
      | "lte" => "ok " ++ toString (Compare.lte x y)
      | "lt" => "ok " ++ toString (Compare.lt x y)
      | "mgt" => showOpt (methodGt x y)
      | "meq" => showOpt (methodEq x y)
      | _ => "bad-op"
    | _, _ => "bad-op"
  | rest => MbfCommon.handle rest

end PcbV.Drv.C06
