"""C33: DRAW constants (pcbasic/basic/display/graphics.py) -> lean/PcbV/Gen/DrawGml.lean."""
import sys

_gt = sys.modules.get('__main__')
if not hasattr(_gt, 'GENERATORS') or not hasattr(_gt, 'generator'):
    import gen_tables as _gt

generator, HEADER = _gt.generator, _gt.HEADER


@generator('DrawGml')
def gen_drawgml():
    from pcbasic.basic.display import graphics
    out = [HEADER, 'namespace PcbV.Gen.DrawGml\n']
    # limit on the nesting of X substrings (0 = the code has none)
    nest = getattr(graphics, 'MAX_SUBSTRING_NESTING', 0)
    if not isinstance(nest, int) or nest < 0:
        raise ValueError('C33 translator: graphics.MAX_SUBSTRING_NESTING is not a natural number: %r' % (nest,))
    out.append('/-- graphics.MAX_SUBSTRING_NESTING (0 if the code has no such limit) -/')
    out.append('def maxNesting : Nat := %d' % nest)
    out.append('\nend PcbV.Gen.DrawGml\n')
    return '\n'.join(out)
