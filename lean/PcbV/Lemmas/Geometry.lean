import PcbV.Lemmas.Viewport
import Mathlib.Tactic.Ring
import Mathlib.Tactic.Linarith
/-
  Lemmas for C31 about the pixel primitives of `PcbV.Model.Draw` on the unset viewport:
  page effect of a list of `graph_view[...] = attr` calls, the solid-style mask, the Bresenham loop of
  `_draw_line` (invariant `err = ⌊dx/2⌋ − k·dy + i·dx ∧ 0 ≤ err < dx`), the loop of `_draw_straight`,
  the slice of `_draw_box_filled`.
-/
namespace PcbV.Geometry
open PcbV PcbV.Viewport PcbV.Draw PcbV.ViewportLemmas

/-! ### page effect -/

theorem applyOps_written (v : View) (attr : Nat) (ops : Ops) :
    ∀ (pg : Page) (x y : Int), writes v ops x y → applyOps v attr pg ops x y = attr := by
  induction ops with
  | nil => intro pg x y ⟨_, hm, _⟩; cases hm
  | cons op rest ih =>
    intro pg x y hw
    show applyOps v attr (applyOp v attr pg op) rest x y = attr
    by_cases hr : writes v rest x y
    · exact ih _ x y hr
    · rw [applyOps_frame v attr rest _ x y hr]
      obtain ⟨o, hm, ho⟩ := hw
      rcases List.mem_cons.mp hm with h | h
      · subst h; simp [applyOp, ho]
      · exact absurd ⟨o, h, ho⟩ hr

/-- the page after a list of assignments: `attr` on the written cells, unchanged elsewhere -/
theorem applyOps_eq (v : View) (attr : Nat) (ops : Ops) (pg : Page) (x y : Int) :
    applyOps v attr pg ops x y = if writes v ops x y then attr else pg x y := by
  by_cases h : writes v ops x y
  · rw [if_pos h]; exact applyOps_written v attr ops pg x y h
  · rw [if_neg h]; exact applyOps_frame v attr ops pg x y h

/-- list of single-pixel assignments -/
def pixels (pts : List (Int × Int)) : Ops := pts.map (fun p => SetItem.pixel p.1 p.2)

/-- on the unset viewport a list of single-pixel assignments to points of the screen writes those points -/
theorem writes_pixels_full (W H : Int) (hW : 1 ≤ W) (hH : 1 ≤ H) (pts : List (Int × Int))
    (hin : ∀ p ∈ pts, 0 ≤ p.1 ∧ p.1 < W ∧ 0 ≤ p.2 ∧ p.2 < H) (cx cy : Int) :
    writes (View.full W H) (pixels pts) cx cy ↔ (cx, cy) ∈ pts := by
  have hv := full_wf W H hW hH
  have ox : (View.full W H).offX = 0 := by simp [View.offX, View.full]
  have oy : (View.full W H).offY = 0 := by simp [View.offY, View.full]
  constructor
  · rintro ⟨op, hm, hw⟩
    obtain ⟨p, hp, rfl⟩ := List.mem_map.mp hm
    have := (pixel_written (View.full W H) hv p.1 p.2 cx cy).mp hw
    rw [ox, oy] at this
    have e : (cx, cy) = p := by
      obtain ⟨_, h1, h2⟩ := this
      ext <;> simp [h1, h2]
    rw [e]; exact hp
  · intro hm
    refine ⟨SetItem.pixel cx cy, List.mem_map.mpr ⟨(cx, cy), hm, rfl⟩, ?_⟩
    apply (pixel_written (View.full W H) hv cx cy cx cy).mpr
    have := hin _ hm
    refine ⟨?_, by rw [ox]; omega, by rw [oy]; omega⟩
    simp only [View.contains, View.xmin, View.xmax, View.ymin, View.ymax, View.full, View.width, View.height,
      Bool.false_eq_true, if_false, decide_eq_true_eq]
    simp only [] at this
    omega

/-! ### the solid line style -/

def masks : List Nat := [0x8000, 0x4000, 0x2000, 0x1000, 0x800, 0x400, 0x200, 0x100, 0x80, 0x40, 0x20, 0x10, 8, 4, 2, 1]

theorem masks_ok : ∀ m ∈ masks, nextMask m ∈ masks ∧ patOn 0xffff m = true := by decide

/-! ### the Bresenham loop -/

/-- the point plotted for running coordinate `x` and other coordinate `y` -/
def tr (steep : Bool) (x y : Int) : Int × Int := if steep then (y, x) else (x, y)

/-- running / other coordinate of a plotted point -/
def runC (steep : Bool) (p : Int × Int) : Int := if steep then p.2 else p.1
def othC (steep : Bool) (p : Int × Int) : Int := if steep then p.1 else p.2

theorem runC_tr (steep : Bool) (x y : Int) : runC steep (tr steep x y) = x := by
  cases steep <;> rfl
theorem othC_tr (steep : Bool) (x y : Int) : othC steep (tr steep x y) = y := by
  cases steep <;> rfl

/-- the points of `lineLoop` for the solid style -/
def loopPts (steep : Bool) (sx sy dx dy : Int) : Nat → Int → Int → Int → List (Int × Int)
  | 0, _, _, _ => []
  | n + 1, x, y, err =>
    let err := err - dy
    let y' := if err < 0 then y + sy else y
    let err' := if err < 0 then err + dx else err
    tr steep x y :: loopPts steep sx sy dx dy n (x + sx) y' err'

theorem lineLoop_solid (steep : Bool) (sx sy dx dy : Int) (n : Nat) :
    ∀ (x y : Int) (mask : Nat) (err : Int), mask ∈ masks →
      lineLoop steep 0xffff sx sy dx dy n x y mask err = pixels (loopPts steep sx sy dx dy n x y err) := by
  induction n with
  | zero => intro x y mask err _; rfl
  | succ n ih =>
    intro x y mask err hm
    obtain ⟨h1, h2⟩ := masks_ok mask hm
    simp only [lineLoop, loopPts, pixels, h2, if_true, List.map_cons]
    rw [ih _ _ _ _ h1]
    cases steep <;> simp [tr, pixels]

/-- 8-neighbours: different cells whose coordinates differ by at most one -/
def adj8 (p q : Int × Int) : Prop :=
  p ≠ q ∧ (p.1 - q.1).natAbs ≤ 1 ∧ (p.2 - q.2).natAbs ≤ 1

/-- successive elements are 8-neighbours -/
def chain8 : List (Int × Int) → Prop
  | [] => True
  | [_] => True
  | p :: q :: r => adj8 p q ∧ chain8 (q :: r)

theorem adj8_tr (steep : Bool) (x y sx y' : Int) (hsx : sx = 1 ∨ sx = -1) (hy : (y - y').natAbs ≤ 1) :
    adj8 (tr steep x y) (tr steep (x + sx) y') := by
  cases steep <;> simp only [tr, adj8, Bool.false_eq_true, if_false, if_true, ne_eq, Prod.mk.injEq] <;>
    refine ⟨?_, ?_, ?_⟩ <;> omega

/-- invariant of the loop after `k` steps of which `i` moved the other coordinate -/
def Inv (dx dy err k i : Int) : Prop := err = dx / 2 - k * dy + i * dx ∧ 0 ≤ err ∧ err < dx

theorem loop_core (steep : Bool) (sx sy dx dy : Int) (hsx : sx = 1 ∨ sx = -1) (hsy : sy = 1 ∨ sy = -1)
    (_hdx : 0 < dx) (hdy0 : 0 ≤ dy) (hdy : dy ≤ dx) (n : Nat) :
    ∀ (x y err k i : Int), Inv dx dy err k i →
      ∃ i' err', i ≤ i' ∧ Inv dx dy err' (k + n) i' ∧
        (loopPts steep sx sy dx dy (n + 1) x y err).length = n + 1 ∧
        (loopPts steep sx sy dx dy (n + 1) x y err).head? = some (tr steep x y) ∧
        (loopPts steep sx sy dx dy (n + 1) x y err).getLast? = some (tr steep (x + sx * n) (y + sy * (i' - i))) ∧
        chain8 (loopPts steep sx sy dx dy (n + 1) x y err) ∧
        (∀ p ∈ loopPts steep sx sy dx dy (n + 1) x y err,
          (∃ j : Nat, j ≤ n ∧ runC steep p = x + sx * j) ∧
          (∃ t : Int, i ≤ t ∧ t ≤ i' ∧ othC steep p = y + sy * (t - i))) := by
  induction n with
  | zero =>
    intro x y err k i hinv
    refine ⟨i, err, le_refl _, by simpa using hinv, rfl, rfl, ?_, trivial, ?_⟩
    · simp [loopPts]
    · intro p hp
      simp only [loopPts, List.mem_singleton] at hp
      subst hp
      exact ⟨⟨0, le_refl _, by simp [runC_tr]⟩, ⟨i, le_refl _, le_refl _, by simp [othC_tr]⟩⟩
  | succ n ih =>
    intro x y err k i hinv
    obtain ⟨he, h0, h1⟩ := hinv
    -- one step
    have hstep : ∃ i1 : Int, (i1 = i ∨ i1 = i + 1) ∧
        (if err - dy < 0 then y + sy else y) = y + sy * (i1 - i) ∧
        Inv dx dy (if err - dy < 0 then err - dy + dx else err - dy) (k + 1) i1 := by
      by_cases hneg : err - dy < 0
      · refine ⟨i + 1, Or.inr rfl, by simp [hneg], ?_⟩
        simp only [hneg, if_true]
        refine ⟨?_, by omega, by omega⟩
        rw [he]; ring
      · refine ⟨i, Or.inl rfl, by simp [hneg], ?_⟩
        simp only [hneg, if_false]
        refine ⟨?_, by omega, by omega⟩
        rw [he]; ring
    obtain ⟨i1, hi1, hy1, hinv1⟩ := hstep
    obtain ⟨i', err', hle, hinv', hlen, hhead, hlast, hchain, hpts⟩ :=
      ih (x + sx) (if err - dy < 0 then y + sy else y) _ (k + 1) i1 hinv1
    have hunf : loopPts steep sx sy dx dy (n + 1 + 1) x y err =
        tr steep x y :: loopPts steep sx sy dx dy (n + 1) (x + sx) (if err - dy < 0 then y + sy else y)
          (if err - dy < 0 then err - dy + dx else err - dy) := rfl
    refine ⟨i', err', by omega, ?_, ?_, ?_, ?_, ?_, ?_⟩
    · have : k + ((n + 1 : Nat) : Int) = k + 1 + (n : Int) := by push_cast; ring
      rw [this]; exact hinv'
    · rw [hunf, List.length_cons, hlen]
    · rw [hunf]; rfl
    · rw [hunf, List.getLast?_cons_of_ne_nil (by intro h; rw [h] at hlen; simp at hlen), hlast, hy1]
      congr 2
      · push_cast; ring
      · ring
    · rw [hunf]
      -- the tail starts with the next point
      have hne : ∃ r, loopPts steep sx sy dx dy (n + 1) (x + sx) (if err - dy < 0 then y + sy else y)
          (if err - dy < 0 then err - dy + dx else err - dy) =
          tr steep (x + sx) (if err - dy < 0 then y + sy else y) :: r := ⟨_, rfl⟩
      obtain ⟨r, hr⟩ := hne
      rw [hr] at hchain ⊢
      refine ⟨adj8_tr steep x y sx _ hsx ?_, hchain⟩
      rw [hy1]
      rcases hi1 with h | h <;> rcases hsy with s | s <;> subst h <;> subst s <;> simp
    · intro p hp
      rw [hunf] at hp
      rcases List.mem_cons.mp hp with h | h
      · subst h
        exact ⟨⟨0, by omega, by simp [runC_tr]⟩, ⟨i, le_refl _, by omega, by simp [othC_tr]⟩⟩
      · obtain ⟨⟨j, hj, hrun⟩, ⟨t, ht0, ht1, hoth⟩⟩ := hpts p h
        refine ⟨⟨j + 1, by omega, ?_⟩, ⟨t, by omega, ht1, ?_⟩⟩
        · rw [hrun]; push_cast; ring
        · rw [hoth, hy1]; ring

/-- at the last column the other coordinate has made all its `dy` steps -/
theorem inv_final (dx dy err i : Int) (hdx : 0 < dx) (h : Inv dx dy err dx i) : i = dy := by
  obtain ⟨he, h0, h1⟩ := h
  have h2 : 0 ≤ dx / 2 := Int.ediv_nonneg (le_of_lt hdx) (by norm_num)
  have h3 : dx / 2 < dx := by omega
  have e : err = dx / 2 + (i - dy) * dx := by rw [he]; ring
  by_contra hne
  rcases lt_or_gt_of_ne hne with hlt | hgt
  · have : (i - dy) * dx ≤ -1 * dx := by
      apply Int.mul_le_mul_of_nonneg_right (by omega) (le_of_lt hdx)
    omega
  · have : 1 * dx ≤ (i - dy) * dx := by
      apply Int.mul_le_mul_of_nonneg_right (by omega) (le_of_lt hdx)
    omega

theorem loopPts_nodup (steep : Bool) (sx sy dx dy : Int) (hsx : sx = 1 ∨ sx = -1) (n : Nat) :
    ∀ (x y err : Int),
      (∀ p ∈ loopPts steep sx sy dx dy n x y err, ∃ j : Nat, j < n ∧ runC steep p = x + sx * j) ∧
      (loopPts steep sx sy dx dy n x y err).Nodup := by
  induction n with
  | zero => intro x y err; exact ⟨(by intro p hp; cases hp), List.nodup_nil⟩
  | succ n ih =>
    intro x y err
    have hunf : loopPts steep sx sy dx dy (n + 1) x y err =
        tr steep x y :: loopPts steep sx sy dx dy n (x + sx) (if err - dy < 0 then y + sy else y)
          (if err - dy < 0 then err - dy + dx else err - dy) := rfl
    obtain ⟨hm, hn⟩ := ih (x + sx) (if err - dy < 0 then y + sy else y)
      (if err - dy < 0 then err - dy + dx else err - dy)
    rw [hunf]
    constructor
    · intro p hp
      rcases List.mem_cons.mp hp with h | h
      · subst h; exact ⟨0, by omega, by simp [runC_tr]⟩
      · obtain ⟨j, hj, hr⟩ := hm p h
        exact ⟨j + 1, by omega, by rw [hr]; push_cast; ring⟩
    · refine List.nodup_cons.mpr ⟨?_, hn⟩
      intro hmem
      obtain ⟨j, _, hr⟩ := hm _ hmem
      rw [runC_tr] at hr
      rcases hsx with s | s <;> subst s <;> omega

/-! ### `_draw_line` on the unset viewport -/

/-- `_draw_line` after the endpoint swap -/
def lineFrom (x0 y0 x1 y1 : Int) (pattern : Nat) : Ops :=
  let dx := (x1 - x0).natAbs
  let dy := (y1 - y0).natAbs
  if dy > dx then
    let sx : Int := if y1 > y0 then 1 else -1
    let sy : Int := if x1 > x0 then 1 else -1
    lineLoop true pattern sx sy dy dx ((y1 - y0).natAbs + 1) y0 x0 0x8000 ((dy : Int) / 2)
  else
    let sx : Int := if x1 > x0 then 1 else -1
    let sy : Int := if y1 > y0 then 1 else -1
    lineLoop false pattern sx sy dx dy ((x1 - x0).natAbs + 1) x0 y0 0x8000 ((dx : Int) / 2)

theorem drawLine_full (W H x0 y0 x1 y1 : Int) (pattern : Nat)
    (hx0 : 0 ≤ x0 ∧ x0 ≤ W - 1) (hx1 : 0 ≤ x1 ∧ x1 ≤ W - 1)
    (hy0 : 0 ≤ y0 ∧ y0 ≤ H - 1) (hy1 : 0 ≤ y1 ∧ y1 ≤ H - 1) :
    drawLine (View.full W H) x0 y0 x1 y1 pattern =
      if y1 ≤ y0 then lineFrom x1 y1 x0 y0 pattern else lineFrom x0 y0 x1 y1 pattern := by
  unfold drawLine
  rw [cutoff_full_id W H x0 y0 hx0 hy0, cutoff_full_id W H x1 y1 hx1 hy1]
  unfold lineFrom
  by_cases h : y1 ≤ y0
  · simp only [h, if_true]
    by_cases hs : (y0 - y1).natAbs > (x0 - x1).natAbs
    · simp [hs]
    · simp [hs]
  · simp only [h, if_false]
    by_cases hs : (y1 - y0).natAbs > (x1 - x0).natAbs
    · simp [hs]
    · simp [hs]

/-- the loop from (a, b) to (c, d) in running/other coordinates, `|d-b| ≤ |c-a|` -/
theorem oriented (steep : Bool) (a b c d : Int) (h : (d - b).natAbs ≤ (c - a).natAbs) :
    ∀ pts, pts = loopPts steep (if c > a then 1 else -1) (if d > b then 1 else -1)
        ((c - a).natAbs : Int) ((d - b).natAbs : Int) ((c - a).natAbs + 1) a b (((c - a).natAbs : Int) / 2) →
      pts.length = (c - a).natAbs + 1 ∧ pts.head? = some (tr steep a b) ∧ pts.getLast? = some (tr steep c d) ∧
      chain8 pts ∧ pts.Nodup ∧
      ∀ p ∈ pts, min a c ≤ runC steep p ∧ runC steep p ≤ max a c ∧ min b d ≤ othC steep p ∧ othC steep p ≤ max b d := by
  intro pts hpts
  have hsx : (if c > a then (1 : Int) else -1) = 1 ∨ (if c > a then (1 : Int) else -1) = -1 := by
    split <;> simp
  have hsy : (if d > b then (1 : Int) else -1) = 1 ∨ (if d > b then (1 : Int) else -1) = -1 := by
    split <;> simp
  have hnd := (loopPts_nodup steep _ (if d > b then 1 else -1) ((c - a).natAbs : Int) ((d - b).natAbs : Int) hsx
    ((c - a).natAbs + 1) a b (((c - a).natAbs : Int) / 2)).2
  by_cases hz : (c - a).natAbs = 0
  · have hca : c = a := by omega
    have hdb : d = b := by omega
    subst hca; subst hdb
    rw [hz] at hpts
    simp only [loopPts] at hpts
    subst hpts
    refine ⟨by simp, rfl, rfl, trivial, by simp, ?_⟩
    intro p hp
    simp only [List.mem_singleton] at hp
    subst hp
    simp [runC_tr, othC_tr]
  · have hdx : (0 : Int) < ((c - a).natAbs : Int) := by omega
    have hinv0 : Inv ((c - a).natAbs : Int) ((d - b).natAbs : Int) (((c - a).natAbs : Int) / 2) 0 0 := by
      refine ⟨by ring, by omega, by omega⟩
    obtain ⟨i', err', _, hinv', hlen, hhead, hlast, hchain, hmem⟩ :=
      loop_core steep _ _ ((c - a).natAbs : Int) ((d - b).natAbs : Int) hsx hsy hdx (by omega) (by omega)
        (c - a).natAbs a b _ 0 0 hinv0
    rw [zero_add] at hinv'
    have hi' := inv_final _ _ _ _ hdx hinv'
    subst hi'
    rw [← hpts] at hlen hhead hlast hchain hmem hnd
    have e1 : a + (if c > a then (1 : Int) else -1) * ((c - a).natAbs : Int) = c := by
      split <;> omega
    have e2 : b + (if d > b then (1 : Int) else -1) * (((d - b).natAbs : Int) - 0) = d := by
      split <;> omega
    rw [e1, e2] at hlast
    refine ⟨hlen, hhead, hlast, hchain, hnd, ?_⟩
    intro p hp
    obtain ⟨⟨j, hj, hrun⟩, ⟨t, ht0, ht1, hoth⟩⟩ := hmem p hp
    rw [hrun, hoth]
    refine ⟨?_, ?_, ?_, ?_⟩
    · split <;> omega
    · split <;> omega
    · split <;> omega
    · split <;> omega

/-- what C31 says of the cells of a solid line from `p0` to `p1` -/
def IsLinePath (pts : List (Int × Int)) (x0 y0 x1 y1 : Int) : Prop :=
  pts.length = max (x1 - x0).natAbs (y1 - y0).natAbs + 1 ∧
  pts.head? = some (x0, y0) ∧ pts.getLast? = some (x1, y1) ∧ chain8 pts ∧ pts.Nodup ∧
  ∀ p ∈ pts, min x0 x1 ≤ p.1 ∧ p.1 ≤ max x0 x1 ∧ min y0 y1 ≤ p.2 ∧ p.2 ≤ max y0 y1

theorem lineFrom_solid (x0 y0 x1 y1 : Int) :
    ∃ pts, lineFrom x0 y0 x1 y1 0xffff = pixels pts ∧ IsLinePath pts x0 y0 x1 y1 := by
  unfold lineFrom
  have hm : (0x8000 : Nat) ∈ masks := by decide
  by_cases hs : (y1 - y0).natAbs > (x1 - x0).natAbs
  · simp only [hs, if_true]
    rw [lineLoop_solid true _ _ _ _ _ _ _ _ _ hm]
    refine ⟨_, rfl, ?_⟩
    obtain ⟨h1, h2, h3, h4, h5, h6⟩ := oriented true y0 x0 y1 x1 (by omega) _ rfl
    refine ⟨by rw [h1]; omega, h2, h3, h4, h5, ?_⟩
    intro p hp
    have := h6 p hp
    simp only [runC, othC, if_true] at this
    omega
  · simp only [hs, if_false]
    rw [lineLoop_solid false _ _ _ _ _ _ _ _ _ hm]
    refine ⟨_, rfl, ?_⟩
    obtain ⟨h1, h2, h3, h4, h5, h6⟩ := oriented false x0 y0 x1 y1 (by omega) _ rfl
    refine ⟨by rw [h1]; omega, h2, h3, h4, h5, ?_⟩
    intro p hp
    have := h6 p hp
    simp only [runC, othC, Bool.false_eq_true, if_false] at this
    omega


/-! ### `_draw_straight`, `_draw_box` -/

def segPts (dirX : Bool) (q sp : Int) : Nat → Int → List (Int × Int)
  | 0, _ => []
  | n + 1, p => (if dirX then (p, q) else (q, p)) :: segPts dirX q sp n (p + sp)

theorem straightLoop_solid (dirX : Bool) (q sp : Int) (n : Nat) :
    ∀ (p : Int) (mask : Nat), mask ∈ masks →
      (straightLoop dirX 0xffff q sp n p mask).1 = pixels (segPts dirX q sp n p) ∧
      (straightLoop dirX 0xffff q sp n p mask).2 ∈ masks := by
  induction n with
  | zero => intro p mask hm; exact ⟨rfl, hm⟩
  | succ n ih =>
    intro p mask hm
    obtain ⟨h1, h2⟩ := masks_ok mask hm
    obtain ⟨i1, i2⟩ := ih (p + sp) (nextMask mask) h1
    simp only [straightLoop, segPts, pixels, h2, if_true, List.map_cons]
    refine ⟨?_, i2⟩
    rw [i1]
    cases dirX <;> simp [pixels]

theorem mem_segPts (dirX : Bool) (q sp : Int) (n : Nat) (c : Int × Int) :
    ∀ (p : Int), c ∈ segPts dirX q sp n p ↔ ∃ j : Nat, j < n ∧ c = (if dirX then (p + sp * j, q) else (q, p + sp * j)) := by
  induction n with
  | zero => intro p; simp [segPts]
  | succ n ih =>
    intro p
    simp only [segPts, List.mem_cons, ih]
    constructor
    · rintro (h | ⟨j, hj, h⟩)
      · exact ⟨0, by omega, by simpa using h⟩
      · refine ⟨j + 1, by omega, ?_⟩
        rw [h]; push_cast; cases dirX <;> simp <;> ring
    · rintro ⟨j, hj, h⟩
      cases j with
      | zero => left; simpa using h
      | succ j =>
        right
        refine ⟨j, by omega, ?_⟩
        rw [h]; push_cast; cases dirX <;> simp <;> ring

/-- the points of `_draw_straight(a, b, c, d)` -/
def straightPts (a b c d : Int) : List (Int × Int) :=
  if a = c then segPts false a (if d > b then 1 else -1) ((d - b).natAbs + 1) b
  else segPts true b (if c > a then 1 else -1) ((c - a).natAbs + 1) a

theorem drawStraight_solid (a b c d : Int) (mask : Nat) (hm : mask ∈ masks) :
    (drawStraight a b c d 0xffff mask).1 = pixels (straightPts a b c d) ∧
    (drawStraight a b c d 0xffff mask).2 ∈ masks := by
  unfold drawStraight straightPts
  by_cases h : a = c
  · subst h
    simp only [if_true, ne_eq, not_true_eq_false, decide_false]
    exact straightLoop_solid false a _ _ b mask hm
  · simp only [h, if_false, ne_eq, not_false_eq_true, decide_true]
    exact straightLoop_solid true b _ _ a mask hm

/-- a horizontal or vertical stroke covers exactly the segment between its end points -/
theorem mem_straightPts (a b c d cx cy : Int) (h : a = c ∨ b = d) :
    (cx, cy) ∈ straightPts a b c d ↔ (min a c ≤ cx ∧ cx ≤ max a c ∧ min b d ≤ cy ∧ cy ≤ max b d) := by
  unfold straightPts
  by_cases hac : a = c
  · subst hac
    simp only [if_true, mem_segPts, Bool.false_eq_true, if_false, Prod.mk.injEq]
    constructor
    · rintro ⟨j, hj, h1, h2⟩
      subst h1; subst h2
      split <;> omega
    · rintro ⟨h1, h2, h3, h4⟩
      by_cases hd : d > b
      · refine ⟨(cy - b).toNat, by omega, by omega, ?_⟩
        simp only [hd, if_true]; omega
      · refine ⟨(b - cy).toNat, by omega, by omega, ?_⟩
        simp only [hd, if_false]; omega
  · have hbd : b = d := by rcases h with h | h; exact absurd h hac; exact h
    subst hbd
    simp only [hac, if_false, mem_segPts, if_true, Prod.mk.injEq]
    constructor
    · rintro ⟨j, hj, h1, h2⟩
      subst h1; subst h2
      split <;> omega
    · rintro ⟨h1, h2, h3, h4⟩
      by_cases hd : c > a
      · refine ⟨(cx - a).toNat, by omega, ?_, by omega⟩
        simp only [hd, if_true]; omega
      · refine ⟨(a - cx).toNat, by omega, ?_, by omega⟩
        simp only [hd, if_false]; omega

/-- the cell lies on the outline of the rectangle with corners (x0, y0), (x1, y1) (any corner order) -/
def onFrame (x0 y0 x1 y1 cx cy : Int) : Prop :=
  min x0 x1 ≤ cx ∧ cx ≤ max x0 x1 ∧ min y0 y1 ≤ cy ∧ cy ≤ max y0 y1 ∧
  (cx = x0 ∨ cx = x1 ∨ cy = y0 ∨ cy = y1)

/-- the cell lies in the rectangle -/
def inBox (x0 y0 x1 y1 cx cy : Int) : Prop :=
  min x0 x1 ≤ cx ∧ cx ≤ max x0 x1 ∧ min y0 y1 ≤ cy ∧ cy ≤ max y0 y1

instance (x0 y0 x1 y1 cx cy : Int) : Decidable (onFrame x0 y0 x1 y1 cx cy) := inferInstanceAs (Decidable (_ ∧ _))
instance (x0 y0 x1 y1 cx cy : Int) : Decidable (inBox x0 y0 x1 y1 cx cy) := inferInstanceAs (Decidable (_ ∧ _))

/-- the points of `_draw_box` in drawing order -/
def boxPts (x0 y0 x1 y1 : Int) : List (Int × Int) :=
  straightPts x1 y1 x0 y1 ++ straightPts x1 y0 x0 y0 ++
  straightPts x1 (if y0 < y1 then y0 else y1) x1 (if y0 < y1 then y1 else y0) ++
  straightPts x0 (if y0 < y1 then y0 else y1) x0 (if y0 < y1 then y1 else y0)

theorem drawBox_full (W H x0 y0 x1 y1 : Int)
    (hx0 : 0 ≤ x0 ∧ x0 ≤ W - 1) (hx1 : 0 ≤ x1 ∧ x1 ≤ W - 1)
    (hy0 : 0 ≤ y0 ∧ y0 ≤ H - 1) (hy1 : 0 ≤ y1 ∧ y1 ≤ H - 1) :
    drawBox (View.full W H) x0 y0 x1 y1 0xffff = pixels (boxPts x0 y0 x1 y1) := by
  unfold drawBox
  rw [cutoff_full_id W H x0 y0 hx0 hy0, cutoff_full_id W H x1 y1 hx1 hy1]
  have hm : (0x8000 : Nat) ∈ masks := by decide
  obtain ⟨a1, m1⟩ := drawStraight_solid x1 y1 x0 y1 _ hm
  obtain ⟨a2, m2⟩ := drawStraight_solid x1 y0 x0 y0 _ m1
  by_cases h : y0 < y1
  · obtain ⟨a3, m3⟩ := drawStraight_solid x1 y0 x1 y1 _ m2
    obtain ⟨a4, _⟩ := drawStraight_solid x0 y0 x0 y1 _ m3
    simp only [h, if_true, boxPts, pixels, List.map_append] at a1 a2 a3 a4 ⊢
    rw [a1, a2, a3, a4]
  · obtain ⟨a3, m3⟩ := drawStraight_solid x1 y1 x1 y0 _ m2
    obtain ⟨a4, _⟩ := drawStraight_solid x0 y1 x0 y0 _ m3
    simp only [h, if_false, boxPts, pixels, List.map_append] at a1 a2 a3 a4 ⊢
    rw [a1, a2, a3, a4]

theorem mem_boxPts (x0 y0 x1 y1 cx cy : Int) :
    (cx, cy) ∈ boxPts x0 y0 x1 y1 ↔ onFrame x0 y0 x1 y1 cx cy := by
  unfold boxPts onFrame
  simp only [List.mem_append, mem_straightPts _ _ _ _ _ _ (Or.inr rfl), mem_straightPts _ _ _ _ _ _ (Or.inl rfl)]
  by_cases h : y0 < y1
  · simp only [h, if_true]; omega
  · simp only [h, if_false]; omega

/-! ### `_draw_box_filled` -/

/-- a closed slice `s : e+1` inside an unclipped axis selects exactly `s..e` -/
theorem clipAxis_sel_full (len s e k : Int) (hs : 0 ≤ s) (hse : s ≤ e) (he : e < len) :
    (View.clipAxis (.slice (some s) (some (e + 1))) 0 (len - 1) 0).sel len k = true ↔ (s ≤ k ∧ k ≤ e) := by
  have r : (View.clipAxis (.slice (some s) (some (e + 1))) 0 (len - 1) 0).range len =
      (pyNorm len (max s 0 + 0), pyNorm len (min (e + 1) (len - 1 + 1) + 0)) := rfl
  unfold Ix.sel
  rw [r]
  simp only [decide_eq_true_eq]
  rw [pyNorm_of_range len (max s 0 + 0) (by omega) (by omega),
    pyNorm_of_range len (min (e + 1) (len - 1 + 1) + 0) (by omega) (by omega)]
  omega

theorem written_boxFilled_full (W H x0 y0 x1 y1 cx cy : Int)
    (hx0 : 0 ≤ x0 ∧ x0 ≤ W - 1) (hx1 : 0 ≤ x1 ∧ x1 ≤ W - 1)
    (hy0 : 0 ≤ y0 ∧ y0 ≤ H - 1) (hy1 : 0 ≤ y1 ∧ y1 ≤ H - 1) :
    writes (View.full W H) (drawBoxFilled (View.full W H) x0 y0 x1 y1) cx cy ↔ inBox x0 y0 x1 y1 cx cy := by
  have e1 : (View.full W H).ymin = 0 := rfl
  have e2 : (View.full W H).xmin = 0 := rfl
  have e3 : (View.full W H).ymax = H - 1 := by simp [View.ymax, View.full, View.height]
  have e4 : (View.full W H).xmax = W - 1 := by simp [View.xmax, View.full, View.width]
  have e5 : (View.full W H).offX = 0 := by simp [View.offX, View.full]
  have e6 : (View.full W H).offY = 0 := by simp [View.offY, View.full]
  have e7 : (View.full W H).H = H := rfl
  have e8 : (View.full W H).W = W := rfl
  unfold writes inBox drawBoxFilled
  rw [cutoff_full_id W H x0 y0 hx0 hy0, cutoff_full_id W H x1 y1 hx1 hy1]
  simp only [List.mem_singleton, exists_eq_left]
  by_cases ha : y1 < y0 <;> by_cases hb : x1 < x0 <;>
    simp only [ha, hb, if_true, if_false, View.written, View.convertSlice, Bool.and_eq_true, e1, e2, e3, e4, e5, e6,
      e7, e8] <;>
    rw [clipAxis_sel_full _ _ _ _ (by omega) (by omega) (by omega),
      clipAxis_sel_full _ _ _ _ (by omega) (by omega) (by omega)] <;> omega
end PcbV.Geometry
