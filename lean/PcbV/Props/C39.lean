import PcbV.Lemmas.RndAffine
import PcbV.Lemmas.RndArith
import Mathlib.Tactic.NormNum.Basic
import Mathlib.Tactic.Ring
import Mathlib.Tactic.FieldSimp
import Mathlib.Tactic.Linarith
import Mathlib.Tactic.Positivity
import Mathlib.Algebra.Order.Field.Basic
import Mathlib.Algebra.Order.Field.Rat
import PcbV.Gen.Translated
/-
  C39 — RND is a deterministic full-period sequence in [0, 1).

  Property theorems about `PcbV.Rnd` (transcription of values/randomiser.py) with the constants
  regenerated from the class (`PcbV.Gen.Rnd`).  `cycle` is `Randomiser._cycle`, `after ops` is the
  generator state of a fresh session after the history `ops` of RND / RANDOMIZE / reset operations,
  `resultBytes s` the MBF single returned for the state `s`, `mbfValue` its mathematical value.
-/
namespace PcbV.C39
open PcbV PcbV.Rnd PcbV.Gen.Rnd PcbV.RndAffine PcbV.RndArith

/-! ## The state space -/

theorem period_eq : period = 2 ^ 24 := by decide

theorem cycle_lt (s : Nat) : cycle s < period := Nat.mod_lt _ (by decide)

theorem reseedN_lt (s : Nat) (n : Int) : reseedN s n < period := by
  unfold reseedN pyMod
  have hp : (0 : Int) < (period : Nat) := by simp [period]
  rw [Int.fmod_eq_emod_of_nonneg _ (Int.le_of_lt hp)]
  have h1 := Int.emod_lt_of_pos ((cycle (s &&& 255) : Nat) + n * (step : Nat)) hp
  have h2 := Int.emod_nonneg ((cycle (s &&& 255) : Nat) + n * (step : Nat)) (Int.ne_of_gt hp)
  omega

/-- Every operation keeps the state inside `0 … period-1`. -/
theorem apply_lt (s : Nat) (op : Op) (hs : s < period) : apply s op < period := by
  cases op with
  | rnd arg =>
    cases arg with
    | none => exact cycle_lt s
    | some f =>
      simp only [apply, rndStep]
      split
      · exact hs
      · split <;> exact cycle_lt _
  | randomize b => exact reseedN_lt s _
  | clear => show initSeed < period; decide

/-- Invariant over all histories: the generator state of a session is always a 24-bit state. -/
theorem state_in_range (ops : List Op) : after ops < period := by
  unfold after run
  have : ∀ (l : List Op) (s : Nat), s < period → l.foldl apply s < period := by
    intro l
    induction l with
    | nil => intro s hs; exact hs
    | cons op rest ih => intro s hs; exact ih _ (apply_lt s op hs)
  exact this ops _ (by decide)

/-! ## Full period -/

theorem cycle_eq_aff : cycle = aff period (multiplier, increment) := by
  funext x; simp [cycle, aff, Nat.mul_comm]

/-- certificate: 24 squarings of the affine map give the identity map … -/
theorem pow2_24 : pow2 period (multiplier, increment) 24 = (1, 0) := by decide +kernel
/-- … and 23 squarings give the translation by half the period, which has no fixed point. -/
theorem pow2_23 : pow2 period (multiplier, increment) 23 = (1, 8388608) := by decide +kernel

/-- After `period` steps every state is back where it started. -/
theorem cycle_iterate_period (s : Nat) (hs : s < period) : cycle^[period] s = s := by
  have h : cycle^[2 ^ 24] s = s := by
    rw [cycle_eq_aff, iterate_pow2, pow2_24]
    simp only [aff, Nat.one_mul, Nat.add_zero]
    exact Nat.mod_eq_of_lt hs
  rw [period_eq]; exact h

/-- After half the period no state is back where it started. -/
theorem cycle_iterate_half (s : Nat) (_hs : s < period) : cycle^[2 ^ 23] s ≠ s := by
  rw [cycle_eq_aff, iterate_pow2, pow2_23]
  simp only [aff, Nat.one_mul]
  have : period = 16777216 := by decide
  rw [this]
  omega

/-- FULL PERIOD (1): every one of the 2^24 states has minimal period exactly `period` = 2^24 under
    the step map, i.e. the sequence first returns to a state after exactly 2^24 steps. -/
theorem cycle_minimalPeriod (s : Nat) (hs : s < period) :
    Function.minimalPeriod cycle s = period := by
  have h := Function.minimalPeriod_eq_prime_pow (p := 2) (k := 23) (f := cycle) (x := s)
    (cycle_iterate_half s hs)
    (by have := cycle_iterate_period s hs; rw [period_eq] at this; exact this)
  rw [period_eq]; exact h

/-- FULL PERIOD (2): the step map on the states `0 … 2^24-1` is a single cycle — from any state
    every state is reached in fewer than 2^24 steps. -/
theorem full_period (s t : Nat) (hs : s < period) (ht : t < period) :
    ∃ n, n < period ∧ cycle^[n] s = t :=
  orbit_covers cycle cycle_lt cycle_minimalPeriod s t hs ht

/-- No repetition inside one period: the first 2^24 states of the sequence are pairwise distinct. -/
theorem no_early_repeat (s i j : Nat) (hs : s < period) (hi : i < period) (hj : j < period)
    (h : cycle^[i] s = cycle^[j] s) : i = j := by
  have hi' : i < Function.minimalPeriod cycle s := by rw [cycle_minimalPeriod s hs]; exact hi
  have hj' : j < Function.minimalPeriod cycle s := by rw [cycle_minimalPeriod s hs]; exact hj
  exact (Function.iterate_eq_iterate_iff_of_lt_minimalPeriod hi' hj').mp h

/-- The sequence is periodic with period 2^24 from every state. -/
theorem sequence_periodic (s n : Nat) (hs : s < period) : cycle^[n + period] s = cycle^[n] s := by
  rw [Function.iterate_add_apply, cycle_iterate_period s hs]

/-- The plain `RND` sequence of a session, whatever its history, runs through all 2^24 states. -/
theorem session_sequence_full (ops : List Op) (t : Nat) (ht : t < period) :
    ∃ n, n < period ∧ after (ops ++ List.replicate n (Op.rnd none)) = t := by
  obtain ⟨n, hn, h⟩ := full_period (after ops) t (state_in_range ops) ht
  refine ⟨n, hn, ?_⟩
  have : ∀ (k s : Nat), (List.replicate k (Op.rnd none)).foldl apply s = cycle^[k] s := by
    intro k
    induction k with
    | zero => intro s; rfl
    | succ k ih =>
      intro s
      rw [List.replicate_succ, List.foldl_cons, ih, Function.iterate_succ_apply]
      rfl
  unfold after run at h ⊢
  rw [List.foldl_append, this]; exact h

/-! ## Values: seed / 2^24 exactly, in [0, 1) -/

/-- Mathematical value of a 4-byte MBF single: 0 if the exponent byte is 0, otherwise
    ±(mantissa with hidden bit)/2^24 · 2^(exponent − 128), written as mant·2^e / 2^152. -/
def mbfValue (b : Bytes) : ℚ :=
  if b.getD 3 0 = 0 then 0
  else
    let mant : Nat := b.getD 0 0 + 256 * b.getD 1 0 + 65536 * (b.getD 2 0 % 128 + 128)
    let v : ℚ := (mant : ℚ) * 2 ^ (b.getD 3 0) / 2 ^ 152
    if b.getD 2 0 ≥ 128 then -v else v

/-- VALUE: for every 24-bit state the returned single is exactly seed / 2^24. -/
theorem value_exact (s : Nat) (hs : s < period) : mbfValue (resultBytes s) = (s : ℚ) / 2 ^ 24 := by
  have hs' : s < 2 ^ 24 := by rw [← period_eq]; exact hs
  by_cases h0 : s = 0
  · subst h0; simp [resultBytes, mbfValue]
  · obtain ⟨k, hk, hn, hlo, hhi⟩ := normLoop_spec 24 s 128 (by omega) hs'
      (by have : 0 < s := by omega
          calc 2 ^ 23 ≤ 1 * 2 ^ 24 := by norm_num
            _ ≤ s * 2 ^ 24 := Nat.mul_le_mul_right _ this) (by norm_num)
    simp only [resultBytes, h0, if_false, hn, mbfValue, List.getD_cons_zero, List.getD_cons_succ]
    have he : 128 - k ≠ 0 := by omega
    rw [if_neg he]
    generalize hM : s * 2 ^ k = M at hlo hhi
    have hpos : ¬ (M / 65536 % 128 ≥ 128) := by omega
    rw [if_neg hpos]
    have hmant : M % 256 + 256 * (M / 256 % 256) + 65536 * (M / 65536 % 128 % 128 + 128) = M := by
      omega
    rw [hmant, ← hM]
    have h2 : (2 : ℚ) ^ 152 = 2 ^ k * 2 ^ (128 - k) * 2 ^ 24 := by
      rw [← pow_add, ← pow_add]; congr 1; omega
    rw [h2]
    push_cast
    field_simp

/-- RANGE: for every 24-bit state the returned value lies in [0, 1). -/
theorem value_range (s : Nat) (hs : s < period) :
    0 ≤ mbfValue (resultBytes s) ∧ mbfValue (resultBytes s) < 1 := by
  rw [value_exact s hs]
  have hs' : s < 2 ^ 24 := by rw [← period_eq]; exact hs
  constructor
  · positivity
  · rw [div_lt_one (by positivity)]
    exact_mod_cast hs'

/-- Over all histories and every RND argument: the value returned by RND is the *current* seed
    (the state after the call) divided by 2^24 exactly, and lies in [0, 1). -/
theorem rnd_value (ops : List Op) (arg : Option Bytes) :
    let r := rnd (after ops) arg
    r.1 = after (ops ++ [Op.rnd arg]) ∧
    mbfValue r.2 = (r.1 : ℚ) / 2 ^ 24 ∧ 0 ≤ mbfValue r.2 ∧ mbfValue r.2 < 1 := by
  have hst : after (ops ++ [Op.rnd arg]) = rndStep (after ops) arg := by
    simp [after, run, List.foldl_append, apply]
  have hlt : rndStep (after ops) arg < period := by rw [← hst]; exact state_in_range _
  refine ⟨hst.symm, value_exact _ hlt, (value_range _ hlt).1, (value_range _ hlt).2⟩

/-- Distinct states give distinct values (so the value sequence has period 2^24 as well). -/
theorem value_injective (s t : Nat) (hs : s < period) (ht : t < period)
    (h : mbfValue (resultBytes s) = mbfValue (resultBytes t)) : s = t := by
  rw [value_exact s hs, value_exact t ht] at h
  have : (s : ℚ) = t := by
    have h24 : (2 : ℚ) ^ 24 ≠ 0 := by positivity
    field_simp at h
    exact h
  exact_mod_cast this

/-! ## Determinism -/

/-- RUN / CLEAR / NEW restart the sequence: whatever happened before the reset is forgotten. -/
theorem clear_restarts (before rest : List Op) :
    after (before ++ Op.clear :: rest) = after rest := by
  simp [after, run, List.foldl_append, apply]

/-- RND(0) leaves the state alone and returns the value of the current state … -/
theorem rnd_zero_keeps (s : Nat) (f : Bytes) (hz : isZero f = true) :
    rnd s (some f) = (s, resultBytes s) := by
  simp [rnd, rndStep, hz]

/-- … hence RND(0) after any RND call repeats that call's value (and may be repeated at will). -/
theorem rnd_zero_repeats (s : Nat) (arg : Option Bytes) (f : Bytes) (hz : isZero f = true) :
    (rnd (rnd s arg).1 (some f)).2 = (rnd s arg).2 ∧ (rnd (rnd s arg).1 (some f)).1 = (rnd s arg).1 := by
  simp [rnd, rndStep, hz]

/-- RND with a positive argument is RND without an argument. -/
theorem rnd_positive (s : Nat) (f : Bytes) (hz : isZero f = false) (hn : isNeg f = false) :
    rnd s (some f) = rnd s none := by
  simp [rnd, rndStep, hz, hn]

/-- RND with a negative argument reseeds identically whatever the state was: the result depends
    on the argument only. -/
theorem rnd_negative_state_independent (s s' : Nat) (f : Bytes) (hz : isZero f = false)
    (hn : isNeg f = true) : rnd s (some f) = rnd s' (some f) := by
  simp [rnd, rndStep, hz, hn]

/-- … and only on the argument's mantissa bytes (not on its exponent): the new state is one step
    after the 24-bit mantissa with the hidden bit set. -/
theorem rnd_negative_mantissa (s : Nat) (b0 b1 b2 e : Nat) (h0 : b0 < 256) (h1 : b1 < 256)
    (h2 : 128 ≤ b2) (h2' : b2 < 256) (he : e ≠ 0) :
    rndStep s (some [b0, b1, b2, e]) = cycle (b0 + 256 * b1 + 65536 * b2) := by
  have hz : isZero [b0, b1, b2, e] = false := by simp [isZero, he]
  have hn : isNeg [b0, b1, b2, e] = true := by simp [isNeg, h2]
  have hm : (-(mantissa [b0, b1, b2, e])).toNat = b0 + 256 * b1 + 65536 * b2 := by
    unfold mantissa
    rw [if_pos hn]
    simp only [List.getD_cons_zero, List.getD_cons_succ]
    generalize hX : b0 * 256 + b1 * 65536 + b2 * 16777216 = X
    have hX' : X = (X - 2147483648) + 2 ^ 31 := by omega
    have key := or_hidden 31 (X - 2147483648) (by omega)
    rw [← hX'] at key
    have e31 : (2147483648 : Nat) = 2 ^ 31 := by decide
    rw [e31, key, Nat.shiftRight_eq_div_pow, Int.neg_neg, Int.toNat_natCast]
    omega
  simp only [rndStep, hz, hn, hm]
  simp

/-- Literal bytes: the RANDOMIZE key of an Integer is its signed value … -/
theorem reseedKey_integer (lo hi : Nat) : reseedKey [lo, hi] = unpackS16 lo hi := by
  simp [reseedKey]

/-- … of a Single the last two bytes xor the first two … -/
theorem reseedKey_single (a b c d : Nat) : reseedKey [a, b, c, d] = unpackS16 (c ^^^ a) (d ^^^ b) := by
  simp [reseedKey]

/-- … and of a Double the same on its last four bytes: the first four bytes are ignored. -/
theorem reseedKey_double (x0 x1 x2 x3 a b c d : Nat) :
    reseedKey [x0, x1, x2, x3, a, b, c, d] = reseedKey [a, b, c, d] := by
  simp [reseedKey]

/-- RANDOMIZE: the new state depends only on the argument's 16-bit key and on the low byte of
    the previous seed.  PARTIAL with respect to the statement's "RANDOMIZE with the same argument
    reseeds identically": the hypothesis on the low byte cannot be dropped, because `reseed`
    keeps `seed & 0xff` (GW-BASIC compatible); see `randomize_same_arg_counterexample`. -/
theorem randomize_same_arg_partial (s s' : Nat) (b b' : Bytes) (hkey : reseedKey b = reseedKey b')
    (hlow : s % 256 = s' % 256) : reseed s b = reseed s' b' := by
  unfold reseed reseedN
  have e : ∀ x : Nat, x &&& 255 = x % 256 := fun x => Nat.and_two_pow_sub_one_eq_mod x 8
  rw [hkey, e s, e s', hlow]

/-- The literal reading is false of the code (and of the model): RANDOMIZE 1 in a fresh session and
    RANDOMIZE 1 after one RND call end in different states. -/
theorem randomize_same_arg_counterexample :
    after [Op.randomize [1, 0]] ≠ after [Op.rnd none, Op.randomize [1, 0]] := by decide +kernel

/-- Consequence used in practice: after RUN/CLEAR (or after RND(-x) with a fixed x) RANDOMIZE with
    the same argument always gives the same state, whatever happened before. -/
theorem randomize_after_clear (before before' : List Op) (b : Bytes) :
    after (before ++ [Op.clear, Op.randomize b]) = after (before' ++ [Op.clear, Op.randomize b]) := by
  simp [after, run, List.foldl_append, apply]

theorem randomize_after_negative_rnd (before before' : List Op) (f b : Bytes) (hz : isZero f = false)
    (hn : isNeg f = true) :
    after (before ++ [Op.rnd (some f), Op.randomize b])
      = after (before' ++ [Op.rnd (some f), Op.randomize b]) := by
  simp [after, run, List.foldl_append, apply, rndStep, hz, hn]

/-- Different 16-bit keys give different states (from the same previous state): all 65536 integer
    arguments of RANDOMIZE start different sequences. -/
theorem randomize_key_injective (s : Nat) (n n' : Int) (hn : -32768 ≤ n ∧ n ≤ 32767)
    (hn' : -32768 ≤ n' ∧ n' ≤ 32767) (h : reseedN s n = reseedN s n') : n = n' := by
  unfold reseedN pyMod at h
  have hp : (0 : Int) ≤ (period : Nat) := Int.natCast_nonneg _
  rw [Int.fmod_eq_emod_of_nonneg _ hp, Int.fmod_eq_emod_of_nonneg _ hp] at h
  have hP : ((period : Nat) : Int) = 16777216 := by simp [period]
  have hS : ((step : Nat) : Int) = 4455680 := by simp [step]
  rw [hP, hS] at h
  exact key_lemma _ n n' hn hn' h

/-! ## Non-vacuity and concrete anchors -/

example : after [] = initSeed := rfl
example : after [Op.rnd none] = cycle initSeed := rfl
example : resultBytes 2035917 = [0x68, 0x86, 0x78, 0x7d] := by decide +kernel
example : isZero [0, 0, 0, 0] = true ∧ isZero [0, 0, 0x80, 0x81] = false ∧ isNeg [0, 0, 0x80, 0x81] = true := by
  decide +kernel
example : rndStep 12345 (some [0, 0, 0x80, 0x81]) = cycle 8388608 := by decide +kernel
example : reseedKey [0, 0, 0, 0, 0, 0, 0, 0x81] = -32512 := by decide +kernel
example : ∃ s s', s < period ∧ s' < period ∧ s ≠ s' ∧ s % 256 = s' % 256 := ⟨0, 256, by decide +kernel⟩
example : ∃ s, s < period ∧ mbfValue (resultBytes s) = 1 / 2 := ⟨8388608, by decide +kernel, by
  rw [value_exact _ (by decide +kernel)]; norm_num⟩

/-! ## Tie to the source: the mechanically translated `_cycle`

`PcbV.Gen.Translated.cycle` is regenerated on every run from the *current Python AST* of
`Randomiser._cycle` (gen/py2lean.py; Python ints = `Int`, `%` = `Int.fmod`).  The theorems below say
that it is the hand-written `Rnd.cycle` which all theorems of this file are about, so an edit of
`_cycle` (or a change of the class constants that reaches only one of the two generated files) breaks
a proof obligation.  The translated definition itself is compared with the real method by
`vlib/translated.py`. -/

theorem translated_cycle_supported : Gen.Translated.cycle_supported = true := by decide

/-- on every state (indeed every natural number) the translated `_cycle` is the model's `cycle` -/
theorem translated_cycle_eq (s : Nat) : Gen.Translated.cycle (s : Int) = ((Rnd.cycle s : Nat) : Int) := by
  unfold Gen.Translated.cycle Rnd.cycle
  rw [Int.fmod_eq_emod_of_nonneg _ (by decide)]
  simp only [Int.natCast_emod, Int.natCast_add, Int.natCast_mul]
  rfl

end PcbV.C39
