import PcbV.Basic
import PcbV.Gen.Errors
import PcbV.Gen.DataTokens
/-
  PcbV.DataRead — transcription of the DATA pointer machinery:
    interpreter.py   Interpreter.read_ / restore_ / erl_
    program.py       Program.get_line_number
    codestream.py    CodeStream.skip_blank / read_to / read_string / read_number (_read_dec/_read_hex/_read_oct),
                     TokenisedStream.skip_to / skip_to_token
  The tokenised program is a byte list; a stream position is a `Nat` offset, internally the
  remaining suffix (`code.drop pos`).  `fixed = true` is the code with the two pending C22 fixes
  (REM byte inside a string literal; position of the Syntax error for a bad numeric item);
  `fixed = false` is the code before them (kept only for the `_counterexample` theorems).
  Number *conversion* (values.from_repr) is not modelled: a numeric READ yields the literal
  text that read_number hands to from_repr.
-/
namespace PcbV.DataRead
open PcbV PcbV.Gen.DataTokens

def QUOTE : Nat := 34
def COMMA : Nat := 44

def isBlank (c : Nat) : Bool := blanks.contains c
def isEndStmt (c : Nat) : Bool := endStatement.contains c
def isEndLine (c : Nat) : Bool := endLine.contains c
/-- `tk.PLUS_BYTES.get(c, 0)` -/
def plusBytes (c : Nat) : Nat := (plusBytesTable.lookup c).getD 0

/-- `skip_read(blanks)` + seek back: position of the first non-blank -/
def dropBlanks : Bytes → Bytes
  | [] => []
  | c :: t => if isBlank c then dropBlanks t else c :: t

/-- `TokenisedStream.skip_to(findrange)` (single-byte `findrange` containing NUL, break_on_first_char=True).
    State: inside a string literal, inside a REM, number of payload bytes still to `read()` after a token. -/
def skipTo (fixed : Bool) (fr : Nat → Bool) : Bool → Bool → Nat → Bytes → Bytes
  | _, _, _, [] => []
  | lit, rem, n+1, _ :: t => skipTo fixed fr lit rem n t
  | lit, rem, 0, c :: t =>
    let lit1 := if c == QUOTE then !lit else lit
    let rem1 := if c != QUOTE && c == tRem && !(fixed && lit) then true else rem
    let lit2 := if c == 0 then false else lit1
    let rem2 := if c == 0 then false else rem1
    if lit2 || rem2 then skipTo fixed fr lit2 rem2 0 t
    else if fr c then c :: t
    else skipTo fixed fr lit2 rem2 (plusBytes c) t

/-- `TokenisedStream.skip_to_token(tok)`: the stream position it leaves (at the token if found). -/
def skipToToken (fixed : Bool) (tok : Nat) : Nat → Bytes → Bytes
  | 0, s => s
  | fuel+1, s =>
    match skipTo fixed isEndStmt false false 0 s with
    | [] => []
    | sep :: t =>
      if sep == 0 then
        match t with
        | a :: b :: _ :: _ :: t' =>
          if a == 0 && b == 0 then t'
          else
            match dropBlanks t' with
            | [] => []
            | c :: r => if c == tok then c :: r else skipToToken fixed tok fuel (c :: r)
        | _ => []
      else
        match dropBlanks t with
        | [] => []
        | c :: r => if c == tok then c :: r else skipToToken fixed tok fuel (c :: r)

/-- `read_to(findrange)`: (word, rest) -/
def readTo (stop : Nat → Bool) : Bytes → Bytes × Bytes
  | [] => ([], [])
  | c :: t => if stop c then ([], c :: t) else ((readTo stop t).1 |> (c :: ·), (readTo stop t).2)

/-- `read_string()` on a tokenised stream (end_line = NUL / end of stream) -/
def readString : Bytes → Bytes × Bytes
  | [] => ([], [])
  | c :: t =>
    if c == QUOTE then
      let w := (readTo (fun x => x == QUOTE || isEndLine x) t).1
      match (readTo (fun x => x == QUOTE || isEndLine x) t).2 with
      | [] => (QUOTE :: w, [])
      | d :: r => if d == QUOTE then (QUOTE :: w ++ [QUOTE], r) else (QUOTE :: w, d :: r)
    else ([], c :: t)

def stripR (p : Nat → Bool) (l : Bytes) : Bytes := (l.reverse.dropWhile p).reverse
/-- `bytes.strip(chars)` -/
def stripBoth (p : Nat → Bool) (l : Bytes) : Bytes := stripR p (l.dropWhile p)

/-- `bytes.upper()` on one byte -/
def upper (c : Nat) : Nat := if 97 ≤ c && c ≤ 122 then c - 32 else c

def isDigit (c : Nat) : Bool := digits.contains c

/-- loop of `_read_dec`: have_exp, have_point, word so far, stream → (word, stream after) -/
def readDecLoop : Bool → Bool → Bytes → Bytes → Bytes × Bytes
  | _, _, w, [] => (w, [])
  | he, hp, w, c0 :: t =>
    let c := upper c0
    if c == 46 && !hp && !he then readDecLoop he true (w ++ [c]) t
    else if (c == 69 || c == 68) && !he then
      if c == 69 && (match t with | n :: _ => upper n == 76 || upper n == 81 | [] => false) then (w, c0 :: t)
      else readDecLoop true hp (w ++ [c]) t
    else if (c == 45 || c == 43) && (w.isEmpty || w.getLast? == some 69 || w.getLast? == some 68) then
      readDecLoop he hp (w ++ [c]) t
    else if isDigit c || isBlank c || c == 28 || c == 29 || c == 31 then readDecLoop he hp (w ++ [c]) t
    else if (c == 33 || c == 35) && !he then (w ++ [c], t)
    else if c == 37 then (w, t)
    else (w, c0 :: t)

/-- `_read_dec`: trailing blanks of the word are given back to the stream by a relative seek -/
def readDec (s : Bytes) : Bytes × Bytes :=
  let w := (readDecLoop false false [] s).1
  let r := (readDecLoop false false [] s).2
  let tw := stripR isBlank w
  (stripBoth isBlank tw, s.drop ((s.length - r.length) - (w.length - tw.length)))

def spanP (p : Nat → Bool) : Bytes → Bytes × Bytes
  | [] => ([], [])
  | c :: t => if p c then ((spanP p t).1 |> (c :: ·), (spanP p t).2) else ([], c :: t)

/-- `read_number()`: (literal text, stream after) -/
def readNumber : Bytes → Bytes × Bytes
  | [] => ([], [])
  | c :: t =>
    if c == 38 then
      match t with
      | [] => ([38, 79], [])
      | h :: t' =>
        if upper h == 72 then (38 :: 72 :: (spanP hexDigits.contains t').1, (spanP hexDigits.contains t').2)
        else
          let t2 := if upper h == 79 then t' else t
          (38 :: 79 :: (spanP (fun x => octDigits.contains x || isBlank x) t2).1,
           (spanP (fun x => octDigits.contains x || isBlank x) t2).2)
    else if isDigit c || c == 46 || c == 43 || c == 45 then readDec (c :: t)
    else ([], c :: t)

inductive Val
  | str (b : Bytes)
  | num (word : Bytes)
  deriving DecidableEq, Repr

/-- outcome of reading one entry.  `epos`: stream position the error is attributed to
    (`tell()-1`), `none` = the READ statement itself. -/
inductive Res
  | ok (v : Val) (newPos : Nat)
  | err (code : Nat) (assigned : Option Val) (epos : Option Int)
  deriving DecidableEq, Repr

def posOf (code s : Bytes) : Nat := code.length - s.length

/-- next byte is in END_STATEMENT + (',') (the empty read at end of stream is in END_STATEMENT) -/
def endOrComma : Bytes → Bool
  | [] => true
  | c :: _ => isEndStmt c || c == COMMA

def atEnd : Bytes → Bool
  | [] => true
  | c :: _ => isEndStmt c

/-- `Interpreter.read_`, one variable, after the DATA token / comma has been read: `s2` is the stream
    behind it (`entry_pos` of the fixed code), `pos` the old data pointer -/
def readItem (fixed : Bool) (code : Bytes) (pos : Nat) (s2 : Bytes) (isStr : Bool) : Res :=
  let s3 := dropBlanks s2
  if isStr then
    let word := (readTo (fun x => x == COMMA || x == QUOTE || isEndStmt x) s3).1
    let s4 := (readTo (fun x => x == COMMA || x == QUOTE || isEndStmt x) s3).2
    match s4 with
    | [] => .ok (.str (stripBoth isBlank word)) (posOf code s4)
    | q :: _ =>
      if q == QUOTE then
        let lit := (readString s4).1
        let s6 := dropBlanks (readString s4).2
        let w := if word.isEmpty then stripBoth (· == QUOTE) lit else word ++ lit
        if endOrComma s6 then .ok (.str w) (posOf code s6)
        else .err Gen.E.stx none (some ((posOf code s6 : Int) - 1))
      else .ok (.str (stripBoth isBlank word)) (posOf code s4)
  else
    let word := (readNumber s3).1
    let s5 := dropBlanks (readNumber s3).2
    if endOrComma s5 then .ok (.num word) (posOf code s5)
    else .err Gen.E.stx (some (.num word))
           (some (if fixed then (posOf code s2 : Int) - 1 else (pos : Int) - 1))

/-- body of the loop of `Interpreter.read_` for one variable, on the suffix `s0 = code.drop data_pos` -/
def readEntryS (fixed : Bool) (code : Bytes) (pos : Nat) (s0 : Bytes) (isStr : Bool) : Res :=
  let s1 := if atEnd s0 then skipToToken fixed tData (s0.length + 1) s0 else s0
  match s1 with
  | [] => .err Gen.E.out_of_data none none
  | c :: s2 =>
    if c == tData || c == COMMA then readItem fixed code pos s2 isStr
    else .err Gen.E.out_of_data none none

def readEntry (fixed : Bool) (code : Bytes) (pos : Nat) (isStr : Bool) : Res :=
  readEntryS fixed code pos (code.drop pos) isStr

/-- result of one READ statement: values assigned (in order), the error that ended it (if any),
    the data pointer afterwards -/
structure ReadOut where
  vals : List Val
  err : Option (Nat × Option Int)
  pos : Nat
  deriving DecidableEq, Repr

/-- `Interpreter.read_` over the variable list (`true` = string variable) -/
def readVars (fixed : Bool) (code : Bytes) : Nat → List Bool → ReadOut
  | pos, [] => ⟨[], none, pos⟩
  | pos, t :: ts =>
    match readEntry fixed code pos t with
    | .ok v p => let r := readVars fixed code p ts; ⟨v :: r.vals, r.err, r.pos⟩
    | .err e a ep => ⟨a.toList, some (e, ep), pos⟩

/-- `Interpreter.read_` when the store may refuse an assignment: each variable carries `some e` if
    `Memory.set_variable` raises BASIC error `e` for the value read (Overflow for a number outside -32768..32767
    read into a `%` variable; the conversion is an external call, its failure a parameter).  The statement then
    ends with error `e` at the READ statement itself (`none` = here), the variables before it keep the values
    already assigned, and the refused item is NOT consumed: `read_` stores the new data pointer only after
    `set_variable` has returned. -/
def readVarsR (fixed : Bool) (code : Bytes) : Nat → List (Bool × Option Nat) → ReadOut
  | pos, [] => ⟨[], none, pos⟩
  | pos, (t, rf) :: ts =>
    match readEntry fixed code pos t with
    | .ok v p =>
      match rf with
      | some e => ⟨[], some (e, none), pos⟩
      | none => let r := readVarsR fixed code p ts; ⟨v :: r.vals, r.err, r.pos⟩
    | .err e a ep => ⟨a.toList, some (e, ep), pos⟩

/-! ### READ targets: scalars and array elements

  `Parser._parse_var_list` is a lazy generator and `Interpreter.read_` loops `for name, indices in args`:
  the subscripts of a target are evaluated when the loop reaches it, i.e. after the items of all
  earlier targets of the same statement have been assigned.  Subscript expressions are modelled by the
  form  <scalar variable> + <constant>;  `conv` is the number conversion (a parameter, as elsewhere). -/

structure Store where
  scal : Nat → Val
  arr : Nat → Nat → Val

inductive Target
  | scalar (v : Nat)
  | elem (a : Nat) (iv : Nat) (off : Nat)     -- A(iv + off)
  deriving DecidableEq, Repr

def subscript (conv : Bytes → Nat) (st : Store) (iv off : Nat) : Nat :=
  (match st.scal iv with
   | .num w => conv w
   | .str _ => 0) + off

/-- the memory cell a target denotes once its subscript has been evaluated -/
inductive Slot
  | s (v : Nat)
  | e (a k : Nat)
  deriving DecidableEq, Repr

def slotOf (conv : Bytes → Nat) (st : Store) : Target → Slot
  | .scalar v => .s v
  | .elem a iv off => .e a (subscript conv st iv off)

def put (st : Store) : Slot → Val → Store
  | .s v, x => { st with scal := fun i => if i = v then x else st.scal i }
  | .e a k, x => { st with arr := fun b j => if b = a ∧ j = k then x else st.arr b j }

/-- `set_variable(name, indices, value)` with the indices evaluated in the store as it is now -/
def assign (conv : Bytes → Nat) (st : Store) (tg : Target) (x : Val) : Store :=
  put st (slotOf conv st tg) x

/-- `Interpreter.read_` over (kind, target) pairs, threading the variable store -/
def readAssign (fixed : Bool) (code : Bytes) (conv : Bytes → Nat) :
    Nat → Store → List (Bool × Target) → Store × Option (Nat × Option Int) × Nat
  | pos, st, [] => (st, none, pos)
  | pos, st, (t, tg) :: rest =>
    match readEntry fixed code pos t with
    | .ok v p => readAssign fixed code conv p (assign conv st tg v) rest
    | .err e a ep =>
      ((match a with
        | some v => assign conv st tg v
        | none => st), some (e, ep), pos)

/-- the same loop over targets whose subscripts were all evaluated beforehand -/
def readAssignSlots (fixed : Bool) (code : Bytes) :
    Nat → Store → List (Bool × Slot) → Store × Option (Nat × Option Int) × Nat
  | pos, st, [] => (st, none, pos)
  | pos, st, (t, sl) :: rest =>
    match readEntry fixed code pos t with
    | .ok v p => readAssignSlots fixed code p (put st sl v) rest
    | .err e a ep =>
      ((match a with
        | some v => put st sl v
        | none => st), some (e, ep), pos)

/-- NOT the code: a variable list parsed completely before the loop starts (every subscript evaluated in
    the store the statement started with).  Kept for the `_counterexample` theorem only. -/
def readAssignEager (fixed : Bool) (code : Bytes) (conv : Bytes → Nat) (pos : Nat) (st : Store)
    (tgs : List (Bool × Target)) : Store × Option (Nat × Option Int) × Nat :=
  readAssignSlots fixed code pos st (tgs.map (fun x => (x.1, slotOf conv st x.2)))

/-- `Interpreter.restore_`: `tbl` is `program.line_numbers` (line number ↦ offset of the line's NUL) -/
def restore (tbl : List (Nat × Nat)) : Option Nat → R Nat
  | none => .ok 0
  | some n => match tbl.lookup n with
    | some off => .ok off
    | none => .error Gen.E.undefined_line_number

/-- `Program.get_line_number(pos)` -/
def lineOf (tbl : List (Nat × Nat)) (pos : Int) : Int :=
  tbl.foldl (fun pre e => if (e.2 : Int) ≤ pos ∧ (e.1 : Int) > pre then (e.1 : Int) else pre) (-1)

/-- `Interpreter.erl_` on `error_pos` -/
def erl (tbl : List (Nat × Nat)) (epos : Int) : Int :=
  if epos == 0 then 0 else if epos == -1 then 65535 else lineOf tbl epos

end PcbV.DataRead
