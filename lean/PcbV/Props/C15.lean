import PcbV.Model.SaveLoad
import PcbV.Gen.Translated
import PcbV.Lemmas.PyIntLemmas
/-
  C15 — Saved programs load back identically in every file format.

  Subject: `PcbV.Protect` (protect.py) and `PcbV.SaveLoad` (Program.save/load/rebuild_line_dict,
  BinaryFile framing).  Theorems:

  * the protection cipher is a bijection on bytes at every stream position, for ANY key tables
    (algebraic proof: subtract / xor / add are each invertible mod 256), lifted to byte strings of
    every length together with the stream framing of `unprotect` (last byte dropped);
  * SAVE (tokenised or protected) followed by LOAD restores program memory byte for byte, for every
    well-formed program image, whatever lies behind the program in the buffer;
  * the one way in which the real code falls short of the statement (the 0x1A end-of-file marker of a
    tokenised file stays in the buffer behind the program, and becomes part of program memory after
    the next edit) is stated as `…_counterexample` theorems; it is pinned by an upstream test
    (tests/unit/test_main.py::test_tokenised_to_protected "note that the EOF gets encrypted too")
    and therefore recorded as a known finding rather than repaired.

  * two defects of the unrepaired code are kept as `…_counterexample` theorems on models of the old
    code: the REM-token byte inside a string literal (LOAD corrupted such programs) and the empty
    protected stream (host exception).

  The ASCII format has no theorem: its round trip is conditional on re-tokenisation (property C17)
  and is checked by the oracle through real sessions only (LOAD / MERGE of the saved listing against
  typing the listing, whenever the listing re-enters as the same program).
-/
namespace PcbV.C15
open PcbV PcbV.Protect PcbV.SaveLoad

/-! ### the cipher -/

theorem xor_key_cancel (x a b : Nat) :
    ((((x ^^^ a) ^^^ b) % 256 ^^^ a) ^^^ b) % 256 = x % 256 := by
  have h : (256 : Nat) = 2 ^ 8 := rfl
  rw [h, Nat.xor_mod_two_pow, Nat.xor_mod_two_pow, Nat.mod_mod, ← Nat.xor_mod_two_pow,
    ← Nat.xor_mod_two_pow]
  congr 1
  rw [Nat.xor_assoc x a b, Nat.xor_assoc, Nat.xor_assoc, Nat.xor_self, Nat.xor_zero]

theorem shift_back (y d : Nat) (hd : d ≤ 256) : ((y + d) % 256 + 256 - d) % 256 = y % 256 := by
  omega
theorem shift_forth (b d x : Nat) (hb : b < 256) (hd : d ≤ 256)
    (hx : x % 256 = (b + 256 - d) % 256) : (x + d) % 256 = b := by
  omega

/-- decoding a coded byte gives it back, at every stream index, for any key tables -/
theorem unprot_prot_byte (k : Keys) (i b : Nat) (hb : b < 256) :
    unprotByte k i (protByte k i b) = b := by
  unfold unprotByte protByte
  simp only []
  rw [shift_back _ _ (by omega)]
  apply shift_forth _ _ _ hb (by omega)
  rw [xor_key_cancel, Nat.mod_mod]

/-- coding a decoded byte gives it back, at every stream index, for any key tables -/
theorem prot_unprot_byte (k : Keys) (i b : Nat) (hb : b < 256) :
    protByte k i (unprotByte k i b) = b := by
  unfold unprotByte protByte
  simp only []
  rw [shift_back _ _ (by omega)]
  apply shift_forth _ _ _ hb (by omega)
  rw [xor_key_cancel, Nat.mod_mod]

theorem protByte_lt (k : Keys) (i b : Nat) : protByte k i b < 256 := by
  unfold protByte; exact Nat.mod_lt _ (by decide)
theorem unprotByte_lt (k : Keys) (i b : Nat) : unprotByte k i b < 256 := by
  unfold unprotByte; exact Nat.mod_lt _ (by decide)

/-- **cipher_bijection**: for every position and every key tables, `protByte k i` and
    `unprotByte k i` are mutually inverse permutations of the bytes 0..255. -/
theorem cipher_bijection (k : Keys) (i : Nat) :
    (∀ b, b < 256 → protByte k i b < 256 ∧ unprotByte k i (protByte k i b) = b) ∧
    (∀ c, c < 256 → unprotByte k i c < 256 ∧ protByte k i (unprotByte k i c) = c) ∧
    (∀ b b', b < 256 → b' < 256 → protByte k i b = protByte k i b' → b = b') ∧
    (∀ c, c < 256 → ∃ b, b < 256 ∧ protByte k i b = c) := by
  refine ⟨fun b hb => ⟨protByte_lt k i b, unprot_prot_byte k i b hb⟩,
    fun c hc => ⟨unprotByte_lt k i c, prot_unprot_byte k i c hc⟩, ?_, ?_⟩
  · intro b b' hb hb' h
    rw [← unprot_prot_byte k i b hb, h, unprot_prot_byte k i b' hb']
  · intro c hc
    exact ⟨unprotByte k i c, unprotByte_lt k i c, prot_unprot_byte k i c hc⟩

/-- the byte maps depend on the index only through `i mod 143` (= 13·11), the period that
    `index = (index+1) % (13*11)` implements -/
theorem cipher_period (k : Keys) (i b : Nat) :
    protByte k (i % 143) b = protByte k i b ∧ unprotByte k (i % 143) b = unprotByte k i b := by
  have h13 : i % 143 % 13 = i % 13 := Nat.mod_mod_of_dvd i (by decide : 13 ∣ 143)
  have h11 : i % 143 % 11 = i % 11 := Nat.mod_mod_of_dvd i (by decide : 11 ∣ 143)
  unfold protByte unprotByte
  simp only [h13, h11, and_self]

/-- Before the fix `C15-protect-empty-stream` the empty byte string could not be coded and a
    protected file without payload (`FE` or `FE 1A`) could not be decoded (UnboundLocalError); the
    repaired functions return the empty string, which is what the round trip needs. -/
theorem empty_stream_counterexample (k : Keys) :
    protectOld k [] = none ∧ unprotectOld k [] = none ∧ unprotectOld k [0x1A] = none ∧
    protect k [] = [] ∧ unprotect k [] = [] ∧ unprotect k (protect k [] ++ [0x1A]) = [] := by
  refine ⟨rfl, rfl, rfl, rfl, rfl, rfl⟩

/-! ### the cipher on streams -/

theorem protStream_length (k : Keys) (s : Bytes) : ∀ i, (protStream k i s).length = s.length := by
  induction s with
  | nil => intro i; rfl
  | cons b bs ih => intro i; simp [protStream, ih]

theorem protStream_ok (k : Keys) (s : Bytes) : ∀ i, Bytes.ok (protStream k i s) := by
  induction s with
  | nil => intro i x hx; simp [protStream] at hx
  | cons b bs ih =>
    intro i x hx
    simp only [protStream, List.mem_cons] at hx
    rcases hx with rfl | hx
    · exact protByte_lt k i b
    · exact ih _ x hx

/-- **stream round trip (decode ∘ encode)**: for every byte string `s` of any length, every start
    index and every trailing byte `e` (SAVE writes 0x1A), `unprotect` applied to the coded stream
    followed by `e` returns exactly `s`. -/
theorem unprot_prot_stream (k : Keys) (s : Bytes) (hs : Bytes.ok s) (e : Nat) :
    ∀ i, unprotStream k i (protStream k i s ++ [e]) = s := by
  induction s with
  | nil => intro i; rfl
  | cons b bs ih =>
    intro i
    have hb : b < 256 := hs b (by simp)
    have hbs : Bytes.ok bs := fun x hx => hs x (by simp [hx])
    cases bs with
    | nil => simp [protStream, unprotStream, unprot_prot_byte k i b hb]
    | cons b2 bs2 =>
      have := ih hbs (nextIndex i)
      simp only [protStream, List.cons_append, unprotStream, unprot_prot_byte k i b hb] at this ⊢
      rw [this]

/-- **stream round trip (encode ∘ decode)**: coding what `unprotect` decoded from `t ++ [e]`
    returns `t`. -/
theorem prot_unprot_stream (k : Keys) (t : Bytes) (ht : Bytes.ok t) (e : Nat) :
    ∀ i, protStream k i (unprotStream k i (t ++ [e])) = t := by
  induction t with
  | nil => intro i; rfl
  | cons b bs ih =>
    intro i
    have hb : b < 256 := ht b (by simp)
    have hbs : Bytes.ok bs := fun x hx => ht x (by simp [hx])
    cases bs with
    | nil => simp [protStream, unprotStream, prot_unprot_byte k i b hb]
    | cons b2 bs2 =>
      have := ih hbs (nextIndex i)
      simp only [List.cons_append, unprotStream, protStream, prot_unprot_byte k i b hb] at this ⊢
      rw [this]

/-- `unprotect (protect s ++ [0x1A]) = s` for every byte string (the form used by SAVE,P / LOAD) -/
theorem cipher_stream_roundtrip (k : Keys) (s : Bytes) (hs : Bytes.ok s) :
    unprotect k (protect k s ++ [eofByte]) = s :=
  unprot_prot_stream k s hs eofByte 0

/-- the byte at stream position `j` is coded with index `j mod 143` -/
theorem protStream_index (k : Keys) (s : Bytes) :
    ∀ i j, i < 143 → (protStream k i s)[j]? = (s[j]?).map (protByte k ((i + j) % 143)) := by
  induction s with
  | nil => intro i j _; simp [protStream]
  | cons b bs ih =>
    intro i j hi
    cases j with
    | zero => simp [protStream, Nat.mod_eq_of_lt hi]
    | succ j =>
      have hn : nextIndex i < 143 := Nat.mod_lt _ (by decide)
      simp only [protStream, List.getElem?_cons_succ]
      rw [ih (nextIndex i) j hn]
      congr 2
      unfold nextIndex; omega

/-! ### well-formed program images (the invariant of C13 at byte level) -/

/-- A line body: no NUL except inside the payload of a token (`tokens.PLUS_BYTES`), and no token
    whose payload is cut off by the end of the line.  `lit`/`rem`/`k` as in `skipTo`. -/
def bodyOk : Bool → Bool → Nat → Bytes → Bool
  | _, _, k, [] => k == 0
  | lit, rem, k + 1, _ :: bs => bodyOk lit rem k bs
  | lit, rem, 0, c :: bs =>
    c != 0 && bodyOk (litNext lit c) (remNext lit rem c) (skipNext lit rem c) bs

/-- `WF cs pos img`: `img` (located at buffer position `pos`) is a sequence of program lines
    `00 <offset> <line number> <body>` whose offset fields hold `code_start + 1 + <position of the next
    line>`, closed by `00 00 00`. -/
inductive WF (cs : Nat) : Nat → Bytes → Prop
  | term (pos : Nat) : WF cs pos [0, 0, 0]
  | line (pos o1 o2 l1 l2 : Nat) (body rest : Bytes) :
      bodyOk false false 0 body = true →
      cs + 1 + (pos + 5 + body.length) < 65536 →
      o1 = (cs + 1 + (pos + 5 + body.length)) % 256 →
      o2 = (cs + 1 + (pos + 5 + body.length)) / 256 →
      WF cs (pos + 5 + body.length) rest →
      WF cs pos (0 :: o1 :: o2 :: l1 :: l2 :: (body ++ rest))

theorem WF.head_nul {cs pos : Nat} {img : Bytes} (h : WF cs pos img) : ∃ t, img = 0 :: t := by
  cases h <;> exact ⟨_, rfl⟩

theorem skipTo_body (body t : Bytes) :
    ∀ lit rem k, bodyOk lit rem k body = true → skipTo lit rem k (body ++ 0 :: t) = body.length := by
  induction body with
  | nil =>
    intro lit rem k h
    cases k with
    | zero => simp [skipTo]
    | succ k => simp [bodyOk] at h
  | cons c bs ih =>
    intro lit rem k h
    cases k with
    | zero =>
      simp only [bodyOk, Bool.and_eq_true, bne_iff_ne, ne_eq] at h
      simp only [List.cons_append, skipTo, h.1, if_false, List.length_cons]
      rw [ih _ _ _ h.2]; omega
    | succ k =>
      simp only [bodyOk] at h
      simp only [List.cons_append, skipTo, List.length_cons]
      rw [ih _ _ _ h]; omega

theorem sealAt_terminator (pos : Nat) (g : Bytes) : sealAt pos (0 :: 0 :: 0 :: g) = (0 :: 0 :: 0 :: g, pos + 3) := by
  simp [sealAt]

/-- **rebuild_line_dict leaves a well-formed image unchanged** – offsets are rewritten to the values
    they already have, the terminator is resealed in place, and `code_size` ends at the terminator;
    whatever follows the program in the buffer (`g`) is kept and ignored. -/
theorem rebuildAux_wf (cs : Nat) (g : Bytes) {pos : Nat} {img : Bytes} (h : WF cs pos img) :
    ∀ fuel, img.length ≤ fuel → rebuildAux cs fuel pos (img ++ g) = (img ++ g, pos + img.length) := by
  induction h with
  | term pos =>
    intro fuel _
    cases fuel with
    | zero => simp [rebuildAux, sealAt]
    | succ f =>
      rcases g with _ | ⟨a, _ | ⟨b, g⟩⟩ <;> simp [rebuildAux, sealAt]
  | line pos o1 o2 l1 l2 body rest hb hlt ho1 ho2 hr ih =>
    intro fuel hf
    obtain ⟨t, rfl⟩ := hr.head_nul
    cases fuel with
    | zero => simp at hf
    | succ f =>
      have hne : ¬ (o1 = 0 ∧ o2 = 0) := by omega
      have hskip : skipTo false false 0 (body ++ 0 :: t ++ g) = body.length := by
        rw [List.append_assoc, List.cons_append]; exact skipTo_body body (t ++ g) _ _ _ hb
      have hf' : (0 :: t).length ≤ f := by
        simp only [List.length_cons, List.length_append] at hf ⊢; omega
      have ih' := ih f hf'
      simp only [List.cons_append, List.append_assoc] at ih' hskip ⊢
      simp only [rebuildAux, hne, if_false]
      simp only [hskip, List.take_left', List.drop_left', ih']
      subst ho1 ho2
      have hdiv : (cs + 1 + (pos + 5 + List.length body)) / 256 % 256
          = (cs + 1 + (pos + 5 + List.length body)) / 256 := by omega
      rw [hdiv]
      simp only [List.length_cons, List.length_append]
      congr 1
      omega

theorem rebuild_wf (cs : Nat) (img g : Bytes) (h : WF cs 0 img) :
    rebuild cs (img ++ g) = (img ++ g, img.length) := by
  have := rebuildAux_wf cs g h ((img ++ g).length + 1) (by simp only [List.length_append]; omega)
  simpa [rebuild] using this

theorem WF.two_le_tail {cs pos : Nat} {t : Bytes} (h : WF cs pos (0 :: t)) : 2 ≤ t.length := by
  cases h <;> simp

/-- `bytecode.seek(1); bytecode.write(payload)` on the erased buffer `00 00 00` -/
theorem writeAt_erased (p : Bytes) (hp : 2 ≤ p.length) : writeAt erased 1 p = 0 :: p := by
  have : [0, 0, 0].drop (1 + p.length) = ([] : Bytes) := by
    apply List.drop_eq_nil_of_le; simp; omega
  simp [writeAt, erased, this]

/-! ### SAVE followed by LOAD -/

/-- **tokenised_roundtrip**: for every well-formed program image `img`, whatever follows it in the
    buffer (`g`) and whatever the key tables, SAVE"…" writes `FF`, the buffer from position 1 on, `1A`;
    LOAD of that file rebuilds a buffer that starts with the same `img ++ g`, has
    `size() = img.length`, and is unprotected.  The end-of-file byte stays behind the program. -/
theorem tokenised_roundtrip (k : Keys) (cs : Nat) (ap : Bool) (img g : Bytes) (size : Nat)
    (h : WF cs 0 img) :
    ∃ file, saveFile k ⟨img ++ g, size, false⟩ Fmt.B = .ok file ∧
      file.head? = some Gen.Protect.magicB ∧ file.getLast? = some eofByte ∧
      loadFile k cs ap file = .ok ⟨img ++ g ++ [eofByte], img.length, false⟩ := by
  obtain ⟨t, rfl⟩ := h.head_nul
  have h2 := h.two_le_tail
  refine ⟨Gen.Protect.magicB :: (t ++ g ++ [eofByte]), by simp [saveFile], by simp,
    by simp [List.getLast?_cons], ?_⟩
  have hw : writeAt erased 1 (t ++ g ++ [eofByte]) = 0 :: t ++ (g ++ [eofByte]) := by
    rw [writeAt_erased _ (by simp only [List.length_append]; omega)]; simp
  have hr := rebuild_wf cs (0 :: t) (g ++ [eofByte]) h
  simp only [List.cons_append] at hr
  simp only [loadFile, List.cons_append, if_true, hw, hr]
  simp

/-- **protected_roundtrip**: SAVE"…",P writes `FE`, the coded buffer from position 1 on, `1A`;
    LOAD restores exactly the buffer `img ++ g` with `size() = img.length`; the program is marked
    protected iff the session allows protection. -/
theorem protected_roundtrip (k : Keys) (cs : Nat) (ap prot : Bool) (img g : Bytes) (size : Nat)
    (h : WF cs 0 img) (hok : Bytes.ok (img ++ g)) :
    ∃ file, saveFile k ⟨img ++ g, size, prot⟩ Fmt.P = .ok file ∧
      file.head? = some Gen.Protect.magicP ∧ file.getLast? = some eofByte ∧
      loadFile k cs ap file = .ok ⟨img ++ g, img.length, ap⟩ := by
  obtain ⟨t, rfl⟩ := h.head_nul
  have h2 := h.two_le_tail
  have hok' : Bytes.ok (t ++ g) := fun x hx =>
    hok x (by simp only [List.cons_append, List.mem_cons]; exact Or.inr hx)
  refine ⟨Gen.Protect.magicP :: (protect k (t ++ g) ++ [eofByte]), by simp [saveFile], by simp,
    by simp [List.getLast?_cons], ?_⟩
  have hne : Gen.Protect.magicP ≠ Gen.Protect.magicB := by decide
  simp only [loadFile, List.cons_append, hne, if_false, if_true]
  rw [cipher_stream_roundtrip k _ hok', writeAt_erased _ (by simp only [List.length_append]; omega)]
  have := rebuild_wf cs (0 :: t) g h
  simp only [List.cons_append] at this
  rw [this]

/-- **program memory is restored byte for byte** (both formats): if program memory – the first
    `size()` bytes – is a well-formed image, then after SAVE and LOAD `size()` and program memory are
    the same, whatever lies behind the program in the buffer.
    `_partial`: the hypothesis `WF cs 0 st.memory` (the stored-program invariant of C13) holds for
    every program built by entering, deleting, renumbering and merging lines and after every LOAD,
    but NOT in the states reached by editing after a tokenised LOAD, where program memory is a
    well-formed image followed by the kept 1A byte(s); for those the statement is false of the code
    (`tokenised_after_edit_counterexample`, known finding EOF-KEPT). -/
theorem memory_roundtrip_partial (k : Keys) (cs : Nat) (ap : Bool) (fmt : Fmt) (st : Image)
    (hwf : WF cs 0 st.memory) (hsz : st.size ≤ st.buf.length) (hok : Bytes.ok st.buf)
    (hp : st.prot = true → fmt = Fmt.P) :
    ∃ file st', saveFile k st fmt = .ok file ∧ loadFile k cs ap file = .ok st' ∧
      st'.memory = st.memory ∧ st'.size = st.size := by
  obtain ⟨buf, size, prot⟩ := st
  simp only [Image.memory] at hwf hsz hok hp ⊢
  have hsplit : buf = buf.take size ++ buf.drop size := (List.take_append_drop size buf).symm
  have hlen : (buf.take size).length = size := by simp [List.length_take]; omega
  cases fmt with
  | B =>
    have hprot : prot = false := by
      cases prot with
      | false => rfl
      | true => exact absurd (hp rfl) (by decide)
    subst hprot
    obtain ⟨file, h1, _, _, h4⟩ := tokenised_roundtrip k cs ap _ (buf.drop size) size hwf
    rw [← hsplit] at h1
    refine ⟨file, _, h1, h4, ?_, hlen⟩
    simp only [List.append_assoc, hlen, List.take_left']
  | P =>
    obtain ⟨file, h1, _, _, h4⟩ := protected_roundtrip k cs ap prot _ (buf.drop size) size hwf
      (by rw [← hsplit]; exact hok)
    rw [← hsplit] at h1
    refine ⟨file, _, h1, h4, ?_, hlen⟩
    simp only [hlen, List.take_left']

/-- a protected program can only be saved protected (`Illegal function call` otherwise) -/
theorem protected_save_only_P (k : Keys) (st : Image) (hp : st.prot = true) :
    saveFile k st Fmt.B = .error Gen.E.ifc := by
  simp [saveFile, hp]

/-- LOAD dispatches on the first byte of the file -/
theorem load_dispatch (k : Keys) (cs : Nat) (ap : Bool) (m : Nat) (payload : Bytes) :
    (m = Gen.Protect.magicM → loadFile k cs ap (m :: payload) = .error Gen.E.bad_file_mode) ∧
    (m ≠ Gen.Protect.magicB → m ≠ Gen.Protect.magicP → m ≠ Gen.Protect.magicM →
      loadFile k cs ap (m :: payload) = .error 0) := by
  constructor
  · intro h; subst h
    have e1 : Gen.Protect.magicM ≠ Gen.Protect.magicB := by decide
    have e2 : Gen.Protect.magicM ≠ Gen.Protect.magicP := by decide
    simp [loadFile, e1, e2]
  · intro h1 h2 h3; simp [loadFile, h1, h2, h3]

/-! ### the known deviation: the end-of-file byte of a tokenised file stays in the buffer -/

/-- After LOAD of a tokenised file the buffer is one byte (0x1A) longer than the buffer that was
    saved: the *buffer* is not restored (only the first `size()` bytes are), and saving again writes
    a longer file. -/
theorem tokenised_eof_kept_counterexample (k : Keys) (cs : Nat) (ap : Bool) (img : Bytes)
    (h : WF cs 0 img) :
    ∃ file st', saveFile k ⟨img, img.length, false⟩ Fmt.B = .ok file ∧
      loadFile k cs ap file = .ok st' ∧ st'.buf ≠ img ∧
      saveFile k st' Fmt.B ≠ .ok file := by
  obtain ⟨file, h1, _, _, h4⟩ := tokenised_roundtrip k cs ap img [] img.length h
  simp only [List.append_nil] at h1 h4
  refine ⟨file, _, h1, h4, ?_, ?_⟩
  · intro he
    have := congrArg List.length he
    simp at this
  · intro he
    simp only [saveFile, Bool.false_eq_true, false_and, if_false, Except.ok.injEq] at h1 he
    rw [← h1] at he
    have := congrArg List.length he
    have h3 : 3 ≤ img.length := by
      obtain ⟨t, rfl⟩ := h.head_nul
      have := h.two_le_tail
      simp only [List.length_cons]; omega
    simp at this
    omega

/-- Once the buffer is edited after such a LOAD, `Program.truncate` sets `size()` to the end of the
    buffer, so the kept 0x1A is inside program memory (state `⟨img ++ [1A], img.length + 1⟩`).
    From that state SAVE / LOAD does NOT restore program memory: it comes back one byte shorter.
    (Known finding C15 `eof-kept`; the behaviour is pinned by an upstream test.) -/
theorem tokenised_after_edit_counterexample (k : Keys) (cs : Nat) (ap : Bool) (img : Bytes)
    (h : WF cs 0 img) :
    ∃ file st', saveFile k ⟨img ++ [eofByte], img.length + 1, false⟩ Fmt.B = .ok file ∧
      loadFile k cs ap file = .ok st' ∧
      st'.memory ≠ (Image.mk (img ++ [eofByte]) (img.length + 1) false).memory := by
  obtain ⟨file, h1, _, _, h4⟩ := tokenised_roundtrip k cs ap img [eofByte] (img.length + 1) h
  refine ⟨file, _, h1, h4, ?_⟩
  intro he
  have := congrArg List.length he
  simp [Image.memory] at this

/-! ### the repaired defect: byte 0x8F (the REM token) inside a string literal -/

/-- `10 PRINT "Å";256:PRINT "second"` / `20 PRINT "x"` (Å = CHR$(143) in codepage 437) as stored with
    `code_start = 4717`: the integer constant 256 is `1C 00 01`. -/
def remInLiteralProgram : Bytes :=
  [0, 0x87, 0x12, 0x0a, 0x00, 0x91, 0x20, 0x22, 0x8f, 0x22, 0x3b, 0x1c, 0x00, 0x01, 0x3a, 0x91, 0x20, 0x22,
   0x73, 0x65, 0x63, 0x6f, 0x6e, 0x64, 0x22,
   0, 0x91, 0x12, 0x14, 0x00, 0x91, 0x20, 0x22, 0x78, 0x22,
   0, 0, 0]

theorem remInLiteralProgram_wf : WF 4717 0 remInLiteralProgram :=
  WF.line 0 _ _ 0x0a 0x00 [0x91, 0x20, 0x22, 0x8f, 0x22, 0x3b, 0x1c, 0x00, 0x01, 0x3a, 0x91, 0x20, 0x22,
      0x73, 0x65, 0x63, 0x6f, 0x6e, 0x64, 0x22] _ (by decide) (by decide) (by decide) (by decide)
    (WF.line 25 _ _ 0x14 0x00 [0x91, 0x20, 0x22, 0x78, 0x22] _ (by decide) (by decide) (by decide)
      (by decide) (WF.term 35))

/-- Before /repo commit 2fa7934d, `rebuild_line_dict` (run by every tokenised or protected LOAD) did NOT leave this
    stored program unchanged: it split line 10 at the NUL inside the constant 256 and overwrote the
    following two bytes with an offset – LOAD corrupted the program.  With the fix it is the identity
    (`rebuild_wf`). -/
theorem rem_in_literal_counterexample :
    rebuildOld 4717 remInLiteralProgram ≠ (remInLiteralProgram, remInLiteralProgram.length) ∧
    rebuild 4717 remInLiteralProgram = (remInLiteralProgram, remInLiteralProgram.length) := by
  refine ⟨by decide, ?_⟩
  simpa using rebuild_wf 4717 remInLiteralProgram [] remInLiteralProgram_wf

/-! ### non-vacuity -/

/-- `10 PRINT "HI"` / `20 GOTO 10` as stored by a session with `code_start = 4717` -/
def sampleProgram : Bytes :=
  [0, 0x79, 0x12, 0x0a, 0x00, 0x91, 0x20, 0x22, 0x48, 0x49, 0x22,
   0, 0x83, 0x12, 0x14, 0x00, 0x89, 0x20, 0x0e, 0x0a, 0x00,
   0, 0, 0]

example : WF 4717 0 sampleProgram :=
  WF.line 0 _ _ 0x0a 0x00 [0x91, 0x20, 0x22, 0x48, 0x49, 0x22] _ (by decide) (by decide) (by decide)
    (by decide)
    (WF.line 11 _ _ 0x14 0x00 [0x89, 0x20, 0x0e, 0x0a, 0x00] _ (by decide) (by decide) (by decide)
      (by decide) (WF.term 21))

example : WF 4717 0 [0, 0, 0] := WF.term 0
example : Bytes.ok sampleProgram := by intro x hx; simp [sampleProgram] at hx; omega
-- a NUL inside the payload of a line-number token does not end the line; a NUL outside does
example : bodyOk false false 0 [0x89, 0x20, 0x0e, 0x00, 0x00] = true := by decide
example : bodyOk false false 0 [0x89, 0x00, 0x20] = false := by decide
example : loadFile tableKeys 4717 false
    (match saveFile tableKeys ⟨sampleProgram, 24, false⟩ Fmt.P with | .ok f => f | .error _ => [])
    = .ok ⟨sampleProgram, 24, false⟩ := by decide

/-! ### storing a line under memory pressure (MERGE / CHAIN MERGE / ASCII LOAD / retyping a line) -/

/-- `store_line` raises Out of memory exactly when the program AS IT WOULD BE AFTER THE STORE
    (`pos` bytes before the line, the new line, `restLen` bytes behind it) does not fit; the line being
    replaced plays no part. -/
theorem store_oom_iff_final_not_fit (cs stackStart pos length restLen : Nat) :
    storeOom cs stackStart pos length restLen = true ↔
      ¬ programFits cs stackStart (pos + length + restLen) := by
  unfold storeOom programFits
  simp only [decide_eq_true_eq]
  omega

/-- Replacing a line by one that is not longer never raises Out of memory when the program in memory
    fits – in particular MERGE of a program's own listing (every line replaces itself) always succeeds,
    however little memory is free. `oldLen` = length of the line being replaced. -/
theorem store_replace_never_oom (cs stackStart pos oldLen length restLen : Nat)
    (hfit : programFits cs stackStart (pos + oldLen + restLen)) (hle : length ≤ oldLen) :
    storeOom cs stackStart pos length restLen = false := by
  unfold storeOom programFits at *
  simp only [decide_eq_false_iff_not]
  omega

/-- growing the program by `g` bytes is refused exactly when fewer than `g` bytes are left below the limit -/
theorem store_grow_oom_iff (cs stackStart pos oldLen restLen g : Nat) :
    storeOom cs stackStart pos (oldLen + g) restLen = true ↔
      (stackStart : Int) + 3 - (cs + 1 + (pos + oldLen + restLen)) < g := by
  unfold storeOom
  simp only [decide_eq_true_eq]
  omega

-- non-vacuity: a program that fits with 2 bytes to spare; same-size replacement is fine, 3 more bytes are not
example : programFits 4717 5000 284 := by unfold programFits; decide
example : storeOom 4717 5000 100 50 134 = false ∧ storeOom 4717 5000 100 53 134 = true := by decide

/-! ### tie to the source: the mechanically translated loop bodies of protect.py

`PcbV.Gen.Translated.protStep / unprotStep / protNextIndex / unprotNextIndex` are regenerated on every
run from the *current Python AST* of the loop bodies of `protect` / `unprotect` (gen/py2lean.py; Python
ints = `Int`, `%` = `Int.fmod`, `^` = `PyInt.xor` on two's-complement ints, the key tuples as literal
lists).  The theorems below say that they are the hand-written `protByte` / `unprotByte` / `nextIndex`
at the generated tables, on unbounded Python ints (the intermediate `c` of the code is negative for
small bytes and exceeds 255 after the final addition), so an edit of the loop bodies breaks a proof
obligation.  Proved algebraically (`PcbV.PyIntLemmas`: the low byte of `x ^ k` for a byte `k`), not by
enumeration.  The translated definitions are compared with the real functions by `vlib/translated.py`. -/

theorem translated_protect_supported :
    Gen.Translated.protStep_supported = true ∧ Gen.Translated.unprotStep_supported = true ∧
    Gen.Translated.protNextIndex_supported = true ∧ Gen.Translated.unprotNextIndex_supported = true := by
  decide

/-- one coded byte: translated `protect` loop body = `protByte` (every index, every `ord` value) -/
theorem translated_protStep_eq (i b : Nat) :
    Gen.Translated.protStep (b : Int) (i : Int) = ((protByte tableKeys i b : Nat) : Int) := by
  have h13 : i % 13 < 13 := Nat.mod_lt _ (by decide)
  have h11 : i % 11 < 11 := Nat.mod_lt _ (by decide)
  have e13 : Int.fmod (i : Int) 13 = ((i % 13 : Nat) : Int) := PyIntLemmas.fmod_natCast i 13
  have e11 : Int.fmod (i : Int) 11 = ((i % 11 : Nat) : Int) := PyIntLemmas.fmod_natCast i 11
  have s13 : (13 : Int) - ((i % 13 : Nat) : Int) = ((13 - i % 13 : Nat) : Int) := by omega
  have s11 : (11 : Int) - ((i % 11 : Nat) : Int) = ((11 - i % 11 : Nat) : Int) := by omega
  unfold Gen.Translated.protStep protByte
  simp only [e13, e11, Int.toNat_natCast, s13, s11]
  -- the literal key lists of the translated code are matched by unification, their entries are
  -- compared with the generated byte tables by evaluation (13 resp. 11 cases)
  refine PyIntLemmas.cipher_step_tab _ _ tableKeys.k1 tableKeys.k2 _ _ _ _ _ (by omega) ?_ ?_ ?_ ?_
  · generalize i % 13 = j at h13; revert j; decide
  · generalize i % 13 = j at h13; revert j; decide
  · generalize i % 11 = j at h11; revert j; decide
  · generalize i % 11 = j at h11; revert j; decide

/-- one decoded byte: translated `unprotect` loop body = `unprotByte` -/
theorem translated_unprotStep_eq (i b : Nat) :
    Gen.Translated.unprotStep (b : Int) (i : Int) = ((unprotByte tableKeys i b : Nat) : Int) := by
  have h13 : i % 13 < 13 := Nat.mod_lt _ (by decide)
  have h11 : i % 11 < 11 := Nat.mod_lt _ (by decide)
  have e13 : Int.fmod (i : Int) 13 = ((i % 13 : Nat) : Int) := PyIntLemmas.fmod_natCast i 13
  have e11 : Int.fmod (i : Int) 11 = ((i % 11 : Nat) : Int) := PyIntLemmas.fmod_natCast i 11
  have s13 : (13 : Int) - ((i % 13 : Nat) : Int) = ((13 - i % 13 : Nat) : Int) := by omega
  have s11 : (11 : Int) - ((i % 11 : Nat) : Int) = ((11 - i % 11 : Nat) : Int) := by omega
  unfold Gen.Translated.unprotStep unprotByte
  simp only [e13, e11, Int.toNat_natCast, s13, s11]
  refine PyIntLemmas.cipher_step_tab _ _ tableKeys.k1 tableKeys.k2 _ _ _ _ _ (by omega) ?_ ?_ ?_ ?_
  · generalize i % 13 = j at h13; revert j; decide
  · generalize i % 13 = j at h13; revert j; decide
  · generalize i % 11 = j at h11; revert j; decide
  · generalize i % 11 = j at h11; revert j; decide

/-- the stream position: translated `index = (index+1) % (13*11)` of both loops = `nextIndex` -/
theorem translated_nextIndex_eq (i : Nat) :
    Gen.Translated.protNextIndex (i : Int) = ((nextIndex i : Nat) : Int) ∧
    Gen.Translated.unprotNextIndex (i : Int) = ((nextIndex i : Nat) : Int) := by
  unfold Gen.Translated.protNextIndex Gen.Translated.unprotNextIndex nextIndex
  constructor <;> exact PyIntLemmas.fmod_natCast (i + 1) (13 * 11)

/-- hence the translated loop bodies are mutually inverse on bytes at every position -/
theorem translated_cipher_roundtrip (i b : Nat) (hb : b < 256) :
    Gen.Translated.unprotStep (Gen.Translated.protStep (b : Int) (i : Int)) (i : Int) = (b : Int) := by
  rw [translated_protStep_eq, translated_unprotStep_eq, unprot_prot_byte tableKeys i b hb]

end PcbV.C15
