/-
  Lemmas about the CRC-32 register of PcbV.Model.StateFile: every step is injective on 32-bit
  registers (the generator has its top coefficient set, so the bit shifted out can be read back
  from bit 31 of the result), hence two byte strings that differ in exactly one byte have
  different checksums.  Elementary: no polynomial algebra, only `Nat.testBit`/xor cancellation.
-/
import PcbV.Model.StateFile
namespace PcbV.StateFile
open PcbV

theorem xor_cancel_right {a b c : Nat} (h : a ^^^ c = b ^^^ c) : a = b := by
  have := congrArg (· ^^^ c) h
  simpa [Nat.xor_assoc, Nat.xor_self] using this

theorem xor_cancel_left {a b c : Nat} (h : c ^^^ a = c ^^^ b) : a = b := by
  rw [Nat.xor_comm c a, Nat.xor_comm c b] at h
  exact xor_cancel_right h

theorem crcBit_lt {c : Nat} (h : c < 2 ^ 32) : crcBit c < 2 ^ 32 := by
  unfold crcBit
  split
  · exact Nat.xor_lt_two_pow (by omega) (by decide)
  · omega

/-- a shifted 32-bit register xor the generator has bit 31 set; a shifted register has not -/
theorem shifted_ne_shifted_xor_poly {a b : Nat} (ha : a < 2 ^ 31) (hb : b < 2 ^ 31) :
    a ^^^ poly ≠ b := by
  intro h
  have h1 : (a ^^^ poly).testBit 31 = true := by
    rw [Nat.testBit_xor, Nat.testBit_lt_two_pow ha]
    decide
  have h2 : b.testBit 31 = false := Nat.testBit_lt_two_pow hb
  rw [h] at h1
  rw [h1] at h2
  cases h2

theorem crcBit_inj {c d : Nat} (hc : c < 2 ^ 32) (hd : d < 2 ^ 32) (h : crcBit c = crcBit d) :
    c = d := by
  unfold crcBit at h
  split at h <;> split at h
  · have := xor_cancel_right h
    omega
  · exact absurd h (shifted_ne_shifted_xor_poly (by omega) (by omega))
  · exact absurd h.symm (shifted_ne_shifted_xor_poly (by omega) (by omega))
  · omega

theorem xor_byte_lt {c b : Nat} (hc : c < 2 ^ 32) (hb : b < 256) : c ^^^ b < 2 ^ 32 :=
  Nat.xor_lt_two_pow hc (by omega)

theorem crcByte_lt {c b : Nat} (hc : c < 2 ^ 32) (hb : b < 256) : crcByte c b < 2 ^ 32 := by
  unfold crcByte
  have h0 := xor_byte_lt hc hb
  exact crcBit_lt (crcBit_lt (crcBit_lt (crcBit_lt (crcBit_lt (crcBit_lt (crcBit_lt (crcBit_lt h0)))))))

/-- eight shifts are injective -/
theorem crcBit8_inj {x y : Nat} (hx : x < 2 ^ 32) (hy : y < 2 ^ 32)
    (h : crcBit (crcBit (crcBit (crcBit (crcBit (crcBit (crcBit (crcBit x))))))) =
         crcBit (crcBit (crcBit (crcBit (crcBit (crcBit (crcBit (crcBit y)))))))) : x = y := by
  have x1 := crcBit_lt hx; have y1 := crcBit_lt hy
  have x2 := crcBit_lt x1; have y2 := crcBit_lt y1
  have x3 := crcBit_lt x2; have y3 := crcBit_lt y2
  have x4 := crcBit_lt x3; have y4 := crcBit_lt y3
  have x5 := crcBit_lt x4; have y5 := crcBit_lt y4
  have x6 := crcBit_lt x5; have y6 := crcBit_lt y5
  have x7 := crcBit_lt x6; have y7 := crcBit_lt y6
  exact crcBit_inj hx hy (crcBit_inj x1 y1 (crcBit_inj x2 y2 (crcBit_inj x3 y3
    (crcBit_inj x4 y4 (crcBit_inj x5 y5 (crcBit_inj x6 y6 (crcBit_inj x7 y7 h)))))))

/-- feeding the same byte to two different registers gives two different registers -/
theorem crcByte_inj_reg {c d b : Nat} (hc : c < 2 ^ 32) (hd : d < 2 ^ 32) (hb : b < 256)
    (h : crcByte c b = crcByte d b) : c = d :=
  xor_cancel_right (crcBit8_inj (xor_byte_lt hc hb) (xor_byte_lt hd hb) h)

/-- feeding two different bytes to the same register gives two different registers -/
theorem crcByte_inj_byte {c b b' : Nat} (hc : c < 2 ^ 32) (hb : b < 256) (hb' : b' < 256)
    (h : crcByte c b = crcByte c b') : b = b' :=
  xor_cancel_left (crcBit8_inj (xor_byte_lt hc hb) (xor_byte_lt hc hb') h)

theorem crcFeed_lt {bs : Bytes} : ∀ {c : Nat}, c < 2 ^ 32 → Bytes.ok bs → crcFeed c bs < 2 ^ 32 := by
  induction bs with
  | nil => intro c hc _; simpa [crcFeed] using hc
  | cons b bs ih =>
    intro c hc hbs
    have hb : b < 256 := hbs b (by simp)
    have hrest : Bytes.ok bs := fun x hx => hbs x (by simp [hx])
    simpa [crcFeed] using ih (crcByte_lt hc hb) hrest

theorem crcFeed_inj_reg {bs : Bytes} : ∀ {c d : Nat}, c < 2 ^ 32 → d < 2 ^ 32 → Bytes.ok bs →
    crcFeed c bs = crcFeed d bs → c = d := by
  induction bs with
  | nil => intro c d _ _ _ h; simpa [crcFeed] using h
  | cons b bs ih =>
    intro c d hc hd hbs h
    have hb : b < 256 := hbs b (by simp)
    have hrest : Bytes.ok bs := fun x hx => hbs x (by simp [hx])
    have h' : crcFeed (crcByte c b) bs = crcFeed (crcByte d b) bs := by simpa [crcFeed] using h
    exact crcByte_inj_reg hc hd hb (ih (crcByte_lt hc hb) (crcByte_lt hd hb) hrest h')

theorem crcFeed_append (c : Nat) (xs ys : Bytes) : crcFeed c (xs ++ ys) = crcFeed (crcFeed c xs) ys := by
  simp [crcFeed, List.foldl_append]

theorem mask32_lt : mask32 < 2 ^ 32 := by decide

/-- CRC-32 detects every alteration of a single byte, whatever the length of the data. -/
theorem crc32_single_byte {pre suf : Bytes} {b b' : Nat} (hpre : Bytes.ok pre) (hsuf : Bytes.ok suf)
    (hb : b < 256) (hb' : b' < 256) (hne : b ≠ b') :
    crc32 (pre ++ b :: suf) ≠ crc32 (pre ++ b' :: suf) := by
  intro h
  unfold crc32 at h
  have h1 := xor_cancel_right h
  rw [crcFeed_append, crcFeed_append] at h1
  have hp := crcFeed_lt mask32_lt hpre
  have h2 : crcFeed (crcByte (crcFeed mask32 pre) b) suf = crcFeed (crcByte (crcFeed mask32 pre) b') suf := by
    simpa [crcFeed] using h1
  have h3 := crcFeed_inj_reg (crcByte_lt hp hb) (crcByte_lt hp hb') hsuf h2
  exact hne (crcByte_inj_byte hp hb hb' h3)

end PcbV.StateFile
