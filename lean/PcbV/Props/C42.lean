import PcbV.Model.Play
import PcbV.Lemmas.Play
import PcbV.Lemmas.PlayTok
import PcbV.Lemmas.PlayVoices
/-
  C42 — PLAY emits the notes its music string specifies.

  Theorems about `PcbV.Model.Play` (the `Sound.play_` loop on the `PcbV.Model.Mml` scanner).
  Durations are exact rationals `num/den`; "duration = (240/T)·(1/L)·(3/2)^dots" is stated as
  `num = 240·3^dots ∧ den = T·L·2^dots`.  Tones are indices into `NOTE_FREQ` (0-based: the statement's
  note number `n` is index `n-1`, finding S3).
-/
namespace PcbV.C42
open PcbV PcbV.Gen PcbV.Mml PcbV.Play PcbV.PlayVoices

/-! ### one command: duration, gap, pause, N versus letter -/

/-- duration_spec: a note command with a NOTES entry emits exactly one tone, of index
    `octave*12 + semitone`, lasting `(240/T)·(1/L)·(3/2)^dots` with `L` the suffix if it is given and
    positive, else the current `L`; it carries the current fill. The state does not change. -/
theorem duration_spec (ps : PlayState) (letter acc : Nat) (l : Option Nat) (d s : Nat)
    (hp : ¬ (letter = 80 ∧ acc = 0)) (hs : semitone letter acc = some s) :
    apply ps (.note letter acc l d) = .ok (ps,
      [{ voice := 0, note := some (ps.octave * 12 + s),
         num := 240 * 3 ^ d,
         den := ps.tempo * effLen ps l * 2 ^ d,
         fill := ps.fill, volume := ps.volume }]) := by
  have : (letter == 80 && acc == 0) = false := by
    cases h1 : letter == 80 <;> cases h2 : acc == 0 <;> simp_all
  simp [apply, this, hs, mkEv]

/-- gap_spec: what reaches the audio queue for a tone of duration `num/den`: the sounding part
    `fill·num/den` and, unless legato, a silent gap `(1-fill)·num/den` with
    `1-fill` = 1/8 (MN), 1/4 (MS); both parts add up to the duration. -/
theorem gap_spec (e : Ev) :
    (e.fill = .legato → flatten e = [⟨e.voice, e.note, e.num * 8, e.den * 8, e.volume⟩]) ∧
    (e.fill = .normal → flatten e =
      [⟨e.voice, e.note, e.num * 7, e.den * 8, e.volume⟩, ⟨e.voice, none, e.num * 1, e.den * 8, 0⟩]) ∧
    (e.fill = .staccato → flatten e =
      [⟨e.voice, e.note, e.num * 6, e.den * 8, e.volume⟩, ⟨e.voice, none, e.num * 2, e.den * 8, 0⟩]) ∧
    ((flatten e).map (·.num)).sum = e.num * 8 ∧ ∀ r ∈ flatten e, r.den = e.den * 8 := by
  cases h : e.fill <;> simp [flatten, h, Fill.eighths] <;> omega

/-- MN / ML / MS select the fill and change nothing else -/
theorem fill_spec (ps : PlayState) (f : Fill) :
    apply ps (.fill f) = .ok ({ ps with fill := f }, []) := rfl

/-- pause_spec: `P n` (1 ≤ n ≤ 64 is checked by the parser, n = 0 is silent) emits one pause
    (frequency 0) of `(240/T)·(1/n)·(3/2)^dots` without a gap; `N0` is a pause of the current length;
    `P` without a length and `P0.` are errors. -/
theorem pause_spec (ps : PlayState) (n d : Nat) (hn : n > 0) :
    apply ps (.note 80 0 (some n) d) = .ok (ps,
      [{ voice := 0, note := none, num := 240 * 3 ^ d, den := ps.tempo * n * 2 ^ d,
         fill := .legato, volume := ps.volume }]) ∧
    apply ps (.n 0 d) = .ok (ps,
      [{ voice := 0, note := none, num := 240 * 3 ^ d, den := ps.tempo * ps.length * 2 ^ d,
         fill := .legato, volume := ps.volume }]) ∧
    apply ps (.note 80 0 (some 0) 0) = .ok (ps, []) ∧
    apply ps (.note 80 0 none d) = .error E.ifc ∧
    apply ps (.note 80 0 (some 0) (d + 1)) = .error E.ifc := by
  refine ⟨?_, ?_, ?_, ?_, ?_⟩
  · cases n with
    | zero => omega
    | succ m => simp [apply, mkEv, effLen]
  · simp [apply, rangeNat, mkEv, Except.map]
  · simp [apply]
  · simp [apply]
  · simp [apply]

/-- n_equals_letter: `N n` and the letter note with `octave*12 + semitone + 1 = n` emit the same tone -/
theorem n_equals_letter (ps : PlayState) (letter acc s d : Nat) (ho : ps.octave ≤ 6)
    (hp : ¬ (letter = 80 ∧ acc = 0)) (hs : semitone letter acc = some s) :
    apply ps (.n ((ps.octave * 12 + s + 1 : Nat) : Int) d) = apply ps (.note letter acc none d) := by
  have hs11 := semitone_le hs
  rw [duration_spec ps letter acc none d s hp hs]
  simp only [apply]
  rw [rangeNat_nat 0 84 _ (by omega) (by omega)]
  simp [Except.map, mkEv, effLen]

/-! ### octave clamping and the table bound, over every string and every variable store -/

/-- `>` and `<` move the octave by one and clamp it to 0..6 -/
theorem up_down_spec (ps : PlayState) :
    apply ps .up = .ok ({ ps with octave := min 6 (ps.octave + 1) }, []) ∧
    apply ps .down = .ok ({ ps with octave := ps.octave - 1 }, []) := by
  constructor
  · simp only [apply]
    congr 3
    split <;> omega
  · rfl

/-- octave_clamped: whatever the music string, the variables and the X substrings, if the octave
    starts in 0..6 it stays in 0..6 (through `O`, `>`, `<`), and every tone emitted is an entry of
    the 84-entry frequency table. -/
theorem octave_clamped (lim : Limits) (env : Env) (fuel : Nat) (c : Cfg) (ho : c.ps.octave ≤ 6) :
    (run lim env fuel c).ps.octave ≤ 6 ∧
    ∀ e ∈ (run lim env fuel c).evs, ∀ i, e.note = some i → i < Notes.noteCount := by
  induction fuel generalizing c with
  | zero => simp [run, ho]
  | succ f ih =>
    unfold run
    cases hs : step lim env c with
    | done => simp [ho]
    | fail e => simp [ho]
    | cont c' evs =>
      have ⟨h1, h2⟩ := step_octave lim env c c' evs ho hs
      have ⟨h3, h4⟩ := ih c' h1
      refine ⟨h3, ?_⟩
      intro e he i hi
      simp at he
      cases he with
      | inl he => exact h2 e he i hi
      | inr he => exact h4 e he i hi

/-! ### strings of note commands -/

/-- the tone a well-formed note command emits in state `ps` -/
def noteEv (ps : PlayState) (t : NoteTok) : Ev :=
  { voice := 0,
    note := some (ps.octave * 12 + (semitone (upper t.letter) t.accCode).getD 0),
    num := 240 * 3 ^ t.dots,
    den := ps.tempo * effLen ps t.lenOpt * 2 ^ t.dots,
    fill := ps.fill, volume := ps.volume }

theorem step_note (lim : Limits) (env : Env) (ps : PlayState) (lv : List Nat) (t : NoteTok) (h : t.WF)
    (s : Bytes) (hs : NoteHead s) :
    step lim env ⟨ps, t.render ++ s, lv⟩ = .cont ⟨ps, s, lv⟩ [noteEv ps t] := by
  have hu := upper_letter h.letter
  have hn := h.note
  cases hsem : semitone (upper t.letter) t.accCode with
  | none => simp [hsem] at hn
  | some sm =>
    have hp : ¬ (upper t.letter = 80 ∧ t.accCode = 0) := by omega
    have happ := duration_spec ps (upper t.letter) t.accCode t.lenOpt t.dots sm hp hsem
    unfold step
    simp only [parseCmd_note env t h s hs, happ]
    simp [noteEv, hsem]

/-- one_tone_per_note: a music string made of k well-formed note commands (letter in either case,
    optional `#`/`+`/`-` with a NOTES entry, optional length 0..64, any number of dots) emits exactly
    k tones, in order, each with the index, duration and fill of its command, and leaves the state
    unchanged; whatever the variables and the nesting bookkeeping. -/
theorem one_tone_per_note (lim : Limits) (env : Env) (ps : PlayState) (toks : List NoteTok)
    (h : ∀ t ∈ toks, t.WF) (fuel : Nat) (hf : toks.length < fuel) (lv : List Nat) :
    run lim env fuel ⟨ps, toks.flatMap NoteTok.render, lv⟩ = ⟨ps, toks.map (noteEv ps), .ok⟩ := by
  induction toks generalizing fuel with
  | nil =>
    cases fuel with
    | zero => simp at hf
    | succ f => simp [run, step, parseCmd, skipBlank]
  | cons t ts ih =>
    cases fuel with
    | zero => simp at hf
    | succ f =>
      have ht := h t (by simp)
      have hs : NoteHead (ts.flatMap NoteTok.render) := by
        cases ts with
        | nil => trivial
        | cons t' ts' =>
          have := (h t' (by simp)).letter
          simpa [NoteTok.render, NoteHead] using this
      unfold run
      simp only [List.flatMap_cons, step_note lim env ps lv t ht _ hs]
      rw [ih (fun x hx => h x (by simp [hx])) f (by simp at hf; omega)]
      simp

example : (⟨99, some 35, [52], 2⟩ : NoteTok).WF :=
  ⟨by decide, by decide, by decide, by decide, by decide⟩

example : play limits envSelf 10 initState ([⟨99, some 35, [52], 2⟩, ⟨71, none, [], 0⟩].flatMap NoteTok.render)
    = ⟨initState, [⟨0, some 49, 2160, 1920, .normal, 15⟩, ⟨0, some 55, 240, 480, .normal, 15⟩], .ok⟩ := by
  decide

/-! ### malformed commands -/

/-- command letters of the (single-voice) PLAY language, upper case -/
def commandLetters : List Nat := [88, 78, 76, 84, 79, 62, 60, 65, 66, 67, 68, 69, 70, 71, 80, 77]

/-- A parsed command is malformed when its number is out of range (N 0..84, L 1..64, T 32..255,
    O 0..6), when the note name has no NOTES entry (E#, B#, C-, F-, P with an accidental), when a
    pause has no length, or a zero length with dots. -/
def cmdMalformed : Cmd → Bool
  | .n k _ => decide (k < 0 ∨ k > 84)
  | .len k => decide (k < 1 ∨ k > 64)
  | .tempo k => decide (k < 32 ∨ k > 255)
  | .oct k => decide (k < 0 ∨ k > 6)
  | .vol k => decide (k < -1 ∨ k > 15)
  | .note letter acc l d =>
    if letter == 80 && acc == 0 then (match l with | none => true | some 0 => decide (d > 0) | some _ => false)
    else (semitone letter acc).isNone
  | _ => false

theorem rangeNat_bad (lo hi : Nat) (k : Int) (h : k < lo ∨ k > hi) : rangeNat lo hi k = .error E.ifc := by
  unfold rangeNat
  rw [if_neg]
  omega

theorem rangeNat_good (lo hi : Nat) (k : Int) (h : ¬ (k < lo ∨ k > hi)) : ∃ n, rangeNat lo hi k = .ok n := by
  unfold rangeNat
  rw [if_pos]
  · exact ⟨_, rfl⟩
  · omega

/-- a command is malformed exactly when applying it raises an error, and the error is
    Illegal function call; nothing is emitted and the state is untouched (there is no result) -/
theorem malformed_cmd_iff (ps : PlayState) (cmd : Cmd) :
    (cmdMalformed cmd = true → apply ps cmd = .error E.ifc) ∧
    (cmdMalformed cmd = false → ∃ r, apply ps cmd = .ok r) := by
  cases cmd with
  | sub s => simp [cmdMalformed, apply]
  | n k d =>
    constructor
    · intro h; simp [cmdMalformed] at h; simp [apply, rangeNat_bad 0 84 k (by omega), Except.map]
    · intro h; simp [cmdMalformed] at h
      obtain ⟨n, hn⟩ := rangeNat_good 0 84 k (by omega)
      simp [apply, hn, Except.map]
  | len k =>
    constructor
    · intro h; simp [cmdMalformed] at h; simp [apply, rangeNat_bad 1 64 k (by omega), Except.map]
    · intro h; simp [cmdMalformed] at h
      obtain ⟨n, hn⟩ := rangeNat_good 1 64 k (by omega)
      simp [apply, hn, Except.map]
  | tempo k =>
    constructor
    · intro h; simp [cmdMalformed] at h; simp [apply, rangeNat_bad 32 255 k (by omega), Except.map]
    · intro h; simp [cmdMalformed] at h
      obtain ⟨n, hn⟩ := rangeNat_good 32 255 k (by omega)
      simp [apply, hn, Except.map]
  | oct k =>
    constructor
    · intro h; simp [cmdMalformed] at h; simp [apply, rangeNat_bad 0 6 k (by omega), Except.map]
    · intro h; simp [cmdMalformed] at h
      obtain ⟨n, hn⟩ := rangeNat_good 0 6 k (by omega)
      simp [apply, hn, Except.map]
  | up => simp [cmdMalformed, apply]
  | down => simp [cmdMalformed, apply]
  | note letter acc l d =>
    simp only [cmdMalformed, apply]
    split
    · cases l with
      | none => simp
      | some v =>
        cases v with
        | zero => by_cases hd : d > 0 <;> simp [hd]
        | succ m => simp
    · cases hs : semitone letter acc <;> simp
  | fill f => simp [cmdMalformed, apply]
  | fg b => simp [cmdMalformed, apply]
  | vol k =>
    constructor
    · intro h; simp [cmdMalformed] at h; simp only [apply]; rw [if_neg (by omega)]
    · intro h; simp [cmdMalformed] at h; simp only [apply]; rw [if_pos (by omega)]; exact ⟨_, rfl⟩

/-- a numeric argument is missing: after blanks and an optional sign the text neither is a digit
    nor starts a variable reference with `=` -/
def numberMissing (r : Bytes) : Bool :=
  let s1 := match skipBlank r with
    | 45 :: t => t
    | 43 :: t => t
    | s0 => s0
  match s1 with
  | [] => true
  | c :: _ => !(c == 61) && !isDigit c

theorem parseNumber_missing (env : Env) (r : Bytes) (h : numberMissing r = true) :
    parseNumber env none r = .error E.ifc := by
  unfold numberMissing at h
  unfold parseNumber
  generalize skipBlank r = s0 at h
  cases s0 with
  | nil => simp [Except.map]
  | cons a t =>
    by_cases h45 : a = 45
    · subst h45
      cases t with
      | nil => simp [Except.map]
      | cons c t' => simp at h; simp [h.1, h.2, Except.map]
    · by_cases h43 : a = 43
      · subst h43
        cases t with
        | nil => simp [Except.map]
        | cons c t' => simp at h; simp [h.1, h.2, Except.map]
      · have h' : (!(a == 61) && !isDigit a) = true := by
          split at h
          · simp_all
          · simp_all
          · rename_i heq; simp at h; rename_i x; simp_all
        simp at h'
        dsimp only
        split
        · rename_i heq; simp at heq; omega
        · rename_i heq; simp at heq; omega
        · simp [h'.1, h'.2, Except.map]

/-- N, L, T, O without a number raise Illegal function call -/
theorem missing_number_ifc (env : Env) (c : Nat) (r : Bytes) (hc : c = 78 ∨ c = 76 ∨ c = 84 ∨ c = 79)
    (h : numberMissing r = true) : parseLetter env c r = .error E.ifc := by
  have := parseNumber_missing env r h
  rcases hc with rfl | rfl | rfl | rfl <;> simp [parseLetter, this, Except.map]

/-- `M` must be followed by N, L, S, F or B -/
theorem mode_letter_ifc (env : Env) (r : Bytes)
    (h : skipBlank r = [] ∨ ∃ m r1, skipBlank r = m :: r1 ∧ [78, 76, 83, 70, 66].contains (upper m) = false) :
    parseLetter env 77 r = .error E.ifc := by
  rcases h with h | ⟨m, r1, h, hm⟩
  · simp [parseLetter, isNoteLetter, h]
  · simp at hm
    simp [parseLetter, isNoteLetter, h, hm]

/-- malformed_ifc (lexical part): a string whose next command letter (after blanks and at most one
    `;`) is not a command letter raises Illegal function call. -/
theorem unknown_letter_ifc (env : Env) (c : Nat) (r : Bytes) (h : commandLetters.contains c = false)
    (hv : env.volumeCmd = false ∨ c ≠ 86) :
    parseLetter env c r = .error E.ifc := by
  have hv' : (c == 86 && env.volumeCmd) = false := by
    rcases hv with hv | hv
    · simp [hv]
    · simp [hv]
  simp [commandLetters] at h
  obtain ⟨h1, h2, h3, h4, h5, h6, h7, h8, h9, h10, h11, h12, h13, h14, h15, h16⟩ := h
  have hn : isNoteLetter c = false := by
    simp [isNoteLetter]; omega
  simp [parseLetter, *]

/-- the command starting with the (upper-cased) letter `c`, followed by `r`, is lexically malformed:
    `c` is not a command letter (`V` is one only with Tandy/PCjr sound: `vol`), or N/L/T/O is not
    followed by a number, or M not by N, L, S, F, B -/
def letterMalformed (vol : Bool) (c : Nat) (r : Bytes) : Bool :=
  (!commandLetters.contains c && !(vol && c == 86))
  || ((c == 78 || c == 76 || c == 84 || c == 79) && numberMissing r)
  || (c == 77 && (match skipBlank r with
                  | [] => true
                  | m :: _ => ![78, 76, 83, 70, 66].contains (upper m)))

/-- the string continues (after blanks and at most one `;`) with a lexically malformed command;
    a `;` with nothing after it, and `;;`, are malformed too -/
def lexMalformed (vol : Bool) (s : Bytes) : Bool :=
  match skipBlank s with
  | [] => false
  | c :: r =>
    if c == 59 then
      match skipBlank r with
      | [] => true
      | c1 :: r1 => letterMalformed vol (upper c1) r1
    else letterMalformed vol (upper c) r

theorem letter_malformed_ifc (env : Env) (c : Nat) (r : Bytes) (h : letterMalformed env.volumeCmd c r = true) :
    parseLetter env c r = .error E.ifc := by
  unfold letterMalformed at h
  simp only [Bool.or_eq_true, Bool.and_eq_true] at h
  rcases h with (h | ⟨hc, hn⟩) | ⟨hc, hm⟩
  · simp only [Bool.not_eq_true', Bool.and_eq_false_iff] at h
    refine unknown_letter_ifc env c r h.1 ?_
    rcases h.2 with h2 | h2
    · exact Or.inl h2
    · exact Or.inr (by simpa using h2)
  · exact missing_number_ifc env c r (by simp at hc; omega) hn
  · have hc' : c = 77 := by simpa using hc
    subst hc'
    apply mode_letter_ifc
    cases hsb : skipBlank r with
    | nil => exact Or.inl rfl
    | cons m r1 =>
      rw [hsb] at hm
      exact Or.inr ⟨m, r1, rfl, by simpa using hm⟩

theorem lex_malformed_ifc (env : Env) (s : Bytes) (h : lexMalformed env.volumeCmd s = true) :
    parseCmd env s = .error E.ifc := by
  unfold lexMalformed at h
  unfold parseCmd
  cases hsb : skipBlank s with
  | nil => rw [hsb] at h; simp at h
  | cons c r =>
    rw [hsb] at h
    dsimp only at h ⊢
    by_cases hc : c = 59
    · subst hc
      simp only [beq_self_eq_true, if_true] at h ⊢
      cases hsb2 : skipBlank r with
      | nil => rfl
      | cons c1 r1 =>
        rw [hsb2] at h
        dsimp only at h ⊢
        simp [letter_malformed_ifc env _ r1 h, Except.map]
    · have hc' : (c == 59) = false := by simpa using hc
      simp only [hc'] at h ⊢
      simp [letter_malformed_ifc env _ r h, Except.map]

/-- malformed_ifc: if the music string continues with a lexically malformed command (`lexMalformed`),
    or with a command that parses to a malformed one (`cmdMalformed`: number out of range, note name
    without NOTES entry, pause without length), PLAY stops there with Illegal function call: the tones
    of the commands before it have been emitted, none follows, the state keeps the changes made so far.
    Not covered by the two predicates (they need the variable store): ill-formed `=name;` references
    and X commands; by correspondence these raise Illegal function call, Type mismatch, Subscript out
    of range or Syntax error as `MLParser` does. -/
theorem malformed_ifc (lim : Limits) (env : Env) (fuel : Nat) (c : Cfg)
    (h : lexMalformed env.volumeCmd c.rest = true ∨
         (∃ cmd r, parseCmd env c.rest = .ok (some (cmd, r)) ∧ cmdMalformed cmd = true)) :
    run lim env (fuel + 1) c = ⟨c.ps, [], .err E.ifc⟩ := by
  have hstep : step lim env c = .fail E.ifc := by
    rcases h with h | ⟨cmd, r, hp, hm⟩
    · simp [step, lex_malformed_ifc env _ h]
    · have := (malformed_cmd_iff c.ps cmd).1 hm
      unfold step
      rw [hp]
      cases cmd with
      | sub s => simp [cmdMalformed] at hm
      | _ => simp [this]
  unfold run
  rw [hstep]

example : lexMalformed false [32, 59, 104] = true := by decide
example : lexMalformed false [78, 32, 67] = true := by decide
example : lexMalformed false [109, 120] = true := by decide
example : lexMalformed true [86, 49] = false := by decide
example : lexMalformed false [86, 49] = true := by decide
example : lexMalformed false [67, 59] = false := by decide
example : cmdMalformed (.note 69 35 none 0) = true := by decide
example : cmdMalformed (.n 85 0) = true := by decide

/-! ### X substrings that insert themselves -/

/-- the unrepaired loop (no nesting limit) never finishes `A$="XA$;": PLAY A$`: whatever the fuel,
    the run is still going when it is used up -/
theorem self_insertion_counterexample (fuel : Nat) (ps : PlayState) (lv : List Nat) :
    (run oldLimits envSelf fuel ⟨ps, [88, 65, 36, 59], lv⟩).status = .outOfFuel := by
  induction fuel generalizing lv with
  | zero => rfl
  | succ f ih =>
    unfold run
    have hs : step oldLimits envSelf ⟨ps, [88, 65, 36, 59], lv⟩ =
        .cont ⟨ps, [88, 65, 36, 59], 0 :: lv.filter (fun n => decide (n ≤ 0))⟩ [] := by
      simp [step, parse_self, oldLimits]
    rw [hs]
    exact ih _

/-- with the nesting limit of the repaired code the same statement ends in Out of memory,
    without a tone -/
theorem self_insertion_out_of_memory :
    play limits envSelf (Notes.maxNesting + 2) initState [88, 65, 36, 59]
      = ⟨initState, [], .err E.out_of_memory⟩ := by
  decide

/-- any nesting limit bounds the number of substrings being played -/
theorem nesting_bounded (lim : Limits) (env : Env) (c c' : Cfg) (evs : List Ev) (hm : lim.maxNesting ≠ 0)
    (hl : c.levels.length ≤ lim.maxNesting) (h : step lim env c = .cont c' evs) :
    c'.levels.length ≤ lim.maxNesting := by
  unfold step at h
  split at h
  · cases h
  · cases h
  · dsimp only at h
    split at h
    · cases h
    · rename_i hn
      injection h with h1 h2; subst h1
      simp at hn
      have := hn hm
      simp; omega
  · split at h
    · cases h
    · injection h with h1 h2; subst h1; simpa using hl

/-! ### three-voice PLAY (Tandy/PCjr): the voices are independent -/

/-- voices_independent: in the three-voice PLAY, whatever the strings and states of the other
    voices, the foreground flag, the point reached in the round-robin loop (`active`, `j`) and the
    fuel, the tones emitted for voice `i` are exactly the tones of the first `k` commands of voice
    `i`'s own string run alone from voice `i`'s own state (`strace`, a function of that voice's
    configuration only), for some `k`; and voice `i` is left in the state that run reaches.  So a
    state command (O, <, >, L, T, MN/ML/MS, V) in one voice cannot change a note of another. -/
theorem voices_independent (lim : Limits) (env : Env) (fuel : Nat) (M : MCfg) (active : List Nat)
    (j i : Nat) (hi : i < M.vs.length) :
    ∃ k, ((mrun lim env fuel M active j).evs.filter (fun e => e.voice == i)
            = (strace lim env k (M.vs.getD i default)).1.map (hwEv i)) ∧
         setFg true ((mrun lim env fuel M active j).vs.getD i default)
            = (strace lim env k (M.vs.getD i default)).2 ∧
         (mrun lim env fuel M active j).vs.length = M.vs.length := by
  induction fuel generalizing M active j with
  | zero => exact ⟨0, by simp [mrun, strace]⟩
  | succ f ih =>
    unfold mrun
    split
    · exact ⟨0, by simp [strace]⟩
    · split
      · exact ih M active 0 hi
      · dsimp only
        split
        · exact ih M _ _ hi
        · exact ⟨0, by simp [strace]⟩
        · rename_i c' evs hstep
          generalize hv : active.getD j 0 = v at hstep
          have hlen : i < (M.vs.set v c').length := by simpa using hi
          obtain ⟨k, h1, h2, h3⟩ := ih ⟨M.vs.set v c', c'.ps.foreground⟩ active (j + 1) hlen
          by_cases hvi : v = i
          · subst hvi
            have hget : (M.vs.set v c').getD v default = c' := by
              simp [List.getD_eq_getElem?_getD, hi]
            have hsim := step_setFg lim env M.fg (M.vs.getD v default)
            rw [hstep] at hsim
            cases hs2 : step lim env (setFg true (M.vs.getD v default)) with
            | done => rw [hs2] at hsim; simp [StepSim] at hsim
            | fail e => rw [hs2] at hsim; simp [StepSim] at hsim
            | cont c'' evs' =>
              rw [hs2] at hsim
              obtain ⟨he, hc⟩ := hsim
              subst he
              have hst : strace lim env (k + 1) (M.vs.getD v default) =
                  (evs ++ (strace lim env k c').1, (strace lim env k c').2) := by
                simp only [strace, hs2]
                rw [strace_congr lim env k c'' c' hc.symm]
              refine ⟨k + 1, ?_, ?_, ?_⟩
              · simp only [List.filter_append, filter_hw_same, h1, hget, hst, List.map_append]
              · rw [h2, hget, hst]
              · simpa using h3
          · have hget : (M.vs.set v c').getD i default = M.vs.getD i default := by
              simp [List.getD_eq_getElem?_getD, hvi]
            refine ⟨k, ?_, ?_, ?_⟩
            · simp only [List.filter_append, filter_hw_ne v i hvi, List.nil_append, h1, hget]
            · rw [h2, hget]
            · simpa using h3

/-- `PLAY "O2C", "C"`: the first voice's octave command does not move the second voice
    (index 24 = O2 C, index 48 = O4 C) -/
example : ((mplay limits envSelf 20 [initState, initState, initState] true
      [[79, 50, 67], [67], []]).evs.map (fun e => (e.voice, e.note))) = [(1, some 48), (0, some 24)] := by
  decide

end PcbV.C42
