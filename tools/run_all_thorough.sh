#!/bin/sh
# tools/run_all_thorough.sh [ids…] — run thorough checks sequentially (niced) against /repo, one line each
cd /verif
ids="$@"
[ -z "$ids" ] && ids=$(python3 -c "import json;print(' '.join(c['property_id'] for c in json.load(open('MANIFEST.json'))['checks']))")
for p in $ids; do
  t0=$(date +%s)
  out=$(C01_PROCS=${C01_PROCS:-4} nice -n 5 timeout 5400 ./check $p --tier thorough 2>&1); rc=$?
  echo "$p rc=$rc $(( $(date +%s) - t0 ))s $(echo "$out" | grep -c '^VIOLATION') viol; $(echo "$out" | tail -1 | cut -c1-120)"
done
