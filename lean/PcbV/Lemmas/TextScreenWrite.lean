import PcbV.Lemmas.TextScreen
/-
  Lemmas for C36, part 2: exact evaluation of `set_pos` / `write_char` for a cursor inside the scroll
  window, the reference typewriter `TW` and the simulation relation `Sim`, plain text through
  `Console.write`, and facts about cleared rows.  Used by PcbV.Props.C36.
-/
namespace PcbV.TextScreen
open PcbV

theorem wrapAround_id {s : St} (ok : Bool) (hb : s.bottomAllowed = false) (c1 : 1 ≤ s.col) (c2 : s.col ≤ s.width)
    (r1 : s.top ≤ s.row) (r2 : s.row ≤ s.bottom) : wrapAround s ok = s := by
  rw [wrapAround_eq, if_neg (by simp [hb])]
  have e : ({ s with bottomAllowed := false } : St) = s := by cases s; simp_all
  rw [e]
  have e1 : wrapCol s ok = s := by unfold wrapCol; rw [if_neg (by omega), if_neg (by omega)]
  rw [e1]
  unfold wrapRow; rw [if_neg (by omega), if_neg (by omega)]

/-- `t` is `u` with the cursor at the definite cell (r,c): CSRLIN/POS report it, nothing else changed -/
def MovedTo (u t : St) (r c : Nat) : Prop :=
  t.row = r ∧ t.col = c ∧ t.overflow = false ∧ csrlin t = r ∧ pos t = c ∧ t.chars = u.chars ∧
  t.wraps = u.wraps ∧ t.top = u.top ∧ t.bottom = u.bottom ∧ t.active = u.active ∧ t.width = u.width ∧
  t.mode = u.mode

theorem setPos_in_window {u : St} {r c : Nat} (ho : u.overflow = false) (c1 : 1 ≤ c) (c2 : c ≤ u.width)
    (r1 : u.top ≤ r) (r2 : r ≤ u.bottom) (b24 : u.bottom ≤ 24) : MovedTo u (setPos u r c false) r c := by
  have e : setPos u r c false = { u with row := r, col := c, bottomAllowed := false } := by
    unfold setPos
    simp only []
    have e0 : (if c < u.width then { u with overflow := false } else u) = u := by
      split
      · cases u; simp_all
      · rfl
    rw [e0, wrapAround_eq, if_neg (by simp only [height]; omega)]
    have e1 : wrapCol { u with row := r, col := c, bottomAllowed := false } false =
        { u with row := r, col := c, bottomAllowed := false } := by
      unfold wrapCol; simp only []; rw [if_neg (by omega), if_neg (by omega)]
    simp only []
    rw [e1]
    unfold wrapRow
    simp only []
    rw [if_neg (by omega), if_neg (by omega)]
  rw [e]
  exact ⟨rfl, rfl, ho, by simp [csrlin, ho], by simp [pos, ho], rfl, rfl, rfl, rfl, rfl, rfl, rfl⟩

theorem setPos_row25 {u : St} {c : Nat} (ha : u.bottomAllowed = true) (ho : u.overflow = false) (c1 : 1 ≤ c)
    (c2 : c ≤ u.width) : MovedTo u (setPos u 25 c false) 25 c := by
  have e : setPos u 25 c false = { u with row := 25, col := c } := by
    unfold setPos
    simp only []
    have e0 : (if c < u.width then { u with overflow := false } else u) = u := by
      split
      · cases u; simp_all
      · rfl
    rw [e0, wrapAround_eq, if_pos ⟨ha, rfl⟩]
    simp only []
    have : min u.width c = c := by omega
    rw [this, if_neg (by omega)]
  rw [e]
  exact ⟨rfl, rfl, ho, by simp [csrlin, ho], by simp [pos, ho], rfl, rfl, rfl, rfl, rfl, rfl, rfl⟩

theorem cell_eq (ch : List (List Nat)) (r c : Nat) :
    cell ch r c = ((ch[r - 1]?).getD []).getD (c - 1) 32 := by
  simp [cell, List.getD_eq_getElem?_getD]

/-- The reference: a typewriter with `W` columns on the rows `[top, bottom]` of a sheet `rows`.  `c = W+1`
    means the carriage is past the last column: the next character starts the next row first. -/
structure TW where
  rows : List (List Nat)
  r : Nat
  c : Nat
deriving Repr, DecidableEq

/-- carriage return + line feed; at the last row of the window the window moves up by one row -/
def TW.nextRow (W top bottom : Nat) (t : TW) : TW :=
  if t.r < bottom then { t with r := t.r + 1, c := 1 }
  else { rows := scrollUpChars W t.rows top bottom, r := bottom, c := 1 }

/-- type one character -/
def TW.put (W top bottom : Nat) (t : TW) (ch : Nat) : TW :=
  let t := if t.c = W + 1 then t.nextRow W top bottom else t
  { t with rows := putCell t.rows t.r t.c ch, c := t.c + 1 }

/-- type a text -/
def TW.type (W top bottom : Nat) (t : TW) (l : List Nat) : TW := l.foldl (TW.put W top bottom) t

/-- no row from the cursor row to the end of the window is marked as continued (true on a cleared window) -/
def NoWrapBelow (s : St) : Prop := ∀ r, s.row ≤ r → r ≤ s.bottom → getWrap s r = false

/-- the screen `s` shows the typewriter `t` -/
structure Sim (s : St) (t : TW) : Prop where
  inv : Inv s
  win : s.bottomAllowed = false
  rows : s.chars = t.rows
  r : s.row = t.r
  pend : s.overflow = true → t.c = s.width + 1
  def_ : s.overflow = false → t.c = s.col
  nw : NoWrapBelow s

theorem consumeOverflow_none {s : St} (ho : s.overflow = false) (c2 : s.col ≤ s.width) :
    consumeOverflow s false = s := by
  unfold consumeOverflow
  simp only [ho, Bool.false_eq_true, if_false]
  rw [if_neg (by omega)]

/-- the wrap flags after `_consume_overflow_before_write` carried out a pending wrap -/
def pendWraps (s : St) : List Bool :=
  if getWrap s s.row = true then s.wraps else s.wraps.set (pyRow s.wraps.length s.row) true

theorem consumeOverflow_pending {s : St} (ho : s.overflow = true) (hc : s.col = s.width) (hr : s.row < 25) :
    consumeOverflow s false =
      { s with wraps := pendWraps s, row := s.row + 1, col := 1, overflow := false } := by
  unfold consumeOverflow pendWraps
  simp only [ho, if_true, Bool.false_eq_true, false_and, if_false]
  rw [if_pos (by omega), if_pos (by simp only [height]; exact hr)]
  have e : getWrap { s with col := s.col + 1, overflow := false } s.row = getWrap s s.row := rfl
  rw [e]
  cases hw : getWrap s s.row
  · simp only [Bool.false_eq_true, not_false_eq_true, if_true, if_false]; rfl
  · simp only [not_true_eq_false, if_false, if_true]

theorem wrapAround_scrolls {s : St} (hb : s.bottomAllowed = false) (c1 : 1 ≤ s.col) (c2 : s.col ≤ s.width)
    (hr : s.bottom < s.row) :
    wrapAround s true =
      { s with chars := scrollUpChars s.width s.chars s.top s.bottom,
               wraps := scrollUpWraps s.wraps s.top s.bottom, row := s.bottom } := by
  rw [wrapAround_eq, if_neg (by simp [hb])]
  have e : ({ s with bottomAllowed := false } : St) = s := by cases s; simp_all
  rw [e]
  have e1 : wrapCol s true = s := by unfold wrapCol; rw [if_neg (by omega), if_neg (by omega)]
  rw [e1]
  unfold wrapRow
  rw [if_pos hr]
  simp only [if_true]
  unfold scroll
  simp only []
  split <;> rfl

theorem getWrap_set_ne {s u : St} (r r' : Nat) (v : Bool) (hu : u.wraps = s.wraps.set (pyRow s.wraps.length r') v)
    (h1 : 1 ≤ r) (h2 : 1 ≤ r') (h : r ≠ r') : getWrap u r = getWrap s r := by
  unfold getWrap
  rw [hu]
  unfold pyRow
  simp only [List.length_set]
  rw [if_neg (by omega), if_neg (by omega), List.getD_eq_getElem?_getD, List.getD_eq_getElem?_getD,
    List.getElem?_set_ne (by omega)]

theorem scrollUpWraps_bottom (wr : List Bool) (top bottom : Nat) (h1 : 1 ≤ top) (h2 : top ≤ bottom)
    (h3 : bottom < wr.length) : (scrollUpWraps wr top bottom).getD (bottom - 1) false = false := by
  have hi : (pyInsert bottom false wr)[bottom - 1 + 1]? = some false := by
    rw [getElem?_pyInsert _ _ _ (by omega), if_neg (by omega), if_pos (by omega)]
  have key : ∀ (i : Nat) (x : Bool), i ≠ bottom →
      (if (pyInsert bottom false wr).getD i false = true then (pyInsert bottom false wr).set i x
       else pyInsert bottom false wr)[bottom - 1 + 1]? = some false := by
    intro i x hne
    split
    · rw [List.getElem?_set_ne (by omega), hi]
    · exact hi
  unfold scrollUpWraps
  simp only []
  rw [List.getD_eq_getElem?_getD, getElem?_pyDel, if_neg (by omega), key]
  · rfl
  · rw [length_pyInsert]; split <;> omega

theorem writeChar_mid {s : St} (ch : Nat) (hb : s.bottomAllowed = false) (ho : s.overflow = false) (c1 : 1 ≤ s.col)
    (hcw : s.col < s.width) (r1 : s.top ≤ s.row) (r2 : s.row ≤ s.bottom) :
    writeChar s ch false = { s with chars := putCell s.chars s.row s.col ch, col := s.col + 1 } := by
  rw [writeChar_eq, consumeOverflow_none ho (by omega), wrapAround_id true hb c1 (by omega) r1 r2]
  have e : putAdvance s ch = { s with chars := putCell s.chars s.row s.col ch, col := s.col + 1 } := by
    unfold putAdvance; simp only []; rw [if_pos hcw]
  rw [e]
  exact wrapAround_id (s := { s with chars := putCell s.chars s.row s.col ch, col := s.col + 1 }) true hb
    (by simp) (by simp only []; omega) r1 r2

theorem writeChar_last {s : St} (ch : Nat) (hb : s.bottomAllowed = false) (ho : s.overflow = false)
    (hcw : s.col = s.width) (c1 : 1 ≤ s.col) (r1 : s.top ≤ s.row) (r2 : s.row ≤ s.bottom)
    (hwr : getWrap s s.row = false) :
    writeChar s ch false = { s with chars := putCell s.chars s.row s.col ch, overflow := true } := by
  rw [writeChar_eq, consumeOverflow_none ho (by omega), wrapAround_id true hb c1 (by omega) r1 r2]
  have e : putAdvance s ch = { s with chars := putCell s.chars s.row s.col ch, overflow := true } := by
    unfold putAdvance; simp only []; rw [if_neg (by omega)]
    have : getWrap { s with chars := putCell s.chars s.row s.col ch } s.row = false := hwr
    rw [this]; rfl
  rw [e]
  exact wrapAround_id (s := { s with chars := putCell s.chars s.row s.col ch, overflow := true }) true hb
    c1 (by simp only []; omega) r1 r2

theorem writeChar_pend_next {s : St} (ch : Nat) (hb : s.bottomAllowed = false) (ho : s.overflow = true)
    (hc : s.col = s.width) (w2 : 2 ≤ s.width) (r1 : s.top ≤ s.row) (r2 : s.row < s.bottom) (b24 : s.bottom ≤ 24) :
    writeChar s ch false =
      { s with chars := putCell s.chars (s.row + 1) 1 ch,
               wraps := pendWraps s, row := s.row + 1, col := 2,
               overflow := false } := by
  rw [writeChar_eq, consumeOverflow_pending ho hc (by omega)]
  rw [wrapAround_id (s := { s with wraps := pendWraps s, row := s.row + 1, col := 1, overflow := false }) true hb (by simp) (by simp only []; omega) (by simp only []; omega)
        (by simp only []; omega)]
  have e : putAdvance { s with wraps := pendWraps s, row := s.row + 1,
                               col := 1, overflow := false } ch =
      { s with chars := putCell s.chars (s.row + 1) 1 ch,
               wraps := pendWraps s, row := s.row + 1, col := 2,
               overflow := false } := by
    unfold putAdvance; simp only []; rw [if_pos (by omega)]
  rw [e]
  exact wrapAround_id (s := { s with chars := putCell s.chars (s.row + 1) 1 ch, wraps := pendWraps s, row := s.row + 1, col := 2, overflow := false }) true hb (by simp) (by simp only []; omega) (by simp only []; omega)
        (by simp only []; omega)

theorem writeChar_pend_scroll {s : St} (ch : Nat) (hb : s.bottomAllowed = false) (ho : s.overflow = true)
    (hc : s.col = s.width) (w2 : 2 ≤ s.width) (tb : s.top ≤ s.bottom) (r2 : s.row = s.bottom) (b24 : s.bottom ≤ 24) :
    writeChar s ch false =
      { s with chars := putCell (scrollUpChars s.width s.chars s.top s.bottom) s.bottom 1 ch,
               wraps := scrollUpWraps (pendWraps s) s.top s.bottom,
               row := s.bottom, col := 2, overflow := false } := by
  rw [writeChar_eq, consumeOverflow_pending ho hc (by omega)]
  rw [wrapAround_scrolls (s := { s with wraps := pendWraps s, row := s.row + 1, col := 1, overflow := false }) hb (by simp) (by simp only []; omega) (by simp only []; omega)]
  simp only []
  have e : putAdvance { s with chars := scrollUpChars s.width s.chars s.top s.bottom,
                               wraps := scrollUpWraps (pendWraps s) s.top s.bottom,
                               row := s.bottom, col := 1, overflow := false } ch =
      { s with chars := putCell (scrollUpChars s.width s.chars s.top s.bottom) s.bottom 1 ch,
               wraps := scrollUpWraps (pendWraps s) s.top s.bottom,
               row := s.bottom, col := 2, overflow := false } := by
    unfold putAdvance; simp only []; rw [if_pos (by omega)]
  rw [e]
  exact wrapAround_id (s := { s with chars := putCell (scrollUpChars s.width s.chars s.top s.bottom) s.bottom 1 ch, wraps := scrollUpWraps (pendWraps s) s.top s.bottom, row := s.bottom, col := 2, overflow := false }) true hb (by simp) (by simp only []; omega)
        (by simp only []; omega) (by simp only []; omega)

/-- plain text: no byte that `Console.write` treats as a control character -/
def Plain (l : List Nat) : Prop := ∀ c ∈ l, isControl c = false

theorem consoleByte_plain (s : St) (c : Nat) (h : isControl c = false) : consoleByte s c = writeChar s c false := by
  unfold isControl at h
  simp only [Bool.or_eq_false_iff, beq_eq_false_iff_ne, ne_eq] at h
  unfold consoleByte
  obtain ⟨⟨⟨⟨⟨⟨⟨⟨⟨a, b⟩, c'⟩, d⟩, e⟩, f⟩, g⟩, h'⟩, i⟩, j⟩ := h
  rw [if_neg a, if_neg (by omega), if_neg d, if_neg e, if_neg f, if_neg g, if_neg h', if_neg i, if_neg j]

theorem consoleWrite_plain (s : St) (l : List Nat) (h : Plain l) :
    consoleWrite s l = writeChars (setWrap s s.row false) l false ∨ (l = [] ∧ consoleWrite s l = s) := by
  cases l with
  | nil => right; exact ⟨rfl, rfl⟩
  | cons c cs =>
    left
    unfold consoleWrite writeChars
    simp only [List.isEmpty_cons, Bool.false_eq_true, if_false]
    generalize setWrap s s.row false = u
    have hp : ∀ x ∈ (c :: cs), isControl x = false := h
    generalize (c :: cs) = l at hp
    induction l generalizing u with
    | nil => rfl
    | cons x xs ih =>
      simp only [List.foldl_cons]
      rw [consoleByte_plain u x (hp x List.mem_cons_self)]
      exact ih _ (fun y hy => hp y (List.mem_cons_of_mem _ hy))

theorem getWrap_setWrap_false (s : St) (r r' : Nat) (h : getWrap s r = false) : getWrap (setWrap s r' false) r = false := by
  unfold getWrap setWrap at *
  simp only [List.length_set]
  rw [List.getD_eq_getElem?_getD] at *
  by_cases e : pyRow s.wraps.length r' = pyRow s.wraps.length r
  · rw [e]
    by_cases hl : pyRow s.wraps.length r < s.wraps.length
    · rw [List.getElem?_set_self hl]; rfl
    · rw [List.getElem?_eq_none (by simp only [List.length_set]; omega)]; rfl
  · rw [List.getElem?_set_ne e]; exact h

/-- where CSRLIN/POS say the typewriter is -/
def TW.reported (W bottom : Nat) (t : TW) : Nat × Nat :=
  if t.c = W + 1 then ((if t.r < bottom then t.r + 1 else t.r), 1) else (t.r, t.c)

theorem setPos_home {u : St} (r : Nat) (ok : Bool) (hw : 1 < u.width) (r1 : u.top ≤ r) (r2 : r ≤ u.bottom)
    (b24 : u.bottom ≤ 24) :
    setPos u r 1 ok = { u with row := r, col := 1, overflow := false, bottomAllowed := false } := by
  unfold setPos
  simp only []
  rw [if_pos hw, wrapAround_eq, if_neg (by simp only [height]; omega)]
  have e1 : wrapCol { u with row := r, col := 1, overflow := false, bottomAllowed := false } ok =
      { u with row := r, col := 1, overflow := false, bottomAllowed := false } := by
    unfold wrapCol; simp only []; rw [if_neg (by omega), if_neg (by omega)]
  simp only []
  rw [e1]
  unfold wrapRow
  simp only []
  rw [if_neg (by omega), if_neg (by omega)]

theorem mid_const {α : Type} (A M C : List α) (x v : α) (i : Nat) (hA : A.length ≤ i)
    (hC : i < A.length + M.length ∨ C = []) (h : (A ++ M.map (fun _ => x) ++ C)[i]? = some v) : v = x := by
  rw [List.getElem?_append] at h
  split at h
  · rw [List.getElem?_append_right hA, List.getElem?_map] at h
    cases hm : M[i - A.length]? with
    | none => simp [hm] at h
    | some y => simp [hm] at h; exact h.symm
  · rename_i hlt
    rcases hC with hC | hC
    · simp at hlt; omega
    · subst hC; simp at h

theorem clear_side {α : Type} (l : List α) (a b i : Nat) (h1 : a - 1 ≤ i) (h2 : i < b) :
    (l.take (a - 1)).length ≤ i ∧
    (i < (l.take (a - 1)).length + ((l.drop (a - 1)).take (b - (a - 1))).length ∨ l.drop (max b (a - 1)) = []) := by
  refine ⟨by simp; omega, ?_⟩
  by_cases hb : b ≤ l.length
  · left; simp; omega
  · right; exact List.drop_eq_nil_of_le (by omega)

theorem getD_clearRowsWraps_in (wr : List Bool) (a b i : Nat) (h1 : a - 1 ≤ i) (h2 : i < b) :
    (clearRowsWraps wr a b).getD i false = false := by
  unfold clearRowsWraps
  rw [List.getD_eq_getElem?_getD]
  cases h : (wr.take (a - 1) ++ List.map (fun _ => false) ((wr.drop (a - 1)).take (b - (a - 1))) ++
      wr.drop (max b (a - 1)))[i]? with
  | none => rfl
  | some v =>
    obtain ⟨s1, s2⟩ := clear_side wr a b i h1 h2
    rw [mid_const _ _ _ _ _ _ s1 s2 h]; rfl

theorem cell_blank_of_row (ch : List (List Nat)) (w r c : Nat) (h : ch[r - 1]? = some (blankRow w) ∨ ch[r - 1]? = none) :
    cell ch r c = 32 := by
  rw [cell_eq]
  rcases h with h | h
  · rw [h]; simp only [Option.getD_some, blankRow]
    rw [List.getD_eq_getElem?_getD, List.getElem?_replicate]
    split <;> rfl
  · rw [h]; rfl

theorem getElem?_clearRowsChars_in (w : Nat) (ch : List (List Nat)) (a b i : Nat) (h1 : a - 1 ≤ i) (h2 : i < b) :
    (clearRowsChars w ch a b)[i]? = some (blankRow w) ∨ (clearRowsChars w ch a b)[i]? = none := by
  unfold clearRowsChars
  cases h : (ch.take (a - 1) ++ List.map (fun _ => blankRow w) ((ch.drop (a - 1)).take (b - (a - 1))) ++
      ch.drop (max b (a - 1)))[i]? with
  | none => right; rfl
  | some v =>
    left
    obtain ⟨s1, s2⟩ := clear_side ch a b i h1 h2
    rw [mid_const _ _ _ _ _ _ s1 s2 h]

/-- what `typewriter_refinement` needs of its starting state -/
structure Ready (u : St) : Prop where
  inv : Inv u
  home : u.row = u.top ∧ u.col = 1
  inwin : u.row ≤ u.bottom
  definite : u.overflow = false
  nowrap : NoWrapBelow u
  blank : ∀ r c, u.top ≤ r → r ≤ u.bottom → cell u.chars r c = 32

end PcbV.TextScreen
