import PcbV.Model.Funnel
import PcbV.Model.IntOps
import PcbV.Lemmas.MbfBasic
import PcbV.Props.C44
/-
  C01 — no BASIC input produces an internal interpreter error (PARTIAL: site theorems).
  The global claim over all programs is not a theorem; what is proved is, for each modelled host
  call site, that the value handed to the host satisfies the host's precondition for EVERY input
  (so that no host exception can arise there), plus the funnel decision logic.  Everything else is
  covered only by the exploration in props/c01.py (named gap).
-/
namespace PcbV.C01
open PcbV PcbV.Funnel

/-- the funnel lets a host exception escape exactly when it is not one of the converted kinds -/
theorem funnel_escapes_iff (fs io : Bool) (r : Option Raised) :
    (∃ t, funnel fs io r = .escaped t) ↔
      ((∃ t, r = some (.host t)) ∨ (r = some .valueOrArith ∧ fs = false) ∨ (r = some .osError ∧ io = false)) := by
  cases r with
  | none => simp [funnel]
  | some x => cases x <;> cases fs <;> cases io <;> simp [funnel]

/-- RENUM with an active trap: the repaired lookup is total -/
theorem renumTrap_total (m : List (Nat × Nat)) (line : Nat) : ∃ n, renumTrap m line = .ok n :=
  ⟨_, rfl⟩

/-- a trap on a renumbered line follows it, a trap on any other line keeps its number -/
theorem renumTrap_spec (m : List (Nat × Nat)) (line : Nat) :
    renumTrap m line = .ok (match lookup m line with | some n => n | none => line) := by
  unfold renumTrap; cases lookup m line <;> rfl

/-- defect D1 (repaired): trap line 10 below the renumbered range [(20,100),(30,110)] → KeyError -/
theorem renumTrapOld_counterexample : renumTrapOld [(20, 100), (30, 110)] 10 = .error (.host 0) := by decide

/-- PEEK with the documented default configuration: total -/
theorem peekPreset_total (t : Option (List (Nat × Nat))) (a : Nat) : ∃ v, peekPreset t a = .ok v := ⟨_, rfl⟩

/-- defect D4 (repaired): `Session()` then PEEK → TypeError -/
theorem peekPresetOld_counterexample : peekPresetOld none 0 = .error (.host 1) := by decide

/-- `Integer.from_int`: whatever is given to struct.pack_into('<h'/'<H') fits in 16 bits -/
theorem fromInt_pack_ok (n : Int) (u : Bool) (r : Nat) (h : IntOps.fromInt n u = .ok r) : r < 65536 := by
  unfold IntOps.fromInt at h
  cases u <;> simp only [Bool.false_eq_true, if_false, if_true] at h <;> split at h
  · injection h with h; subst h; unfold IntOps.pack; split <;> omega
  · cases h
  · injection h with h; subst h; unfold IntOps.pack; split <;> omega
  · cases h

/-- `_check_limits`: the exponent handed to `int2byte` is a byte -/
theorem checkLimits_byte (f : Mbf.Fmt) (m : Nat) (e : Int) (neg : Bool) (x : Mbf.F)
    (h : Mbf.checkLimits f m e neg = .ok x) : x.e < 256 := by
  unfold Mbf.checkLimits at h
  split at h
  · cases h
  · split at h
    · injection h with h; subst h; simp
    · injection h with h; subst h; simp only; omega

/-- TIME$: every accepted string gives `datetime.datetime` fields in range (C44.parseTime_ok) -/
theorem time_site_ok (s : Bytes) (t : Int × Int × Int) (h : Clock.parseTime s = .ok t) : Clock.TimeOk t :=
  C44.parseTime_ok s t h

/-- DATE$: every accepted string gives a date the host constructor accepts -/
theorem date_site_ok (s : Bytes) (y mo d : Int) (h : Clock.parseDate s = .ok (y, mo, d)) : Clock.DateOk y mo d :=
  (C44.parseDate_ok s y mo d h).1

/-- ENVIRON: every accepted argument gives the host a NUL-free ASCII key and NUL-free value -/
theorem environ_site_ok (env env' : Clock.Env) (s : Bytes) (h : Clock.environSet env s = .ok env') :
    ∃ eqs, Clock.indexOf 61 s = some eqs ∧ Clock.EnvOk (s.take eqs) (s.drop (eqs + 1)) :=
  C44.environSet_ok_envOk env env' s h

/-- DRAW/PLAY pointer operands: whatever the type byte, the repaired lookup yields a type or Illegal function call -/
theorem varptrType_no_host (size : Nat) :
    (∃ t, varptrType size = .ok t) ∨ varptrType size = .error (.basic PcbV.Gen.E.ifc) := by
  unfold varptrType
  cases sizeToType size with
  | none => exact Or.inr rfl
  | some t => exact Or.inl ⟨t, rfl⟩

/-- the unrepaired lookup: type byte 7 (as in `DRAW "U="+CHR$(7)+CHR$(0)+CHR$(1)`) is a KeyError -/
theorem varptrTypeOld_counterexample : varptrTypeOld 7 = .error (.host 2) := by decide

/-- graphics PUT: when the unpacker accepts a buffer, the size record (4 bytes) and all `n` packed bytes lie inside
    it, so `struct.unpack` has its 4 bytes and the slice has exactly `rowBytes * height` bytes (equal rows) -/
theorem spriteBytes_ok (bpp len rowBits height n : Nat) (h : spriteBytes bpp len rowBits height = .ok n) :
    4 + n ≤ len ∧ n = rowBytes bpp rowBits * height := by
  unfold spriteBytes at h
  by_cases h1 : len < 4
  · simp [h1] at h
  · by_cases h2 : len < 4 + rowBytes bpp rowBits * height
    · simp [h1, h2] at h
    · simp [h1, h2] at h
      omega

/-- the unrepaired unpacker: a one-element integer array (2 bytes) is a struct.error -/
theorem spriteBytesOld_counterexample : spriteBytesOld 2 2 0 0 = .error (.host 3) := by decide

/-- POINT: a pixel index that is read lies inside the pixel buffer -/
theorem pointIndex_in_buffer (w h x0 y0 : Nat) (x y a b : Int) (hp : pointIndex w h x0 y0 x y = some (a, b)) :
    0 ≤ a ∧ a < w ∧ 0 ≤ b ∧ b < h := by
  unfold pointIndex at hp
  by_cases h1 : x < 0 ∨ y < 0
  · simp [h1] at hp
  · by_cases h2 : x + x0 < w ∧ y + y0 < h
    · simp [h1, h2] at hp
      omega
    · simp [h1, h2] at hp

/-- the unrepaired test: `SCREEN 1: VIEW (10,10)-(50,50): PRINT POINT(0,199)` reads row 209 of 200 -/
theorem pointIndexOld_counterexample : pointIndexOld 320 200 10 10 0 199 = some (10, 209) := by decide

/-- sound queues: whatever is queued (looping sounds included) the expiry handed to `emit_synch` is a time -/
theorem queueExpiry_total (q : List (Option Int)) (now : Int) : ∃ t, queueExpiry q now = .ok t := by
  unfold queueExpiry
  cases q.getLast? with
  | none => exact ⟨now, rfl⟩
  | some e => cases e with
    | none => exact ⟨now, rfl⟩
    | some t => exact ⟨t, rfl⟩

/-- dropping the fallback: a looping SOUND as last entry (then PLAY on a multi-voice machine) is a TypeError -/
theorem queueExpiryNoFallback_counterexample : queueExpiryNoFallback [some 5, none] 9 = .error (.host 4) := by decide

example : renumTrap [(20, 100), (30, 110)] 10 = .ok 10 ∧ renumTrap [(20, 100), (30, 110)] 30 = .ok 110 := by decide
example : peekPreset none 5 = .ok none ∧ peekPreset (some [(5, 7)]) 5 = .ok (some 7) := by decide
example : varptrType 3 = .ok 3 ∧ spriteBytes 2 10 16 3 = .ok 6 ∧ pointIndex 320 200 10 10 0 189 = some (10, 199) := by decide

end PcbV.C01
