import PcbV.Lemmas.HeapStep
/-
  C10 — String variables keep their values through any memory history.

  Theorems about `PcbV.Heap` (model of strings.py StringSpace, memory.py DataSegment, scalars.py,
  arrays.py and the evaluation-stack discipline of expressions.py, *with* the pending repairs C10-*).

  `WF s`  : every pointer cell (string scalars, string array elements, own pointers on the evaluation
            stacks) with non-zero length pointing into string space is a key of the string map with that
            length; the blocks are non-empty, pairwise disjoint, above `current`, not above the top.
  abstract state : `absScalars`, `absArrays`, `absStack` (name ↦ bytes read through the pointers).

  Proved at full strength: the compacting collector (both loops, the stable sort, the write-back
  through views including several views of one cell) never crashes on a well-formed heap, preserves
  well-formedness and every readable value, never moves `current` down, and leaves string space
  exactly filled (FRE accounting); `check_free` fails only when the free space after a collection is
  insufficient and leaves every value unchanged in that case; storing a new string.
  Boundary invariant (deepening round): `collect_keeps_boundary` proves that the relocation done by the
  collector is monotone and that the re-addressed `_temp` stays below every string that was above it, so
  "every variable-owned string lies above `_temp`" survives a collection.  With it the invariant
  `Inv` (well-formed, no pointer into the program text, variable-owned strings above `_temp`,
  `current ≤ _temp` or string space empty, evaluation stacks unwound) is preserved by every covered
  statement from any invariant state (`step_preserves_invariant_partial`) and hence along arbitrary
  histories from a fresh session (`history_invariant_partial`); in every such state
  `reset_temporaries` is safe without further hypothesis (`reset_temporaries_in_invariant`).
  Still open: (a) the statements MID$, LSET/RSET and the program-literal assignment `letCode` are not
  covered by the history theorems (they are by the correspondence); (b) the abstract refinement of
  whole statements (abs (step s op) = specOp (abs s)) is proved only at the level of the primitives
  (collector, check_free, store, reset_temporaries), not yet composed per statement.
-/
namespace PcbV.C10
open PcbV PcbV.Heap

/-- On a well-formed heap the collector never meets a detached string (no Python KeyError). -/
theorem collect_total (s : Heap) (hs : WF s) : ∃ s', collect s = .ok s' :=
  Heap.collect_total_lem s hs

/-- **Garbage collection never changes a live value.**  The compacting collector keeps the heap
    well-formed and every scalar, every array element and every value on the evaluation stacks reads
    back exactly what it read before (also when several roots are views of the same cell). -/
theorem gc_preserves (s s' : Heap) (hs : WF s) (h : collect s = .ok s') :
    WF s' ∧ absScalars s' = absScalars s ∧ absArrays s' = absArrays s ∧ absStack s' = absStack s :=
  Heap.gc_preserves_lem s s' hs h

/-- A collection never loses space: `current` does not move down (strings only move up). -/
theorem gc_never_loses_space (s s' : Heap) (hs : WF s) (h : collect s = .ok s') :
    s.current ≤ s'.current ∧ free s ≤ free s' :=
  Heap.gc_never_loses_space_lem s s' hs h

/-- **FRE accounting.**  After a collection string space is filled without gaps from the top:
    `current + (bytes stored) = stack_start`, so FRE = memory top − program/variables/arrays (`used`)
    − string bytes. -/
theorem fre_accounting (s s' : Heap) (hs : WF s) (h : collect s = .ok s') :
    s'.top = s.top ∧ used s' = used s ∧ s'.current + sumLen s'.strs = s'.top ∧
    (used s' ≤ s'.current → free s' + used s' + sumLen s'.strs = s'.top) :=
  Heap.fre_accounting_lem s s' hs h

/-- `check_free`: success leaves room, failure happens only after a collection; in both cases the
    heap stays well-formed and no value changes. -/
theorem checkFree_sound (size err : Nat) (s : Heap) (hs : WF s) :
    match checkFree size err s with
    | .ok s' => WF s' ∧ lowMem s' size = false ∧
        absScalars s' = absScalars s ∧ absArrays s' = absArrays s ∧ absStack s' = absStack s
    | .error (e, s') => e = err ∧ collect s = .ok s' ∧ lowMem s' size = true ∧ WF s' ∧
        absScalars s' = absScalars s ∧ absArrays s' = absArrays s ∧ absStack s' = absStack s :=
  Heap.checkFree_sound_lem size err s hs

/-- **Out of memory / Out of string space only when needed**: `check_free` raises its error only
    if, after a collection (which never loses space and fills string space exactly), the free space
    `current − used` is still not larger than the requested size. -/
theorem oom_only_when_needed (size err e : Nat) (s s' : Heap) (hs : WF s)
    (h : checkFree size err s = .error (e, s')) :
    e = err ∧ collect s = .ok s' ∧ free s' ≤ size ∧ s'.current + sumLen s'.strs = s'.top :=
  Heap.oom_only_when_needed_lem size err e s s' hs h

/-- Storing a new string (`StringSpace.store`, pointer left on the evaluation stack): on success the
    heap is well-formed, no variable changes and the new stack item reads the stored bytes; on failure
    (String too long / Out of string space) nothing readable changes. -/
theorem allocPush_sound (b : Bytes) (s : Heap) (hs : WF s) :
    match allocPush b s with
    | .ok s' => WF s' ∧ absScalars s' = absScalars s ∧ absArrays s' = absArrays s ∧
        absStack s' = absStack s ++ [b]
    | .error (_, s') => WF s' ∧ absScalars s' = absScalars s ∧ absArrays s' = absArrays s ∧
        absStack s' = absStack s :=
  Heap.allocPush_sound_lem b s hs

/-- `reset_temporaries` (delete the temporary left at the top of string space by the previous
    expression, move the boundary): **partial** — safe under the explicit hypothesis that no cell
    still references the block at `current + 1` when the boundary differs from `current`.  Missing for
    the full statement: the boundary invariant (every variable-owned string lies above `_temp`, also
    after a collection re-addresses `_temp`), which makes the hypothesis true in every reachable
    state; see the header. -/
theorem reset_temporaries_partial (s : Heap) (hs : WF s)
    (hsafe : s.temp ≠ s.current → ∀ l p, getLoc s l = some p → 0 < p.len → p.addr ≠ s.current + 1) :
    WF (resetTemps s) ∧ (resetTemps s).temp = (resetTemps s).current ∧
    absScalars (resetTemps s) = absScalars s ∧ absArrays (resetTemps s) = absArrays s ∧
    absStack (resetTemps s) = absStack s := by
  unfold resetTemps
  by_cases ht : s.temp ≠ s.current
  · rw [if_pos ht]
    obtain ⟨hw, hg, hd, hsh, _⟩ := deleteLast_sound s hs (hsafe ht)
    have hg' : ∀ l, getLoc { deleteLast s with temp := (deleteLast s).current } l = getLoc s l :=
      fun l => (getLoc_congr _ (deleteLast s) rfl rfl rfl l).trans (hg l)
    refine ⟨⟨hw.blocks, fun l p hp => ?_⟩, rfl, ?_⟩
    · rw [hg'] at hp
      rw [← hg] at hp
      exact hw.live l p hp
    · apply abs_eq_of_cells (t := { deleteLast s with temp := (deleteLast s).current }) ⟨hsh.sc, hsh.ar, hsh.st⟩
      intro l
      rw [hg']
      cases hp : getLoc s l with
      | none => rfl
      | some p =>
        simp only [Option.map]
        congr 1
        exact (deref_congr (deleteLast s) _ p rfl rfl rfl rfl).trans (hd l p hp)
  · rw [if_neg ht]
    refine ⟨⟨hs.blocks, fun l p hp => hs.live l p hp⟩, rfl, rfl, rfl, rfl⟩

/-! ### non-vacuity -/

/-- a fresh session is well-formed -/
theorem init_WF (cs vs total stk : Nat) (code : List (Nat × Bytes)) : WF (init cs vs total stk code) := by
  constructor
  · exact Nat.le_refl _
  · intro l p hp
    cases l with
    | v l => cases l <;> simp [getLoc, getV, init] at hp
    | s k => simp [getLoc, init] at hp

/-- the default GW-BASIC configuration with no program -/
def demo : Heap := init 4717 4720 65534 512 []

def aS : Bytes := [65, 36]     -- A$
def bS : Bytes := [66, 36]     -- B$

/-- A$="ab" : B$=A$+A$+STR$(FRE("")) : PRINT FRE("") — the values and the FRE result of the model -/
example :
    let s := run demo [.letE (.sc aS) (.lit [97, 98]),
                        .letE (.sc bS) (.cat (.cat (.var (.sc aS)) (.var (.sc aS))) .frestr)]
    readDst s (.sc aS) = [97, 98] ∧ readDst s (.sc bS) = [97, 98, 97, 98, 32, 54, 48, 50, 56, 48]
      ∧ (step s .freStr).2 = .val 60274 := by decide +kernel

/-- the collector really runs (and is satisfiable with aliased roots): a state with a variable, a
    view of it and a temporary on the stack -/
def demo2 : Heap :=
  { demo with scalars := [(aS, ⟨2, 65000⟩)], scalBytes := 7, strs := [(64990, [120]), (65000, [97, 98])],
              current := 64989, temp := 64999, stack := [.ref (.sc 0), .own ⟨1, 64990⟩] }

example : (match collect demo2 with
           | .ok s => (absScalars s, absStack s, s.current, s.temp, s.strs.length)
           | .error _ => ([], [], 0, 0, 0))
    = ([(aS, [97, 98])], [[97, 98], [120]], 65017, 65018, 2) := by decide +kernel

/-! ### the code before the repairs -/

/-- D16: `Y$="c"+STR$(FRE(""))` with no permanent string: the old collector sets `_temp = None` and
    the next `is_permanent` comparison raises a Python TypeError. -/
def d16 : Heap := { demo with strs := [(65020, [99])], current := 65019, temp := 65020, stack := [.own ⟨1, 65020⟩] }

theorem D16_counterexample :
    (collectOld d16).map (·.2) = some none ∧ isPermanentOld none 65020 = none := by decide +kernel

/-- the same with a permanent variable whose one-byte string sits at the very top of string space:
    the old sentinel search (`addr < stack_start`) does not see it -/
def d16b : Heap := { demo with scalars := [(aS, ⟨1, 65020⟩)], scalBytes := 7, strs := [(65020, [99])],
                               current := 65019, temp := 65019 }

theorem sentinel_at_top_counterexample :
    (collectOld d16b).map (·.2) = some none ∧
    (match collect d16b with | .ok s => s.temp | .error _ => 0) = 65019 := by decide +kernel

/-- a view of a variable on the evaluation stack made the old collector store the string twice; in a
    nearly full memory the second copy lands below the variable area and the variable reads garbage
    (here: the empty string) — "garbage collection never changes a live value" was false -/
def dup : Heap :=
  { (init 10 96 614 512 []) with
    scalars := [(aS, ⟨3, 98⟩)]
    strs := [(98, [65, 66, 67])]
    current := 97
    temp := 97
    stack := [.ref (.sc 0)] }

theorem duplicate_view_counterexample :
    (collectOld dup).map (fun r => absScalars r.1) = some [(aS, [])] ∧
    (match collect dup with | .ok s => absScalars s | .error _ => []) = [(aS, [65, 66, 67])] := by
  decide +kernel

/-- the old `get_stack` left the evaluation stack of a failed statement in place: the dead temporary
    stays a root, and after CLEAR the next collection dereferences a detached string (KeyError) -/
theorem stack_leak_counterexample :
    let s1 := (stepOld demo (.letE (.sc aS) (.cat (.lit [120]) (.var (.el [82, 36] 50))))).1
    let s2 := (stepOld s1 (.clear 65534)).1
    (stepOld demo (.letE (.sc aS) (.cat (.lit [120]) (.var (.el [82, 36] 50))))).2 = .err 9 ∧
    s1.stack = [.own ⟨1, 65020⟩] ∧ (stepOld s2 .freStr).2 = .err crash ∧
    (step (step (step demo (.letE (.sc aS) (.cat (.lit [120]) (.var (.el [82, 36] 50))))).1 (.clear 65534)).1
       .freStr).2 = .val 60300 := by decide +kernel

/-! ### the temporaries boundary through collections and along statement histories -/

/-- **The boundary invariant survives a collection**: if every variable-owned non-empty string lies
    above `_temp` (`Perm`), then after `collect` the same holds for the re-addressed `_temp`, and
    `current ≤ _temp`.  More generally every non-empty string that lay above the old boundary lies
    above the new one, whatever root holds it. -/
theorem collect_keeps_boundary (s s' : Heap) (hs : WF s) (hp : Perm s) (h : collect s = .ok s') :
    Perm s' ∧ s'.current ≤ s'.temp ∧
    (∀ l p0 p, getLoc s l = some p0 → getLoc s' l = some p → 0 < p0.len → s.varStart ≤ p0.addr →
      s.temp < p0.addr → s'.temp < p.addr) :=
  ⟨(collect_perm s s' hs hp h).1, (collect_perm s s' hs hp h).2, (collect_boundary s s' hs h).2.1⟩

/-- In every state satisfying the history invariant `reset_temporaries` is safe: the heap stays
    well-formed and invariant and no variable changes (the hypothesis of
    `reset_temporaries_partial` is discharged by the invariant). -/
theorem reset_temporaries_in_invariant (s : Heap) (h : Inv s) :
    Inv (resetTemps s) ∧ WF (resetTemps s) ∧ (resetTemps s).temp = (resetTemps s).current ∧
    absScalars (resetTemps s) = absScalars s ∧ absArrays (resetTemps s) = absArrays s := by
  obtain ⟨hst, hstk, _, _, ha1, ha2⟩ := resetTemps_strong s h.1 h.2
  refine ⟨⟨hst.core, hstk⟩, hst.wf, ?_, ha1, ha2⟩
  unfold resetTemps; rfl

/-- Every covered statement (LET with any expression incl. `STR$(FRE(""))`, SWAP, ERASE, DIM,
    FRE(""), FRE(0), CLEAR ,n, numeric allocation), succeeding or failing, leads from an invariant
    state to an invariant state; in particular the heap stays well-formed.  **Partial**: MID$,
    LSET/RSET and `letCode` are not covered. -/
theorem step_preserves_invariant_partial (s : Heap) (op : Op) (hc : Covered op) (h : Inv s) :
    Inv (step s op).1 ∧ WF (step s op).1 :=
  ⟨step_inv op hc s h, (step_inv op hc s h).1.wf⟩

/-- a fresh session satisfies the invariant -/
theorem init_Inv (cs vs total stk : Nat) (code : List (Nat × Bytes)) : Inv (init cs vs total stk code) := by
  have hnone : ∀ l, getLoc (init cs vs total stk code) l = none := by
    intro l
    cases l with
    | v l => cases l <;> simp [getLoc, getV, init]
    | s k => simp [getLoc, init]
  refine ⟨⟨init_WF cs vs total stk code, fun l p hp => ?_, fun l p hp => ?_, Or.inl rfl⟩, rfl⟩
  · rw [hnone] at hp; cases hp
  · rw [hnone] at hp; cases hp

/-- **Arbitrary histories**: after any sequence of covered statements from a fresh session the heap is
    well-formed, every variable-owned string lies above the temporaries boundary, and
    `reset_temporaries` is safe.  **Partial** as above (statement subset; value refinement only for
    the primitives). -/
theorem history_invariant_partial (cs vs total stk : Nat) (code : List (Nat × Bytes)) (ops : List Op)
    (hc : ∀ op ∈ ops, Covered op) :
    Inv (run (init cs vs total stk code) ops) ∧ WF (run (init cs vs total stk code) ops) ∧
    Perm (run (init cs vs total stk code) ops) ∧ WF (resetTemps (run (init cs vs total stk code) ops)) := by
  have h := run_inv ops hc _ (init_Inv cs vs total stk code)
  exact ⟨h, h.1.wf, h.1.perm, (reset_temporaries_in_invariant _ h).2.1⟩

/-- the covered statements are not vacuous: a history with temporaries, a forced collection inside an
    expression, SWAP, ERASE and CLEAR -/
example : ∀ op ∈ [Op.letE (.sc aS) (.cat (.lit [97]) .frestr), .swap (.sc aS) (.sc bS), .dim [82, 36] 3,
    .erase [82, 36], .freStr, .clear 6000], Covered op := by
  intro op hop
  simp only [List.mem_cons, List.mem_nil_iff, or_false] at hop
  rcases hop with h | h | h | h | h | h <;> subst h <;> trivial

end PcbV.C10
