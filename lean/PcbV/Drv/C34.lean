import PcbV.Model.VideoMem
/-
  Driver for C34.  One request = one history on one screen mode:
    hist <mode name> <number of pages> <op>;<op>;…          reply: ok <r1>;<r2>;…   (one result per op, "-" if none)
  ops (fields separated by ':', numbers decimal, addresses absolute = segment*16+offset):
    R:page:x0:y0:x1:y1:v   fill the rectangle (inclusive) with value v           (LINE …,BF on the real side)
    W:page:row:col:attr:hex write characters with an attribute from (row, col), 0-based, text modes
    k:addr                  PEEK                      -> value
    p:addr:v                POKE
    g:addr:n                block read (BSAVE)        -> hex
    s:addr:hex              block write (BLOAD)
    G:addr:n                n single-byte reads       -> hex
    S:addr:hex              single-byte writes
    P:v                     OUT &H3CF,v  (EGA read plane)
    M:v                     OUT &H3C5,v  (EGA write plane mask)
    x:page:y:x0:n           n values of row y from x0 -> hex     (pixel attributes / text bytes)
    X:name:np               SCREEN / WIDTH leading to mode `name` with np pages (switchMode)
    Z:name:np               CLEAR ,,,n with a new size: forced rebuild as mode `name` with np pages (resetMode)
  old <mode name> <number of pages> walk:addr:n:f | get:addr:n | text:addr:n   the code before the repair, blank screen
-/
namespace PcbV.Drv.C34
open PcbV PcbV.VideoMem PcbV.Gen.Modes

def nats (fs : List String) : Option (List Nat) := fs.mapM String.toNat?

def fillRect (s : Scr) (page : Int) (x0 y0 x1 y1 v : Nat) : Scr :=
  fun p y x => if p = page ∧ x0 ≤ x ∧ x ≤ x1 ∧ y0 ≤ y ∧ y ≤ y1 then v else s p y x

def writeText (s : Scr) (page : Int) (row col attr : Nat) (chars : List Nat) : Scr :=
  fun p y x =>
    if p = page ∧ y = row ∧ 2 * col ≤ x ∧ x < 2 * (col + chars.length) then
      (if x % 2 = 0 then chars.getD (x / 2 - col) 0 else attr)
    else s p y x

def runRuns (rs : List Run) : String :=
  if rs.isEmpty then "-" else ",".intercalate (rs.map fun r =>
    s!"{r.page}/{r.x}/{r.y}/{r.ofs}/{r.len}")

def step (m : Mode) (np : Nat) (s : St) (op : String) : Option (St × String) :=
  match op.splitOn ":" with
  | "R" :: rest =>
    match nats rest with
    | some [page, x0, y0, x1, y1, v] => some ({ s with pix := fillRect s.pix page x0 y0 x1 y1 v }, "-")
    | _ => none
  | ["W", page, row, col, attr, h] =>
    match nats [page, row, col, attr], ofHex h with
    | some [page, row, col, attr], some cs => some ({ s with pix := writeText s.pix page row col attr cs }, "-")
    | _, _ => none
  | ["k", a] => a.toNat?.map fun a => (s, toString (peek m np s a))
  | ["p", a, v] =>
    match nats [a, v] with
    | some [a, v] => some (poke m np s a v, "-")
    | _ => none
  | ["g", a, n] =>
    match nats [a, n] with
    | some [a, n] => some (s, toHex (getMemory m np s a n))
    | _ => none
  | ["s", a, h] =>
    match a.toNat?, ofHex h with
    | some a, some bs => some (setMemory m np s a bs, "-")
    | _, _ => none
  | ["G", a, n] =>
    match nats [a, n] with
    | some [a, n] => some (s, toHex (bytewiseGet m np s a n))
    | _ => none
  | ["S", a, h] =>
    match a.toNat?, ofHex h with
    | some a, some bs => some (bytewiseSet m np s a bs, "-")
    | _, _ => none
  | ["P", v] => v.toNat?.map fun v => ({ s with plane := v }, "-")
  | ["M", v] => v.toNat?.map fun v => ({ s with mask := v }, "-")
  | "x" :: rest =>
    match nats rest with
    | some [page, y, x0, n] => some (s, toHex ((List.range n).map fun t => s.pix page y (x0 + t)))
    | _ => none
  | _ => none

def runOps : Machine → List String → List String → String
  | _, [], acc => "ok " ++ joinWith ";" acc.reverse
  | mc, op :: ops, acc =>
    match op.splitOn ":" with
    | ["X", name, np] =>
      match findMode name, np.toNat? with
      | some m, some np => runOps (switchMode mc m np) ops ("-" :: acc)
      | _, _ => "bad-op"
    | ["Z", name, np] =>
      match findMode name, np.toNat? with
      | some m, some np => runOps (resetMode mc m np) ops ("-" :: acc)
      | _, _ => "bad-op"
    | _ =>
      match step mc.mode mc.np mc.st op with
      | some (s', r) => runOps { mc with st := s' } ops (r :: acc)
      | none => "bad-op"

def handle : List String → String
  | ["hist", name, np, ops] =>
    match findMode name, np.toNat? with
    | some m, some np => runOps ⟨m, np, initSt m⟩ (ops.splitOn ";") []
    | _, _ => "bad-op"
  | ["old", name, np, op] =>
    match findMode name, np.toNat? with
    | some m, some np =>
      let s : St := ⟨initScr m, 0, 255⟩
      match op.splitOn ":" with
      | "walk" :: rest =>
        match nats rest with
        | some [a, n, f] => "ok " ++ runRuns (oldWalk m np a n f)
        | _ => "bad-op"
      | "text" :: rest =>
        match nats rest with
        | some [a, n] => "ok " ++ toHex (oldGetText m np s a n)
        | _ => "bad-op"
      | _ => "bad-op"
    | _, _ => "bad-op"
  | ["walk", name, np, a, n, f] =>
    match findMode name, nats [np, a, n, f] with
    | some m, some [np, a, n, f] => "ok " ++ runRuns (walk m np a n f)
    | _, _ => "bad-op"
  | _ => "bad-op"

end PcbV.Drv.C34
