/-
  Lemmas for C27 (reusable by C28): results of dos_splitext / dos_is_legal_name / dos_normalise_name /
  _get_native_name are safe host path components.
-/
import PcbV.Lemmas.PathsSafe
namespace PcbV.PathLemmas
open PcbV PcbV.DosNames PcbV.Paths PcbV.Gen.DosTables

/-! ### dos_splitext / dos_is_legal_name / dos_normalise_name -/

theorem mem_splitext (s : Bytes) (x : Nat) (hx : x ∈ s) :
    x = 46 ∨ x ∈ (splitext s).1 ∨ x ∈ (splitext s).2 := by
  induction s with
  | nil => simp at hx
  | cons a s ih =>
    by_cases ha : a = 46
    · subst ha
      rcases List.mem_cons.mp hx with h | h
      · exact Or.inl h
      · right; right; simpa [splitext] using h
    · rcases List.mem_cons.mp hx with h | h
      · right; left; simp [splitext, ha, h]
      · rcases ih h with h1 | h1 | h1
        · exact Or.inl h1
        · right; left
          simp only [splitext] at h1 ⊢
          simp [ha, h1]
        · right; right
          simp only [splitext] at h1 ⊢
          simpa [ha] using h1

theorem no_dot_trunk (s : Bytes) : 46 ∉ (splitext s).1 := by
  simp only [splitext]
  induction s with
  | nil => simp
  | cons a s ih =>
    by_cases ha : a = 46
    · simp [ha]
    · simp only [List.takeWhile_cons, bne_iff_ne, ne_eq, ha, not_false_eq_true, ↓reduceIte,
        List.mem_cons, not_or]
      exact ⟨fun h => ha h.symm, ih⟩

theorem allowable_no_slash : allowable.contains 47 = false := by decide

theorem legal_safe {s : Bytes} (hl : isLegal s = true) (hd : isDots s = false) : SafeName s := by
  have hd' : ¬ (s = [46] ∨ s = [46, 46]) := by rw [← isDots_iff]; simp [hd]
  refine ⟨fun h => hd' (Or.inl h), fun h => hd' (Or.inr h), ?_⟩
  intro hm
  simp only [isLegal, hd, Bool.false_eq_true, ↓reduceIte, Bool.and_eq_true, List.all_eq_true] at hl
  have hall := hl.2
  rcases mem_splitext s 47 hm with h | h | h
  · omega
  · have := hall 47 (List.mem_append_left _ h)
    rw [allowable_no_slash] at this; exact Bool.noConfusion this
  · have := hall 47 (List.mem_append_right _ h)
    rw [allowable_no_slash] at this; exact Bool.noConfusion this

theorem upperB_dot {a : Nat} (h : upperB a = 46) : a = 46 := by
  unfold upperB at h
  split at h <;> omega

theorem take_eq_nil' {α} {l : List α} {k : Nat} (hk : 0 < k) (h : l.take k = []) : l = [] := by
  cases l with
  | nil => rfl
  | cons a t => cases k with
    | zero => omega
    | succ k => simp at h

theorem take3_single {l : List Nat} {x : Nat} (h : l.take 3 = [x]) : l = [x] := by
  match l, h with
  | [a], h => simpa using h
  | [a, b], h => simp at h
  | [a, b, c], h => simp at h
  | a :: b :: c :: d :: t, h => simp at h

theorem normalise_not_dots {n : Bytes} (hd : isDots n = false) : isDots (normalise n) = false := by
  have hd' : ¬ (n = [46] ∨ n = [46, 46]) := by rw [← isDots_iff]; simp [hd]
  cases hr : isDots (normalise n) with
  | false => rfl
  | true =>
    exfalso
    rw [isDots_iff] at hr
    simp only [normalise, hd, Bool.false_eq_true, ↓reduceIte] at hr
    have ht : 46 ∉ (splitext (upper n)).1.take 8 := fun h => no_dot_trunk _ (List.mem_of_mem_take h)
    by_cases he : ((splitext (upper n)).2.take 3).isEmpty = true
    · simp only [he, ↓reduceIte] at hr
      rcases hr with h | h <;> (rw [h] at ht; simp at ht)
    · simp only [he, Bool.false_eq_true, ↓reduceIte] at hr
      have he' : (splitext (upper n)).2.take 3 ≠ [] := by simpa using he
      generalize hT : (splitext (upper n)).1.take 8 = T at hr ht
      generalize hE : (splitext (upper n)).2.take 3 = E at hr he'
      rcases hr with h | h
      · cases T with
        | nil => simp at h; exact he' h
        | cons a T => simp at h
      · cases T with
        | nil =>
          simp at h
          -- E = [46], trunk empty
          have hE1 : (splitext (upper n)).2 = [46] := take3_single (hE.trans h)
          have hT1 : (splitext (upper n)).1 = [] := take_eq_nil' (by omega) hT
          -- so upper n = [46, 46]
          cases hu : upper n with
          | nil => simp [splitext, hu] at hE1
          | cons a u =>
            by_cases ha : a = 46
            · subst ha
              simp [splitext, hu] at hE1
              -- u = [46]
              have hn : n.map upperB = [46, 46] := by
                have : upper n = [46, 46] := by rw [hu, hE1]
                simpa [upper] using this
              cases n with
              | nil => simp at hn
              | cons x n =>
                cases n with
                | nil => simp at hn
                | cons y n =>
                  cases n with
                  | nil =>
                    simp at hn
                    exact hd' (Or.inr (by rw [upperB_dot hn.1, upperB_dot hn.2]))
                  | cons z n => simp at hn
            · simp [splitext, hu, ha] at hT1
        | cons a T =>
          cases T with
          | nil =>
            simp at h
            exact he' h.2
          | cons b T => simp at h

/-! ### dos_to_native_name, _get_native_name -/

theorem dosToNative_some {fs : FS} {path : HostPath} {d : Bytes} {isdir : Bool} {r : HostName}
    (h : dosToNative fs path d isdir = some r) : r = d ∨ scanMatch fs path d isdir r = true := by
  unfold dosToNative at h
  split at h
  · simp at h
  · split at h
    · left; simpa using h.symm
    · split at h
      · simp at h
      · right; exact List.find?_some h

theorem scanMatch_safe {fs : FS} {path : HostPath} {d : Bytes} {isdir : Bool} {f : HostName}
    (hd : isDots d = false) (h : scanMatch fs path d isdir f = true) : SafeName f := by
  simp only [scanMatch, Bool.and_eq_true] at h
  obtain ⟨⟨⟨_, hl⟩, hn⟩, _⟩ := h
  have hn' : normalise f = d := by simpa using hn
  apply legal_safe hl
  cases hf : isDots f with
  | false => rfl
  | true =>
    have : normalise f = f := by simp [normalise, hf]
    rw [this] at hn'; rw [hn'] at hf; rw [hf] at hd; exact hd

theorem rstrip_sub (s : Bytes) : ∀ x, x ∈ rstrip s → x ∈ s := by
  intro x hx
  simp only [rstrip, List.mem_reverse] at hx
  have := (List.dropWhile_sublist (p := isSpace) (l := s.reverse)).subset hx
  simpa using this

theorem dosNameDefext_no_slash {n d : Bytes} (hn : 47 ∉ n) (hd : 47 ∉ d) : 47 ∉ dosNameDefext n d := by
  have h1 : 47 ∉ rstrip n := fun h => hn (rstrip_sub n 47 h)
  unfold dosNameDefext
  simp only []
  split
  · simp only [List.mem_append, List.mem_cons, not_or]
    exact ⟨h1, by omega, hd⟩
  · exact h1

theorem dropLast_no_dots {n : Bytes} (h : n.dropLast.contains 46 = false) : isDots n.dropLast = false := by
  cases hr : isDots n.dropLast with
  | false => rfl
  | true =>
    rw [isDots_iff] at hr
    rcases hr with hr | hr <;> (rw [hr] at h; simp at h)

theorem nativeNameTail_safe {fs : FS} {path : HostPath} {n : Bytes} {isdir create : Bool} {e : Nat} {c : HostName}
    (hs : 47 ∉ n) (hd : isDots n = false)
    (h : nativeNameTail fs path n isdir create e = .ok c) : SafeName c := by
  unfold nativeNameTail at h
  simp only [] at h
  split at h
  · cases h; exact toUni_safe hs hd
  · generalize hn' : (if (n.getLast? == some 46 && !n.dropLast.contains 46) = true then n.dropLast else n) = n' at h
    have hs' : 47 ∉ n' := by
      rw [← hn']; split
      · exact fun hm => hs (List.dropLast_subset n hm)
      · exact hs
    have hd' : isDots n' = false := by
      rw [← hn']; split
      · rename_i hc
        simp only [Bool.and_eq_true, Bool.not_eq_true'] at hc
        exact dropLast_no_dots hc.2
      · exact hd
    split at h
    · cases h; exact toUni_safe hs' hd'
    · split at h
      · cases h
      · have hnd := normalise_not_dots hd'
        rename_i hleg
        have hleg' : isLegal (normalise n') = true := by simpa using hleg
        split at h
        · rename_i c0 f0 hdn
          cases h
          rcases dosToNative_some hdn with hr | hr
          · rw [hr]; exact legal_safe hleg' hnd
          · exact scanMatch_safe hnd hr
        · split at h
          · cases h; exact legal_safe hleg' hnd
          · cases h

theorem nativeName_safe {fs : FS} {path : HostPath} {n defext : Bytes} {isdir create : Bool} {c : HostName}
    (hs : 47 ∉ n) (hx : 47 ∉ defext)
    (h : nativeName fs path n defext isdir create = .ok c) : SafeName c := by
  unfold nativeName at h
  simp only [] at h
  split at h
  · cases h
  · split at h
    · cases h
    · rename_i hdots
      exact nativeNameTail_safe (dosNameDefext_no_slash hs hx) (by simpa using hdots) h

end PcbV.PathLemmas
