"""C36 — the text cursor and the screen content stay consistent."""
import logging

from vlib import basic

LEVEL = 'proof'
RULE = ('one case = one direct-mode statement of a history executed on a real Session, configurations video=vga and '
        '(syntax/video) tandy and pcjr, where VIEW PRINT may include row 25 (windows [t,25], enough lines to scroll '
        'them, LOCATE 25, mode changes that keep them, KEY ON/OFF): PRINT A$ / PRINT A$; '
        'with A$ set through Session.set_variable (plain text of boundary lengths W-1, W, W+1, 2W, 255; control codes '
        'BEL TAB LF VT FF CR 28..31; arbitrary bytes), LOCATE (valid, boundary, out of range, omitted arguments), CLS, '
        'VIEW PRINT (valid, unset, invalid), WIDTH 40/80, SCREEN 0/1/2/7/8/9, S%=SCREEN(r,c); after every statement '
        'CSRLIN, POS(0), the screen width and all 25 rows of Session.get_chars() are compared with the Lean model; '
        'distinct = distinct (statement, reported cursor before, width, window) tuples')
EXPLANATION = ('theorems (PcbV.Props.C36) over all histories of the model: cursor_in_screen, csrlin_pos_report, '
               'report_is_where_next_char_lands, locate_spec, locate_spec_omitted, screen_fn_reads_last_written, '
               'typewriter_refinement, typewriter_closed_form (character k at row top + k div W - scrolls, column '
               'k mod W + 1; also typewriter_no_scroll, closed_form_after_any_history), scroll_only_in_window; correspondence: every step of every history, real Session vs compiled model; '
               'oracle (written from the statement, independent of the model): CSRLIN/POS in range after every step, '
               'valid LOCATE r,c reports exactly r,c and leaves the text alone, out-of-range LOCATE raises Illegal '
               'function call, SCREEN(r,c) equals the cell of the text buffer and the character last written there '
               'by the reference typewriter, a printed character lands at the reported cell, rows outside the VIEW '
               'PRINT window are unchanged by any output while the cursor is inside it, and a Python typewriter '
               '(width W, window [top,bottom], break before a string that does not fit, deferred wrap at column W) '
               'predicts the whole screen for plain-text histories that start from CLS or a mode change')
TRUSTED_BASE = ['model PcbV.Model.TextScreen is a hand transcription of textscreen.py / buffers.py (text part) / '
                'console.py:Console.write / devicebase.py:SCRNFile.write / formatter.py (PRINT of one string) / '
                'display.py (SCREEN, WIDTH, CLS as far as they reset the text screen)',
                'constants (mode widths, WIDTH transitions, height 25, error message) regenerated from /repo '
                '(gen/tables_c36.py)']
ASSUMPTIONS = ['the history theorems (invariant Inv) are about adapters whose VIEW PRINT stops at row 24; the Tandy/PCjr '
               'configuration is run on the model (histt) and compared step by step, the reference typewriter and its '
               'closed form cover windows up to row 25, KEY ON/OFF histories are checked by the oracle only',
               'LOCATE is modelled with its row and column arguments only (cursor visibility/shape arguments: one fixed probe, '
               'known finding C36-F1)',
               'video adapters vga, tandy, pcjr; codepage 437 (no DBCS); KEY OFF in the model (bottom bar hidden), one page, '
               'no graphics VIEW',
               'attributes, pixels and the interface signals are not compared (C35 covers the picture)',
               'the interactive line editor (insert/delete/line feed with scroll_down) is outside the model',
               'row 25 (reachable with LOCATE 25,c) is compared with the model only; the landing/typewriter oracles '
               'apply while the cursor is inside the scroll window']

H = 25
# configurations: the video adapter decides whether VIEW PRINT may include row 25 (TextScreen._tandytext)
CONFIGS = {'vga': dict(video='vga'), 'tandy': dict(video='tandy', syntax='tandy'),
           'pcjr': dict(video='pcjr', syntax='pcjr')}
ROW25 = 'window-to-row-25:no-wrap-on-row-25'
CONTROL = (7, 9, 10, 11, 12, 13, 28, 29, 30, 31)
GRAPHICS_WIDTH = {1: 40, 2: 80, 7: 40, 8: 80, 9: 80}
TO_WIDTH = {1: {40: 1, 80: 2}, 2: {40: 1, 80: 2}, 7: {40: 7, 80: 8}, 8: {40: 7, 80: 8}, 9: {40: 1, 80: 9}}


# ---------------------------------------------------------------------------------------------
# protocol

def op_word(op):
    k = op[0]
    if k == 'print':
        return ('P' if op[2] else 'p') + (bytes(op[1]).hex() or '-')
    if k == 'locate':
        return 'l%s,%s' % tuple('_' if v is None else str(v) for v in op[1:3])
    if k == 'cls':
        return 'c'
    if k == 'view':
        return 'v_' if op[1] is None else 'v%d,%d' % (op[1], op[2])
    if k == 'width':
        return 'w%d' % op[1]
    if k == 'screen':
        return 's%d' % op[1]
    if k == 'query':
        return 'q%d,%d' % (op[1], op[2])
    if k == 'key':
        return 'k%d' % int(op[1])
    raise ValueError(op)


def op_basic(op):
    """the BASIC statement for an op (A$ holds the string of a print op)"""
    k = op[0]
    if k == 'print':
        return b'PRINT A$' if op[2] else b'PRINT A$;'
    if k == 'locate':
        r, c = op[1], op[2]
        if c is None:
            return b'LOCATE' if r is None else b'LOCATE %d' % r
        return b'LOCATE %s,%d' % (b'' if r is None else b'%d' % r, c)
    if k == 'cls':
        return b'CLS'
    if k == 'view':
        return b'VIEW PRINT' if op[1] is None else b'VIEW PRINT %d TO %d' % (op[1], op[2])
    if k == 'width':
        return b'WIDTH %d' % op[1]
    if k == 'screen':
        return b'SCREEN %d' % op[1]
    if k == 'query':
        return b'S%%=SCREEN(%d,%d)' % (op[1], op[2])
    if k == 'key':
        return b'KEY ON' if op[1] else b'KEY OFF'
    raise ValueError(op)


def show_screen(rows):
    out = []
    for i, r in enumerate(rows):
        t = r.rstrip(b' ')
        if t:
            out.append('%d=%s' % (i + 1, t.hex()))
    return ','.join(out) or '-'


# ---------------------------------------------------------------------------------------------
# the real implementation

class Impl(object):
    def __init__(self, cfg='vga'):
        logging.disable(logging.CRITICAL)
        self.s = basic.new_session(**CONFIGS[cfg])

    def close(self):
        try:
            self.s.close()
        except Exception:   # noqa
            pass

    def observe(self):
        s = self.s
        s.execute(b'R%=CSRLIN:C%=POS(0)')
        rows = [b''.join(r) for r in s.get_chars()]
        return s.get_variable('R%'), s.get_variable('C%'), rows

    def step(self, op):
        """execute one op; returns (err, value)"""
        s = self.s
        val = '-'
        if op[0] == 'print':
            s.set_variable('A$', bytes(op[1]))
        if op[0] == 'query':
            s.execute(b'S%=-1')
        try:
            out = s.execute(op_basic(op))
        except Exception as e:   # noqa - a host exception is a finding, not a harness crash
            return 'exc-' + type(e).__name__, val
        if b'Illegal function call' in out:
            err = '5'
        elif out.strip(b'\r\n') and op[0] != 'print':
            err = 'E-' + out.strip().decode('latin-1').replace(' ', '_')
        else:
            err = '0'
        if op[0] == 'query' and err == '0':
            val = str(s.get_variable('S%'))
        return err, val


# ---------------------------------------------------------------------------------------------
# the independent reference: window/mode bookkeeping and a typewriter

class Typewriter(object):
    """Plain text on a cleared window: width W, window [top,bottom], cursor (r,c) with c = W+1 meaning
    'wrap pending'."""

    def __init__(self, rows, w, top, bottom, r, c):
        self.rows = [bytearray(x) for x in rows]
        self.w, self.top, self.bottom, self.r, self.c = w, top, bottom, r, c
        # set when a wrap / line break was carried out from the last row of the SCREEN (row 25)
        self.last_row_wrap = False

    def copy(self):
        return Typewriter(self.rows, self.w, self.top, self.bottom, self.r, self.c)

    def _next_row(self):
        self.c = 1
        if self.r < self.bottom:
            self.r += 1
        else:
            del self.rows[self.top - 1]
            self.rows.insert(self.bottom - 1, bytearray(b' ' * self.w))

    def realise(self, typing=False):
        if self.c == self.w + 1:
            if typing and self.r == H:
                self.last_row_wrap = True
            self._next_row()

    def put(self, ch):
        self.realise(typing=True)
        self.rows[self.r - 1][self.c - 1] = ch
        self.c += 1

    def print_(self, text, nl):
        if text and self.c != 1 and self.c - 1 + len(text) > self.w:
            # the string does not fit in the rest of the line: it starts on the next line
            if self.r == H:
                self.last_row_wrap = True
            self._next_row()
        for ch in text:
            self.put(ch)
        if nl:
            self.realise()
            self._next_row()

    def reported(self):
        if self.c == self.w + 1:
            return (self.r + 1 if self.r < self.bottom else self.r), 1
        return self.r, self.c

    def screen(self):
        return [bytes(r) for r in self.rows]


def is_plain(text):
    return all(32 <= b <= 126 or b >= 128 for b in text)


class Oracle(object):
    """Checks written from the property statement.  Tracks mode/width/window by itself."""

    def __init__(self, ctx, hist, cfg='vga'):
        self.ctx, self.hist, self.cfg = ctx, hist, cfg
        # Tandy/PCjr: VIEW PRINT may end on row 25 while the key bar is off, and such a window survives a
        # mode change as VIEW PRINT 1 TO 25
        self.tandy = cfg in ('tandy', 'pcjr')
        self.bar = False
        # the function-key line as KEY ON (or a mode change with KEY ON) drew it at the current width
        self.keyline = None
        self.mode, self.w = 0, 80
        self.first_switch = True
        self.top, self.bottom, self.active = 1, 24, False
        self.tw = None
        self.failed = []

    def fail(self, key, i, what):
        self.failed.append(key)
        self.ctx.fail(key, {'cfg': self.cfg, 'ops': [list(o) for o in self.hist[:i + 1]]},
                      'step %d %s: %s' % (i, op_word(self.hist[i]), what))

    def _switch(self, m, w):
        """the documented effect of SCREEN/WIDTH: a change of mode or width clears the screen, homes the cursor and
        drops VIEW PRINT; the first SCREEN statement of a session also does (the colour-burst switch changes)"""
        changed = (m, w) != (self.mode, self.w) or self.first_switch
        self.first_switch = False
        if changed:
            self.mode, self.w = m, w
            if self.bottom == H:
                self.top, self.bottom, self.active = 1, H, True
            else:
                self.top, self.bottom, self.active = 1, 24, False
            self.tw = None if self.bar else Typewriter([b' ' * w] * H, w, 1, self.bottom, 1, 1)
        return changed

    def step(self, i, op, before, after, err, val):
        ctx = self.ctx
        (r0, c0, rows0), (r1, c1, rows1) = before, after
        w1 = len(rows1[0])
        k = op[0]
        # cursor within the screen, always
        if not (1 <= r1 <= H and 1 <= c1 <= w1) or len(rows1) != H:
            self.fail('cursor-out-of-screen', i, 'CSRLIN=%d POS=%d width=%d' % (r1, c1, w1))
        if err.startswith('exc') or err.startswith('E-'):
            self.fail('unexpected-error:' + err, i, 'statement raised %s' % err)
            self.tw = None
            return
        in_window = self.top <= r0 <= self.bottom
        tw = self.tw
        if k == 'print':
            text, nl = bytes(op[1]), op[2]
            if in_window:
                # rows outside the VIEW PRINT window are untouched by any amount of output
                for r in range(1, H + 1):
                    if not (self.top <= r <= self.bottom) and rows1[r - 1] != rows0[r - 1]:
                        self.fail('row-outside-window-changed', i,
                                  'window %d..%d, cursor was on row %d, row %d changed from %r to %r'
                                  % (self.top, self.bottom, r0, r, rows0[r - 1].rstrip(), rows1[r - 1].rstrip()))
                        break
                if not (self.top <= r1 <= self.bottom) and err == '0':
                    self.fail('cursor-left-window', i, 'window %d..%d, CSRLIN=%d after output' % (self.top, self.bottom, r1))
            if len(text) == 1 and not nl and is_plain(text) and in_window and c0 < self.w:
                # a character goes to the reported cell and the cursor advances by one
                ctx.count('oracle:landing')
                if rows1[r0 - 1][c0 - 1] != text[0] or (r1, c1) != (r0, c0 + 1):
                    self.fail(ROW25 if (r0 == H and self.bottom == H) else 'char-not-at-reported-cell', i,
                              'CSRLIN,POS was %d,%d; %r is not there / cursor now %d,%d' % (r0, c0, text, r1, c1))
            if tw is not None and is_plain(text) and err == '0':
                tw.last_row_wrap = False
                tw.print_(text, nl)
                ctx.count('oracle:typewriter-print')
                if self.bottom == H:
                    ctx.count('oracle:typewriter-print-window-to-25')
                self._check_tw(i, after, ROW25 if (tw.last_row_wrap and self.bottom == H) else None)
            else:
                self.tw = None
        elif k == 'locate':
            r, c = op[1], op[2]
            rr = r0 if r is None else r
            cc = c0 if c is None else c
            lo, hi = (self.top, self.bottom) if self.active else (1, H)
            if self.bar:
                # the key line is shown on row 25: LOCATE 25 is refused
                hi = min(hi, H - 1)
            valid = lo <= rr <= hi and 1 <= cc <= self.w
            if r is None or c is None:
                # an omitted coordinate keeps the current one (whose value in the pending-wrap state is the
                # implementation's business); the explicit coordinate is checked
                explicit_ok = (r is None or lo <= r <= hi) and (c is None or 1 <= c <= self.w)
                if not explicit_ok:
                    if err != '5':
                        self.fail('locate-invalid-accepted', i, 'out-of-range %s: error %s' % (op_basic(op), err))
                elif err != '0':
                    self.fail('locate-valid-rejected', i, 'in-range %s raised %s' % (op_basic(op), err))
                else:
                    if r is not None and r1 != r:
                        self.fail('locate-row-not-reported', i, 'LOCATE %d: CSRLIN=%d' % (r, r1))
                    if c is not None and c1 != c:
                        self.fail('locate-col-not-reported', i, 'LOCATE ,%d: POS=%d' % (c, c1))
                    if rows1 != rows0:
                        self.fail('locate-changed-text', i, 'screen text changed')
                self.tw = None
            elif valid:
                ctx.count('oracle:locate-valid')
                if err != '0':
                    self.fail('locate-valid-rejected', i, 'in-range LOCATE %d,%d raised %s' % (r, c, err))
                elif (r1, c1) != (r, c):
                    key = 'locate-col%s-not-reported' % ('W' if c == self.w else '')
                    self.fail(key, i, 'after LOCATE %d,%d: CSRLIN=%d POS=%d' % (r, c, r1, c1))
                elif rows1 != rows0:
                    self.fail('locate-changed-text', i, 'screen text changed')
                if tw is not None and err == '0' and r <= self.bottom and r < H and c < self.w:
                    tw.r, tw.c = r, c
                    self._check_tw(i, after)
                else:
                    self.tw = None
            else:
                ctx.count('oracle:locate-invalid')
                if err != '5':
                    self.fail('locate-invalid-accepted', i, 'out-of-range LOCATE %d,%d: error %s, CSRLIN=%d POS=%d'
                              % (r, c, err, r1, c1))
                self.tw = None
        elif k == 'cls':
            if err != '0':
                self.fail('cls-error', i, err)
            top, bottom = (self.top, self.bottom) if self.active else (1, H)
            for r in range(1, H + 1):
                exp = b' ' * self.w if top <= r <= bottom else rows0[r - 1]
                if r == H and self.bar and not self.active:
                    # a whole-screen CLS draws the key line afresh (output parked on row 25 before may have overwritten it)
                    exp = self.keyline if self.keyline is not None and len(self.keyline) == self.w else rows1[r - 1]
                if rows1[r - 1] != exp:
                    self.fail('cls-content', i, 'row %d is %r after CLS (window %d..%d)' % (r, rows1[r - 1].rstrip(), top, bottom))
                    break
            if (r1, c1) != (self.top, 1):
                self.fail('cls-cursor', i, 'cursor %d,%d after CLS, window top %d' % (r1, c1, self.top))
            self.tw = Typewriter(rows1, self.w, self.top, self.bottom, self.top, 1)
        elif k == 'view':
            if op[1] is None:
                ok = True
                if err == '0':
                    self.top, self.bottom, self.active = 1, 24, False
                    if tw is not None:
                        tw.top, tw.bottom = 1, 24
                        if tw.r > 24:
                            # Tandy/PCjr: the cursor was on row 25 of a window that is now gone; it is outside the
                            # scroll area without being parked there - no reference for what output does next
                            self.tw = tw = None
            else:
                t, b = op[1], op[2]
                ok = 1 <= t <= b <= (H if self.tandy and not self.bar else 24)
                if ok and err == '0':
                    self.top, self.bottom, self.active = t, b, True
                    if (r1, c1) != (t, 1):
                        self.fail('view-print-cursor', i, 'cursor %d,%d after VIEW PRINT %d TO %d' % (r1, c1, t, b))
                    if tw is not None:
                        tw.top, tw.bottom, tw.r, tw.c = t, b, t, 1
            if ok != (err == '0'):
                self.fail('view-print-range', i, 'VIEW PRINT %s: error %s' % (op[1:], err))
            if err == '0' and rows1 != rows0:
                self.fail('view-print-changed-text', i, 'screen text changed')
            if err != '0':
                self.tw = None
            elif self.tw is not None:
                self._check_tw(i, after)
        elif k in ('width', 'screen'):
            if k == 'screen':
                m = op[1]
                w = self.w if m == 0 else GRAPHICS_WIDTH.get(m)
                changed = False
                if w is None or err != '0':
                    if (w is None) != (err != '0'):
                        self.fail('screen-mode-error', i, 'SCREEN %d: error %s' % (m, err))
                    self.tw = None
                else:
                    changed = self._switch(m, w)
            else:
                w = op[1]
                changed = False
                if w == self.w:
                    m = self.mode
                elif self.mode == 0:
                    m = 0 if w in (40, 80) else None
                else:
                    m = TO_WIDTH[self.mode].get(w)
                if m is None or err != '0':
                    if (m is None) != (err != '0'):
                        self.fail('width-error', i, 'WIDTH %d: error %s' % (w, err))
                    self.tw = None
                elif w != self.w:
                    changed = self._switch(m, w if m == 0 else GRAPHICS_WIDTH[m])
            if err == '0':
                if changed and self.bar:
                    self.keyline = rows1[H - 1]
                if w1 != self.w:
                    self.fail('width-not-as-requested', i, 'screen has %d columns, expected %d' % (w1, self.w))
                elif changed:
                    if any(r.strip(b' ') for r in rows1[:H - 1 if self.bar else H]) or (r1, c1) != (1, 1):
                        self.fail('mode-switch-not-cleared', i, 'cursor %d,%d, text %s' % (r1, c1, show_screen(rows1)))
                elif rows1 != rows0 or (r1, c1) != (r0, c0):
                    self.fail('noop-switch-changed-screen', i, 'cursor %d,%d -> %d,%d' % (r0, c0, r1, c1))
        elif k == 'key':
            want = bool(op[1])
            # Tandy/PCjr: KEY ON is refused while the scroll window includes row 25
            ok = not (want and self.bottom == H)
            if ok != (err == '0'):
                self.fail('key-on-off-error', i, '%s: error %s (window %d..%d)' % (op_basic(op), err, self.top, self.bottom))
            if err == '0':
                if rows1[:H - 1] != rows0[:H - 1] or (r1, c1) != (r0, c0):
                    self.fail('key-changed-screen', i, 'rows 1..24 or the cursor changed')
                if want != self.bar:
                    if want and not rows1[H - 1].strip(b' '):
                        self.fail('key-on-no-key-line', i, 'row 25 is blank after KEY ON')
                    if not want and rows1[H - 1].strip(b' '):
                        self.fail('key-off-key-line-left', i, 'row 25 is %r after KEY OFF' % rows1[H - 1].rstrip())
                elif rows1[H - 1] != rows0[H - 1]:
                    self.fail('key-changed-screen', i, 'row 25 changed although the key line was already %s' % ('on' if want else 'off'))
                if want and not self.bar:
                    self.keyline = rows1[H - 1]
                self.bar = want
                if tw is not None:
                    tw.rows[H - 1] = bytearray(rows1[H - 1])
                    self._check_tw(i, after)
            else:
                self.tw = None
        elif k == 'query':
            r, c = op[1], op[2]
            ok = 0 <= r <= H and 0 <= c <= self.w and (r, c) != (0, 0)
            rr, cc = r or 1, c or 1
            if ok and self.active and not (self.top <= rr <= self.bottom):
                # documented restriction of this implementation: SCREEN() outside an active VIEW PRINT window
                # is refused; not part of the statement, no verdict
                ok = None
            if ok:
                ctx.count('oracle:screen-fn')
                if err != '0':
                    self.fail('screen-fn-rejected', i, 'SCREEN(%d,%d) raised %s' % (r, c, err))
                else:
                    if int(val) != rows0[rr - 1][cc - 1]:
                        self.fail('screen-fn-differs-from-buffer', i, 'SCREEN(%d,%d)=%s, text buffer has %d'
                                  % (r, c, val, rows0[rr - 1][cc - 1]))
                    if tw is not None and int(val) != tw.rows[rr - 1][cc - 1]:
                        self.fail('screen-fn-not-last-written', i, 'SCREEN(%d,%d)=%s, last written there: %d'
                                  % (r, c, val, tw.rows[rr - 1][cc - 1]))
                    if rows1 != rows0 or (r1, c1) != (r0, c0):
                        self.fail('screen-fn-changed-screen', i, 'state changed')
            elif ok is False and err != '5':
                self.fail('screen-fn-accepted-out-of-range', i, 'SCREEN(%d,%d): %s' % (r, c, err))
            if err != '0':
                self.tw = None

    def _check_tw(self, i, after, finding_key=None):
        tw = self.tw
        r1, c1, rows1 = after
        if tw.c == tw.w + 1 and tw.r == tw.bottom and rows1 != tw.screen():
            # a wrap pending on the last row of the window may be carried out at once (the row was already
            # continued into the next one); both are the typewriter's behaviour
            t2 = tw.copy()
            t2.realise()
            if rows1 == t2.screen():
                self.tw = tw = t2
        exp = tw.screen()
        if rows1 != exp:
            bad = [r for r in range(H) if rows1[r] != exp[r]][0]
            self.fail(finding_key or 'typewriter-text', i, 'row %d is %r, reference typewriter has %r (width %d, window %d..%d)'
                      % (bad + 1, rows1[bad].rstrip(), exp[bad].rstrip(), tw.w, tw.top, tw.bottom))
            self.tw = None
        elif (r1, c1) != tw.reported():
            self.fail(finding_key or 'typewriter-cursor', i, 'CSRLIN,POS = %d,%d, reference typewriter is at %s (pending wrap: %s)'
                      % (r1, c1, tw.reported(), tw.c == tw.w + 1))
            self.tw = None


# ---------------------------------------------------------------------------------------------
# generator

def gen_text(rng, w, flavour):
    plain = lambda n: [rng.choice(b'ABCDEFGHIJKLMNOPQRSTUVWXYZabcdefghijklmnopqrstuvwxyz0123456789 .,;:!#*') for _ in range(n)]
    if flavour == 'plain':
        kind = rng.random()
        if kind < 0.35:
            n = rng.choice([1, 1, 2, 3, 5, 8, 13, 20])
        elif kind < 0.7:
            n = rng.choice([w - 2, w - 1, w, w + 1, 2 * w - 1, 2 * w, 2 * w + 1, 3 * w, 255, 254, w // 2, 0])
        else:
            n = rng.randrange(0, 256)
        n = max(0, min(255, n))
        t = plain(n)
        if rng.random() < 0.1 and t:
            t[rng.randrange(len(t))] = rng.choice([128, 176, 219, 254, 255, 127])
        return t
    if flavour == 'control':
        t = []
        for _ in range(rng.choice([1, 1, 2, 3, 5, 9])):
            x = rng.random()
            if x < 0.55:
                t.append(rng.choice(CONTROL))
            elif x < 0.65:
                t.append(rng.choice([8, 0, 27, 1, 127]))
            else:
                t += plain(rng.choice([1, 2, 7, 8, 9, w - 1, w]))
        return t[:255]
    return [rng.randrange(256) for _ in range(rng.choice([1, 2, 4, 16, 80, 255]))]


def gen_locate(rng, w, top, bottom):
    x = rng.random()
    rows = [1, 2, top, bottom, max(1, top - 1), min(25, bottom + 1), 23, 24, 25, rng.randrange(1, 26)]
    cols = [1, 2, w - 1, w, w, w // 2, rng.randrange(1, w + 1), 8, 9]
    if x < 0.6:
        return ('locate', rng.choice(rows), rng.choice(cols))
    if x < 0.8:
        r = rng.choice(rows + [0, -1, 26, 255, 300])
        c = rng.choice(cols + [0, -1, w + 1, 81, 255, 256])
        return ('locate', r, c)
    if x < 0.9:
        return ('locate', None, rng.choice(cols + [0, w + 1]))
    if x < 0.97:
        return ('locate', rng.choice(rows + [0, 26]), None)
    return ('locate', None, None)


def gen_window25(rng, quick, cfg):
    """Tandy/PCjr: histories around a scroll window that ends on row 25 (text above it, enough lines to scroll it
    several times, LOCATE into the window and onto row 25, mode changes that keep it as 1..25, unsetting it)"""
    ops = []
    w = 80
    if rng.random() < 0.4:
        m = rng.choice([0, 1, 2])
        ops.append(('screen', m))
        w = w if m == 0 else GRAPHICS_WIDTH[m]
    if rng.random() < 0.3:
        w2 = rng.choice([40, 80])
        ops.append(('width', w2))
        w = w2
    top = rng.choice([1, 2, 5, 10, 20, 22, 23, 24, 25, rng.randrange(1, 26)])
    for r in sorted(set(rng.randrange(1, 26) for _ in range(rng.randrange(0, 4)))):
        ops.append(('locate', r, rng.randrange(1, w // 2)))
        ops.append(('print', gen_text(rng, w, 'plain')[:rng.randrange(1, w // 2)] or [70], False))
    ops.append(('view', top, 25))
    if rng.random() < 0.7:
        ops.append(('cls',))
    n = rng.randrange(8, 30 if quick else 70)
    letters = b'ABCDEFGHIJKLMNOPQRSTUVWXYZ0123456789'
    k = 0
    while len(ops) < n + 6:
        x = rng.random()
        k += 1
        if x < 0.62:
            # short lines, each ended by a newline: these scroll the window one row per line
            ops.append(('print', [letters[k % len(letters)]] * rng.randrange(1, min(w - 1, 12)), True))
        elif x < 0.72:
            ops.append(('print', gen_text(rng, w, 'plain')[:rng.choice([w - 1, w, w + 1, 2 * w, 3])], rng.random() < 0.5))
        elif x < 0.78:
            ops.append(('locate', rng.choice([top, 25, 25, max(top, 24), rng.randrange(top, 26)]), rng.choice([1, 1, 2, w - 1, w])))
        elif x < 0.82:
            ops.append(('query', rng.randrange(top, 26), rng.randrange(1, w + 1)))
        elif x < 0.86:
            ops.append(('cls',))
        elif x < 0.9:
            m = rng.choice([0, 1, 2])
            ops.append(('screen', m))
            nw = w if m == 0 else GRAPHICS_WIDTH[m]
            if nw != w or rng.random() < 0.3:
                top = 1
            w = nw
        elif x < 0.93:
            top = rng.randrange(1, 26)
            ops.append(('view', top, 25))
        elif x < 0.95:
            ops.append(('view', None, None))
            ops.append(('print', [letters[k % len(letters)]] * 3, True))
            top = rng.randrange(1, 26)
            ops.append(('view', top, 25))
        else:
            ops.append(('print', [rng.choice([13, 10, 31, 30, 11, 12])], rng.random() < 0.5))
    return ops


def gen_keybar(rng, quick, cfg):
    """KEY ON / KEY OFF against LOCATE 25, VIEW PRINT (to 25 on Tandy/PCjr), CLS, mode changes and scrolling output;
    run on the implementation and the oracle only (the key line is outside the model)"""
    ops = []
    w = 80
    hi = 25 if cfg != 'vga' else 24
    on = False
    n = rng.randrange(6, 22 if quick else 50)
    while len(ops) < n:
        x = rng.random()
        if x < 0.22:
            on = not on if rng.random() < 0.8 else on
            ops.append(('key', on))
        elif x < 0.4:
            t0 = rng.randrange(1, hi + 1)
            ops.append(('view', t0, rng.choice([hi, hi, 24, rng.randrange(t0, hi + 1)])))
        elif x < 0.45:
            ops.append(('view', None, None))
        elif x < 0.6:
            ops.append(('locate', rng.choice([25, 25, 24, 1, rng.randrange(1, 26)]), rng.choice([1, w, rng.randrange(1, w + 1)])))
        elif x < 0.68:
            ops.append(('cls',))
        elif x < 0.74:
            m = rng.choice([0, 1, 2])
            ops.append(('screen', m))
            w = w if m == 0 else GRAPHICS_WIDTH[m]
        else:
            ops.append(('print', gen_text(rng, w, 'plain')[:rng.choice([3, 10, w, w + 5])], rng.random() < 0.7))
    return ops


def fixed_window25_histories():
    """deterministic family for the Tandy/PCjr configurations: for several tops t, text on the rows above,
    VIEW PRINT t TO 25, and enough short lines to scroll the window three times; then a long line"""
    hs = []
    for t0 in (1, 2, 10, 23, 24, 25):
        ops = []
        for r in range(1, min(t0, 4)):
            ops += [('locate', r, 1), ('print', list(b'above %d' % r), False)]
        ops += [('view', t0, 25), ('cls',)]
        for k in range(25 - t0 + 1 + 3):
            ops.append(('print', list(b'line %02d' % k), True))
        ops += [('query', 25, 1), ('locate', 25, 1), ('print', [81], True), ('print', [82], True),
                ('screen', 1), ('print', list(b'after mode change'), True), ('view', None, None)]
        hs.append(ops)
    return hs


def gen_history(rng, quick, cfg='vga'):
    """a history is a list of ops; the bookkeeping here (width, window) only steers the generator"""
    ops = []
    w, mode, top, bottom = 80, 0, 1, 24
    modes = [0, 1, 2, 7, 8, 9] if cfg == 'vga' else [0, 1, 2]
    maxb = 24 if cfg == 'vga' else 25
    if cfg != 'vga':
        s = rng.random()
        if s < 0.45:
            return gen_window25(rng, quick, cfg)
        if s < 0.55:
            return gen_keybar(rng, quick, cfg)
    elif rng.random() < 0.04:
        return gen_keybar(rng, quick, cfg)
    style = rng.choice(['typewriter', 'typewriter', 'mixed', 'mixed', 'control', 'edge'])
    n = rng.randrange(6, 26 if quick else 60)
    # configuration prefix
    if rng.random() < 0.7:
        m = rng.choice([0, 0] + modes)
        ops.append(('screen', m))
        mode = m
        w = w if m == 0 else GRAPHICS_WIDTH[m]
        if rng.random() < 0.5:
            ww = rng.choice([40, 80])
            ops.append(('width', ww))
            if ww != w:
                mode = 0 if mode == 0 else TO_WIDTH[mode][ww]
                w = ww if mode == 0 else GRAPHICS_WIDTH[mode]
    if rng.random() < 0.6:
        top = rng.choice([1, 1, 2, 5, 10, 23, 24, rng.randrange(1, 25)])
        bottom = rng.choice([top, top, min(24, top + 1), min(24, top + 2), maxb, rng.randrange(top, maxb + 1)])
        ops.append(('view', top, bottom))
    if style == 'typewriter':
        if rng.random() < 0.5:
            # some earlier text, so that rows outside the window are not blank
            ops.insert(0, ('print', gen_text(rng, 80, 'plain'), True))
            ops.append(('locate', 25, 1) if top > 1 or bottom < 24 else ('cls',))
            ops.append(('print', gen_text(rng, w, 'plain')[:w - 1], False))
        ops.append(('cls',))
    while len(ops) < n:
        x = rng.random()
        if style == 'typewriter':
            if x < 0.82:
                ops.append(('print', gen_text(rng, w, 'plain'), rng.random() < 0.4))
            elif x < 0.9:
                ops.append(('locate', rng.randrange(top, bottom + 1), rng.randrange(1, w)))
            elif x < 0.95:
                ops.append(('query', rng.randrange(top, bottom + 1), rng.randrange(1, w + 1)))
            else:
                ops.append(('cls',))
            continue
        if style == 'edge':
            # column-W and last-row situations on purpose
            y = rng.random()
            if y < 0.3:
                r = rng.choice([top, bottom, bottom, max(top, bottom - 1), 25])
                ops.append(('locate', r, rng.choice([w, w, w - 1])))
                ops.append(('print', gen_text(rng, w, 'plain')[:rng.choice([1, 1, 2, 3])] or [65], rng.random() < 0.3))
            elif y < 0.36:
                # park on row 25, then open a window that ends on row 24 and move on with a newline / cursor-down
                ops.append(('view', None, None))
                ops.append(('locate', 25, rng.choice([1, w])))
                top, bottom = rng.choice([24, 23, 1]), 24
                ops.append(('view', top, bottom))
                if rng.random() < 0.5:
                    ops.append(('locate', None, rng.choice([1, 2, w])))
                ops.append(('print', rng.choice([[], [13], [31], [10, 65], [31, 66]]), rng.random() < 0.6))
                ops.append(('print', gen_text(rng, w, 'plain')[:3], False))
            elif y < 0.42:
                # two continued rows, then one PRINT that ends on the last column of the second one
                r = rng.randrange(top, bottom) if bottom > top else top
                ops.append(('locate', r, 1))
                ops.append(('print', [rng.choice(b'abcxyz')] * min(255, 2 * w + rng.choice([1, 5, w - 1])), False))
                if rng.random() < 0.4 and r + 1 <= 24 and r >= 1:
                    top, bottom = rng.choice([max(1, r - 1), r]), r + 1
                    ops.append(('view', top, bottom))
                ops.append(('locate', r, 1))
                ops.append(('print', [rng.choice(b'ABCXYZ')] * min(255, 2 * w), rng.random() < 0.2))
                ops.append(rng.choice([('locate', None, 5), ('print', [29, 81], False), ('print', [82], False),
                                       ('print', [31, 83], False), ('print', [], True)]))
            elif y < 0.45:
                ops.append(('print', gen_text(rng, w, 'plain')[:1] * rng.choice([w, w, w - 1, 2 * w]), rng.random() < 0.3))
            elif y < 0.6:
                ops.append(('print', [rng.choice([28, 29, 30, 31, 9, 13, 10, 11])] + gen_text(rng, w, 'plain')[:2], False))
            elif y < 0.8:
                ops.append(gen_locate(rng, w, top, bottom))
            elif y < 0.9:
                ops.append(('query', rng.choice([top, bottom, 1, 25, 0]), rng.choice([1, w, 0, w // 2])))
            else:
                ops.append(('print', gen_text(rng, w, 'plain'), True))
            continue
        if x < 0.45:
            fl = 'control' if style == 'control' and rng.random() < 0.7 else rng.choice(['plain', 'plain', 'control', 'bytes'])
            ops.append(('print', gen_text(rng, w, fl), rng.random() < 0.4))
        elif x < 0.7:
            ops.append(gen_locate(rng, w, top, bottom))
        elif x < 0.76:
            ops.append(('cls',))
        elif x < 0.84:
            y = rng.random()
            if y < 0.2:
                ops.append(('view', None, None))
                top, bottom = 1, 24
            elif y < 0.8:
                top = rng.randrange(1, 25)
                bottom = rng.choice([top, maxb, rng.randrange(top, maxb + 1)])
                ops.append(('view', top, bottom))
            else:
                ops.append(('view', rng.choice([0, 1, 5, 24, 25]), rng.choice([0, 3, 24, 25, 26])))
        elif x < 0.88:
            ww = rng.choice([40, 80])
            ops.append(('width', ww))
            if ww != w:
                mode = 0 if mode == 0 else TO_WIDTH[mode][ww]
                w = ww if mode == 0 else GRAPHICS_WIDTH[mode]
                top, bottom = 1, 24
        elif x < 0.92:
            m = rng.choice(modes)
            ops.append(('screen', m))
            nw = w if m == 0 else GRAPHICS_WIDTH[m]
            if (m, nw) != (mode, w):
                top, bottom = 1, 24
            mode, w = m, nw
        else:
            ops.append(('query', rng.choice([0, 1, top, bottom, 25, 26, rng.randrange(1, 26)]),
                        rng.choice([0, 1, w, w + 1, rng.randrange(1, w + 1)])))
    return ops


# ---------------------------------------------------------------------------------------------
# running

def run_history(ctx, hist, compare=True, cfg='vga'):
    """execute a history on a fresh Session; returns (per-step strings, list of failed oracle keys)"""
    impl = Impl(cfg)
    oracle = Oracle(ctx, hist, cfg)
    steps = []
    try:
        before = impl.observe()
        for i, op in enumerate(hist):
            err, val = impl.step(op)
            after = impl.observe()
            ctx.case((cfg, op_word(op), before[0], before[1], len(before[2][0]), oracle.top, oracle.bottom))
            ctx.count('op:' + op[0])
            ctx.count('cfg:' + cfg)
            if err != '0':
                ctx.count('err:' + err)
            if after[1] == len(after[2][0]) or (after[1] == 1 and before[1] >= len(before[2][0]) - 1):
                ctx.count('at-last-column-or-wrapped')
            oracle.step(i, op, before, after, err, val)
            steps.append('%s:%d:%d:%d:%s:%s' % (err, len(after[2][0]), after[0], after[1], val, show_screen(after[2])))
            before = after
            if err.startswith('exc'):
                break
    finally:
        impl.close()
    return steps, oracle.failed


def compare_histories(ctx, hists, impl_steps):
    """hists: list of (cfg, ops).  Histories with KEY ON/OFF are outside the model (oracle only)."""
    sel = [(c, h, s) for (c, h), s in zip(hists, impl_steps) if not any(o[0] == 'key' for o in h)]
    lines = [('histt ' if c in ('tandy', 'pcjr') else 'hist ') + (';'.join(op_word(o) for o in h) or '-')
             for c, h, _ in sel]
    mouts = ctx.model(lines)
    if mouts is None:
        return
    for (c, h, steps), line, m in zip(sel, lines, mouts):
        msteps = m.split(' ')[1:] if m.startswith('ok') else [m]
        if msteps == steps:
            continue
        for i, (a, b) in enumerate(zip(steps + ['<missing>'] * len(msteps), msteps + ['<missing>'] * len(steps))):
            if a != b:
                ctx.disagree({'label': 'history', 'cfg': c, 'ops': [op_word(o) for o in h[:i + 1]], 'step': i},
                             a[:600], b[:600])
                break


def minimise(ctx, hist, key, cfg='vga'):
    """greedy shrinking of a failing history (same oracle key must still fail)"""
    sub = QuietCtx(ctx)
    cur = list(hist)
    budget = 60
    changed = True
    while changed and budget > 0:
        changed = False
        for j in range(len(cur) - 2, -1, -1):
            if budget <= 0:
                break
            budget -= 1
            cand = cur[:j] + cur[j + 1:]
            sub.failures = []
            try:
                _, failed = run_history(sub, cand, compare=False, cfg=cfg)
            except Exception:   # noqa
                continue
            if key in failed:
                # cut at the failing step
                f = [x for x in sub.failures if x['key'] == key][0]
                cur = [tuple(o) for o in f['case']['ops']]
                changed = True
                break
    return cur


class QuietCtx(object):
    """collects failures of a re-run without touching the outer evidence"""

    def __init__(self, ctx):
        self.rng = ctx.rng
        self.failures = []

    def fail(self, key, case, what):
        self.failures.append({'key': key, 'case': case, 'what': what})

    def count(self, *a, **k):
        pass

    def case(self, *a, **k):
        pass

    def disagree(self, *a, **k):
        pass


FIXED_HISTORIES = [
    # column-80 overflow convention and LOCATE onto the last column afterwards
    [('cls',), ('print', [65] * 80, False), ('locate', 5, 80), ('print', [66], False)],
    [('width', 40), ('print', [65] * 40, False), ('locate', 3, 40), ('print', [66, 67], False)],
    # cursor-right out of the pending-wrap position
    [('cls',), ('locate', 1, 80), ('print', [65], False), ('print', [28], False), ('print', [66], False)],
    # 80 characters and a newline leave a blank line; window of one row
    [('cls',), ('print', [65] * 80, True), ('print', [66], True), ('view', 5, 5), ('print', [67] * 100, True)],
    # scrolling inside a window with text above and below
    [('print', [88] * 30, True), ('locate', 24, 1), ('print', [89] * 30, False), ('view', 3, 6), ('cls',),
     ('print', [65] * 255, False), ('print', [66] * 255, True), ('query', 3, 1), ('query', 6, 80)],
    # bottom row
    [('locate', 25, 80), ('print', [65, 66], False), ('locate', 25, 1), ('print', [67] * 90, False), ('cls',)],
    # a row that was continued, then written up to its last column again
    [('view', 2, 4), ('cls',), ('print', [65] * 100, False), ('locate', 2, 80), ('print', [66], False),
     ('locate', 4, 80), ('print', [67], False), ('print', [68], False)],
    # writing up to the last column of a row that is still marked as continued (inside one PRINT): the cursor
    # moves on at once, which LOCATE ,c / cursor-left / a shrunk window make visible
    [('cls',), ('print', [65] * 200, False), ('locate', 1, 1), ('print', [66] * 160, False), ('locate', None, 5),
     ('print', [67], False)],
    [('cls',), ('print', [65] * 200, False), ('locate', 1, 1), ('print', [66] * 160, False), ('print', [29, 68], False)],
    [('locate', 3, 1), ('print', [65] * 200, False), ('view', 2, 4), ('locate', 3, 1), ('print', [66] * 160, False),
     ('print', [67], False)],
    [('width', 40), ('locate', 3, 1), ('print', [65] * 100, False), ('view', 2, 4), ('locate', 3, 1),
     ('print', [66] * 80, True), ('print', [67], False)],
    # VIEW PRINT right after LOCATE 25: the newline must stay inside the new window
    [('print', [75] * 10, True), ('locate', 25, 1), ('view', 24, 24), ('print', [], True), ('print', [88, 89], False)],
    [('locate', 25, 5), ('view', 20, 24), ('locate', 24, 1), ('print', [65], True), ('print', [66], True)],
    [('screen', 1), ('print', [65] * 41, True), ('screen', 0), ('width', 80), ('screen', 9), ('width', 40),
     ('print', [9, 66, 13, 10, 67, 11, 68, 12, 69, 28, 29, 30, 31, 7, 70], True)],
]


def probe_locate_cursor_argument(ctx):
    """LOCATE with an out-of-range third argument: the statement raises Illegal function call, so it must not
    have moved the cursor.  Observable: the error message starts on the row below the cursor (row 11 when the
    cursor was left at 10,10; row 6 if LOCATE 5,5,9 moved it before failing)."""
    impl = Impl()
    try:
        s = impl.s
        s.execute(b'CLS:LOCATE 10,10')
        out = s.execute(b'LOCATE 5,5,9')
        rows = impl.observe()[2]
    finally:
        impl.close()
    ctx.case(('probe', 'LOCATE 5,5,9'))
    ctx.count('oracle:locate-cursor-argument')
    msg_rows = [i + 1 for i, r in enumerate(rows) if r.startswith(b'Illegal function call')]
    case = {'probe': 'locate-cursor-argument'}
    if b'Illegal function call' not in out:
        ctx.fail('locate-bad-cursor-argument-accepted', case, 'LOCATE 5,5,9 printed %r' % out)
        return 'accepted'
    if msg_rows != [11]:
        ctx.fail('locate-error-after-move', case,
                 'LOCATE 10,10 then LOCATE 5,5,9: Illegal function call, but the message is on row %s, not 11: '
                 'the cursor had been moved to 5,5 before the argument was rejected' % msg_rows)
        return 'moved'
    return None


def run(ctx):
    rng = ctx.rng
    probe_locate_cursor_argument(ctx)
    n = 300 if ctx.quick else 1600
    nt = 26 if ctx.quick else 400
    hists = [('vga', list(h)) for h in FIXED_HISTORIES]
    fam = fixed_window25_histories()
    # the deterministic row-25 family: all of it in the thorough tier, a rotating part of it in the quick tier
    pick = fam if not ctx.quick else [fam[rng.randrange(len(fam))], fam[rng.randrange(len(fam))]]
    for cfg in ('tandy', 'pcjr'):
        hists += [(cfg, list(h)) for h in pick]
    hists += [('vga', gen_history(rng, ctx.quick, 'vga')) for _ in range(n)]
    for cfg in ('tandy', 'pcjr'):
        hists += [(cfg, gen_history(rng, ctx.quick, cfg)) for _ in range(nt)]
    all_steps = []
    first_fail = {}
    for k, (cfg, h) in enumerate(hists):
        steps, failed = run_history(ctx, h, cfg=cfg)
        all_steps.append(steps)
        ctx.count('histories')
        ctx.count('histories:' + cfg)
        for key in failed:
            first_fail.setdefault(key, (cfg, h))
        if k < 3:
            ctx.sample({'cfg': cfg, 'ops': [op_word(o) for o in h], 'last_step': steps[-1][:200] if steps else ''})
        if (k + 1) % 50 == 0:
            ctx.log('%d histories' % (k + 1))
    for i in range(0, len(hists), 200):
        compare_histories(ctx, hists[i:i + 200], all_steps[i:i + 200])
    # shrink one witness per failing key (at most 4 keys), and put it first for the report
    for key, (cfg, h) in list(first_fail.items())[:4]:
        f = [x for x in ctx.failures if x['key'] == key][0]
        small = minimise(ctx, [tuple(o) for o in f['case']['ops']], key, cfg=cfg)
        if len(small) < len(f['case']['ops']):
            sub = QuietCtx(ctx)
            run_history(sub, small, compare=False, cfg=cfg)
            hit = [x for x in sub.failures if x['key'] == key]
            if hit:
                f['case'], f['what'] = hit[0]['case'], hit[0]['what'] + ' (minimised)'
    ctx.notes['histories'] = len(hists)


def replay(ctx, payload):
    case = payload.get('case', {})
    if case.get('probe') == 'locate-cursor-argument':
        sub = QuietCtx(ctx)
        probe_locate_cursor_argument(sub)
        hits = [f for f in sub.failures if f['key'] == payload.get('key')]
        return hits[0]['what'] if hits else None
    if 'ops' not in case:
        return None
    hist = [tuple(o) for o in case['ops']]
    sub = QuietCtx(ctx)
    steps, failed = run_history(sub, hist, compare=False, cfg=case.get('cfg', 'vga'))
    hits = [f for f in sub.failures if f['key'] == payload.get('key')]
    return hits[0]['what'] if hits else None
