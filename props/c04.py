"""C04 — Floating-point arithmetic stays within a fixed error of the exact result."""
import signal
import time
from fractions import Fraction

from vlib import basic, mbf

LEVEL = 'proof'
RULE = ('pairs of MBF single (4-byte) and double (8-byte) bit patterns, one case per (level, operator, format, '
        'left bytes, right bytes): vlib.mbf.gen_pair (random, exponent-aligned, exponent-adjacent, '
        'cancellation-prone, equal magnitude, extreme exponents, canonical and non-canonical zeros) plus generators '
        'of this check: every exponent difference 0..w+10 with sticky-bit mantissas, products and quotients whose '
        'exact value lies within a few ulps of the largest number and of 2^-128 (both sides), doubles with small '
        'exponent bytes (defect D5 region), divisors that '
        'are powers of two or have long runs of low one bits; the same pairs run through Float.iadd/isub/imul/idiv, '
        'through values.add/sub/mul/div (single/double mixes) and through BASIC expressions on variables loaded '
        'with CVS/CVD; multi-step histories: in-place chains on one Float object and BASIC programs that '
        'accumulate over arrays, every intermediate result checked')
EXPLANATION = ('theorems (PcbV.Props.C04) about the shared MBF model for any well-formed format: normalise delivers a '
               'valid pattern within half an ulp of its input (half-even on the low byte), Overflow with the signed '
               'maximum / zero exactly by the rounded exponent, division by zero, the product is formed exactly and '
               'the multiplication error is at most 5/8 ulp, products become zero only below 2^-128; addition and '
               'subtraction are within 3/2 ulp for ALL stored operands and exponent differences (add_error, sub_error: '
               'alignment loss, sticky bit, carry, shortcut, GW-BASIC subtraction quirk), division is within '
               '(1/2 + w/128) ulp < 1 ulp for ALL stored operands with a non-zero divisor (div_error, from the loop '
               'invariant of the shift-and-subtract loop with its lossy right-shifting divisor), for Single and Double; '
               'correspondence: result bytes and error '
               'kinds of the real Float methods and of values.add/sub/mul/div against the compiled Lean model; '
               'oracle: exact fractions.Fraction result against the value of the result bytes in ulps of the result '
               '(<= 2 for + and -, < 1 for * and /), Overflow only above the largest number and with the signed '
               'maximum, zero only below 2^-128, Division by zero with the signed maximum, at all three levels')
TRUSTED_BASE = ['model PcbV.Model.Mbf / MbfMulFixed (and PcbV.Model.Promote for the values level) are hand '
                'transcriptions of numbers.py:Float and of values.py add/sub/mul/div',
                'vlib.mbf.val (exact value of a byte pattern)']
ASSUMPTIONS = ['struct.pack/unpack little-endian formats behave as documented',
               'a FloatErrorHandler with a console returns the substituted maximum after writing the message',
               'for + - / the clauses Overflow-only-above-the-maximum and zero-only-below-2^-128 are proved relative to the '
               'denormalised value handed to _normalise, not to the exact sum/quotient: those two clauses are covered by '
               'correspondence and oracle (for * they are proved exactly)']

OPS = ('add', 'sub', 'mul', 'div')
SYM = {'add': '+', 'sub': '-', 'mul': '*', 'div': '/'}
BOUND = {'add': Fraction(2), 'sub': Fraction(2), 'mul': Fraction(1), 'div': Fraction(1)}
STRICT = {'add': False, 'sub': False, 'mul': True, 'div': True}
W = {'s': 24, 'd': 56}
BIAS = {'s': 152, 'd': 184}
SIZE = {'s': 4, 'd': 8}
MINPOS = Fraction(1, 2 ** 128)
ERRNUM = {b'Overflow': 6, b'Division by zero': 11}


def maxv(fs):
    return Fraction((1 << W[fs]) - 1) * Fraction(2) ** (255 - BIAS[fs])


def maxbytes(fs, neg):
    return b'\xff' * (SIZE[fs] - 2) + (b'\xff' if neg else b'\x7f') + b'\xff'


def exact(op, x, y):
    if op == 'add':
        return x + y
    if op == 'sub':
        return x - y
    if op == 'mul':
        return x * y
    return x / y


def is_neg(b):
    return bytearray(b)[-2] >= 0x80


def expclass(fs, b):
    e = bytearray(b)[-1]
    if e == 0:
        return 'zero'
    if e <= 8:
        return 'exp<=8'
    if fs == 'd' and e < 32:
        return 'exp<32'
    if e >= 248:
        return 'exp>=248'
    return 'normal'


# ---------------------------------------------------------------------------------------------
# the independent oracle: the property statement on one observed outcome

def judge(op, fs, a, b, out):
    """out: 'ok <hex>' | 'err <n> <hex>' | anything else.  Returns (key-suffix, text) or None; also the error in
    ulps of the result (or None) for the statistics."""
    va, vb = mbf.val(fs, a), mbf.val(fs, b)
    p = out.split()
    if op == 'div' and vb == 0:
        want = 'err 11 ' + mbf.hx(maxbytes(fs, is_neg(a)))
        if out != want:
            return ('divzero', 'division by a zero gave %s, expected %s' % (out, want)), None
        return None, None
    ex = exact(op, va, vb)
    if p[0] == 'err' and len(p) == 3 and p[1] == '6':
        if abs(ex) <= maxv(fs):
            return ('overflow-spurious', 'Overflow although the exact result %s does not exceed the largest number'
                    % float(ex)), None
        want = mbf.hx(maxbytes(fs, ex < 0))
        if p[2] != want:
            return ('overflow-value', 'Overflow delivered %s, expected the signed maximum %s' % (p[2], want)), None
        return None, None
    if p[0] != 'ok' or len(p) != 2 or len(p[1]) != 2 * SIZE[fs]:
        return ('outcome', 'unexpected outcome %s' % out), None
    r = mbf.unhx(p[1])
    vr = mbf.val(fs, r)
    if vr == 0:
        if ex != 0 and abs(ex) >= MINPOS:
            return ('zero-above-min', 'result is zero but the exact result %s has magnitude >= 2^-128' % float(ex)), None
        return None, None
    err = abs(vr - ex) / mbf.ulp(fs, r)
    bad = err >= BOUND[op] if STRICT[op] else err > BOUND[op]
    if bad:
        if abs(ex) > maxv(fs) + mbf.ulp(fs, r):
            return ('overflow-missed', 'no Overflow although the exact result %s exceeds the largest number; got %s'
                    % (float(ex), out)), err
        return ('error-bound', 'result %s is %.4f ulp from the exact result (bound %s%s)'
                % (out, float(err), '<' if STRICT[op] else '<=', BOUND[op])), err
    return None, err


# ---------------------------------------------------------------------------------------------
# implementation adapters

class Hang(BaseException):
    pass


class Stop(Exception):
    pass


class Watchdog(object):
    """Bounds one call into the implementation; shares SIGALRM with the harness' global limit."""

    def __init__(self):
        self.active = False
        self.prev = signal.getsignal(signal.SIGALRM)
        if getattr(self.prev, '__self__', None).__class__.__name__ == 'Watchdog':
            self.prev = self.prev.__self__.prev
        signal.signal(signal.SIGALRM, self._on_alarm)

    def _on_alarm(self, signum, frame):
        if self.active:
            self.active = False
            raise Hang()
        if callable(self.prev):
            self.prev(signum, frame)

    def run(self, fn, limit=10):
        t0 = time.time()
        old = signal.setitimer(signal.ITIMER_REAL, limit)[0]
        self.active = True
        try:
            return fn()
        finally:
            self.active = False
            signal.setitimer(signal.ITIMER_REAL, max(old - (time.time() - t0), 0.05) if old else 0)


class Console(object):
    def __init__(self):
        self.msgs = []

    def write_line(self, msg):
        self.msgs.append(bytes(msg))


class VImpl(object):
    """values.add/sub/mul/div of the real code with the soft error handler."""

    def __init__(self):
        from pcbasic.basic.values import values, numbers
        from pcbasic.basic.base import error
        self.error = error
        self.console = Console()
        self.vs = values.Values(None, False)
        self.vs.set_handler(values.FloatErrorHandler(self.console))
        self.cls = {'s': numbers.Single, 'd': numbers.Double}
        self.tchar = {numbers.Single: 's', numbers.Double: 'd'}
        self.fn = {'add': values.add, 'sub': values.sub, 'mul': values.mul, 'div': values.div}

    def call(self, op, ta, a, tb, b):
        del self.console.msgs[:]
        x = self.cls[ta](None, self.vs).from_bytes(bytes(a))
        y = self.cls[tb](None, self.vs).from_bytes(bytes(b))
        try:
            r = self.fn[op](x, y)
        except self.error.BASICError as e:
            return 'err %d' % e.err
        except Exception as e:
            return 'exc %s' % type(e).__name__
        if bytes(x.to_bytes()) != bytes(a) or bytes(y.to_bytes()) != bytes(b):
            return 'operand-modified'
        t = self.tchar.get(type(r))
        if t is None:
            return 'type %s' % type(r).__name__
        o = '%s %s' % (t, mbf.hx(r.to_bytes()))
        if self.console.msgs:
            return 'err %s %s' % (','.join(str(ERRNUM.get(m, m)) for m in self.console.msgs), o)
        return 'ok ' + o


def widen(t, b, to):
    return bytes(b) if t == to else b'\0\0\0\0' + bytes(b)


# ---------------------------------------------------------------------------------------------
# generators

def rand_man(rng, fs):
    w = W[fs]
    top = 1 << (w - 1)
    k = rng.random()
    if k < 0.2:
        return top
    if k < 0.35:
        return (1 << w) - 1 - rng.choice([0, 1, 2, 3, 0xff])
    if k < 0.5:
        return top | rng.choice(mbf.SPECIAL_MAN_LOW)
    return top | rng.randrange(top)


def gen_aligned(rng, fs):
    """|exponent difference| = d for every d in 0..w+10: sticky bits, guard byte, the subtraction shortcut."""
    w = W[fs]
    d = rng.randrange(0, w + 11)
    e1 = rng.randrange(max(1, d + 1), 256)
    e2 = e1 - d
    if e2 < 1:
        e1, e2 = d + 1, 1
    m1 = rand_man(rng, fs)
    k = rng.random()
    if k < 0.3 and d <= w:
        # low part of the smaller operand: exactly half / just above / just below half an ulp of the larger
        low = rng.choice([0, 1, (1 << d) >> 1, ((1 << d) >> 1) + 1, max(((1 << d) >> 1) - 1, 0), (1 << d) - 1])
        m2 = ((1 << (w - 1)) | (rng.randrange(1 << (w - 1)) >> d << d) | (low & ((1 << d) - 1))) & ((1 << w) - 1)
    else:
        m2 = rand_man(rng, fs)
    a = mbf.make(fs, rng.random() < 0.5, m1, e1)
    b = mbf.make(fs, rng.random() < 0.5, m2, e2)
    return (a, b) if rng.random() < 0.5 else (b, a)


def isqrt_frac(q, w):
    """integer mantissa (w bits) m with m*m*2^(-2(w-1)) close to q (1 <= q < 4)"""
    import math
    n = int(q * (1 << (2 * (w - 1))))
    m = math.isqrt(n)
    return min(max(m, 1 << (w - 1)), (1 << w) - 1)


def gen_limit(rng, fs, op):
    """mul/div pairs whose exact result lies within a few ulps of the largest number or of 2^-128."""
    w, bias = W[fs], BIAS[fs]
    top = 1 << (w - 1)
    m1 = rand_man(rng, fs)
    e1 = rng.randrange(1, 256)
    hi = rng.random() < 0.5
    # target mantissa product/quotient near a power of two: pick m2 so that m1*m2 (or m1/m2) is close to 2^k
    delta = rng.choice([-3, -2, -1, 0, 1, 2, 3])
    if op == 'mul':
        # m1*m2 ~ 2^(2w-1) (result mantissa about to carry into the next binade) or m2 arbitrary
        if rng.random() < 0.6:
            m2 = min(max(((1 << (2 * w - 1)) // m1) + delta, top), (1 << w) - 1)
        else:
            m2 = rand_man(rng, fs)
        # product exponent byte e1+e2-128 (or -129); make it land on 255/256/257 or 0/1/2
        tgt = rng.choice([254, 255, 256, 257] if hi else [-1, 0, 1, 2])
        e2 = tgt + 128 - e1 + rng.choice([0, 0, 1])
    else:
        if rng.random() < 0.6:
            # m1/m2 ~ 1: m2 = m1 + delta
            m2 = min(max(m1 + delta, top), (1 << w) - 1)
        else:
            m2 = rand_man(rng, fs)
        tgt = rng.choice([254, 255, 256, 257] if hi else [-1, 0, 1, 2])
        e2 = e1 + 128 - tgt + rng.choice([0, 0, 1])
    if not 1 <= e2 <= 255:
        e1 = min(255, max(1, e1 + (e2 - 128 if e2 > 255 else e2 - 1) * (1 if op == 'div' else -1)))
        e2 = min(255, max(1, e2))
    a = mbf.make(fs, rng.random() < 0.5, m1, e1)
    b = mbf.make(fs, rng.random() < 0.5, m2, e2)
    return a, b


def gen_addlimit(rng, fs):
    """sums at the top of the range: max + something around half an ulp of max, and sums of equal signs"""
    w = W[fs]
    m1 = (1 << w) - 1 - rng.choice([0, 0, 1, 2])
    neg = rng.random() < 0.5
    a = mbf.make(fs, neg, m1, 255)
    d = rng.choice([0, 1, 2, w - 2, w - 1, w, w + 1, w + 2, w + 8, w + 9])
    b = mbf.make(fs, neg if rng.random() < 0.8 else not neg, rand_man(rng, fs), max(1, 255 - d))
    return (a, b) if rng.random() < 0.5 else (b, a)


def gen_small_double(rng):
    a, b = mbf.gen_pair(rng, 'd')
    a = a[:-1] + bytes([rng.randrange(1, 48)])
    k = rng.random()
    if k < 0.3:
        b = b'\0\0\0\0\0\0\0\x81'
    elif k < 0.6:
        b = b[:-1] + bytes([rng.randrange(0x78, 0x9a)])
    return (a, b) if rng.random() < 0.5 else (b, a)


def gen_divisor(rng, fs):
    """divisors with long runs of low one bits (the right-shifting divisor loses them) or powers of two"""
    w = W[fs]
    top = 1 << (w - 1)
    k = rng.random()
    if k < 0.3:
        m2 = top
    elif k < 0.7:
        m2 = top | ((1 << rng.randrange(1, w - 1)) - 1)
    else:
        m2 = ((1 << w) - 1) ^ (1 << rng.randrange(0, w - 1))
    a = mbf.gen_float(rng, fs)
    b = mbf.make(fs, rng.random() < 0.5, m2, rng.randrange(0x60, 0xa0))
    return a, b


def gen_case(rng, fs):
    k = rng.random()
    if k < 0.40:
        return 'pair', mbf.gen_pair(rng, fs)
    if k < 0.58:
        return 'aligned', gen_aligned(rng, fs)
    if k < 0.70:
        return 'limit-mul', gen_limit(rng, fs, 'mul')
    if k < 0.82:
        return 'limit-div', gen_limit(rng, fs, 'div')
    if k < 0.88:
        return 'limit-add', gen_addlimit(rng, fs)
    if k < 0.94:
        return 'divisor', gen_divisor(rng, fs)
    if fs == 'd':
        return 'small-double', gen_small_double(rng)
    return 'pair', mbf.gen_pair(rng, fs)


# ---------------------------------------------------------------------------------------------

class Run(object):
    def __init__(self, ctx):
        self.ctx = ctx
        self.dog = Watchdog()
        self.fimpl = mbf.Impl()
        self.vimpl = VImpl()
        self.worst = {}
        self.cases, self.outs, self.lines = [], [], []
        self.hangs = 0

    # --- bookkeeping ---------------------------------------------------------------------------
    def fail(self, level, op, fs, a, b, verdict, extra=None):
        kind, text = verdict
        key = '%s:%s:%s:%s:%s' % (level, op, fs, kind, expclass(fs, a))
        case = {'level': level, 'op': op, 'fs': fs, 'a': mbf.hx(a), 'b': mbf.hx(b)}
        if extra:
            case.update(extra)
        self.ctx.fail(key, case, '%s %s %s %s: %s' % (level, mbf.hx(a), SYM[op], mbf.hx(b), text))

    def note_err(self, op, fs, err, a, b):
        if err is None:
            return
        k = op + ':' + fs
        if err > self.worst.get(k, (Fraction(-1),))[0]:
            self.worst[k] = (err, mbf.hx(a), mbf.hx(b))
        self.ctx.count('ulp:%s:%s' % (op, '0' if err == 0 else '<=0.5' if err <= Fraction(1, 2) else
                                      '<=0.625' if err <= Fraction(5, 8) else '<=1' if err <= 1 else
                                      '<=1.5' if err <= Fraction(3, 2) else '<=2' if err <= 2 else '>2'))

    def flush(self):
        if self.cases:
            self.ctx.compare(self.cases, self.outs, self.lines, label='c04')
        self.cases, self.outs, self.lines = [], [], []

    def guarded(self, fn, level, op, fs, a, b):
        try:
            return self.dog.run(fn, 10)
        except Hang:
            self.hangs += 1
            self.fail(level, op, fs, a, b, ('hang', 'no return within 10 s'))
            if self.hangs >= 3:
                self.flush()
                raise Stop()
            return 'hang'

    # --- Float methods ---------------------------------------------------------------------------
    def float_op(self, op, fs, a, b, cls=None):
        out = self.guarded(lambda: self.fimpl.call(op, fs, a, b), 'float', op, fs, a, b)
        self.cases.append(['float', op, fs, mbf.hx(a), mbf.hx(b)])
        self.outs.append(out)
        self.lines.append(mbf.line(op, fs, a, b))
        self.ctx.case(('float', op, fs, bytes(a), bytes(b)))
        self.ctx.count('float:' + op)
        self.ctx.count('outcome:' + ' '.join(out.split()[:2 if out.startswith('err') else 1]))
        verdict, err = judge(op, fs, a, b, out)
        self.note_err(op, fs, err, a, b)
        if verdict and out != 'hang':
            self.fail('float', op, fs, a, b, verdict)
        return out

    # --- values.add/sub/mul/div, including single/double mixes -------------------------------------
    def values_op(self, op, ta, a, tb, b):
        t = 'd' if 'd' in (ta, tb) else 's'
        wa, wb = widen(ta, a, t), widen(tb, b, t)
        out = self.guarded(lambda: self.vimpl.call(op, ta, a, tb, b), 'values', op, t, wa, wb)
        self.cases.append(['values', op, ta, mbf.hx(a), tb, mbf.hx(b)])
        self.outs.append(out)
        self.lines.append('v %s %s %s %s %s' % (op, ta, mbf.hx(a), tb, mbf.hx(b)))
        self.ctx.case(('values', op, ta, bytes(a), tb, bytes(b)))
        self.ctx.count('values:%s:%s%s' % (op, ta, tb))
        p = out.split()
        # strip the type letter; a wrong result type is an unexpected outcome
        if len(p) >= 3 and p[-2] == t:
            flat = ' '.join(p[:-2] + p[-1:])
        else:
            flat = 'wrong-type ' + out
        verdict, err = judge(op, t, wa, wb, flat)
        self.note_err(op, t, err, wa, wb)
        if verdict and out != 'hang':
            self.fail('values', op, t, wa, wb, verdict, {'ta': ta, 'tb': tb})
        return out

    # --- in-place chains on one Float object -------------------------------------------------------
    def chain(self, fs, n):
        rng = self.ctx.rng
        cur = mbf.gen_float(rng, fs)
        obj = self.fimpl.num(fs, cur)
        hist = []
        for _ in range(n):
            op = rng.choice(OPS)
            k = rng.random()
            if k < 0.5:
                b = mbf.gen_float(rng, fs)
            elif k < 0.8 and bytearray(cur)[-1]:
                # related to the running value: nearly equal magnitude / reciprocal scale
                e = bytearray(cur)[-1]
                b = mbf.make(fs, rng.random() < 0.5, rand_man(rng, fs),
                             min(255, max(1, (e if op in ('add', 'sub') else 257 - e) + rng.choice([-1, 0, 0, 1]))))
            else:
                b = gen_limit(rng, fs, 'mul' if op != 'div' else 'div')[1]
            y = self.fimpl.num(fs, b)
            before = bytes(cur)
            meth = {'add': obj.iadd, 'sub': obj.isub, 'mul': obj.imul, 'div': obj.idiv}[op]
            try:
                r = self.dog.run(lambda: meth(y), 10)
                out = 'ok ' + mbf.hx(r.to_bytes())
                if r is not obj:
                    out = 'not-in-place ' + out
            except Hang:
                self.fail('chain', op, fs, before, b, ('hang', 'no return within 10 s'))
                raise Stop()
            except OverflowError as e:
                out = 'err 6 ' + mbf.hx(e.args[0].to_bytes())
            except ZeroDivisionError as e:
                out = 'err 11 ' + mbf.hx(e.args[0].to_bytes())
            except Exception as e:
                out = 'exc %s' % type(e).__name__
            hist.append('%s%s' % (SYM[op], mbf.hx(b)))
            self.cases.append(['chain', op, fs, mbf.hx(before), mbf.hx(b)])
            self.outs.append(out)
            self.lines.append(mbf.line(op, fs, before, b))
            self.ctx.case(('chain', op, fs, before, bytes(b)))
            self.ctx.count('chain-step:' + op)
            verdict, err = judge(op, fs, before, b, out)
            self.note_err(op, fs, err, before, b)
            if bytes(y.to_bytes()) != bytes(b):
                verdict = ('operand-modified', 'the right operand was modified')
            if verdict:
                self.fail('chain', op, fs, before, b, verdict, {'history': hist[-6:]})
                return
            # the object now holds the delivered value (also after a soft error: the signed maximum)
            cur = bytes(obj.to_bytes())
            if cur != mbf.unhx(out.split()[-1]):
                self.fail('chain', op, fs, before, b, ('state', 'object holds %s after %s' % (mbf.hx(cur), out)))
                return
            if bytearray(cur)[-1] == 0:
                self.ctx.count('chain:through-zero' + ('' if not any(bytearray(cur)) else '-noncanonical'))
        self.ctx.count('chains')


# ---------------------------------------------------------------------------------------------
# BASIC level

def lit(fs, b):
    fn = 'CVS' if fs == 's' else 'CVD'
    return '%s(%s)' % (fn, '+'.join('CHR$(%d)' % c for c in bytearray(b)))


SIGIL = {'s': '!', 'd': '#'}


def parse_dump(out, n):
    """'<messages>' lines and n byte values -> (list of messages, bytes) or None"""
    msgs = []
    nums = []
    for ln in out.replace(b'\r', b'').split(b'\n'):
        ln = ln.strip()
        if not ln:
            continue
        if ln in ERRNUM:
            msgs.append(ERRNUM[ln])
            continue
        try:
            nums += [int(x) for x in ln.split()]
        except ValueError:
            return None
    if len(nums) != n or any(not 0 <= v < 256 for v in nums):
        return None
    return msgs, bytes(nums)


def basic_expr(run, s, op, ta, a, tb, b):
    """A<ta> <op> B<tb> through variables; result read back with MKS$/MKD$."""
    ctx = run.ctx
    t = 'd' if 'd' in (ta, tb) else 's'
    n = SIZE[t]
    mk = 'MKS$' if t == 's' else 'MKD$'
    prog = 'LOCATE 1,1:A%s=%s:B%s=%s:Z$=%s(A%s%sB%s):FOR I%%=1 TO %d:PRINT ASC(MID$(Z$,I%%,1));:NEXT:PRINT' % (
        SIGIL[ta], lit(ta, a), SIGIL[tb], lit(tb, b), mk, SIGIL[ta], SYM[op], SIGIL[tb], n)
    try:
        out = run.dog.run(lambda: s.execute(prog.encode()), 30)
    except Hang:
        run.fail('basic', op, t, widen(ta, a, t), widen(tb, b, t), ('hang', 'no return within 30 s'),
                 {'program': prog})
        raise Stop()
    except Exception as e:
        out = b'<<EXC %s>>' % type(e).__name__.encode()
    ctx.case(('basic', op, ta, bytes(a), tb, bytes(b)))
    ctx.count('basic:%s:%s%s' % (op, ta, tb))
    pd = parse_dump(out, n)
    if pd is None:
        flat = 'unparsed %r' % out[:80]
    elif pd[0]:
        flat = 'err %s %s' % (','.join(map(str, pd[0])), mbf.hx(pd[1]))
    else:
        flat = 'ok ' + mbf.hx(pd[1])
    wa, wb = widen(ta, a, t), widen(tb, b, t)
    verdict, err = judge(op, t, wa, wb, flat)
    run.note_err(op, t, err, wa, wb)
    if verdict:
        run.fail('basic', op, t, wa, wb, verdict, {'program': prog, 'ta': ta, 'tb': tb})
    return flat


def basic_accumulate(run, s, fs, n):
    """A BASIC program folds an array of operands into an accumulator with a random operator per step and
    stores every intermediate value; each step is judged against its own exact result."""
    ctx = run.ctx
    rng = ctx.rng
    sg = SIGIL[fs]
    start = mbf.gen_float(rng, fs)
    ops, vals = [], []
    e = bytearray(start)[-1] or 129
    for _ in range(n):
        op = rng.choice(OPS)
        k = rng.random()
        if k < 0.4:
            b = mbf.gen_float(rng, fs)
        else:
            b = mbf.make(fs, rng.random() < 0.5, rand_man(rng, fs), min(255, max(1, rng.randrange(e - 3, e + 4)
                         if op in ('add', 'sub') else rng.randrange(0x7d, 0x84))))
        ops.append(op)
        vals.append(b)
    lines = ['10 DIM V%s(%d),R%s(%d),O%%(%d)' % (sg, n, sg, n, n), '20 X%s=%s' % (sg, lit(fs, start))]
    ln = 30
    for i, (op, b) in enumerate(zip(ops, vals)):
        lines.append('%d V%s(%d)=%s:O%%(%d)=%d' % (ln, sg, i, lit(fs, b), i, OPS.index(op)))
        ln += 10
    lines += ['%d FOR I%%=0 TO %d:LOCATE 1,1:PRINT "#";I%%' % (ln, n - 1),
              '%d ON O%%(I%%)+1 GOSUB 9000,9010,9020,9030' % (ln + 10),
              '%d R%s(I%%)=X%s' % (ln + 20, sg, sg), '%d NEXT' % (ln + 30), '%d END' % (ln + 40),
              '9000 X%s=X%s+V%s(I%%):RETURN' % (sg, sg, sg), '9010 X%s=X%s-V%s(I%%):RETURN' % (sg, sg, sg),
              '9020 X%s=X%s*V%s(I%%):RETURN' % (sg, sg, sg), '9030 X%s=X%s/V%s(I%%):RETURN' % (sg, sg, sg)]
    mk = 'MKS$' if fs == 's' else 'MKD$'
    sz = SIZE[fs]
    try:
        run.dog.run(lambda: [s.execute(b'NEW')] + [s.execute(l.encode()) for l in lines], 60)
        msgs_out = run.dog.run(lambda: s.execute(b'LOCATE 1,1:RUN'), 60)
        dump = run.dog.run(lambda: s.execute(
            ('FOR J%%=0 TO %d:Z$=%s(R%s(J%%)):FOR I%%=1 TO %d:PRINT ASC(MID$(Z$,I%%,1));:NEXT:PRINT:NEXT'
             % (n - 1, mk, sg, sz)).encode()), 60)
    except Hang:
        ctx.fail('basic-acc:hang', {'level': 'basic-acc', 'program': '\n'.join(lines)}, 'no return within 60 s')
        raise Stop()
    pd = parse_dump(dump, n * sz)
    prog = '\n'.join(lines)
    if pd is None or pd[0]:
        ctx.fail('basic-acc:dump', {'level': 'basic-acc', 'program': prog}, 'could not read the results: %r' % dump[:120])
        return
    # every step announces itself ('# i'), so a soft error message belongs to the step printed before it
    msgs = {}
    step = None
    for m in msgs_out.replace(b'\r', b'').split(b'\n'):
        m = m.strip()
        if not m:
            continue
        if m.startswith(b'#') and m[1:].strip().isdigit():
            step = int(m[1:])
        elif m in ERRNUM and step is not None:
            msgs.setdefault(step, []).append(ERRNUM[m])
        else:
            ctx.fail('basic-acc:output', {'level': 'basic-acc', 'program': prog}, 'unexpected output %r' % m[:60])
            return
    cur = start
    for i, (op, b) in enumerate(zip(ops, vals)):
        r = pd[1][i * sz:(i + 1) * sz]
        got = msgs.get(i, [])
        if len(got) > 1:
            ctx.fail('basic-acc:%s:%s:message' % (op, fs), {'level': 'basic-acc', 'program': prog, 'step': i},
                     'step %d: messages %s' % (i, got))
            return
        flat = ('err %d %s' % (got[0], mbf.hx(r))) if got else 'ok ' + mbf.hx(r)
        ctx.case(('basic-acc', op, fs, bytes(cur), bytes(b)))
        ctx.count('basic-acc-step:' + op)
        run.cases.append(['basic-acc', op, fs, mbf.hx(cur), mbf.hx(b)])
        run.outs.append(flat)
        run.lines.append(mbf.line(op, fs, cur, b))
        verdict, err = judge(op, fs, cur, b, flat)
        run.note_err(op, fs, err, cur, b)
        if verdict:
            run.fail('basic-acc', op, fs, cur, b, verdict, {'program': prog, 'step': i})
            return
        cur = r
    ctx.count('basic-acc-programs')


# ---------------------------------------------------------------------------------------------
# fixed cases named in the statement / design

def fixed_cases():
    one_d = b'\0\0\0\0\0\0\0\x81'
    one_s = b'\0\0\0\x81'
    out = []
    # D5: 1D-31 * 1#, 2^-113 * 1, 1D-20 * 1D-15
    out.append(('mul', 'd', b'\x94\x2a\xca\xb2\xb0\x22\x22\x1a', one_d))
    out.append(('mul', 'd', b'\0\0\0\0\0\0\0\x10', one_d))
    out.append(('mul', 'd', b'\0\0\0\0\0\0\0\x01', one_d))
    out.append(('mul', 's', b'\0\0\0\x01', one_s))
    # smallest * just below/at/above 1
    for fs, one in (('s', one_s), ('d', one_d)):
        sz = SIZE[fs]
        mn = bytes(sz - 1) + b'\x01'
        mx = maxbytes(fs, False)
        below1 = b'\xff' * (sz - 2) + b'\x7f\x80'
        above1 = b'\x01' + bytes(sz - 2) + b'\x81'
        half = bytes(sz - 1) + b'\x80'
        two = bytes(sz - 1) + b'\x82'
        for op in OPS:
            for a in (mn, mx):
                for b in (one, below1, above1, half, two, mn, mx):
                    out.append((op, fs, a, b))
                    out.append((op, fs, b, a))
        # max + half an ulp of max (tie -> even -> up -> Overflow), and just below
        out.append(('add', fs, mx, bytes(sz - 1) + bytes([255 - W[fs]])))
        out.append(('add', fs, mx, b'\xff' * (sz - 2) + b'\x7f' + bytes([254 - W[fs]])))
        out.append(('sub', fs, mx, bytes(sz - 2) + b'\x80' + bytes([255 - W[fs]])))
    return out


# ---------------------------------------------------------------------------------------------

def run(ctx):
    r = Run(ctx)
    try:
        run_all(ctx, r)
    except Stop:
        ctx.log('stopped early: the implementation hangs (failures registered)')
    r.flush()
    ctx.notes['worst_error_in_ulps_of_result'] = {k: '%.6f (%s, %s)' % (float(v[0]), v[1], v[2])
                                                  for k, v in sorted(r.worst.items())}


def run_all(ctx, r):
    rng = ctx.rng
    quick = ctx.quick
    for op, fs, a, b in fixed_cases():
        r.float_op(op, fs, a, b)
        ctx.count('gen:fixed')
    r.flush()
    n = 20000 if quick else 250000
    for i in range(n):
        fs = rng.choice('sd')
        kind, (a, b) = gen_case(rng, fs)
        ctx.count('gen:' + kind)
        ctx.count('fmt:' + fs)
        for op in OPS:
            r.float_op(op, fs, a, b)
        if i % 4 == 0:
            # the same pair at the values level; every fourth of those as a single/double mix
            if fs == 's' and i % 16 == 0:
                ta, tb = rng.choice([('s', 'd'), ('d', 's')])
                a2 = a if ta == 's' else b'\0\0\0\0' + a
                b2 = b if tb == 's' else b'\0\0\0\0' + b
                if rng.random() < 0.5:
                    # the double operand gets low bits of its own
                    if ta == 'd':
                        a2 = bytes([rng.randrange(256) for _ in range(4)]) + a
                    else:
                        b2 = bytes([rng.randrange(256) for _ in range(4)]) + b
            else:
                ta = tb = fs
                a2, b2 = a, b
            for op in OPS:
                r.values_op(op, ta, a2, tb, b2)
        if i % 2000 == 1999:
            r.flush()
    r.flush()
    ctx.log('pairs done: %d evaluations' % ctx.evaluations)
    for _ in range(600 if quick else 10000):
        r.chain(rng.choice('sd'), rng.randrange(3, 14))
    r.flush()
    ctx.log('chains done')
    s = basic.new_session()
    with s:
        for op, fs, a, b in fixed_cases()[:12]:
            basic_expr(r, s, op, fs, a, fs, b)
        for i in range(800 if quick else 8000):
            fs = rng.choice('sd')
            kind, (a, b) = gen_case(rng, fs)
            ta = tb = fs
            if fs == 's' and rng.random() < 0.3:
                ta, tb = rng.choice([('s', 'd'), ('d', 's')])
                if ta == 'd':
                    a = bytes([rng.randrange(256) for _ in range(4)]) + a
                else:
                    b = bytes([rng.randrange(256) for _ in range(4)]) + b
            op = OPS[i % 4]
            flat = basic_expr(r, s, op, ta, a, tb, b)
            # the expression evaluator must deliver what values.<op> delivers
            v = r.vimpl.call(op, ta, a, tb, b).split()
            vflat = ' '.join(v[:-2] + v[-1:]) if len(v) >= 3 else ' '.join(v)
            if flat != vflat:
                t = 'd' if 'd' in (ta, tb) else 's'
                r.fail('basic', op, t, widen(ta, a, t), widen(tb, b, t),
                       ('differs-from-values', 'expression gave %s, values.%s gave %s' % (flat, op, vflat)),
                       {'ta': ta, 'tb': tb})
        ctx.log('BASIC expressions done')
        for _ in range(60 if quick else 600):
            basic_accumulate(r, s, rng.choice('sd'), rng.randrange(4, 12))
    r.flush()
    ctx.sample({'D5 region': 'mul d 942acab2b022221a (1D-31) * 1#',
                'impl': r.fimpl.call('mul', 'd', b'\x94\x2a\xca\xb2\xb0\x22\x22\x1a', b'\0\0\0\0\0\0\0\x81')})


def replay(ctx, payload):
    case = payload.get('case', {})
    key = payload.get('key')
    sub = Proxy(ctx)
    r = Run(sub)
    try:
        if case.get('level') in ('float', 'chain', 'basic-acc') and case.get('a'):
            r.float_op(case['op'], case['fs'], mbf.unhx(case['a']), mbf.unhx(case['b']))
        elif case.get('level') == 'values':
            ta, tb = case.get('ta', case['fs']), case.get('tb', case['fs'])
            a, b = mbf.unhx(case['a']), mbf.unhx(case['b'])
            r.values_op(case['op'], ta, a[-SIZE[ta]:], tb, b[-SIZE[tb]:])
        elif case.get('level') == 'basic' and case.get('a'):
            ta, tb = case.get('ta', case['fs']), case.get('tb', case['fs'])
            a, b = mbf.unhx(case['a']), mbf.unhx(case['b'])
            s = basic.new_session()
            with s:
                basic_expr(r, s, case['op'], ta, a[-SIZE[ta]:], tb, b[-SIZE[tb]:])
        else:
            import random
            sub.rng = random.Random(payload.get('seed', 0))
            run_all(sub, r)
    except Stop:
        pass
    # any failure of the same operator/format on this input counts (the level prefix may differ)
    tail = key.split(':', 1)[1] if key and ':' in key else key
    hits = [f for f in sub.failures if f['key'] == key or f['key'].split(':', 1)[-1] == tail]
    return hits[0]['what'] if hits else None


class Proxy(object):
    """so that replay can reuse the run without touching the outer evidence"""

    def __init__(self, ctx):
        self.__dict__.update(ctx.__dict__)
        self._ctx = ctx
        self.failures = []
        self.disagreements = []

    def __getattr__(self, name):
        return getattr(self._ctx.__class__, name).__get__(self)
