import PcbV.Lemmas.Renum
import PcbV.Lemmas.MiniRenum
import PcbV.Props.C13
/-
  C14 — RENUM renumbers lines and every reference to them consistently.
  Theorems about `PcbV.Renum` (transcription of Program.renum with the pending fix
  C14-renum-error-goto-0, and of the trap remap of Interpreter.renum_), on the record list that C13's
  abstraction function yields.  `Sorted` and `Repr` are C13's.
-/
namespace PcbV.C14
open PcbV PcbV.Program PcbV.Renum PcbV.Gen

/-- **numbering rule.**  After an accepted RENUM the line numbers are: the lines below `start`
    unchanged, followed by new, new+step, new+2·step, … for the lines from `start` on, in their
    original order. -/
theorem renum_numbering (rs : List Rec) (new start step : Nat) (res : Result) (hs : Sorted rs)
    (h : renum rs new start step = .ok res) :
    lineNos res.prog = lineNos (kept rs start) ++ List.range' new (moved rs start).length step := by
  obtain ⟨_, hm, hp, _⟩ := renum_ok h
  have hsp := assign_spec _ _ _ _ hm
  rw [hp]
  conv => lhs; rw [split_kept_moved rs start hs]
  unfold lineNos
  simp only [List.map_append, List.map_map]
  congr 1
  · apply List.map_congr_left
    intro r hr
    have := (List.mem_filter.mp hr).2
    simp only [decide_eq_true_eq] at this
    simpa using fmap_kept hm r.1 this
  · have hnd : (res.map.map (·.1)).Nodup := by rw [hsp.1]; exact nodup_lineNos (sorted_moved start hs)
    have := map_fmap_keys res.map hnd
    rw [hsp.1, hsp.2] at this
    unfold lineNos at this
    simp only [List.map_map, List.length_map] at this
    exact this

/-- **acceptance.**  RENUM is accepted iff no line that keeps its number is ≥ new and every number
    handed out is ≤ 65529 (equivalently the last one, see `renum_accepted_last`); otherwise it is
    Illegal function call and (in the model: by construction) nothing is changed. -/
theorem renum_accepted_iff (rs : List Rec) (new start step : Nat) (hmax : ∀ r ∈ rs, r.1 < 65535) :
    (∃ res, renum rs new start step = .ok res) ↔
      (∀ r ∈ rs, r.1 < start → r.1 < new) ∧ ∀ i, i < (moved rs start).length → new + step * i ≤ 65529 := by
  have hl : ∀ l ∈ lineNos (moved rs start), l < 65535 := by
    intro l hl
    obtain ⟨r, hr, rfl⟩ := List.mem_map.mp hl
    exact hmax r (List.mem_filter.mp hr).1
  have hiff := assign_ok_iff (lineNos (moved rs start)) new step hl
  simp only [lineNos, List.length_map] at hiff
  constructor
  · rintro ⟨res, h⟩
    obtain ⟨hk, hm, _, _⟩ := renum_ok h
    refine ⟨fun r hr hlt => hk r (List.mem_filter.mpr ⟨hr, by simpa using hlt⟩), ?_⟩
    exact hiff.mp ⟨_, hm⟩
  · rintro ⟨hk, hn⟩
    obtain ⟨m, hm⟩ := hiff.mpr hn
    unfold renum
    rw [if_neg]
    · unfold lineNos; rw [hm]; exact ⟨_, rfl⟩
    · intro hany
      obtain ⟨r, hr, hle⟩ := List.any_eq_true.mp hany
      have h1 := List.mem_filter.mp hr
      have := hk r h1.1 (by simpa using h1.2)
      simp at hle; omega

theorem renum_error_is_ifc (rs : List Rec) (new start step e : Nat)
    (h : renum rs new start step = .error e) : e = E.ifc := by
  unfold renum at h
  split at h
  · cases h; rfl
  · split at h
    · rename_i e' he
      cases h
      -- the numbering loop only raises Illegal function call
      have : ∀ (ls : List Nat) (new : Nat), assign new step ls = .error e → e = E.ifc := by
        intro ls
        induction ls with
        | nil => intro new h; simp [assign] at h
        | cons l ls ih =>
          intro new h
          unfold assign at h
          split at h
          · cases h; rfl
          · split at h
            · cases h
            · rename_i e'' he''; cases h; exact ih _ he''
      exact this _ _ he
    · cases h

/-- the bound on all numbers is the bound on the last one -/
theorem renum_accepted_last (new step k : Nat) (hk : 0 < k) :
    (∀ i, i < k → new + step * i ≤ 65529) ↔ new + step * (k - 1) ≤ 65529 := by
  constructor
  · intro h; exact h (k - 1) (by omega)
  · intro h i hi
    have : step * i ≤ step * (k - 1) := Nat.mul_le_mul_left _ (by omega)
    omega

/-- **C13's order invariant is kept**: the renumbered program is strictly ascending -/
theorem renum_sorted (rs : List Rec) (new start step : Nat) (res : Result) (hs : Sorted rs) (hstep : 0 < step)
    (h : renum rs new start step = .ok res) : Sorted res.prog := by
  have hn := renum_numbering rs new start step res hs h
  obtain ⟨hk, _, _, _⟩ := renum_ok h
  have : (lineNos res.prog).Pairwise (· < ·) := by
    rw [hn, List.pairwise_append]
    refine ⟨?_, List.pairwise_lt_range' step hstep, ?_⟩
    · unfold lineNos; rw [List.pairwise_map]; exact sorted_kept start hs
    · intro a ha b hb
      obtain ⟨r, hr, rfl⟩ := List.mem_map.mp ha
      obtain ⟨i, _, rfl⟩ := List.mem_range'.mp hb
      have := hk r hr
      omega
  unfold lineNos at this
  rw [List.pairwise_map] at this
  exact this

/-- **order-preserving bijection on the existing lines**: old ↦ new number is strictly monotone
    (hence injective) on the line numbers of the program -/
theorem renum_order_bijection (rs : List Rec) (new start step : Nat) (res : Result) (hs : Sorted rs)
    (hstep : 0 < step) (h : renum rs new start step = .ok res) (a b : Nat) (ha : a ∈ lineNos rs)
    (hb : b ∈ lineNos rs) (hab : a < b) : fmap res.map a < fmap res.map b := by
  have hs' := renum_sorted rs new start step res hs hstep h
  obtain ⟨_, _, hp, _⟩ := renum_ok h
  rw [hp] at hs'
  unfold Sorted at hs hs'
  rw [List.pairwise_map] at hs'
  have hboth := hs.and hs'
  obtain ⟨x, hx, rfl⟩ := List.mem_map.mp ha
  obtain ⟨y, hy, rfl⟩ := List.mem_map.mp hb
  rcases pairwise_either hboth hx hy with rfl | h1 | h1
  · omega
  · exact h1.2
  · have := h1.1; omega

/-- the map old ↦ new is injective on the existing lines -/
theorem renum_injective {rs : List Rec} {new start step : Nat} {res : Result} (hs : Sorted rs)
    (hstep : 0 < step) (h : renum rs new start step = .ok res) {a b : Nat} (ha : a ∈ lineNos rs)
    (hb : b ∈ lineNos rs) (he : fmap res.map a = fmap res.map b) : a = b := by
  rcases Nat.lt_trichotomy a b with hlt | heq | hgt
  · have := renum_order_bijection rs new start step res hs hstep h a b ha hb hlt; omega
  · exact heq
  · have := renum_order_bijection rs new start step res hs hstep h b a hb ha hgt; omega

/-- **jump-target preservation**: looking up the new number of an existing line in the renumbered
    program finds the record at the position where the old number was found before -/
theorem renum_jump_target (rs : List Rec) (new start step : Nat) (res : Result) (hs : Sorted rs)
    (hstep : 0 < step) (h : renum rs new start step = .ok res) (n : Nat) (hn : n ∈ lineNos rs) :
    res.prog.findIdx? (fun r => r.1 == fmap res.map n) = rs.findIdx? (fun r => r.1 == n) := by
  obtain ⟨_, _, hp, _⟩ := renum_ok h
  rw [hp]
  apply findIdx_map
  intro x hx
  have hxm : x.1 ∈ lineNos rs := List.mem_map.mpr ⟨x, hx, rfl⟩
  by_cases he : x.1 = n
  · simp [he]
  · have : fmap res.map x.1 ≠ fmap res.map n := fun hh => he (renum_injective hs hstep h hxm hn hh)
    show (fmap res.map x.1 == fmap res.map n) = (x.1 == n)
    rw [beq_eq_false_iff_ne.mpr this, beq_eq_false_iff_ne.mpr he]

/-- **traps follow their line** (Interpreter.renum_, with the fix of D1): an active error/event trap
    on an existing line points, after RENUM, to the record at the same position; "no trap" stays. -/
theorem renum_traps (rs : List Rec) (new start step : Nat) (res : Result) (hs : Sorted rs)
    (hstep : 0 < step) (h : renum rs new start step = .ok res) (t : Nat) :
    (t = 0 → trapAfter res.map t = 0) ∧
    (t ≠ 0 → t ∈ lineNos rs →
      res.prog.findIdx? (fun r => r.1 == trapAfter res.map t) = rs.findIdx? (fun r => r.1 == t)) := by
  refine ⟨fun h0 => by simp [trapAfter, h0], fun h0 ht => ?_⟩
  simp only [trapAfter, h0, if_false]
  exact renum_jump_target rs new start step res hs hstep h t ht

/-- value of the map: the j-th line from `start` on gets new + step·j; any other number (a kept
    line, or a number that is no line) is left as it is -/
theorem renum_ref_value (rs : List Rec) (new start step : Nat) (res : Result) (hs : Sorted rs)
    (h : renum rs new start step = .ok res) :
    (lineNos (moved rs start)).map (fmap res.map) = List.range' new (moved rs start).length step ∧
    ∀ n, n ∉ lineNos (moved rs start) → fmap res.map n = n := by
  obtain ⟨_, hm, _, _⟩ := renum_ok h
  have hsp := assign_spec _ _ _ _ hm
  constructor
  · have hnd : (res.map.map (·.1)).Nodup := by rw [hsp.1]; exact nodup_lineNos (sorted_moved start hs)
    have := map_fmap_keys res.map hnd
    rw [hsp.1, hsp.2] at this
    simpa [lineNos] using this
  · intro n hn
    apply fmap_of_not_mem
    rw [hsp.1]; exact hn

/-- **references** (partial: `0 < new`).  Re-reading the renumbered program with RENUM's own
    token-aware scan: every line has the new number of the same line, every reference n has become
    `fmap n` (its new number if it names a renumbered line, itself otherwise — `renum_ref_value`),
    and every other byte — string literals, REM text, number constants, `ON ERROR GOTO 0` — is
    untouched.
    Gap: for `RENUM 0` the first renumbered line becomes line 0, and a reference `ON ERROR GOTO n`
    to it becomes `ON ERROR GOTO 0`, which no longer is a reference (`renum_refs_new0_counterexample`,
    known finding C14-F1); the bytes are still rewritten as stated (`renumBody` is the rewrite). -/
theorem renum_refs_partial (rs : List Rec) (new start step : Nat) (res : Result)
    (hmax : ∀ r ∈ rs, r.1 < 65535) (hbytes : ∀ r ∈ rs, Bytes.ok r.2) (hnew : 0 < new)
    (h : renum rs new start step = .ok res) :
    res.prog.map (fun r => (r.1, items r.2)) =
      rs.map (fun r => (fmap res.map r.1, (items r.2).map (Item.map (fmap res.map)))) := by
  obtain ⟨_, hm, hp, _⟩ := renum_ok h
  have hsp := assign_spec _ _ _ _ hm
  -- every value of the map is one of new + step·i, between new and 65529
  have hval : ∀ n v, look res.map n = some v → 0 < v ∧ v ≤ 65529 := by
    intro n v hl
    have hmem := look_mem _ _ _ hl
    have hv : v ∈ res.map.map (·.2) := List.mem_map.mpr ⟨_, hmem, rfl⟩
    rw [hsp.2] at hv
    obtain ⟨i, hi, rfl⟩ := List.mem_range'.mp hv
    have hl' : ∀ l ∈ lineNos (moved rs start), l < 65535 := by
      intro l hl
      obtain ⟨r, hr, rfl⟩ := List.mem_map.mp hl
      exact hmax r (List.mem_filter.mp hr).1
    have := (assign_ok_iff _ new step hl').mp ⟨_, hm⟩ i hi
    omega
  have hf : ∀ n, n < 65536 → fmap res.map n < 65536 := by
    intro n hn
    unfold fmap
    cases hl : look res.map n with
    | none => simpa using hn
    | some v => have := hval n v hl; simp; omega
  have hf0 : ∀ n, n ≠ 0 → fmap res.map n ≠ 0 := by
    intro n hn
    unfold fmap
    cases hl : look res.map n with
    | none => simpa using hn
    | some v => have := hval n v hl; simp; omega
  rw [hp, List.map_map]
  apply List.map_congr_left
  intro r hr
  simp only [Function.comp, items_renumBody _ hf hf0 r.2 (hbytes r hr)]

/-- **reports**: "Undefined line n in l" is printed exactly for the references n (in line l, old
    number) that name no line of the program; such references are kept (`renum_ref_value`) -/
theorem renum_reports_iff (rs : List Rec) (new start step : Nat) (res : Result)
    (h : renum rs new start step = .ok res) (n l : Nat) :
    (n, l) ∈ res.reports ↔ ∃ r ∈ rs, r.1 = l ∧ n ∈ refsBody r.2 ∧ n ∉ lineNos rs := by
  obtain ⟨_, hm, _, hr⟩ := renum_ok h
  have hsp := assign_spec _ _ _ _ hm
  have hnone : n ∉ lineNos rs → look res.map n = none := by
    intro hn
    apply look_none_of_not_mem
    rw [hsp.1]
    intro hmem
    obtain ⟨r, hr, rfl⟩ := List.mem_map.mp hmem
    exact hn (List.mem_map.mpr ⟨r, (List.mem_filter.mp hr).1, rfl⟩)
  rw [hr]
  unfold reports
  simp only [List.mem_flatMap, List.mem_map, List.mem_filter, Bool.and_eq_true, Option.isNone_iff_eq_none,
    Bool.not_eq_true', Prod.mk.injEq]
  constructor
  · rintro ⟨r, hr, n', ⟨hn', _, hc⟩, rfl, rfl⟩
    refine ⟨r, hr, rfl, hn', ?_⟩
    intro hmem
    have : (lineNos rs).contains n' = true := List.contains_iff_mem.mpr hmem
    rw [this] at hc; cases hc
  · rintro ⟨r, hr, rfl, hn', hnot⟩
    refine ⟨r, hr, n, ⟨hn', hnone hnot, ?_⟩, rfl, rfl⟩
    cases hc : (lineNos rs).contains n with
    | false => rfl
    | true => exact absurd (List.contains_iff_mem.mp hc) hnot

/-- **C13's representation invariant is kept**: the renumbered program, laid out at the same place
    (RENUM never moves or resizes a record), satisfies `C13.Repr` again — strictly sorted, 16-bit line
    numbers, well-formed bodies, same size, below the top of memory. -/
theorem renum_keeps_Inv (s : PState) (rs : List Rec) (new start step : Nat) (res : Result)
    (hrep : C13.Repr s rs) (hmax : ∀ r ∈ rs, r.1 < 65535) (hstep : 0 < step)
    (h : renum rs new start step = .ok res) :
    C13.Repr { s with code := ser (s.codeStart + 1) res.prog, dict := dictOf res.prog } res.prog ∧
      size res.prog = size rs := by
  obtain ⟨_, hm, hp, _⟩ := renum_ok h
  have hsp := assign_spec _ _ _ _ hm
  have hsize : size res.prog = size rs := by
    rw [hp]; exact size_map_eq _ (fun r => length_renumBody _ _) rs
  refine ⟨⟨renum_sorted rs new start step res hrep.sorted hstep h, ?_, rfl, rfl, ?_, hrep.lim⟩, hsize⟩
  · intro r' hr'
    rw [hp] at hr'
    obtain ⟨r, hr, rfl⟩ := List.mem_map.mp hr'
    refine ⟨?_, by simpa [wfBody_renumBody] using (hrep.good r hr).2⟩
    show fmap res.map r.1 ≤ 65535
    unfold fmap
    cases hl : look res.map r.1 with
    | none => have := hmax r hr; simp; omega
    | some v =>
      have hmem := look_mem _ _ _ hl
      have hv : v ∈ res.map.map (·.2) := List.mem_map.mpr ⟨_, hmem, rfl⟩
      rw [hsp.2] at hv
      obtain ⟨i, hi, rfl⟩ := List.mem_range'.mp hv
      have hl' : ∀ l ∈ lineNos (moved rs start), l < 65535 := by
        intro l hl
        obtain ⟨r, hr, rfl⟩ := List.mem_map.mp hl
        exact hmax r (List.mem_filter.mp hr).1
      have := (assign_ok_iff _ new step hl').mp ⟨_, hm⟩ i hi
      simp; omega
  · show s.codeStart + 1 + size res.prog ≤ s.limit
    rw [hsize]; exact hrep.mem

/-- RENUM x, y, 0 is refused before anything else (`step < 1`) -/
theorem renumCmd_step0 (rs : List Rec) (new old : Option Nat) : renumCmd rs new old (some 0) = .error E.ifc := by
  simp [renumCmd]

/-- Earlier statement of the behaviour clause over an abstract interpreter `run` on token-level
    programs (kept as a definition; nothing is proved about it).  The behaviour clause is now PROVED on the
    MiniBasic control-flow model of C19: `renum_semantics_map`, `renum_semantics`,
    `renum_semantics_all_targets_exist` below. -/
def RenumSemantics (run : List Rec → List (Bool × Nat)) : Prop :=
  ∀ rs new start step res, Sorted rs → 0 < new → 0 < step → renum rs new start step = .ok res →
    res.reports = [] →
    run res.prog = (run rs).map (fun o => if o.1 then (true, fmap res.map o.2) else o)

/-! ### behaviour: the renumbered program runs exactly like the original (MiniBasic, C19's Mech layer) -/

open PcbV.MiniBasic in
/-- **simulation, general form.**  Renumber a MiniBasic program (all line numbers and all jump targets of
    GOTO / GOSUB / IF…THEN n / ELSE n / ON…GOTO / ON…GOSUB) through ANY map `f` that never identifies an
    existing line with a different jump target (`Compat`: injective on existing lines, and a target naming no
    line does not land on a line's new number).  Then the interpreter mechanism — program positions, FOR /
    WHILE / GOSUB stacks, NEXT / WEND / ELSE scans — goes through the same states step for step, so the printed
    values and the way the program stops (END, error number, out of fuel) are identical, for every fuel,
    for the repaired and the unrepaired FOR code alike.  The proof uses nothing about `f` but `Compat`:
    Mech positions are statement indices, line numbers matter only in `lineIndex`. -/
theorem renum_semantics_map (f : Nat → Nat) (p : List Line)
    (hc : Compat f (progLines p) (progTargets p)) (fixed : Bool) (fuel : Nat) :
    MiniBasic.trace fixed (renumProg f p) fuel = MiniBasic.trace fixed p fuel :=
  trace_renum f p hc fixed fuel

open PcbV.MiniBasic in
/-- jump-target preservation at the MiniBasic level: position lookup commutes with renumbering -/
theorem renum_lineIndex (f : Nat → Nat) (p : List Line) (n : Nat)
    (hinj : ∀ l ∈ progLines p, f l = f n → l = n) :
    lineIndex (flatten (renumProg f p)) (f n) = lineIndex (flatten p) n := by
  rw [flatten_renum]
  exact lineIndexFrom_renum f n _ 0 (fun l hl => hinj l (codeLines_flatten_subset p hl))

open PcbV.MiniBasic in
/-- what `Compat` asks of a map, in the terms of `renum_order_bijection` / `renum_ref_value` -/
theorem compat_of_injective (f : Nat → Nat) (lines targets : List Nat)
    (hinj : ∀ a ∈ lines, ∀ b ∈ lines, f a = f b → a = b)
    (hmiss : ∀ n ∈ targets, n ∉ lines → ∀ l ∈ lines, f l ≠ f n) : Compat f lines targets := by
  intro l hl n hn he
  by_cases hmem : n ∈ lines
  · exact hinj l hl n hmem he
  · exact absurd he (hmiss n hn hmem l hl)

open PcbV.MiniBasic in
/-- **renum_semantics.**  For an accepted RENUM (`Renum.renum … = .ok res`) of a program whose lines are those of
    the MiniBasic program `p`: if no jump target that names no line coincides with one of the NEW line numbers
    (such targets are exactly the ones RENUM reports as "Undefined line", `renum_reports_iff`; they are kept
    unchanged, and would start to name a line), then running the renumbered program gives the same printed
    output and the same termination (END / error number / fuel) as running the original.  MiniBasic prints
    values, not line numbers, so the traces are equal, not merely equal up to a mapping. -/
theorem renum_semantics (p : List Line) (rs : List Rec) (new start step : Nat) (res : Result)
    (hs : Sorted rs) (hstep : 0 < step) (h : renum rs new start step = .ok res)
    (hlines : progLines p = lineNos rs)
    (hmiss : ∀ n ∈ progTargets p, n ∉ lineNos rs → n ∉ lineNos res.prog) (fixed : Bool) (fuel : Nat) :
    MiniBasic.trace fixed (renumProg (fmap res.map) p) fuel = MiniBasic.trace fixed p fuel := by
  apply renum_semantics_map
  rw [hlines]
  apply compat_of_injective
  · intro a ha b hb he
    exact renum_injective hs hstep h ha hb he
  · intro n hn hnot l hl he
    have hid : fmap res.map n = n :=
      (renum_ref_value rs new start step res hs h).2 n (fun hm => hnot (by
        obtain ⟨r, hr, rfl⟩ := List.mem_map.mp hm
        exact List.mem_map.mpr ⟨r, (List.mem_filter.mp hr).1, rfl⟩))
    obtain ⟨_, _, hp, _⟩ := renum_ok h
    apply hmiss n hn hnot
    rw [hp]
    obtain ⟨r, hr, rfl⟩ := List.mem_map.mp hl
    exact List.mem_map.mpr ⟨_, List.mem_map.mpr ⟨r, hr, rfl⟩, by simp [he, hid]⟩

open PcbV.MiniBasic in
/-- the case the property statement is about: every reference names an existing line (RENUM prints no
    "Undefined line") — no side condition left -/
theorem renum_semantics_all_targets_exist (p : List Line) (rs : List Rec) (new start step : Nat) (res : Result)
    (hs : Sorted rs) (hstep : 0 < step) (h : renum rs new start step = .ok res)
    (hlines : progLines p = lineNos rs) (hall : ∀ n ∈ progTargets p, n ∈ lineNos rs) (fixed : Bool) (fuel : Nat) :
    MiniBasic.trace fixed (renumProg (fmap res.map) p) fuel = MiniBasic.trace fixed p fuel :=
  renum_semantics p rs new start step res hs hstep h hlines (fun n hn hnot => absurd (hall n hn) hnot) fixed fuel

open PcbV.MiniBasic in
/-- why the side condition of `renum_semantics` is needed: `10 GOTO 100 / 20 PRINT 1`, RENUM 100 — the
    reference to the missing line 100 is kept (and reported), and line 10 becomes line 100: the original
    stops with Undefined line number, the renumbered program loops -/
theorem renum_semantics_collision_counterexample :
    let p : List Line := [⟨10, [.goto 100]⟩, ⟨20, [.print (.lit 1)]⟩]
    ∃ res, renum [(10, []), (20, [])] 100 0 10 = .ok res ∧
      MiniBasic.trace true p 5 = ([], .err E.undefined_line_number) ∧
      MiniBasic.trace true (renumProg (fmap res.map) p) 5 = ([], .fuel) := by
  refine ⟨_, rfl, ?_, ?_⟩ <;> decide +kernel

/-! ### non-vacuity and the recorded deviations -/

open PcbV.MiniBasic in
/-- `renum_semantics` is not vacuous: `10 GOSUB 30:ON 2 GOTO 20,40 / 20 END / 30 PRINT 7:RETURN / 40 IF 1 THEN 20`
    RENUM 100,20,5 is accepted, all targets exist, and the program prints 7 and ends — before and after -/
example :
    let p : List Line := [⟨10, [.gosub 30, .on_ (.lit 2) false [20, 40]]⟩, ⟨20, [.end_]⟩,
      ⟨30, [.print (.lit 7), .ret]⟩, ⟨40, [.ifThen (.lit 1) (some 20)]⟩]
    ∃ res, renum [(10, []), (20, []), (30, []), (40, [])] 100 20 5 = .ok res ∧
      progLines (renumProg (fmap res.map) p) = [10, 100, 105, 110] ∧
      MiniBasic.trace true p 20 = ([7], .ended) ∧
      MiniBasic.trace true (renumProg (fmap res.map) p) 20 = ([7], .ended) := by
  refine ⟨_, rfl, ?_, ?_, ?_⟩ <;> decide +kernel


/-- `5 GOTO 20 / 10 ON ERROR GOTO 0 / 20 GOTO 5:GOTO 77`, RENUM 100,10,5 -/
example : renum [(5, [137, 32, 14, 20, 0]), (10, [149, 32, 167, 32, 137, 32, 14, 0, 0]),
      (20, [137, 32, 14, 5, 0, 58, 137, 32, 14, 77, 0])] 100 10 5 =
    .ok ⟨[(5, [137, 32, 14, 105, 0]), (100, [149, 32, 167, 32, 137, 32, 14, 0, 0]),
      (105, [137, 32, 14, 5, 0, 58, 137, 32, 14, 77, 0])], [(10, 100), (20, 105)], [(77, 20)]⟩ := by decide +kernel

example : renum [(5, []), (10, [])] 5 10 10 = .error E.ifc := by decide +kernel
example : renum [(5, []), (10, [])] 65530 0 10 = .error E.ifc := by decide +kernel
example : renum [(5, []), (10, [])] 65529 10 10 = .ok ⟨[(5, []), (65529, [])], [(10, 65529)], []⟩ := by decide +kernel
example : refsBody [139, 32, 88, 231, 15, 167, 32, 137, 32, 14, 0, 0] = [0] := by decide +kernel
example : refsBody [149, 32, 167, 32, 137, 32, 14, 0, 0] = [] := by decide +kernel
/-- `ERROR 34:GOTO 50`, `ERROR 14`, `ERROR 143:GOSUB 50`: after a plain ERROR statement the scan goes on with the
    byte right behind the ERROR token (position restored), so the constant's value byte (quote, jump-number lead,
    REM) stays the payload of the 0F token -/
example : refsBody [167, 32, 15, 34, 58, 137, 32, 14, 50, 0] = [50] := by decide +kernel
example : refsBody [167, 32, 15, 14] = [] := by decide +kernel
example : refsBody [167, 32, 15, 143, 58, 141, 32, 14, 50, 0] = [50] := by decide +kernel
example : refsBody [167, 32, 15, 28, 58, 137, 32, 14, 5, 0] = [5] := by decide +kernel
/-- a jump-token byte inside a string literal or after REM is not a reference -/
example : refsBody [145, 32, 34, 14, 5, 0, 34, 58, 143, 14, 5, 0] = [] := by decide +kernel

/-- defect repaired by pending fix C14-renum-error-goto-0: the unrepaired scan back-skips over raw
    bytes, so in `10 IF X=167 GOTO 0` (the byte constant 167 = the ERROR token) the reference to line
    0 is taken for `ON ERROR GOTO 0` and is not rewritten, although line 0 became line 100 -/
theorem renum_old_errgoto_counterexample :
    let body := [139, 32, 88, 231, 15, 167, 32, 137, 32, 14, 0, 0]
    refsBody body = [0] ∧ renumBody (fmap [(0, 100), (10, 110)]) body ≠ body ∧
      renumBodyOld (fmap [(0, 100), (10, 110)]) [110, 0] body = body := by decide +kernel

/-- same defect through the record header: `42752 GOTO 0` (42752 = A7 00 hex, high byte = ERROR) -/
theorem renum_old_header_counterexample :
    refsBody [137, 32, 14, 0, 0] = [0] ∧
      renumBodyOld (fmap [(0, 42742), (10, 42752)]) [0, 167] [137, 32, 14, 0, 0] = [137, 32, 14, 0, 0] := by decide +kernel

/-- the gap of `renum_refs_partial`: RENUM 0 turns `ON ERROR GOTO 10` (line 10 first) into
    `ON ERROR GOTO 0`, which RENUM's scan (and the interpreter) no longer reads as a reference -/
theorem renum_refs_new0_counterexample :
    ∃ res, renum [(10, [149, 32, 167, 32, 137, 32, 14, 10, 0])] 0 0 10 = .ok res ∧
      refsBody [149, 32, 167, 32, 137, 32, 14, 10, 0] = [10] ∧
      res.prog.map (fun r => refsBody r.2) = [[]] := by
  refine ⟨_, rfl, ?_, ?_⟩ <;> decide +kernel

end PcbV.C14
