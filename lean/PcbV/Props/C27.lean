/-
  C27 — BASIC file access stays inside the mounted drives.

  Model: PcbV.Model.DosNames / PcbV.Model.Paths (the REPAIRED code; `…Old` = code before the repair).
  A resolved host path is a list of components below the mount root.  `SafeName c` = c is neither "." nor
  ".." and contains no '/', so on a POSIX host (and without symbolic links inside the mount — stated
  assumption) a path of safe components names something inside the mount directory: `never_above_root`.
  All theorems quantify over EVERY host file system `fs`, every byte string and every CHDIR history.
-/
import PcbV.Lemmas.PathsConfined
namespace PcbV.C27
open PcbV PcbV.Gen PcbV.DosNames PcbV.Paths PcbV.PathLemmas PcbV.Gen.DosTables

/-- depth below the mount root while walking a path with the POSIX meaning of "", ".", "..";
    `none` as soon as a prefix would lie above the root -/
def climb : HostPath → Nat → Option Nat
  | [], d => some d
  | c :: r, d =>
    if c = [] ∨ c = [46] then climb r d
    else if c = [46, 46] then (if d = 0 then none else climb r (d - 1))
    else climb r (d + 1)

/-- a path of safe components never passes through the parent of the mount root, at any prefix -/
theorem never_above_root : ∀ (p : HostPath) (d : Nat), SafePath p → (climb p d).isSome = true
  | [], d, _ => by simp [climb]
  | c :: r, d, hp => by
    have hr : SafePath r := fun x hx => hp x (List.mem_cons_of_mem _ hx)
    have hc := hp c List.mem_cons_self
    unfold climb
    split
    · exact never_above_root r d hr
    · split
      · rename_i h; exact absurd h hc.2.1
      · exact never_above_root r (d + 1) hr

/-- `_get_native_name` (any directory, name, default extension, flags): the host name it returns is never
    ".", ".." and has no separator — whatever exists on the host -/
theorem nativeName_confined (fs : FS) (path : HostPath) (name defext : Bytes) (isdir create : Bool) (c : HostName)
    (hn : 47 ∉ name) (hx : 47 ∉ defext)
    (h : nativeName fs path name defext isdir create = .ok c) : SafeName c :=
  nativeName_safe hn hx h

/-- `_get_native_reldir`, robust form: the result is confined for ANY function in place of `ntpath.normpath`
    and of the blank-stripping pre-pass, provided only that they do not produce a '/' from a '/'-free input
    (confinement does not rest on how normpath treats dots, UNC prefixes, … ) -/
theorem reldir_confined_any_normpath (fs : FS) (pre np : Bytes → Bytes)
    (hnp : ∀ x, 47 ∉ x → 47 ∉ np (pre x))
    (mounted : Bool) (cwd : HostPath) (dospath : Bytes) (p : HostPath) (hc : SafePath cwd)
    (h : reldirWith (fun path e => nativeName fs path e [] true false) pre np mounted cwd dospath = .ok p) :
    SafePath p :=
  (reldirWith_confined (fun _ _ _ he hok => nativeName_safe he (by simp) hok) hnp hc h).1

/-- `_get_native_reldir`: for every file system, current directory (safe) and byte string, resolution fails or
    returns only safe components; it succeeds only on a mounted drive -/
theorem reldir_confined (fs : FS) (mounted : Bool) (cwd : HostPath) (dospath : Bytes) (p : HostPath)
    (hc : SafePath cwd) (h : reldir fs mounted cwd dospath = .ok p) : SafePath p ∧ mounted = true :=
  reldirWith_confined (fun _ _ _ he hok => nativeName_safe he (by simp) hok)
    (fun x hx => normpath_no_slash _) hc h

/-- every CHDIR history (failed CHDIRs included) leaves a safe current directory -/
theorem chdirs_confined (fs : FS) (mounted : Bool) (hist : List Bytes) : SafePath (chdirs fs mounted hist) := by
  unfold chdirs
  suffices ∀ (l : List Bytes) (cwd : HostPath), SafePath cwd → SafePath (l.foldl (chdir fs mounted) cwd) from
    this hist _ safePath_root
  intro l
  induction l with
  | nil => intro cwd h; simpa using h
  | cons a l ih =>
    intro cwd h
    simp only [List.foldl_cons]
    apply ih
    unfold chdir
    split
    · rename_i p hp; exact (reldir_confined fs mounted cwd a p h hp).1
    · exact h

/-- `_get_native_abspath` (base name included), before `os.path.abspath` -/
theorem abspathRaw_confined (fs : FS) (mounted : Bool) (cwd : HostPath) (path defext : Bytes) (isdir create : Bool)
    (p : HostPath) (hc : SafePath cwd) (hx : 47 ∉ defext)
    (h : abspathRaw fs mounted cwd path defext isdir create = .ok p) : SafePath p ∧ mounted = true := by
  unfold abspathRaw at h
  simp only [] at h
  split at h
  · cases h
  · rename_i rel hrel
    obtain ⟨hs, hm⟩ := reldir_confined fs mounted cwd _ rel hc hrel
    split at h
    · cases h; exact ⟨hs, hm⟩
    · split at h
      · cases h
      · rename_i c hcn
        cases h
        exact ⟨joinC_safe hs (nativeName_safe (ntsplit_tail_no_slash path) hx hcn), hm⟩

/-- `_get_native_abspath` after `os.path.abspath`: zero levels above the mount root, safe components -/
theorem abspath_confined (fs : FS) (mounted : Bool) (cwd : HostPath) (path defext : Bytes) (isdir create : Bool)
    (u : Nat) (q : HostPath) (hc : SafePath cwd) (hx : 47 ∉ defext)
    (h : abspath fs mounted cwd path defext isdir create = .ok (u, q)) : u = 0 ∧ SafePath q := by
  unfold abspath at h
  split at h
  · cases h
  · rename_i p hp
    have hs := (abspathRaw_confined fs mounted cwd path defext isdir create p hc hx hp).1
    obtain ⟨h1, h2⟩ := lexNorm_safe p 0 [] hs
    have h' : lexNorm p (0, []) = (u, q) := by injection h
    rw [h'] at h1 h2
    refine ⟨h1, fun c hcq => ?_⟩
    rcases h2 c hcq with h | h
    · simp at h
    · exact hs c h

/-- the default extension of every OPEN-like statement in the code (b'' or b'BAS') -/
def stmtOk : Stmt → Prop
  | .openIn d => 47 ∉ d
  | .openOut d => 47 ∉ d
  | _ => True

/-- every file statement: the host path it operates on (for KILL/FILES: the directory it lists) is confined -/
theorem ops_confined (fs : FS) (mounted : Bool) (cwd : HostPath) (s : Stmt) (arg : Bytes) (p : HostPath)
    (hc : SafePath cwd) (hs : stmtOk s) (h : target fs mounted cwd s arg = .ok p) : SafePath p ∧ mounted = true := by
  cases s with
  | openIn d => exact abspathRaw_confined fs mounted cwd arg d false false p hc hs h
  | openOut d => exact abspathRaw_confined fs mounted cwd arg d false true p hc hs h
  | mkdir => exact abspathRaw_confined fs mounted cwd arg [] true true p hc (by simp) h
  | rmdir => exact abspathRaw_confined fs mounted cwd arg [] true false p hc (by simp) h
  | nameOld => exact abspathRaw_confined fs mounted cwd arg [] false false p hc (by simp) h
  | nameNew => exact abspathRaw_confined fs mounted cwd arg [] false true p hc (by simp) h
  | chdir => exact reldir_confined fs mounted cwd arg p hc h
  | kill =>
    simp only [target, splitPathmask] at h
    split at h
    · rename_i dm hdm
      split at hdm
      · cases hdm
      · split at hdm
        · cases hdm
        · rename_i rel hrel; cases hdm; cases h
          exact reldir_confined fs mounted cwd _ rel hc hrel
    · cases h
  | files =>
    simp only [target, splitPathmask] at h
    split at h
    · rename_i dm hdm
      split at hdm
      · cases hdm
      · split at hdm
        · cases hdm
        · rename_i rel hrel; cases hdm; cases h
          exact reldir_confined fs mounted cwd _ rel hc hrel
    · cases h

/-- device selection (`_get_diskdevice_and_path`): a disk device is selected only for ONE drive letter, which is
    either the upper-cased text before the first colon or the current device -/
theorem device_selection (current spec : Bytes) (l : Nat) (rest : Bytes)
    (h : diskDeviceAndPath current spec = .ok (l, rest)) :
    l ∈ driveLetters ∧
    ((spec.contains COLON = true ∧ upper (spec.takeWhile (· != COLON)) = [l]) ∨
     (spec.contains COLON = false ∧ current = [l])) := by
  unfold diskDeviceAndPath at h
  simp only [] at h
  split at h
  · rename_i l' hdv
    split at h
    · rename_i hl
      cases h
      refine ⟨by simpa using hl, ?_⟩
      by_cases hcol : spec.contains COLON = true
      · left; simp only [hcol, ↓reduceIte] at hdv; exact ⟨hcol, hdv⟩
      · right
        simp only [hcol, Bool.false_eq_true, ↓reduceIte] at hdv
        exact ⟨by simpa using hcol, hdv⟩
    · cases h
  · cases h

/-- the whole chain, device selection + drive resolution: a statement argument resolves only to a drive letter
    that has a mount directory, and then to safe components below that mount -/
theorem resolve_confined (fs : Nat → FS) (mounted : Nat → Bool) (cwds : Nat → HostPath) (current : Bytes)
    (s : Stmt) (spec : Bytes) (l : Nat) (p : HostPath)
    (hc : ∀ l, SafePath (cwds l)) (hs : stmtOk s)
    (h : resolve fs mounted cwds current s spec = .ok (l, p)) :
    l ∈ driveLetters ∧ mounted l = true ∧ SafePath p ∧ (climb p 0).isSome = true := by
  unfold resolve at h
  split at h
  · cases h
  · rename_i l' rest hdv
    split at h
    · cases h
    · rename_i p' hp
      cases h
      obtain ⟨h1, h2⟩ := ops_confined (fs l) (mounted l) (cwds l) s rest p (hc l) hs hp
      exact ⟨(device_selection current spec l rest hdv).1, h2, h1, never_above_root p 0 h1⟩

/-! ### the code before the repair (defect D9) -/

/-- CHDIR ".. " on an empty mount: the unrepaired resolution returns the component ".." -/
theorem reldirOld_counterexample :
    ¬ (∀ (fs : FS) (cwd : HostPath) (dospath : Bytes) (p : HostPath), SafePath cwd →
        reldirOld fs true cwd dospath = .ok p → SafePath p) := by
  intro h
  have h1 : reldirOld (treeFS [] []) true [[]] [46, 46, 32] = .ok [[46, 46]] := by decide +kernel
  have := h _ _ _ _ safePath_root h1 [46, 46] (by simp)
  exact this.2.1 rfl

/-- OPEN ".. \NEW.TXT" FOR OUTPUT: one level above the mount root -/
theorem abspathOld_counterexample :
    abspathOld (treeFS [] []) true [[]] [46, 46, 32, 92, 78, 69, 87] [] false true = .ok (1, [[78, 69, 87]]) := by
  decide +kernel

/-- the UNC-shaped variant `\\. \..`: normpath leaves the `..` alone, the blank hides the `.` -/
theorem reldirOld_unc_counterexample :
    reldirOld (treeFS [] []) true [[]] [92, 92, 46, 32, 92, 46, 46] = .ok [[46], [46, 46]] ∧
    climb [[46], [46, 46]] 0 = none := by
  decide +kernel

/-- the unrepaired device selection: "AB:X" passes the substring test and raises KeyError (reply 0) -/
theorem deviceOld_counterexample : diskDeviceAndPathOld [67] [65, 66, 58, 88] = .error 0 := by decide +kernel

/-! ### non-vacuity: the hypotheses are satisfiable and resolution does succeed -/

example : reldir (treeFS [[[83, 85, 66]]] []) true [[]] [83, 85, 66] = .ok [[83, 85, 66]] := by decide +kernel
example : reldir (treeFS [] []) true [[]] [46, 46, 32] = .ok [[]] := by decide +kernel
example : reldir (treeFS [] []) true [[]] [92, 92, 46, 32, 92, 46, 46] = .ok [[]] := by decide +kernel
example : abspath (treeFS [] []) true [[]] [46, 46, 32, 92, 78, 69, 87] [] false true = .ok (0, [[78, 69, 87]]) := by
  decide +kernel
example : diskDeviceAndPath [67] [100, 58, 88] = .ok (68, [88]) := by decide +kernel
example : diskDeviceAndPath [67] [65, 66, 58, 88] = .error E.device_unavailable := by decide +kernel
example : SafePath (chdirs (treeFS [[[83, 85, 66]]] []) true [[83, 85, 66], [46, 46, 32]]) := chdirs_confined _ _ _

end PcbV.C27
