import PcbV.Basic
import PcbV.Gen.Errors
import PcbV.Model.IntOps
import PcbV.Model.Mbf
/-
  Model of the conversions of C03 that are not part of the shared MBF model:
  * `Integer.to_hex / to_oct / from_hex / from_oct` of numbers.py on digit lists
    (a digit is its numeric value; the driver maps `0-9A-F` to and from it),
  * `Float.to_integer` (CINT) = `Integer.from_int(self.to_int())`,
  * `mki_/mks_/mkd_/cvi_/cvs_/cvd_` of values.py: the byte string of a value and back
    (little-endian mantissa bytes, exponent byte last) with the length check of CVx.
-/
namespace PcbV.HexOct
open PcbV

def ifc : Nat := PcbV.Gen.E.illegal_function_call

/-! ### `b'%X' % n`, `b'%o' % n`, `int(s, base)` -/

/-- digits of `n` in base `b`, least significant first; at least one digit (`"0"` for zero) -/
def digitsRev (b : Nat) : Nat → Nat → List Nat
  | 0, _ => []
  | fuel + 1, n => if n < b then [n] else (n % b) :: digitsRev b fuel (n / b)

/-- `%X` / `%o` of a 16-bit unsigned number: most significant digit first (16 digits of fuel
    suffice for any base ≥ 2) -/
def toDigits (b n : Nat) : List Nat := (digitsRev b 16 n).reverse

/-- `int(s, base)` on a string of valid digits -/
def ofDigits (b : Nat) (ds : List Nat) : Nat := ds.foldl (fun acc d => acc * b + d) 0

/-- `Integer.to_hex()`: `%X` of the unsigned value of the 16-bit pattern -/
def toHex (w : Nat) : List Nat := toDigits 16 w

/-- `Integer.to_oct()`: `b'0'` for zero, else `%o` of the unsigned value -/
def toOct (w : Nat) : List Nat := if w = 0 then [0] else toDigits 8 w

/-- `Integer.from_int(n, unsigned=True)` for an arbitrary Python int: the range check
    -32768..65535 is made on the number as given, then negatives are stored as two's complement
    (this is the code after the repair of defect C03-D1; see `fromIntUOld`) -/
def fromIntU (n : Int) : R Nat :=
  if -32768 ≤ n ∧ n ≤ 65535 then .ok (IntOps.pack n) else .error IntOps.overflow

/-- a host exception escaping from the interpreter (not a BASIC error number) -/
def hostError : Nat := 0

/-- `from_int(n, unsigned=True)` before the repair: 65536 was added to a negative number *before*
    the range check, so -65536..-32769 wrapped silently and -98304..-65537 reached
    `struct.pack('<H', negative)`, which raises `struct.error` -/
def fromIntUOld (n : Int) : R Nat :=
  let n' := if n < 0 then n + 65536 else n
  if -32768 ≤ n' ∧ n' ≤ 65535 then (if n' < 0 then .error hostError else .ok n'.toNat)
  else .error IntOps.overflow

/-- `Integer.from_hex(repr)`: empty string is 0; `from_int(val, unsigned=True)` -/
def fromHex (ds : List Nat) : R Nat :=
  fromIntU (if ds.isEmpty then 0 else (ofDigits 16 ds : Nat))

/-- `Integer.from_oct(repr)` (blanks already stripped) -/
def fromOct (ds : List Nat) : R Nat :=
  fromIntU (if ds.isEmpty then 0 else (ofDigits 8 ds : Nat))

/-! ### CINT on a float: `Float.to_integer()` -/

/-- `Integer(None, values).from_int(self.to_int(), unsigned)` with `unsigned=False` -/
def cint (f : Mbf.Fmt) (x : Mbf.F) : R Nat := IntOps.fromInt (Mbf.toInt f x) false

/-- HEX$/OCT$ argument conversion: `to_integer(x, unsigned=True)` on a float -/
def cintUnsigned (f : Mbf.Fmt) (x : Mbf.F) : R Nat := fromIntU (Mbf.toInt f x)

/-! ### MKx$ / CVx: the stored binary form -/

/-- `n` little-endian bytes of `v` -/
def leBytes : Nat → Nat → Bytes
  | 0, _ => []
  | n + 1, v => (v % 256) :: leBytes n (v / 256)

/-- value of a little-endian byte list -/
def leVal : Bytes → Nat
  | [] => 0
  | b :: rest => b + 256 * leVal rest

/-- the byte buffer of an Integer pattern (`struct.pack('<H')`) -/
def intBytes (w : Nat) : Bytes := leBytes 2 w
/-- the Integer pattern of a 2-byte buffer -/
def intOfBytes (b : Bytes) : Nat := leVal b

/-- the byte buffer of a float: mantissa bytes little-endian, exponent byte last -/
def floatBytes (f : Mbf.Fmt) (x : Mbf.F) : Bytes := leBytes (f.w / 8) x.m ++ [x.e]
/-- the float held by a buffer of `w/8 + 1` bytes -/
def floatOfBytes (b : Bytes) : Mbf.F := ⟨leVal b.dropLast, b.getLastD 0⟩

/-- `mki_/mks_/mkd_`: the string made of the value's buffer (the argument already has the
    target type; the conversion itself is `cint`/`toSingle`/`fromSingle`) -/
def mk (buf : Bytes) : Bytes := buf

/-- `cvi_/cvs_/cvd_` for a type of `n` bytes: Illegal function call when the string is
    shorter than `n`, else the value whose buffer is the first `n` bytes -/
def cv (n : Nat) (s : Bytes) : R Bytes := if s.length < n then .error ifc else .ok (s.take n)

def mki (w : Nat) : Bytes := mk (intBytes w)
def cvi (s : Bytes) : R Nat := (cv 2 s).map intOfBytes
def mkf (f : Mbf.Fmt) (x : Mbf.F) : Bytes := mk (floatBytes f x)
def cvf (f : Mbf.Fmt) (s : Bytes) : R Mbf.F := (cv (f.w / 8 + 1) s).map floatOfBytes

end PcbV.HexOct
