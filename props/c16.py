"""C16 — a protected program never discloses its text in direct mode."""
import os
import shutil
import struct
import sys
import tempfile

from vlib import basic

LEVEL = 'proof'
RULE = ('generated programs with distinctive text (REM / string literals / DATA made of the letters QXZJKVW) are '
        'saved with ,P and reloaded in a Session(hide_protected=True); one case = (program, direct statement, '
        'context plain / after a colon / under ON ERROR) or one PEEK address or one multi-step history; the output '
        'statements (SAVE with no mode / ,A / ,P, LIST ,"dev", BSAVE) are crossed with every output device (disk, SCRN:, '
        'CON, NUL, CAS1: on a tape image, LPT1-3 and PRN attached to files, KYBD:/COM1:/AUX error paths) and what '
        'arrived on each device, on the text screen and on the tape is scanned; '
        'non-trivial = the statement was dispatched to its callback (counted by pass-through wrappers on the real '
        'dispatch tables); every callback of the real tables is driven at least once per program')
EXPLANATION = ('theorems (PcbV.Props.C16) over the generated dispatch tables: classification_total, '
               'no_disclosure_partial (+ READ counterexample), named_statements_blocked, enter_line_blocked, save_p_allowed, '
               'flag_not_clearable_in_direct_mode, poke_flag_blocked, history_no_disclosure_partial, run_unaffected '
               '(+ self-LIST counterexample); correspondence: guard outcome (blocked / same as an unprotected twin '
               'session) and the flag after each statement and after random histories vs the Lean model; oracle: '
               'named statements must give exactly Illegal function call, no 4-byte window of the secrets may appear in '
               'any output stream, device sink (LPT1-3 files, tape image), text screen, written file or string variable '
               '(only a properly protected ,P image may leave the session), the flag must stay set while the '
               'protected bytes are in memory, RUN output and files must equal the unprotected twin')
TRUSTED_BASE = ['model PcbV.Model.Protected is a hand transcription of the `protected` tests in program.py, machine.py, '
                'memory.py, implementation.py',
                'classification of unguarded callbacks as not reading the program text is an assumption validated by '
                'the enumeration (every callback executed on protected programs with all outputs scanned)']
ASSUMPTIONS = ['values the program itself computes while running (its output, its variables, DEF FN bodies) are program '
               'behaviour, not disclosure; generated programs clear their string variables before END',
               'the ,P file on disk is outside the scope (its encryption is property C15)',
               'disclosure is detected as a 4-byte window of a secret (letters QXZJKVW only, so interpreter messages '
               'cannot match by accident); numeric side channels (program size via FRE, existing line numbers via '
               'AUTO / TRON / RENUM messages) are not program bytes in this sense']

SECRET_ALPHABET = b'QXZJKVW'
IFC = 5
HANDLER = 9100     # 9100 E9%=ERR:RESUME NEXT
SUB = 9000         # 9000 G9%=G9%+1:RETURN
UNPROT = 9200      # 9200 POKE <flag>,0:RETURN   (only in programs of kind 'selfunprot')
FLAG_ADDR = 1450


# ---------------------------------------------------------------------------------------------------
# program generator

def secret(rng, n=None):
    n = n or rng.randint(8, 24)
    return bytes(bytearray(rng.choice(bytearray(SECRET_ALPHABET)) for _ in range(n)))


def gen_program(rng, kind='plain'):
    """Returns (lines, secrets).  The run-time output never contains a secret and every string variable is
    emptied before END, so anything secret seen later was taken from the program text."""
    secrets = []

    def sec(n=None):
        s = secret(rng, n)
        secrets.append(s)
        return s
    lines = []
    num = 10
    lines.append(b'%d REM %s' % (num, sec()))
    num += 10
    nstm = rng.randint(3, 9)
    for _ in range(nstm):
        k = rng.randrange(9)
        if k == 0:
            lines.append(b"%d ' %s" % (num, sec()))
        elif k == 1:
            lines.append(b'%d A$="%s":L=L+LEN(A$)' % (num, sec()))
        elif k == 2:
            lines.append(b'%d IF "%s">"%s" THEN L=L+1 ELSE L=L+2' % (num, sec(), sec()))
        elif k == 3:
            lines.append(b'%d READ B$:L=L+ASC(B$)' % num)
            lines.append(b'%d DATA %s,"%s"' % (num + 5, sec(), sec()))
        elif k == 4:
            lines.append(b'%d FOR I=1 TO %d:L=L+I*%d:NEXT' % (num, rng.randint(1, 5), rng.randint(1, 9)))
        elif k == 5:
            lines.append(b'%d GOSUB %d:PRINT "N";G9%%;L' % (num, SUB))
        elif k == 6:
            lines.append(b'%d PRINT "V";INSTR("%s","%s");L' % (num, sec(), secret(rng, 2)))
        elif k == 7:
            lines.append(b'%d S=0:FOR I=0 TO 9:S=S+PEEK(%d+I):NEXT:PRINT "K";S' % (num, rng.randint(0, 40) * 10))
        else:
            lines.append(b'%d C$=MID$("%s",2,3):L=L+LEN(C$):DEF SEG:X=VARPTR(L)' % (num, sec()))
        num += 10
    if kind.startswith('self:'):
        # a program that applies an always-guarded statement to itself (known finding C16-RUN-SELF)
        lines.append(b'%d %s' % (num, kind[5:].encode()))
        num += 10
    lines.append(b'%d OPEN "OUT.DAT" FOR OUTPUT AS 1:PRINT#1,"R";L:CLOSE 1' % num)
    num += 10
    lines.append(b'%d PRINT "END";L:A$="":B$="":C$="":END' % num)
    lines.append(b'%d G9%%=G9%%+1:RETURN' % SUB)
    lines.append(b'%d E9%%=ERR:RESUME NEXT' % HANDLER)
    if kind == 'selfunprot':
        lines.append(b'%d DEF SEG:POKE %d,0:RETURN' % (UNPROT, FLAG_ADDR))
    lines.append(b'9300 REM %s' % sec())
    return lines, secrets


def windows(secrets, tokenised):
    """4-byte windows that count as disclosure: inside a secret, or in the tokenised program overlapping a
    secret by at least two bytes."""
    w = set()
    alpha = set(bytearray(SECRET_ALPHABET))
    for s in secrets:
        for i in range(len(s) - 3):
            w.add(s[i:i + 4])
    for i in range(len(tokenised) - 3):
        x = tokenised[i:i + 4]
        if sum(1 for c in bytearray(x) if c in alpha) >= 2 and (bytearray(x)[0] in alpha) != (bytearray(x)[3] in alpha):
            w.add(x)
    return w


def leaked(windows_, blob):
    """First secret window found in a byte string, else None."""
    if not blob or len(blob) < 4:
        return None
    alpha = set(bytearray(SECRET_ALPHABET))
    b = bytearray(blob)
    # quick reject: needs two adjacent secret letters somewhere
    for i in range(len(b) - 3):
        if b[i + 1] in alpha and b[i + 2] in alpha:
            x = bytes(b[i:i + 4])
            if x in windows_:
                return x
    return None


# ---------------------------------------------------------------------------------------------------
# the probe catalogue: callback name (as in PcbV.Gen.Stmts) -> direct-mode statements with plausible arguments.
# ('flags', 'pre') are the abstract arguments of the model (PcbV.Protected.Args).

# every output device a statement can name: (name, extra model flags, error raised by the open before any guard)
#   'D' = the device ignores the requested file type (its files report filetype 'D')
DEVICES = [(b'DV', '', '-'), (b'SCRN:', '', '-'), (b'CON', '', '-'), (b'NUL', '', '-'), (b'CAS1:TP', '', '-'),
           (b'LPT1:', 'D', '-'), (b'LPT2:', 'D', '-'), (b'LPT3:', 'D', '-'), (b'PRN', 'D', '-'),
           (b'KYBD:', '', '54'), (b'COM1:', '', '68'), (b'AUX', '', '68')]
SAVE_MODES = [(b'', 'B'), (b',A', 'A'), (b',P', 'P'), (b',p', 'P')]


def P(text, flags='-', pre='-', keys=None, runs=False):
    return {'text': text, 'flags': flags, 'pre': pre, 'keys': keys, 'runs': runs}


def catalogue(cs, pcjr=False):
    """cs = code start address (for PEEK/BSAVE into the program area)."""
    c = {
        'all_memory.peek_': [P(b'X=PEEK(%d)' % (cs + 7)), P(b'PRINT PEEK(0)'), P(b'DEF SEG=0:X%=PEEK(1040)'),
                             P(b'DEF SEG:PRINT CHR$(PEEK(%d));' % (cs + 12)),
                             P(b'GOSUB %d:PRINT PEEK(0)' % SUB, runs=True)],
        'all_memory.bsave_': [P(b'BSAVE "MEM.BIN",%d,400' % cs), P(b'DEF SEG:BSAVE "MEM2.BIN",0,4000')],
        'all_memory.poke_': [P(b'POKE %d,0' % FLAG_ADDR, 'FZ'), P(b'DEF SEG:POKE %d,0' % FLAG_ADDR, 'FZ'),
                             P(b'POKE %d,32' % (cs + 9)), P(b'POKE 70000,0', 'FZ', '6')],
        'all_memory.bload_': [P(b'BLOAD "FLAG.BIN"', 'FZ'), P(b'BLOAD "FLAG.BIN",%d' % FLAG_ADDR, 'FZ')],
        'all_memory.call_': [P(b'CALL X9')],
        'all_memory.def_seg_': [P(b'DEF SEG=&HB800'), P(b'DEF SEG')],
        'all_memory.def_usr_': [P(b'DEF USR0=1000')],
        'list_': [P(b'LIST'), P(b'LIST 10'), P(b'LIST 10-9300'), P(b'LIST -50'), P(b'LIST .'),
                  P(b'LIST ,"LST.TXT"'), P(b'LIST 10-,"SCRN:"'), P(b'LIST ,"LPT1:"')],
        'interpreter.llist_': [P(b'LLIST'), P(b'LLIST 10-9300'), P(b'LLIST 9300')],
        'edit_': [P(b'EDIT 10'), P(b'EDIT 9300'), P(b'EDIT 11', '-', '8')],
        'save_': [P(b'SAVE "SA",A', 'A'), P(b'SAVE "SB"', 'B'), P(b'SAVE "SP",P', 'P'), P(b'SAVE "SA2.TXT",a', 'A'),
                  P(b'SAVE "LPT1:",A', 'A')],
        'merge_': [P(b'MERGE "ATK"', 'L'), P(b'MERGE "EMPTY"', '-'), P(b'MERGE "NOFILE"', 'N')],
        'chain_': [P(b'CHAIN MERGE "ATK"', 'ML'), P(b'CHAIN MERGE "ATK",10', 'ML'), P(b'CHAIN MERGE "EMPTY",10', 'M'),
                   P(b'CHAIN MERGE "ATK",10,ALL,DELETE 20-30', 'ML', None), P(b'CHAIN "ATK"', 'A', runs=True),
                   P(b'CHAIN "NOFILE"', 'N')],
        'new_': [P(b'NEW')],
        'load_': [P(b'LOAD "ATK"', 'A'), P(b'LOAD "P"', 'P'), P(b'LOAD "NOFILE"', 'N'), P(b'LOAD "P",R', 'P', runs=True)],
        'run_': [P(b'RUN', 'N', runs=True), P(b'RUN 10', 'N', runs=True), P(b'RUN "ATK"', 'A', runs=True),
                 P(b'RUN "P"', 'P', runs=True)],
        'term_': [P(b'TERM', 'A' if pcjr else 'N', runs=True)],
        'interpreter.read_': [P(b'READ R9$'), P(b'RESTORE:READ R8$,R9$')],
        'delete_': [P(b'DELETE 10')],
        'interpreter.renum_': [P(b'RENUM 10,10,10')],
        'auto_': [P(b'AUTO 10')],
        'interpreter.restore_': [P(b'RESTORE'), P(b'RESTORE 10')],
        'interpreter.tron_': [P(b'TRON')],
        'interpreter.troff_': [P(b'TROFF')],
        'interpreter.erl_': [P(b'X=ERL')],
        'interpreter.err_': [P(b'X=ERR')],
        'interpreter.cont_': [P(b'CONT', runs=True)],
        'interpreter.goto_': [P(b'GOTO 10', runs=True)],
        'interpreter.gosub_': [P(b'GOSUB %d' % SUB, runs=True)],
        'interpreter.return_': [P(b'RETURN')],
        'interpreter.if_': [P(b'IF 1 THEN X=2 ELSE X=3'), P(b'IF 1 THEN 10', runs=True)],
        'interpreter.on_jump_': [P(b'ON 1 GOSUB %d' % SUB, runs=True), P(b'ON 2 GOTO 10')],
        'interpreter.for_': [P(b'FOR I9=1 TO 3:X=X+I9:NEXT')],
        'interpreter.next_': [P(b'FOR J9=1 TO 2:NEXT J9')],
        'interpreter.while_': [P(b'W9=2:WHILE W9>0:W9=W9-1:WEND')],
        'interpreter.wend_': [P(b'W9=1:WHILE W9>0:W9=W9-1:WEND')],
        'interpreter.error_': [P(b'ERROR 11')],
        'interpreter.resume_': [P(b'RESUME')],
        'interpreter.on_error_goto_': [P(b'ON ERROR GOTO %d' % HANDLER), P(b'ON ERROR GOTO 0')],
        'interpreter.stop_': [P(b'STOP')],
        'end_': [P(b'END')],
        'interpreter.def_fn_': [P(b'DEF FNA(X)=X+1')],
        'builtin.none': [P(b'X=FNQ(1)')],
        'builtin.list': [P(b'REM NOTHING'), P(b'DATA 1,2'), P(b'COMMON X9'), P(b'X=1:ELSE')],
        'system_': [P(b'SYSTEM')],
        'shell_': [P(b'SHELL "echo"')],
        'clear_': [P(b'CLEAR'), P(b'CLEAR ,30000')],
        'machine.inp_': [P(b'X=INP(&H60)')],
        'machine.out_': [P(b'OUT &H3D9,1')],
        'machine.usr_': [P(b'X=USR(1)'), P(b'X=USR3(1)')],
        'machine.wait_': [P(b'WAIT &H201,&HF0')],
        'memory.arrays.dim_': [P(b'DIM D9(5)')],
        'memory.arrays.erase_': [P(b'DIM E8(3):ERASE E8')],
        'memory.arrays.option_base_': [P(b'OPTION BASE 0')],
        'memory.defdbl_': [P(b'DEFDBL D')],
        'memory.defint_': [P(b'DEFINT I')],
        'memory.defsng_': [P(b'DEFSNG S')],
        'memory.defstr_': [P(b'DEFSTR T')],
        'memory.fre_': [P(b'X=FRE(0)'), P(b'X=FRE("")')],
        'memory.let_': [P(b'LET X=5'), P(b'Y9$="AB"+"CD"')],
        'memory.lset_': [P(b'Y8$="ABCD":LSET Y8$="Z"')],
        'memory.mid_': [P(b'Y7$="ABCD":MID$(Y7$,2,1)="Z"')],
        'memory.rset_': [P(b'Y6$="ABCD":RSET Y6$="Z"')],
        'memory.swap_': [P(b'X1=1:X2=2:SWAP X1,X2')],
        'memory.varptr_': [P(b'X=VARPTR(X)'), P(b'Y5$="A":X=VARPTR(Y5$)')],
        'memory.varptr_str_': [P(b'X=1:Y4$=VARPTR$(X)')],
        'basic_events.com_': [P(b'COM(1) ON')],
        'basic_events.key_': [P(b'KEY(1) ON')],
        'basic_events.on_event_gosub_': [P(b'ON KEY(1) GOSUB %d' % SUB), P(b'ON TIMER(100) GOSUB %d' % SUB),
                                         P(b'ON PEN GOSUB %d' % SUB), P(b'ON PLAY(1) GOSUB %d' % SUB),
                                         P(b'ON COM(1) GOSUB %d' % SUB), P(b'ON STRIG(0) GOSUB %d' % SUB)],
        'basic_events.pen_': [P(b'PEN ON'), P(b'PEN OFF')],
        'basic_events.play_': [P(b'PLAY ON'), P(b'PLAY OFF'), P(b'PLAY STOP')],
        'basic_events.strig_': [P(b'STRIG(0) ON')],
        'basic_events.timer_': [P(b'TIMER ON'), P(b'TIMER OFF')],
        'pen_fn_': [P(b'X=PEN(0)')],
        'key_': [P(b'KEY 1,"AB"')],
        'console.key_': [P(b'KEY ON'), P(b'KEY LIST'), P(b'KEY OFF')],
        'clock.date_': [P(b'DATE$="01-02-1990"')],
        'clock.date_fn_': [P(b'Y3$=DATE$')],
        'clock.time_': [P(b'TIME$="10:11:12"')],
        'clock.time_fn_': [P(b'Y2$=TIME$')],
        'clock.timer_': [P(b'X=TIMER')],
        'display.cls_': [P(b'CLS')],
        'display.color_': [P(b'COLOR 7,0')],
        'display.palette_': [P(b'SCREEN 9:PALETTE 1,2:SCREEN 0')],
        'display.palette_using_': [P(b'DIM P9%(16):SCREEN 9:PALETTE USING P9%(0):SCREEN 0')],
        'display.pcopy_': [P(b'PCOPY 0,1')],
        'display.screen_': [P(b'SCREEN 1:SCREEN 0'), P(b'SCREEN 0,0,0')],
        'text_screen.csrlin_': [P(b'X=CSRLIN')],
        'text_screen.locate_': [P(b'LOCATE 2,2')],
        'text_screen.pos_': [P(b'X=POS(0)')],
        'text_screen.screen_fn_': [P(b'X=SCREEN(1,1)'),
                                   P(b'FOR R9=1 TO 2:FOR C9=1 TO 40:Y1$=CHR$(SCREEN(R9,C9)):PRINT Y1$;:NEXT:NEXT')],
        'text_screen.view_print_': [P(b'VIEW PRINT 1 TO 24'), P(b'VIEW PRINT')],
        'sound.beep_': [P(b'BEEP')],
        'sound.noise_': [P(b'SOUND ON:NOISE 1,1,1')],
        'sound.play_': [P(b'PLAY "MBL64C"')],
        'sound.play_fn_': [P(b'X=PLAY(0)')],
        'sound.sound_': [P(b'SOUND 440,0')],
        'stick.stick_': [P(b'X=STICK(0)')],
        'stick.strig_': [P(b'X=STRIG(0)')],
        'stick.strig_statement_': [P(b'STRIG ON'), P(b'STRIG OFF')],
        'keyboard.inkey_': [P(b'Y0$=INKEY$')],
        'input_': [P(b'INPUT N9', keys=b'12\r'), P(b'INPUT "Q";N8$', keys=b'AB\r')],
        'line_input_': [P(b'LINE INPUT N7$', keys=b'HELLO\r')],
        'randomize_': [P(b'RANDOMIZE 5')],
        'randomiser.rnd_': [P(b'X=RND(1)')],
        'environment.environ_': [P(b'Z9$=ENVIRON$("PCBV")')],
        'environment.environ_statement_': [P(b'ENVIRON "PCBV=1"')],
        'extensions.call_as_function': [P(b'X=_FOO(1)')],
        'extensions.call_as_statement': [P(b'_FOO 1')],
        'files.chdir_': [P(b'CHDIR "\\"')],
        'files.close_': [P(b'CLOSE')],
        'files.eof_': [P(b'OPEN "DATA.TXT" FOR INPUT AS 1:X=EOF(1):CLOSE 1')],
        'files.erdev_': [P(b'X=ERDEV')],
        'files.erdev_str_': [P(b'Z8$=ERDEV$')],
        'files.exterr_': [P(b'X=EXTERR(0)')],
        'files.field_': [P(b'OPEN "RND.DAT" AS 1 LEN=32:FIELD 1,16 AS F9$,16 AS F8$:CLOSE 1')],
        'files.files_': [P(b'FILES'), P(b'FILES "*.BAS"')],
        'files.get_': [P(b'OPEN "RND.DAT" AS 1 LEN=32:FIELD 1,32 AS F7$:GET 1,1:Z7$=F7$:CLOSE 1')],
        'files.input_': [P(b'OPEN "P.BAS" FOR INPUT AS 1:Z6$=INPUT$(10,1):CLOSE 1'),
                         P(b'Z5$=INPUT$(2)', keys=b'AB')],
        'files.ioctl_': [P(b'OPEN "DATA.TXT" FOR INPUT AS 1:Z4$=IOCTL$(1)')],
        'files.ioctl_statement_': [P(b'CLOSE:OPEN "DATA.TXT" FOR INPUT AS 1:IOCTL 1,"X"')],
        'files.kill_': [P(b'CLOSE:OPEN "K.TMP" FOR OUTPUT AS 1:CLOSE:KILL "K.TMP"')],
        'files.lcopy_': [P(b'LCOPY')],
        'files.loc_': [P(b'OPEN "DATA.TXT" FOR INPUT AS 1:X=LOC(1):CLOSE 1')],
        'files.lock_': [P(b'OPEN "RND.DAT" AS 1 LEN=32:LOCK 1,1:UNLOCK 1,1:CLOSE 1')],
        'files.lof_': [P(b'OPEN "P.BAS" FOR INPUT AS 1:X=LOF(1):CLOSE 1')],
        'files.lpos_': [P(b'X=LPOS(1)')],
        'files.lprint_': [P(b'LPRINT "LP";1')],
        'files.mkdir_': [P(b'MKDIR "SUBD":RMDIR "SUBD"')],
        'files.motor_': [P(b'MOTOR 1')],
        'files.name_': [P(b'OPEN "N1.TMP" FOR OUTPUT AS 1:CLOSE:NAME "N1.TMP" AS "N2.TMP":KILL "N2.TMP"')],
        'files.open_': [P(b'OPEN "O1.TXT" FOR OUTPUT AS 1:PRINT#1,"X":CLOSE 1'), P(b'OPEN "I",1,"DATA.TXT":CLOSE')],
        'files.print_': [P(b'PRINT "HELLO";1;A$;B$;C$'), P(b'PRINT USING "##.#";1.5'), P(b'?L;X$')],
        'files.put_': [P(b'OPEN "RND2.DAT" AS 1 LEN=8:FIELD 1,8 AS F6$:LSET F6$="PUT":PUT 1,1:CLOSE 1')],
        'files.reset_': [P(b'RESET')],
        'files.rmdir_': [P(b'MKDIR "SUBE":RMDIR "SUBE"')],
        'files.unlock_': [P(b'OPEN "RND.DAT" AS 1 LEN=32:LOCK 1,2:UNLOCK 1,2:CLOSE 1')],
        'files.width_': [P(b'WIDTH 80'), P(b'WIDTH "LPT1:",80')],
        'files.write_': [P(b'WRITE 1,"W"'), P(b'OPEN "W1.TXT" FOR OUTPUT AS 1:WRITE#1,A$,L:CLOSE 1')],
        'graphics.circle_': [P(b'SCREEN 1:CIRCLE (10,10),5:SCREEN 0')],
        'graphics.draw_': [P(b'SCREEN 1:DRAW "U5R5":SCREEN 0'), P(b'SCREEN 1:G9$="U3":DRAW "X"+VARPTR$(G9$):SCREEN 0')],
        'graphics.get_': [P(b'DIM G8%(40):SCREEN 1:GET (0,0)-(7,7),G8%:SCREEN 0')],
        'graphics.line_': [P(b'SCREEN 1:LINE (0,0)-(5,5):SCREEN 0')],
        'graphics.paint_': [P(b'SCREEN 1:PAINT (1,1):SCREEN 0')],
        'graphics.pmap_': [P(b'SCREEN 1:X=PMAP(1,0):SCREEN 0')],
        'graphics.point_': [P(b'SCREEN 1:X=POINT(1,1):SCREEN 0')],
        'graphics.preset_': [P(b'SCREEN 1:PRESET (1,1):SCREEN 0')],
        'graphics.pset_': [P(b'SCREEN 1:PSET (1,1):SCREEN 0')],
        'graphics.put_': [P(b'DIM G7%(40):SCREEN 1:GET (0,0)-(7,7),G7%:PUT (8,8),G7%:SCREEN 0')],
        'graphics.view_': [P(b'SCREEN 1:VIEW (1,1)-(50,50):SCREEN 0')],
        'graphics.window_': [P(b'SCREEN 1:WINDOW (0,0)-(10,10):SCREEN 0')],
        'string_functions.instr_': [P(b'X=INSTR("ABC","B")')],
        'string_functions.left_': [P(b'Z3$=LEFT$("ABC",2)')],
        'string_functions.mid_': [P(b'Z2$=MID$("ABC",2,1)')],
        'string_functions.right_': [P(b'Z1$=RIGHT$("ABC",2)')],
        'string_functions.string_': [P(b'Z0$=STRING$(3,65)')],
    }
    # the disclosure matrix: every output statement form x every output device
    for dev, dflags, pre in DEVICES:
        for suffix, mflag in SAVE_MODES:
            c['save_'].append(P(b'SAVE "%s"%s' % (dev, suffix), mflag + dflags, pre))
        if not dev.startswith(b'CAS1:'):
            # LIST to the cassette is exercised last, in device_reuse(): on the unrepaired code the refused
            # LIST leaves CAS1: open for the rest of the session (finding C16-LIST-CAS-LOCK)
            c['list_'].append(P(b'LIST ,"%s"' % dev, '-', pre))
            c['list_'].append(P(b'LIST 10-9300,"%s"' % dev, '-', pre))
        c['all_memory.bsave_'].append(P(b'BSAVE "%s",%d,300' % (dev, cs)))
    for fn in ('abs', 'atn', 'cdbl', 'cint', 'cos', 'csng', 'exp', 'fix', 'int', 'log', 'sgn', 'sin', 'sqr', 'tan'):
        c['values.%s_' % fn] = [P(b'X=%s(1.5)' % fn.upper().encode())]
    c['values.asc_'] = [P(b'X=ASC("A")')]
    c['values.len_'] = [P(b'X=LEN("AB")')]
    c['values.val_'] = [P(b'X=VAL("12")')]
    c['values.cvi_'] = [P(b'X=CVI("AB")')]
    c['values.cvs_'] = [P(b'X=CVS("ABCD")')]
    c['values.cvd_'] = [P(b'X#=CVD("ABCDEFGH")')]
    c['values.chr_'] = [P(b'V9$=CHR$(65)')]
    c['values.hex_'] = [P(b'V8$=HEX$(255)')]
    c['values.oct_'] = [P(b'V7$=OCT$(8)')]
    c['values.str_'] = [P(b'V6$=STR$(12)')]
    c['values.space_'] = [P(b'V5$=SPACE$(3)')]
    c['values.mki_'] = [P(b'V4$=MKI$(1)')]
    c['values.mks_'] = [P(b'V3$=MKS$(1)')]
    c['values.mkd_'] = [P(b'V2$=MKD$(1)')]
    return c


ATK = (b'1 REM ATTACKER LINE\r\n2 OPEN "ATKOUT.TXT" FOR OUTPUT AS 1\r\n'
       b'3 FOR I=0 TO 300:PRINT#1,CHR$(PEEK(I));:NEXT:CLOSE\r\n4 LIST\r\n5 END\r\n\x1a')


def err_of(session, out, direct_only=False):
    """BASIC error number reported in an output (0 = none); with direct_only, errors raised by a program
    line ("... in 40") are not counted (they are the program's outcome, not the direct statement's)."""
    table = err_of.table
    if table is None:
        from pcbasic.basic.base import error
        table = err_of.table = {v: k for k, v in error.BASICError.messages.items()}
    n = 0
    for line in out.replace(b'\xff', b'').split(b'\r\n'):
        line = line.strip()
        if b' in ' in line and line.rsplit(b' in ', 1)[1].isdigit():
            if direct_only:
                continue
            line = line.rsplit(b' in ', 1)[0]
        if line in table:
            n = table[line]
    return n


err_of.table = None


class World(object):
    """A protected session S and an unprotected twin U with the same program, each on its own mount."""

    def __init__(self, ctx, lines, secrets, label, syntax=None):
        self.ctx, self.lines, self.secrets, self.label, self.syntax = ctx, lines, secrets, label, syntax
        self.tmp = tempfile.mkdtemp(prefix='pcbv_c16_')
        self.dirs = {}
        for who in 'SUB':
            d = os.path.join(self.tmp, who)
            os.mkdir(d)
            self.dirs[who] = d
        # builder session: type the program in, save it three ways
        b = basic.new_session(devices={'C': self.dirs['B']}, current_device='C')
        for l in lines:
            out = b.execute(l)
            assert out == b'', (l, out)
        b.execute(b'SAVE "P",P')
        b.execute(b'SAVE "U"')
        b.execute(b'SAVE "UA",A')
        self.cs = b._impl.memory.code_start
        b.close()
        rd = lambda n: open(os.path.join(self.dirs['B'], n), 'rb').read()
        self.pfile, self.tokenised, self.listed = rd('P.BAS'), rd('U.BAS')[1:], rd('UA.BAS')
        self.windows = windows(secrets, self.tokenised)
        assert leaked(self.windows, self.listed) and leaked(self.windows, self.tokenised)
        assert not leaked(self.windows, self.pfile)
        flagfile = b'\xfd' + struct.pack('<HHH', b._impl.memory.data_segment, FLAG_ADDR, 1) + b'\0\x1a'
        for who, prog in (('S', self.pfile), ('U', b'\xff' + self.tokenised)):
            d = self.dirs[who]
            for name, data in (('P.BAS', prog), ('ATK.BAS', ATK), ('EMPTY.BAS', b'\x1a'), ('FLAG.BIN', flagfile),
                               ('DATA.TXT', b'1,2,3\r\nabc\r\n\x1a'), ('RND.DAT', b'r' * 64)):
                with open(os.path.join(d, name), 'wb') as f:
                    f.write(data)
        self.S = self._session('S')
        self.U = self._session('U')
        self.baseline = {who: self._snapshot(who) for who in 'SU'}
        self.hits = {}

    def _session(self, who):
        """LPT1-3 are attached to files and CAS1: to a tape image, so that what arrives on them can be read."""
        d = self.dirs[who]
        self.sinks = getattr(self, 'sinks', {})
        self.sink_pos = getattr(self, 'sink_pos', {})
        sinks = {n: os.path.join(self.tmp, '%s_%s.OUT' % (n, who)) for n in ('LPT1', 'LPT2', 'LPT3')}
        sinks['CAS1'] = os.path.join(self.tmp, 'TAPE_%s.cas' % who)
        self.sinks[who] = sinks
        kw = {'video': 'vga'}
        if self.syntax:
            kw = {'syntax': self.syntax, 'term': os.path.join(d, 'ATK.BAS')}
        devices = {'C': d, 'CAS1': 'CAS:' + sinks['CAS1']}
        for n in ('LPT1', 'LPT2', 'LPT3'):
            devices[n] = 'FILE:' + sinks[n]
        return basic.new_session(devices=devices, current_device='C', hide_protected=True, **kw)

    def wrap_tables(self, names):
        """Pass-through wrappers on the real dispatch tables of S: count which callbacks are really reached."""
        p = self.S._impl.parser
        hits = self.hits
        for tbl, key_to_name in ((p._callbacks, names[0]), (p.expression_parser._callbacks, names[1])):
            for k in list(tbl):
                cb = tbl[k]
                name = key_to_name.get(k, '?')
                if cb is None:
                    continue

                def wrapped(args, cb=cb, name=name):
                    hits[name] = hits.get(name, 0) + 1
                    return cb(args)
                tbl[k] = wrapped

    def close(self):
        for s in (self.S, self.U):
            try:
                s.close()
            except Exception:
                pass
        shutil.rmtree(self.tmp, ignore_errors=True)

    def sess(self, who):
        return self.S if who == 'S' else self.U

    def reload(self, who):
        s = self.sess(who)
        basic.safe_exec(s, b'CLOSE:ON ERROR GOTO 0:TROFF:DEF SEG:SCREEN 0,0,0:WIDTH 80:NEW')
        out = basic.safe_exec(s, b'LOAD "P"')
        assert out == b'', out
        if who == 'S':
            assert s._impl.program.protected

    def _snapshot(self, who):
        snap = {}
        d = self.dirs[who]
        for root, _, files in os.walk(d):
            for fn in files:
                p = os.path.join(root, fn)
                try:
                    st = os.stat(p)
                    snap[os.path.relpath(p, d)] = (st.st_size, st.st_mtime_ns)
                except OSError:
                    pass
        return snap

    def scan(self, who, out, before):
        """Secret windows in: the output stream, files created/changed since `before`, the printer stream,
        string scalars and string arrays.  Returns list of (where, window)."""
        found = []
        w = leaked(self.windows, out)
        if w:
            found.append(('output', w))
        d = self.dirs[who]
        after = self._snapshot(who)
        for rel, sig in after.items():
            if before.get(rel) != sig and rel != 'P.BAS':
                try:
                    data = open(os.path.join(d, rel), 'rb').read()
                except OSError:
                    continue
                w = leaked(self.windows, data)
                if w:
                    found.append(('file:' + rel, w))
        s = self.sess(who)
        for n, path in sorted(self.sinks[who].items()):
            try:
                if n.startswith('LPT'):
                    stream = s._impl.files.get_device(n.encode() + b':').stream
                    if stream:
                        stream.flush()
                size = os.path.getsize(path)
                pos = self.sink_pos.get((who, n), 0)
                if size < pos:
                    pos = 0
                with open(path, 'rb') as f:
                    f.seek(max(0, pos - 3))
                    data = f.read()
                self.sink_pos[(who, n)] = size
            except EnvironmentError:
                continue
            w = leaked(self.windows, data)
            if w:
                found.append(('device:' + n, w))
        try:
            text = b'\n'.join(b''.join(row) for row in s.get_chars())
        except Exception:
            text = b''
        w = leaked(self.windows, text)
        if w:
            found.append(('screen', w))
        found += self.scan_vars(who)
        return found, after

    def scan_vars(self, who):
        found = []
        s = self.sess(who)
        mem = s._impl.memory
        try:
            for name in list(mem.scalars):
                if name.endswith(b'$'):
                    v = s.get_variable(name)
                    w = leaked(self.windows, v)
                    if w:
                        found.append(('var:' + name.decode('latin-1'), w))
            for name in list(mem.arrays):
                if name.endswith(b'$'):
                    v = s.get_variable(name + b'()')
                    flat = []
                    stack = [v]
                    while stack:
                        x = stack.pop()
                        if isinstance(x, (list, tuple)):
                            stack.extend(x)
                        else:
                            flat.append(x)
                    w = leaked(self.windows, b'\0'.join(flat))
                    if w:
                        found.append(('array:' + name.decode('latin-1'), w))
        except Exception as e:  # variable table not readable: report, do not hide
            found.append(('scan-error:%s' % type(e).__name__, b''))
        return found

    def execute(self, who, text, keys=None):
        s = self.sess(who)
        if keys:
            s.press_keys(keys.decode('latin-1'))
        out = basic.safe_exec(s, text)
        return out


def gen_names():
    """token bytes -> callback name, from the generator module (same code that writes PcbV.Gen.Stmts)."""
    gen_dir = os.path.join(os.path.dirname(os.path.dirname(os.path.abspath(__file__))), 'gen')
    if gen_dir not in sys.path:
        sys.path.insert(0, gen_dir)
    import gen_tables  # noqa
    sys.modules.setdefault('gen_tables', gen_tables)
    import tables_c16
    stm, fns = tables_c16.dispatch_tables()
    unhex = lambda h: bytes(bytearray(int(h[i:i + 2], 16) for i in range(0, len(h), 2)))
    return stm, fns, ({unhex(k): n for k, n in stm}, {unhex(k): n for k, n in fns})


# ---------------------------------------------------------------------------------------------------
# the oracle's own knowledge, taken from the property statement (not from the model)

IFC_MSG = b'Illegal function call'
# callbacks that must end in Illegal function call on a protected program in direct mode, and the argument
# classes for which the statement demands it
def must_fail(name, probe):
    f = probe['flags']
    if probe['pre'] not in ('-', None):
        return False
    if name in ('list_', 'interpreter.llist_', 'all_memory.peek_', 'all_memory.bsave_',
                'all_memory.poke_', 'all_memory.bload_'):
        return True
    if name == 'save_':
        return 'P' not in f
    if name == 'merge_':
        return 'L' in f
    if name == 'chain_':
        return 'M' in f
    return False


def secret_in_memory(world, who='S'):
    code = world.sess(who)._impl.program.bytecode.getvalue()
    return leaked(world.windows, code) is not None


def only_ifc(out):
    return out.replace(b'\r\n', b'').replace(b'\xff', b'').strip() == IFC_MSG


class Checker(object):
    def __init__(self, ctx):
        self.ctx = ctx
        self.errU = {}          # statement text -> error number in the unprotected twin
        self.cases, self.outs, self.lines = [], [], []
        self.dispatched = set()

    # -- one statement on a freshly loaded protected program ----------------------------------------
    def probe(self, w, name, p, context, with_twin):
        ctx = self.ctx
        text = p['text']
        dep = p['runs'] or name == 'interpreter.read_'
        ukey = (w.label if dep else w.syntax, text)
        if with_twin and ukey not in self.errU:
            w.reload('U')
            outU = w.execute('U', text, p['keys'])
            self.errU[ukey] = err_of(w.U, outU) if (not outU.startswith(b'<<EXC') or b'Exit' in outU) else -1
        w.reload('S')
        S = w.S
        before = w._snapshot('S')
        h0 = w.hits.get(name, 0)
        if context == 'colon':
            out = w.execute('S', b'Q9=1:' + text, p['keys'])
            e = err_of(S, out)
        elif context == 'trap':
            w.execute('S', b'ON ERROR GOTO %d' % HANDLER)
            out = w.execute('S', text, p['keys'])
            e = err_of(S, out)
            if e == 0 and S._impl.program.protected and secret_in_memory(w):
                try:
                    e = int(S.get_variable(b'E9%'))
                except Exception:
                    e = 0
            w.execute('S', b'ON ERROR GOTO 0')
        else:
            out = w.execute('S', text, p['keys'])
            e = err_of(S, out)
        if out.startswith(b'<<EXC') and b'Exit' not in out:
            e = -1
        if w.hits.get(name, 0) > h0:
            self.dispatched.add(name)
            ctx.count('dispatched')
        else:
            ctx.count('not-dispatched:' + name)
        prot = bool(S._impl.program.protected)
        case = {'program': w.label, 'callback': name, 'statement': text.decode('latin-1'), 'context': context,
                'lines': [l.decode('latin-1') for l in w.lines]}
        ctx.case((w.label, name, text, context))
        ctx.count('ctx:' + context)
        # --- oracle 1: nothing secret anywhere
        found, _ = w.scan('S', out, before)
        for where, win in found:
            kind = where.split(':')[0]
            if name == 'interpreter.read_':
                key = 'direct-READ-DATA'
            else:
                key = 'leak:%s:%s' % (name, kind)
            ctx.fail(key, case, 'secret window %r of the protected program found in %s after direct statement %r'
                     % (win, where, text))
        # --- oracle 2: the statements the property names fail with exactly Illegal function call
        if must_fail(name, p):
            ctx.count('named-statement')
            if e != IFC:
                ctx.fail('not-refused:%s' % name, case, 'expected Illegal function call, got error %d, output %r'
                         % (e, out[:80]))
            elif context != 'trap' and not only_ifc(out):
                ctx.fail('output-besides-error:%s' % name, case, 'output %r' % out[:120])
        if name == 'save_' and 'P' in p['flags'] and 'D' not in p['flags'] and p['pre'] == '-':
            # protected form to a device that has file types: the one SAVE that must succeed
            ctx.count('save-p')
            target = text.split(b'"')[1]
            data = w.pfile
            if b':' not in target and target not in (b'CON', b'NUL', b'PRN', b'AUX'):
                try:
                    data = open(os.path.join(w.dirs['S'], target.decode() + '.BAS'), 'rb').read()
                except EnvironmentError:
                    data = None
            if e != 0 or data != w.pfile:
                ctx.fail('save-p-refused', case, 'SAVE ,P of a protected program: error %d, file %s'
                         % (e, 'missing' if data is None else 'differs from the original ,P file'))
        # --- oracle 3: the flag stays set while the protected bytes are in memory
        if secret_in_memory(w) and not prot:
            ctx.fail('flag-cleared:%s' % name, case, 'protected bytes still in program memory but flag is clear')
        # --- correspondence with the model (guard fired / same as the twin; flag afterwards)
        eu = self.errU.get(ukey)
        if name == 'edit_':
            # the refusal of EDIT comes from Program.edit at the next prompt: compared in interactive()
            eu = None
        if eu is not None:
            if e == IFC and eu != IFC:
                g = 'ifc'
            elif e == eu or (context == 'trap' and p['runs']):
                g = 'pass'
            else:
                g = 'diff(%d,%d)' % (e, eu)
            self.cases.append(case)
            self.outs.append('ok %s %d' % (g, prot))
            self.lines.append('hist 111 d:%s:%s:%s' % (name, p['flags'], p['pre'] or '-'))
            ctx.count('guard:' + g)
        ctx.sample({'statement': text.decode('latin-1'), 'context': context, 'error': e, 'flag_after': prot},
                   limit=6)
        return e, out

    def flush(self, label):
        if self.lines:
            self.ctx.compare(self.cases, self.outs, self.lines, label)
        self.cases, self.outs, self.lines = [], [], []


def sweep_named(ctx, w, n_exec, n_call, all_offsets):
    """Argument sweeps of the named statements on the protected program (oracle only)."""
    rng = ctx.rng
    S = w.S
    w.reload('S')
    _, snap0 = w.scan('S', b'', w._snapshot('S'))
    impl = S._impl
    code0 = impl.program.bytecode.getvalue()
    size = len(code0)
    ds = impl.memory.data_segment
    linenums = sorted(int(l.split(b' ', 1)[0]) for l in w.lines)

    def refuse(text, what):
        out = w.execute('S', text)
        ctx.case((w.label, 'sweep', text))
        ctx.count('sweep:' + what)
        case = {'program': w.label, 'callback': what, 'statement': text.decode('latin-1'), 'context': 'sweep',
                'lines': [l.decode('latin-1') for l in w.lines]}
        if err_of(S, out) != IFC:
            ctx.fail('not-refused:%s' % what, case, 'expected Illegal function call, got %r' % out[:80])
        elif leaked(w.windows, out):
            ctx.fail('leak:%s:output' % what, case, 'secret in output %r' % out[:80])

    # PEEK through Session.execute over the program area, with several DEF SEG views of the same bytes
    area = list(range(w.cs - 2, w.cs + size + 4))
    addrs = area if len(area) <= n_exec else rng.sample(area, n_exec)
    for a in addrs:
        k = rng.choice([0, 0, 1, 16, 100, ds])
        if k == 0:
            refuse(b'DEF SEG:X=PEEK(%d)' % a, 'all_memory.peek_')
        elif 16 * k <= a:
            refuse(b'DEF SEG=%d:X=PEEK(%d)' % (ds + k, a - 16 * k), 'all_memory.peek_')
        else:
            refuse(b'DEF SEG=%d:PRINT PEEK(%d)' % (ds - 1, a + 16), 'all_memory.peek_')
    w.execute('S', b'DEF SEG')
    if S.get_variable(b'X!') not in (0, 0.0):
        ctx.fail('not-refused:all_memory.peek_', {'program': w.label, 'statement': 'X=PEEK(..)', 'context': 'sweep',
                                                   'callback': 'all_memory.peek_',
                                                   'lines': [l.decode('latin-1') for l in w.lines]},
                 'X received a value from PEEK')
    # PEEK through the real callback (fast path) over many / all offsets
    from pcbasic.basic.base import error
    vals = impl.values
    peek = impl.all_memory.peek_
    offs = range(65536) if all_offsets else [rng.randrange(65536) for _ in range(n_call)] + area
    allowed = 0
    for a in offs:
        v = vals.new_integer().from_int(a) if a < 32768 else vals.new_single().from_int(a)
        try:
            peek(iter([v]))
            allowed += 1
            bad = a
        except error.BASICError as e:
            if e.err != IFC:
                allowed += 1
                bad = a
        except Exception:   # got past the guard and crashed further on
            allowed += 1
            bad = a
    ctx.evaluations += len(offs)
    ctx.count('sweep:peek-callback', len(offs))
    if all_offsets:
        ctx.notes['peek_offsets_exhaustive'] = True
    if allowed:
        ctx.fail('not-refused:all_memory.peek_', {'program': w.label, 'statement': 'X=PEEK(%d)' % bad,
                                                   'callback': 'all_memory.peek_', 'context': 'sweep',
                                                   'lines': [l.decode('latin-1') for l in w.lines]},
                 '%d offsets readable through Memory.peek_ in direct mode' % allowed)
    # BSAVE / LIST / LLIST / EDIT-less / SAVE / line entry with random arguments
    for _ in range(n_exec // 8 + 4):
        a, n = rng.randrange(65536), rng.randrange(1, 65536)
        refuse(b'BSAVE "BS%d.BIN",%d,%d' % (rng.randrange(3), a, n), 'all_memory.bsave_')
        lo, hi = sorted((rng.choice(linenums + [0, 1, 65529]), rng.choice(linenums + [5, 65529])))
        rangespec = rng.choice([b'%d-%d' % (lo, hi), b'%d-' % lo, b'-%d' % hi, b'%d' % lo, b'.', b'.-%d' % hi, b''])
        refuse(rng.choice([b'LIST ', b'LLIST ']) + rangespec, 'list_')
        refuse(b'LIST %s,"L%d.TXT"' % (rangespec, rng.randrange(3)), 'list_')
        refuse(b'SAVE "S%d"%s' % (rng.randrange(3), rng.choice([b'', b',A', b',a'])), 'save_')
        dev = rng.choice([d for d in DEVICES if d[2] == '-' and not d[0].startswith(b'CAS1:')])
        refuse(b'LIST %s,"%s"' % (rangespec, dev[0]), 'list_')
        dev = rng.choice([d for d in DEVICES if d[2] == '-'])
        refuse(b'SAVE "%s"%s' % (dev[0], rng.choice([b'', b',A', b',a'])), 'save_')
        # protected form requested on any device: refusal is not demanded, but nothing plain may arrive
        w.execute('S', b'SAVE "%s",P' % rng.choice(DEVICES)[0])
        ctx.case((w.label, 'sweep', 'save-p-device'))
        ctx.count('sweep:save-p-device')
        num = rng.choice(linenums + [rng.randrange(65530), 0, 65529])
        refuse(b'%d%s' % (num, rng.choice([b'', b' ', b' REM X', b' LIST', b' PRINT PEEK(%d)' % w.cs])), 'enter-line')
        refuse(b'POKE %d,%d' % (rng.choice([FLAG_ADDR, w.cs + rng.randrange(size), rng.randrange(65536)]),
                                rng.randrange(256)), 'all_memory.poke_')
    if impl.program.bytecode.getvalue() != code0 or not impl.program.protected:
        ctx.fail('program-changed', {'program': w.label, 'statement': 'sweep', 'callback': 'enter-line',
                                     'context': 'sweep', 'lines': [l.decode('latin-1') for l in w.lines]},
                 'the protected program or its flag changed during refused statements')
    found, _ = w.scan('S', b'', snap0)
    for where, win in found:
        ctx.fail('leak:sweep:%s' % where.split(':')[0],
                 {'program': w.label, 'statement': 'sweep', 'callback': where, 'context': 'sweep',
                  'lines': [l.decode('latin-1') for l in w.lines]},
                 'secret window %r arrived in %s during the refused-statement sweep' % (win, where))
    for fn in os.listdir(w.dirs['S']):
        if fn.startswith(('BS', 'L', 'S')) and fn not in ('SP.BAS',) and os.path.isfile(os.path.join(w.dirs['S'], fn)):
            data = open(os.path.join(w.dirs['S'], fn), 'rb').read()
            if leaked(w.windows, data):
                ctx.fail('leak:sweep:file', {'program': w.label, 'statement': 'sweep', 'callback': fn,
                                             'context': 'sweep', 'lines': [l.decode('latin-1') for l in w.lines]},
                         'secret in file %s' % fn)


HIST_POOL = [
    # (text, model op, effect on the tracker)
    (b'LIST', 'd:list_:-:-', None), (b'LLIST 10-', 'd:interpreter.llist_:-:-', None),
    (b'SAVE "HA",A', 'd:save_:A:-', None), (b'SAVE "HB"', 'd:save_:B:-', None), (b'SAVE "HP",P', 'd:save_:P:-', None),
    (b'SAVE "LPT1:",P', 'd:save_:PD:-', None), (b'SAVE "LPT2:",A', 'd:save_:AD:-', None),
    (b'SAVE "PRN",p', 'd:save_:PD:-', None), (b'LIST ,"LPT3:"', 'd:list_:-:-', None),
    (b'SAVE "CAS1:HT",P', 'd:save_:P:-', None), (b'SAVE "SCRN:",P', 'd:save_:P:-', None),
    (b'X=PEEK(%(cs)d)', 'd:all_memory.peek_:-:-', None), (b'BSAVE "HM.BIN",%(cs)d,300', 'd:all_memory.bsave_:-:-', None),
    (b'DEF SEG:POKE 1450,0', 'd:all_memory.poke_:FZ:-', None), (b'DEF SEG:POKE 1450,255', 'd:all_memory.poke_:F:-', None),
    (b'DEF SEG=0:POKE 1450,0', 'd:all_memory.poke_:-:-', None), (b'DEF SEG', 'd:all_memory.def_seg_:-:-', None),
    (b'BLOAD "FLAG.BIN"', 'd:all_memory.bload_:FZ:-', None),
    (b'MERGE "ATK"', 'd:merge_:L:-', None), (b'MERGE "EMPTY"', 'd:merge_:-:-', None),
    (b'CHAIN MERGE "ATK"', 'd:chain_:ML:-', None),
    (b'5 REM INJECTED', 'd:LINE:-:-', None), (b'10', 'd:LINE:-:-', None),
    (b'NEW', 'd:new_:-:-', 'none'), (b'LOAD "P"', 'd:load_:P:-', 'P'), (b'LOAD "ATK"', 'd:load_:A:-', 'ATK'),
    (b'LOAD "NOFILE"', 'd:load_:N:-', None), (b'RUN', 'd:run_:N:-', None), (b'RUN "P"', 'd:run_:P:-', 'P'),
    (b'CHAIN "P"', 'd:chain_:P:-', 'P'),
    (b'GOSUB 9000', 'd:interpreter.gosub_:-:-', None), (b'GOSUB 9200', 'UNPROT', None),
    (b'CLEAR', 'd:clear_:-:-', None), (b'ON ERROR GOTO 0', 'd:interpreter.on_error_goto_:-:-', None),
    (b'X=FRE(0)', 'd:memory.fre_:-:-', None), (b'RESTORE', 'd:interpreter.restore_:-:-', None),
    (b'TRON', 'd:interpreter.tron_:-:-', None), (b'TROFF', 'd:interpreter.troff_:-:-', None),
    (b'DELETE 9300', 'd:delete_:-:-', None),
]
HIST_NAMED = (b'LIST', b'LLIST', b'SAVE "HA"', b'SAVE "HB"', b'SAVE "LPT2:",A', b'X=PEEK', b'BSAVE', b'MERGE "ATK"', b'CHAIN MERGE',
              b'5 REM', b'10')


def histories(ctx, w, n, has_unprot):
    """Random multi-step direct-mode histories on one session (no reload in between)."""
    rng = ctx.rng
    S = w.S
    cases, outs, lines = [], [], []
    for h in range(n):
        w.reload('S')
        loaded, dropped, deleted = 'P', False, False
        ops, obs, texts = ['d:load_:P:-'], ['pass'], ['LOAD "P"']
        length = rng.randint(3, 12)
        before = w._snapshot('S')
        for _ in range(length):
            text, op, eff = rng.choice(HIST_POOL)
            text = text % {b'cs': w.cs} if b'%(' in text else text
            if op == 'UNPROT':
                if not (has_unprot and loaded == 'P'):
                    continue
                op = 'd:interpreter.gosub_:-:-;p:all_memory.poke_:FZ:-'
            if text.startswith(b'MERGE "ATK"') or text.startswith(b'CHAIN MERGE'):
                if loaded != 'P' or dropped:
                    continue   # would let the attacker program loop over LIST; not the subject here
            if text == b'RUN' and loaded == 'none':
                continue
            if text.startswith(b'DELETE'):
                if loaded != 'P' or deleted:
                    continue
                deleted = True
            out = w.execute('S', text)
            e = err_of(S, out, direct_only=True)
            texts.append(text.decode('latin-1'))
            ops.append(op)
            obs.append('ifc' if e == IFC else 'pass')
            if op.endswith(';p:all_memory.poke_:FZ:-'):
                obs.append('pass')
                dropped = True
            if eff and e == 0:
                loaded, dropped, deleted = eff, False, False
            if text == b'CHAIN "P"' and e != 0:
                pass
            case = {'program': w.label, 'history': texts[:], 'context': 'history',
                    'lines': [l.decode('latin-1') for l in w.lines]}
            # oracle: while the program has not dropped its own protection
            found, before = w.scan('S', out, before)
            if not dropped:
                for where, win in found:
                    ctx.fail('leak:history:%s' % where.split(':')[0], case,
                             'secret window %r in %s after history' % (win, where))
                if secret_in_memory(w) and not S._impl.program.protected:
                    ctx.fail('flag-cleared:history', case, 'flag clear with protected bytes in memory')
                if loaded == 'P' and text.startswith(HIST_NAMED) and e != IFC:
                    ctx.fail('not-refused:history', case, 'statement %r not refused (error %d)' % (text, e))
            ctx.count('hist-op:' + ('ifc' if e == IFC else 'other'))
        ctx.case((w.label, 'history', tuple(texts)))
        ctx.count('histories')
        cases.append({'program': w.label, 'history': texts, 'lines': [l.decode('latin-1') for l in w.lines]})
        outs.append('ok %s %d' % (','.join(obs), bool(S._impl.program.protected)))
        lines.append('hist 010 ' + ';'.join(ops))
        if h < 2:
            ctx.sample({'history': texts, 'observed': obs})
    ctx.compare(cases, outs, lines, 'history')


def device_reuse(ctx, w):
    """A refused LIST to a device leaves the device usable: afterwards SAVE in protected form to the same
    device still succeeds (devices with file types) and nothing plain has arrived.  CAS1: comes last."""
    S = w.S
    cases, outs, lines = [], [], []
    for dev, dflags, pre in DEVICES:
        if pre != '-':
            continue
        w.reload('S')
        snap = w._snapshot('S')
        case = {'program': w.label, 'callback': 'list_', 'statement': 'LIST ,"%s"' % dev.decode(),
                'context': 'device-reuse', 'lines': [l.decode('latin-1') for l in w.lines]}
        out = w.execute('S', b'LIST ,"%s"' % dev)
        e1 = err_of(S, out)
        ctx.case((w.label, 'device-reuse', dev))
        ctx.count('device-reuse')
        if e1 != IFC:
            ctx.fail('not-refused:list_', case, 'LIST to %r: expected Illegal function call, got %r' % (dev, out[:80]))
        out2 = w.execute('S', b'SAVE "%s",P' % dev)
        e2 = err_of(S, out2)
        found, _ = w.scan('S', out + out2, snap)
        for where, win in found:
            ctx.fail('leak:list_:%s' % where.split(':')[0], case, 'secret window %r in %s' % (win, where))
        if 'D' in dflags:
            ok = e2 in (0, IFC)    # no protected form exists on such a device: refusal is the right answer
        else:
            ok = e2 == 0
        if not ok:
            ctx.fail('device-locked-after-refused-list:%s' % dev.decode().split(':')[0], case,
                     'after the refused LIST ,"%s" the statement SAVE "%s",P gave %r'
                     % (dev.decode(), dev.decode(), out2[:80]))
        cases.append(case)
        outs.append('ok %s %d' % ('ifc' if e1 == IFC else 'pass', bool(S._impl.program.protected)))
        lines.append('hist 111 d:list_:-:-')
    ctx.compare(cases, outs, lines, 'device-reuse')


def run_equivalence(ctx, w, kind):
    """RUN on the protected program gives the same output and files as on the unprotected original."""
    res = {}
    for who in 'SU':
        w.reload(who)
        try:
            os.remove(os.path.join(w.dirs[who], 'OUT.DAT'))
        except EnvironmentError:
            pass
        out = w.execute(who, b'RUN')
        try:
            data = open(os.path.join(w.dirs[who], 'OUT.DAT'), 'rb').read()
        except EnvironmentError:
            data = None
        res[who] = (out, data)
    ctx.case((w.label, 'run'))
    ctx.count('run-equivalence')
    case = {'program': w.label, 'context': 'run', 'kind': kind, 'lines': [l.decode('latin-1') for l in w.lines]}
    if res['S'] != res['U']:
        key = 'run-differs'
        if kind.startswith('self:'):
            key = 'run-differs:self-%s' % kind[5:].split()[0].lower()
        ctx.fail(key, case, 'protected RUN gave %r / file %r, unprotected %r / %r'
                 % (res['S'][0][:100], res['S'][1], res['U'][0][:100], res['U'][1]))
    elif kind in ('plain', 'selfunprot') and (b'END' not in res['S'][0] or res['S'][1] is None):
        ctx.fail('run-broken', case, 'the generated program did not run to its end: %r' % res['S'][0][:100])
    if not kind.startswith('self:') and leaked(w.windows, res['U'][0]):
        raise AssertionError('generated program prints a secret at run time')


def interactive(ctx, w):
    """EDIT, AUTO and the syntax-error edit prompt need the interactive loop (Session.interact)."""
    import io
    from pcbasic.basic import Session
    script = [(b'EDIT 10\r', 'edit_'), (b'EDIT 9300\r', 'edit_'), (b'AUTO 10\rREM X\r\x03', 'auto_'),
              (b'RUN\r\r', 'syntax-error-prompt')]
    for keys, what in script:
        res = {}
        for who in 'SU':
            out = io.BytesIO()
            inp = io.BytesIO(b'LOAD "P"\r' + keys + b'SYSTEM\r')
            s = Session(devices={'C': w.dirs[who]}, current_device='C', hide_protected=True, input_streams=inp,
                        output_streams=out, peek_values={})
            try:
                s.start()
                s.interact()
            except BaseException as e:   # Exit ends the session
                if type(e).__name__ not in ('Exit',):
                    out.write(b'<<EXC %s>>' % type(e).__name__.encode())
            finally:
                try:
                    s.close()
                except Exception:
                    pass
            res[who] = out.getvalue()
        ctx.case((w.label, 'interactive', keys))
        ctx.count('interactive:' + what)
        case = {'program': w.label, 'keys': keys.decode('latin-1'), 'context': 'interactive', 'callback': what,
                'lines': [l.decode('latin-1') for l in w.lines]}
        win = leaked(w.windows, res['S'])
        if win:
            ctx.fail('leak:%s:interactive' % what, case, 'secret window %r in the console output %r'
                     % (win, res['S'][-200:]))
        if not leaked(w.windows, res['U']) and what != 'auto_':
            ctx.count('interactive-twin-silent:' + what)   # the probe would not have shown anything anyway
        import re
        refused = re.search(br'EDIT (\d+)\r\n\1\r\nIllegal function call', res['S']) is not None
        if what == 'edit_' and not refused:
            ctx.fail('not-refused:edit_', case, 'EDIT on a protected program: %r' % res['S'][-120:])
        if what == 'edit_':
            g = 'ifc' if (refused and IFC_MSG not in res['U']) else 'pass'
            ctx.compare([case], ['ok %s 1' % g], ['hist 111 d:edit_:-:-'], 'interactive')
        if what == 'auto_' and IFC_MSG not in res['S']:
            ctx.fail('not-refused:enter-line', case, 'line entry in AUTO mode: %r' % res['S'][-120:])


PROGRAM_KINDS_QUICK = ['plain', 'selfunprot', 'stx']
SELF_KINDS = ['self:LIST', 'self:SAVE "SELF",A', 'self:LLIST', 'self:MERGE "ATK"']


def make_world(ctx, kind, label, syntax=None):
    base = 'plain' if kind == 'stx' else kind
    lines, secrets = gen_program(ctx.rng, base)
    if kind == 'stx':
        s = secret(ctx.rng)
        secrets.append(s)
        # a line that fails with Syntax error at run time -> the interactive loop wants to EDIT it
        lines.insert(1, b'15 L=L+*LEN("%s")' % s)
    return World(ctx, lines, secrets, label, syntax=syntax)


def run(ctx):
    import logging
    logging.getLogger().setLevel(logging.CRITICAL)
    stm, fns, names = gen_names()
    allnames = sorted(set(n for _, n in stm + fns))
    ctx.notes['callbacks_in_tables'] = len(allnames)
    ctx.notes['table_entries'] = len(stm) + len(fns)
    # A. the Lean tables are the live tables; classification of every callback
    impl_tables = ['ok ' + ','.join('%s=%s' % kn for kn in stm), 'ok ' + ','.join('%s=%s' % kn for kn in fns)]
    ctx.compare(['statements', 'functions'], impl_tables, ['table statements', 'table functions'], 'tables')
    cls = ctx.model(['cls ' + n for n in allnames])
    if cls is not None:
        for n, c in zip(allnames, cls):
            ctx.count('class:' + c.replace('ok ', ''))
            if 'unclassified' in c or 'unknown' in c:
                ctx.disagree({'label': 'classification', 'callback': n}, 'callback in the dispatch table', c)
    chk = Checker(ctx)
    cat = None
    programs = PROGRAM_KINDS_QUICK if ctx.quick else ['plain', 'selfunprot', 'stx', 'plain']
    for pi, kind in enumerate(programs):
        w = make_world(ctx, kind, 'prog%d:%s' % (pi, kind))
        try:
            # cross-check generator names against the live bound methods
            if pi == 0:
                p = w.S._impl.parser
                for tbl, key_to_name in ((p._callbacks, names[0]), (p.expression_parser._callbacks, names[1])):
                    for k, f in tbl.items():
                        n = key_to_name.get(k)
                        real = getattr(f, '__name__', 'none') if f is not None else 'none'
                        if n is None or n.split('.')[-1] != real:
                            ctx.disagree({'label': 'table-names', 'token': repr(k)}, real, n)
            w.wrap_tables(names)
            cat = catalogue(w.cs)
            for n in allnames:
                if n not in cat:
                    ctx.disagree({'label': 'catalogue', 'callback': n}, 'callback in the dispatch table',
                                 'no probe statement for it in props/c16.py')
            contexts = ['plain', 'colon', 'trap'] if (pi == 0 or not ctx.quick) else ['plain']
            for context in contexts:
                for n in allnames:
                    probes = cat.get(n, [])
                    if pi > 0 and ctx.quick and not any(must_fail(n, p) for p in probes) \
                            and n not in ('interpreter.read_', 'save_', 'new_', 'load_', 'run_', 'chain_'):
                        probes = probes[:1] if ctx.rng.random() < 0.15 else []
                    for p in probes:
                        if context == 'trap' and p['runs']:
                            continue
                        chk.probe(w, n, p, context, with_twin=True)
                ctx.log('%s: catalogue in context %s done' % (w.label, context))
            chk.flush('probe')
            sweep_named(ctx, w, n_exec=(120 if ctx.quick else 2000), n_call=(3000 if ctx.quick else 20000),
                        all_offsets=(not ctx.quick and pi == 0))
            histories(ctx, w, (25 if ctx.quick else 100), has_unprot=(kind == 'selfunprot'))
            run_equivalence(ctx, w, kind)
            if pi == 0 or kind == 'stx' or not ctx.quick:
                interactive(ctx, w)
            device_reuse(ctx, w)
        finally:
            w.close()
    # pcjr dialect: NOISE and TERM exist only there; the named statements once more
    w = make_world(ctx, 'plain', 'pcjr:plain', syntax='pcjr')
    try:
        w.wrap_tables(names)
        cat = catalogue(w.cs, pcjr=True)
        for n in ('sound.noise_', 'term_', 'list_', 'all_memory.peek_', 'save_', 'merge_', 'interpreter.llist_'):
            for p in cat[n]:
                chk.probe(w, n, p, 'plain', with_twin=True)
        chk.flush('probe-pcjr')
    finally:
        w.close()
    # C16-RUN-SELF: programs that apply an always-guarded statement to themselves
    for kind in (SELF_KINDS if not ctx.quick else SELF_KINDS[:2]):
        w = make_world(ctx, kind, kind)
        try:
            run_equivalence(ctx, w, kind)
        finally:
            w.close()
    never = [n for n in allnames if n not in chk.dispatched and n != 'builtin.none']
    ctx.notes['callbacks_never_dispatched'] = never
    for n in never:
        ctx.disagree({'label': 'dispatch', 'callback': n}, 'never reached by its probe statements', 'probe expected')
    for d in ctx.disagreements[:30]:
        ctx.log('DISAGREEMENT %s' % (repr({k: v for k, v in d.items() if k != 'case'}) + ' '
                                     + repr({k: v for k, v in d['case'].get('input', d['case']).items()
                                             if k != 'lines'} if isinstance(d['case'].get('input', d['case']), dict) else d['case']))[:400])


def replay(ctx, payload):
    """Re-run one failing case: rebuild the program from its lines, execute the statement / history."""
    case = payload['case']
    lines = [l.encode('latin-1') for l in case['lines']]
    secrets = []
    alpha = set(bytearray(SECRET_ALPHABET))
    for l in lines:
        cur = bytearray()
        for c in bytearray(l) + bytearray(b' '):
            if c in alpha:
                cur.append(c)
            else:
                if len(cur) >= 8:
                    secrets.append(bytes(cur))
                cur = bytearray()
    w = World(ctx, lines, secrets, case.get('program', 'replay'))
    try:
        before = len(ctx.failures)
        context = case.get('context')
        if context == 'history':
            w.reload('S')
            snap = w._snapshot('S')
            for t in case['history'][1:]:
                out = w.execute('S', t.encode('latin-1'))
                found, snap = w.scan('S', out, snap)
                if found:
                    return 'secret %r in %s after %r' % (found[0][1], found[0][0], t)
                if secret_in_memory(w) and not w.S._impl.program.protected:
                    return 'flag cleared after %r' % t
            return None
        if context == 'run':
            run_equivalence(ctx, w, case.get('kind', 'plain'))
        elif context == 'interactive':
            interactive(ctx, w)
        elif context == 'sweep':
            sweep_named(ctx, w, 60, 500, False)
        elif context == 'device-reuse':
            device_reuse(ctx, w)
        else:
            stm, fns, names = gen_names()
            w.wrap_tables(names)
            chk = Checker(ctx)
            name = case['callback']
            text = case['statement'].encode('latin-1')
            probes = [p for p in catalogue(w.cs).get(name, []) if p['text'] == text] or [P(text)]
            chk.probe(w, name, probes[0], context or 'plain', with_twin=False)
        new = ctx.failures[before:]
        if payload.get('key'):
            # the replay is about one failure class; other (e.g. known) findings on the way do not count
            new = [f for f in new if f['key'] == payload['key']]
        return new[0]['what'] if new else None
    finally:
        w.close()
