import PcbV.Model.Locks
/-
  Driver handler for C26.  Requests:
    sess <fixed 0|1> <maxfiles> <cmd;cmd;…>   statements through Files (model `Locks.exec`)
    raw  <fixed 0|1> <op;op;…>                direct calls of the Locks methods
  Reply: `ok <step;step;…>` with step = `<err>|<state>`; state = entries sorted by file number,
  `<num>@<name>[<ranges sorted>]` joined by `,` (`-` = nothing open); range `*` = whole file, `s-e`.
-/
namespace PcbV.Drv.C26
open PcbV PcbV.Locks

def pMode : String → Option Mode
  | "I" => some .I | "O" => some .O | "A" => some .A | "R" => some .R | _ => none
def pAcc : String → Option Acc
  | "-" => some .none | "R" => some .r | "W" => some .w | "RW" => some .rw | _ => none
def pLT : String → Option LT
  | "-" => some .none | "S" => some .shared | "R" => some .r | "W" => some .w | "RW" => some .rw | _ => none
/-- a record number: `n` or `n/d` (rounded half-to-even, for LOCK/UNLOCK bounds and GET/PUT alike) -/
def pRec (s : String) : Option Nat :=
  match s.splitOn "/" with
  | [n] => n.toNat?
  | [n, d] => do
    let n ← n.toNat?; let d ← d.toNat?
    if d = 0 then none else pure (roundHalfEven n d)
  | _ => none
def pOptNat (s : String) : Option (Option Nat) :=
  if s == "-" then some none else (pRec s).map some
def pRng (s e : String) : Option Rng :=
  if s == "-" && e == "-" then some .whole else
  match s.toNat?, e.toNat? with
  | some s, some e => some (.range s e)
  | _, _ => none

def rngKey : Rng → Nat × Nat × Nat
  | .whole => (0, 0, 0)
  | .range s e => (1, s, e)
def rngLe (a b : Rng) : Bool :=
  let (x1, x2, x3) := rngKey a
  let (y1, y2, y3) := rngKey b
  x1 < y1 || (x1 == y1 && (x2 < y2 || (x2 == y2 && x3 ≤ y3)))
def insertBy {α} (le : α → α → Bool) (x : α) : List α → List α
  | [] => [x]
  | y :: ys => if le x y then x :: y :: ys else y :: insertBy le x ys
def sortBy {α} (le : α → α → Bool) (l : List α) : List α := l.foldr (insertBy le) []

def showRng : Rng → String
  | .whole => "*"
  | .range s e => toString s ++ "-" ++ toString e
def showEntry (f : Entry) : String :=
  toString f.num ++ "@" ++ toString f.name ++ "[" ++ "/".intercalate ((sortBy rngLe f.locks).map showRng) ++ "]"
def showState (st : State) : String :=
  if st.isEmpty then "-" else ",".intercalate ((sortBy (fun a b => decide (a.num ≤ b.num)) st).map showEntry)

def pCmd (w : String) : Option Cmd :=
  match w.splitOn ":" with
  | ["o", name, num, mode, acc, lt] => do
    let name ← name.toNat?; let num ← num.toNat?; let mode ← pMode mode; let acc ← pAcc acc; let lt ← pLT lt
    pure (.open name num mode acc lt)
  | ["c", num] => do pure (.close (← num.toNat?))
  | ["ca"] => some .closeAll
  | ["l", num, s, e] => do pure (.lock (← num.toNat?) (← pOptNat s) (← pOptNat e))
  | ["u", num, s, e] => do pure (.unlock (← num.toNat?) (← pOptNat s) (← pOptNat e))
  | ["g", num, p] => do pure (.get (← num.toNat?) (← pOptNat p))
  | ["p", num, p] => do pure (.put (← num.toNat?) (← pOptNat p))
  | _ => none

def sessLoop (fixed : Bool) (mf : Nat) : State → List String → List String → Option (List String)
  | _, [], acc => some acc.reverse
  | st, w :: ws, acc =>
    match pCmd w with
    | none => none
    | some c =>
      let (st', e) := exec fixed mf st c
      sessLoop fixed mf st' ws ((toString e ++ "|" ++ showState st') :: acc)

def rawStep (fixed : Bool) (st : State) (w : String) : Option (State × Nat) :=
  let res (r : R State) : State × Nat := match r with | .ok s => (s, 0) | .error e => (st, e)
  let resU (r : R Unit) : State × Nat := match r with | .ok _ => (st, 0) | .error e => (st, e)
  match w.splitOn ":" with
  | ["o", name, num, mode, acc, lt] => do
    let name ← name.toNat?; let num ← num.toNat?; let mode ← pMode mode; let acc ← pAcc acc; let lt ← pLT lt
    pure (res (openFile st name num mode lt acc))
  | ["c", num] => do pure (closeFile st (← num.toNat?), 0)
  | ["a", num, a] => do pure (resU (tryAccess st (← num.toNat?) (← pAcc a)))
  | ["ra", num, s, e, a] => do pure (resU (tryRecordAccess fixed st (← num.toNat?) (← pRng s e) (← pAcc a)))
  | ["k", num, s, e] => do pure (res (acquire fixed st (← num.toNat?) (← pRng s e)))
  | ["r", num, s, e] => do pure (res (release st (← num.toNat?) (← pRng s e)))
  | _ => none

def rawLoop (fixed : Bool) : State → List String → List String → Option (List String)
  | _, [], acc => some acc.reverse
  | st, w :: ws, acc =>
    match rawStep fixed st w with
    | none => none
    | some (st', e) => rawLoop fixed st' ws ((toString e ++ "|" ++ showState st') :: acc)

def handle : List String → String
  | ["sess", fx, mf, cmds] =>
    match mf.toNat? with
    | some mf =>
      match sessLoop (fx == "1") mf [] (cmds.splitOn ";") [] with
      | some steps => "ok " ++ ";".intercalate steps
      | none => "bad-op"
    | none => "bad-op"
  | ["raw", fx, ops] =>
    match rawLoop (fx == "1") [] (ops.splitOn ";") [] with
    | some steps => "ok " ++ ";".intercalate steps
    | none => "bad-op"
  | _ => "bad-op"

end PcbV.Drv.C26
