import PcbV.Lemmas.C03Single
/-
  INT on a float (`ifloor`): the subtraction `t - 1` that follows the truncation of a negative
  non-integer is exact, and values are determined by their patterns (injectivity of `val`).
-/
namespace PcbV.Mbf

theorem addDen_same (f : Fmt) (l r : Den) (hl : l.exp ≠ 0) (hr : r.exp ≠ 0) (hn : l.neg = r.neg)
    (hord : ¬ (l.exp > r.exp ∨ (l.exp = r.exp ∧ l.man > r.man)))
    (hz : l.man % 2 ^ (r.exp - l.exp).toNat = 0) :
    addDen f l r =
      if l.man / 2 ^ (r.exp - l.exp).toNat + r.man ≥ f.denUpper
      then ⟨r.exp + 1, (l.man / 2 ^ (r.exp - l.exp).toNat + r.man) / 2, l.neg⟩
      else ⟨r.exp, l.man / 2 ^ (r.exp - l.exp).toNat + r.man, l.neg⟩ := by
  unfold addDen
  simp only [hl, hr, hord, if_false, if_true, hz, hn, bne_self_eq_false, Bool.false_eq_true, and_false,
    Bool.not_false, not_true_eq_false, false_and]
  by_cases g : l.man / 2 ^ (r.exp - l.exp).toNat + r.man ≥ f.denUpper
  · simp only [g, if_true]
  · simp only [g, if_false]

theorem addDen_same_swap (f : Fmt) (l r : Den) (hl : l.exp ≠ 0) (hr : r.exp ≠ 0) (hn : l.neg = r.neg)
    (hord : l.exp > r.exp ∨ (l.exp = r.exp ∧ l.man > r.man))
    (hz : r.man % 2 ^ (l.exp - r.exp).toNat = 0) :
    addDen f l r =
      if r.man / 2 ^ (l.exp - r.exp).toNat + l.man ≥ f.denUpper
      then ⟨l.exp + 1, (r.man / 2 ^ (l.exp - r.exp).toNat + l.man) / 2, r.neg⟩
      else ⟨l.exp, r.man / 2 ^ (l.exp - r.exp).toNat + l.man, r.neg⟩ := by
  unfold addDen
  simp only [hl, hr, hord, if_false, if_true, hz, hn, bne_self_eq_false, Bool.false_eq_true, and_false,
    Bool.not_false, not_true_eq_false, false_and]
  by_cases g : r.man / 2 ^ (l.exp - r.exp).toNat + l.man ≥ f.denUpper
  · simp only [g, if_true]
  · simp only [g, if_false]
/-- `t - 1` for the stored form of a negative integer `-a` (`a·2^k` its normalised mantissa) -/
theorem isub_one_neg {f : Fmt} (hf : f.WF) (hb : f.bias ≤ 255) (hone : f.one = ⟨0, 129⟩)
    (a k : Nat) (hM1 : 2 ^ (f.w - 1) ≤ a * 2 ^ k) (hM2 : a * 2 ^ k < 2 ^ f.w) (hk : 1 ≤ k) (hkw : k < f.w) :
    ∃ y, isub f ⟨packMan f (a * 2 ^ k) true, f.bias - k⟩ f.one = .ok y ∧ F.Valid f y ∧
      val f y = -((a : Rat) + 1) := by
  have hf' := hf
  obtain ⟨h8, hbias, hd, hu, hcm, hs, hmk, hp⟩ := hf
  have h2p := two_mul_pow_pred f.w (by omega)
  have hpos : 0 < 2 ^ (f.w - 1) := Nat.two_pow_pos _
  have hkpos : 0 < 2 ^ k := Nat.two_pow_pos _
  have hE : f.bias - k < 256 := by omega
  have hE0 : f.bias - k ≠ 0 := by omega
  obtain ⟨hv, hneg, hman⟩ := pack_spec hf' (a * 2 ^ k) (f.bias - k) true hM1 hM2 hE
  have hdm := denorm_man hf' hv
  rw [hman] at hdm
  have hdt : denorm f ⟨packMan f (a * 2 ^ k) true, f.bias - k⟩ =
      ⟨((f.bias - k : Nat) : Int), a * 2 ^ k * 256, true⟩ := by
    have e0 : denorm f ⟨packMan f (a * 2 ^ k) true, f.bias - k⟩ =
        ⟨((f.bias - k : Nat) : Int), (denorm f ⟨packMan f (a * 2 ^ k) true, f.bias - k⟩).man,
          isNeg f ⟨packMan f (a * 2 ^ k) true, f.bias - k⟩⟩ := rfl
    rw [e0, hdm, hneg]
  have hdo : denorm f f.one = ⟨129, 2 ^ (f.w + 7), false⟩ := by
    rw [hone]
    unfold denorm isNeg
    have : ¬ (0 % (2 * f.signMask) ≥ f.signMask) := by rw [hs, Nat.zero_mod]; omega
    simp only [this, decide_false, Bool.false_eq_true, if_false, Nat.zero_mul, Nat.zero_add, hd]
    rfl
  have hu8 : f.denUpper = 2 ^ f.w * 256 := by rw [hu, Nat.pow_add]
  -- 2^(w+7) = 2^(w-1-k) * 2^(k+8): the mantissa of one, aligned to the exponent of t
  have hsplit : 2 ^ (f.w + 7) = 2 ^ (f.w - 1 - k) * 2 ^ (k + 8) := by
    rw [← Nat.pow_add]; congr 1; omega
  have hk8 : 2 ^ (k + 8) = 2 ^ k * 256 := by rw [Nat.pow_add]
  have hw7 : 2 ^ (f.w + 7) = 2 ^ (f.w - 1) * 256 := by
    rw [show f.w + 7 = (f.w - 1) + 8 by omega, Nat.pow_add]
  have hshpos : 0 < 2 ^ (f.w - 1 - k) := Nat.two_pow_pos _
  -- a·2^k + 2^k is at most 2^w, with equality only as a whole
  have hdiv : ∃ q, 2 ^ f.w = q * 2 ^ k := ⟨2 ^ (f.w - k), by rw [← Nat.pow_add]; congr 1; omega⟩
  obtain ⟨q, hq⟩ := hdiv
  have hle : a * 2 ^ k + 2 ^ k ≤ 2 ^ f.w := by
    rw [hq] at hM2 ⊢
    have : a < q := Nat.lt_of_mul_lt_mul_right hM2
    calc a * 2 ^ k + 2 ^ k = (a + 1) * 2 ^ k := by rw [Nat.add_mul, Nat.one_mul]
      _ ≤ q * 2 ^ k := Nat.mul_le_mul_right _ this
  -- the sum of the denormalised mantissas and its renormalisation
  have key : addDen f ⟨((f.bias - k : Nat) : Int), a * 2 ^ k * 256, true⟩ ⟨129, 2 ^ (f.w + 7), true⟩ =
      if a * 2 ^ k + 2 ^ k = 2 ^ f.w then ⟨((f.bias - k : Nat) : Int) + 1, 2 ^ (f.w - 1) * 256, true⟩
      else ⟨((f.bias - k : Nat) : Int), (a * 2 ^ k + 2 ^ k) * 256, true⟩ := by
    have c1 : (⟨129, 2 ^ (f.w + 7), true⟩ : Den).exp ≠ 0 := by show (129 : Int) ≠ 0; decide
    have c2 : (⟨((f.bias - k : Nat) : Int), a * 2 ^ k * 256, true⟩ : Den).exp ≠ 0 := by
      show ((f.bias - k : Nat) : Int) ≠ 0; omega
    by_cases hsw : ((f.bias - k : Nat) : Int) > 129 ∨
        (((f.bias - k : Nat) : Int) = 129 ∧ a * 2 ^ k * 256 > 2 ^ (f.w + 7))
    · rw [addDen_same_swap f _ _ c2 c1 rfl hsw (by
        show 2 ^ (f.w + 7) % 2 ^ (((f.bias - k : Nat) : Int) - 129).toNat = 0
        have hsh : (((f.bias - k : Nat) : Int) - 129).toNat = f.w - 1 - k := by omega
        rw [hsh, hsplit]; exact Nat.mul_mod_right _ _)]
      show (if 2 ^ (f.w + 7) / 2 ^ (((f.bias - k : Nat) : Int) - 129).toNat + a * 2 ^ k * 256 ≥ f.denUpper
        then (⟨((f.bias - k : Nat) : Int) + 1,
          (2 ^ (f.w + 7) / 2 ^ (((f.bias - k : Nat) : Int) - 129).toNat + a * 2 ^ k * 256) / 2, true⟩ : Den)
        else ⟨((f.bias - k : Nat) : Int),
          2 ^ (f.w + 7) / 2 ^ (((f.bias - k : Nat) : Int) - 129).toNat + a * 2 ^ k * 256, true⟩) = _
      have hsh : (((f.bias - k : Nat) : Int) - 129).toNat = f.w - 1 - k := by omega
      have dv : 2 ^ (f.w + 7) / 2 ^ (f.w - 1 - k) = 2 ^ k * 256 := by
        rw [hsplit, Nat.mul_div_cancel_left _ hshpos, hk8]
      rw [hsh, dv, hu8]
      by_cases hov : a * 2 ^ k + 2 ^ k = 2 ^ f.w
      · have g : 2 ^ k * 256 + a * 2 ^ k * 256 ≥ 2 ^ f.w * 256 := by omega
        rw [if_pos g, if_pos hov]
        have e : (2 ^ k * 256 + a * 2 ^ k * 256) / 2 = 2 ^ (f.w - 1) * 256 := by omega
        rw [e]
      · have g : ¬ (2 ^ k * 256 + a * 2 ^ k * 256 ≥ 2 ^ f.w * 256) := by omega
        rw [if_neg g, if_neg hov]
        have e : 2 ^ k * 256 + a * 2 ^ k * 256 = (a * 2 ^ k + 2 ^ k) * 256 := by omega
        rw [e]
    · -- t = -1 exactly: same exponent and mantissa as one, no swap
      have hE129 : f.bias - k = 129 := by omega
      have hkw1 : k = f.w - 1 := by omega
      have ha1 : a * 2 ^ k * 256 = 2 ^ (f.w + 7) := by
        have : a * 2 ^ k * 256 ≤ 2 ^ (f.w + 7) := by
          by_contra h; exact hsw (Or.inr ⟨by omega, by omega⟩)
        omega
      have hsh : ((129 : Int) - ((f.bias - k : Nat) : Int)).toNat = 0 := by omega
      rw [addDen_same f _ _ c2 c1 rfl hsw (by
        show a * 2 ^ k * 256 % 2 ^ ((129 : Int) - ((f.bias - k : Nat) : Int)).toNat = 0
        rw [hsh, Nat.pow_zero, Nat.mod_one])]
      show (if a * 2 ^ k * 256 / 2 ^ ((129 : Int) - ((f.bias - k : Nat) : Int)).toNat + 2 ^ (f.w + 7) ≥ f.denUpper
        then (⟨(129 : Int) + 1,
          (a * 2 ^ k * 256 / 2 ^ ((129 : Int) - ((f.bias - k : Nat) : Int)).toNat + 2 ^ (f.w + 7)) / 2, true⟩ : Den)
        else ⟨129, a * 2 ^ k * 256 / 2 ^ ((129 : Int) - ((f.bias - k : Nat) : Int)).toNat + 2 ^ (f.w + 7), true⟩) = _
      rw [hsh, Nat.pow_zero, Nat.div_one, hu8]
      have hov : a * 2 ^ k + 2 ^ k = 2 ^ f.w := by
        rw [hkw1] at ha1 ⊢; omega
      have g : a * 2 ^ k * 256 + 2 ^ (f.w + 7) ≥ 2 ^ f.w * 256 := by omega
      rw [if_pos g, if_pos hov]
      have e : (a * 2 ^ k * 256 + 2 ^ (f.w + 7)) / 2 = 2 ^ (f.w - 1) * 256 := by omega
      have e2 : (129 : Int) + 1 = ((f.bias - k : Nat) : Int) + 1 := by omega
      rw [e, e2]
  have hsub : isub f ⟨packMan f (a * 2 ^ k) true, f.bias - k⟩ f.one =
      normD f (addDen f ⟨((f.bias - k : Nat) : Int), a * 2 ^ k * 256, true⟩ ⟨129, 2 ^ (f.w + 7), true⟩) := by
    unfold isub
    rw [hdt, hdo]
    rfl
  rw [hsub, key]
  unfold normD
  by_cases hov : a * 2 ^ k + 2 ^ k = 2 ^ f.w
  · simp only [hov, if_true]
    have hcast : ((f.bias - k : Nat) : Int) + 1 = ((f.bias - k + 1 : Nat) : Int) := by omega
    rw [hcast]
    have := normalise_normal hf' (f.bias - k + 1) (by omega) (2 ^ (f.w - 1)) 0 true (Nat.le_refl _) (by omega) (by decide)
    simp only [Nat.add_zero] at this
    rw [this, if_neg (by omega), checkLimits_ok _ _ _ _ (by omega) (by omega)]
    refine ⟨_, rfl, (pack_spec hf' _ _ true (Nat.le_refl _) (by omega) (by omega)).1, ?_⟩
    rw [val_pack' hf' _ _ _ (Nat.le_refl _) (by omega) (by omega) (by omega)]
    have hk1 : ((f.bias - k + 1 : Nat) : Int) - f.bias = -((k - 1 : Nat) : Int) := by omega
    rw [hk1]
    have hq2 : (2 : Rat) ^ (f.w - 1) = ((a : Rat) + 1) * 2 ^ (k - 1) := by
      have h1 : (a + 1) * 2 ^ k = 2 ^ f.w := by rw [Nat.add_mul, Nat.one_mul]; exact hov
      have h2 : 2 ^ f.w = 2 * 2 ^ (f.w - 1) := h2p.symm
      have h3 : 2 ^ k = 2 * 2 ^ (k - 1) := (two_mul_pow_pred k hk).symm
      have h4 : (a + 1) * 2 ^ (k - 1) = 2 ^ (f.w - 1) := by
        rw [h2, h3] at h1
        have : 2 * ((a + 1) * 2 ^ (k - 1)) = 2 * 2 ^ (f.w - 1) := by
          rw [← h1]; rw [Nat.mul_left_comm]
        omega
      have : (((a + 1) * 2 ^ (k - 1) : Nat) : Rat) = ((2 ^ (f.w - 1) : Nat) : Rat) := by rw [h4]
      push_cast at this
      linarith
    have hpw : pow2 (-((k - 1 : Nat) : Int)) = 1 / 2 ^ (k - 1) := by
      have := pow2_sub 0 (k - 1)
      simp only [Nat.cast_zero, zero_sub, Nat.zero_sub, pow_zero, Nat.sub_zero] at this
      rw [this]
    rw [hpw]
    push_cast
    rw [hq2]
    have : (2 : Rat) ^ (k - 1) ≠ 0 := by positivity
    field_simp
    simp
  · simp only [hov, if_false]
    have hlt : a * 2 ^ k + 2 ^ k < 2 ^ f.w := by omega
    have := normalise_normal hf' (f.bias - k) hE0 (a * 2 ^ k + 2 ^ k) 0 true (by omega) hlt (by decide)
    simp only [Nat.add_zero] at this
    rw [this, if_neg (by omega), checkLimits_ok _ _ _ _ hE0 hE]
    refine ⟨_, rfl, (pack_spec hf' _ _ true (by omega) hlt hE).1, ?_⟩
    rw [val_pack' hf' _ _ _ (by omega) hlt hE0 hE]
    have hk1 : ((f.bias - k : Nat) : Int) - f.bias = -((k : Nat) : Int) := by omega
    rw [hk1]
    have hpw : pow2 (-((k : Nat) : Int)) = 1 / 2 ^ k := by
      have := pow2_sub 0 k
      simp only [Nat.cast_zero, zero_sub, Nat.zero_sub, pow_zero, Nat.sub_zero] at this
      rw [this]
    rw [hpw]
    push_cast
    have : (2 : Rat) ^ k ≠ 0 := by positivity
    field_simp
    simp

theorem addDen_left_zero (f : Fmt) (l r : Den) (hr : r.exp ≠ 0) (hl : l.exp = 0) : addDen f l r = r := by
  unfold addDen
  simp only [hr, hl, if_true, if_false]

/-- `0 - 1` -/
theorem isub_one_zero {f : Fmt} (hf : f.WF) (hb : f.bias ≤ 255) (hone : f.one = ⟨0, 129⟩) :
    ∃ y, isub f zero f.one = .ok y ∧ F.Valid f y ∧ val f y = -1 := by
  have hf' := hf
  obtain ⟨h8, hbias, hd, hu, hcm, hs, hmk, hp⟩ := hf
  have h2p := two_mul_pow_pred f.w (by omega)
  have hpos : 0 < 2 ^ (f.w - 1) := Nat.two_pow_pos _
  have hw7 : 2 ^ (f.w + 7) = 2 ^ (f.w - 1) * 256 := by
    rw [show f.w + 7 = (f.w - 1) + 8 by omega, Nat.pow_add]
  have hdo : denorm f f.one = ⟨129, 2 ^ (f.w + 7), false⟩ := by
    rw [hone]
    unfold denorm isNeg
    have : ¬ (0 % (2 * f.signMask) ≥ f.signMask) := by rw [hs, Nat.zero_mod]; omega
    simp only [this, decide_false, Bool.false_eq_true, if_false, Nat.zero_mul, Nat.zero_add, hd]
    rfl
  have hsub : isub f zero f.one = normalise f (129 : Int) (2 ^ (f.w - 1) * 256) true := by
    unfold isub
    rw [hdo]
    show normD f (addDen f (denorm f zero) ⟨129, 2 ^ (f.w + 7), true⟩) = _
    rw [addDen_left_zero f _ _ (by show (129 : Int) ≠ 0; decide) rfl, hw7]
    unfold normD
    simp only
  have h129 : (129 : Int) = ((129 : Nat) : Int) := by norm_num
  have hz0 : 2 ^ (f.w - 1) * 256 = 2 ^ (f.w - 1) * 256 + 0 := by omega
  rw [hsub, h129, hz0, normalise_normal hf' 129 (by decide) (2 ^ (f.w - 1)) 0 true (Nat.le_refl _) (by omega) (by decide),
    if_neg (by omega), checkLimits_ok _ _ _ _ (by decide) (by decide)]
  refine ⟨_, rfl, (pack_spec hf' _ _ true (Nat.le_refl _) (by omega) (by decide)).1, ?_⟩
  rw [val_pack' hf' _ _ _ (Nat.le_refl _) (by omega) (by decide) (by decide)]
  have hk1 : ((129 : Nat) : Int) - f.bias = -((f.w - 1 : Nat) : Int) := by omega
  rw [hk1]
  have hpw : pow2 (-((f.w - 1 : Nat) : Int)) = 1 / 2 ^ (f.w - 1) := by
    have := pow2_sub 0 (f.w - 1)
    simp only [Nat.cast_zero, zero_sub, Nat.zero_sub, pow_zero, Nat.sub_zero] at this
    rw [this]
  rw [hpw]
  push_cast
  have : (2 : Rat) ^ (f.w - 1) ≠ 0 := by positivity
  field_simp
  simp

theorem sign_mag (s1 s2 : Bool) (A B : Rat) (hA : 0 < A) (hB : 0 < B)
    (h : (if s1 = true then (-1 : Rat) else 1) * A = (if s2 = true then (-1 : Rat) else 1) * B) :
    s1 = s2 ∧ A = B := by
  cases s1 <;> cases s2 <;> simp only [Bool.false_eq_true, if_true, if_false] at h
  · exact ⟨rfl, by linarith⟩
  · exfalso; linarith
  · exfalso; linarith
  · exact ⟨rfl, by linarith⟩

/-- two stored non-zero values with the same exact value are the same pattern -/
theorem val_inj {f : Fmt} (hf : f.WF) (x y : F) (hx : F.Valid f x) (hy : F.Valid f y)
    (hxe : x.e ≠ 0) (hye : y.e ≠ 0) (h : val f x = val f y) : x = y := by
  have hbx := manOf_bounds hf hx
  have hby := manOf_bounds hf hy
  have hnx := isNeg_iff hf hx
  have hny := isNeg_iff hf hy
  have hpos : 0 < 2 ^ (f.w - 1) := Nat.two_pow_pos _
  have h2p := two_mul_pow_pred f.w (by have := hf.1; omega)
  rw [val_eq' f x hxe, val_eq' f y hye] at h
  have px := pow2_pos ((x.e : Int) - f.bias)
  have py := pow2_pos ((y.e : Int) - f.bias)
  have mx : (0 : Rat) < manOf f x := by exact_mod_cast (by omega : 0 < manOf f x)
  have my : (0 : Rat) < manOf f y := by exact_mod_cast (by omega : 0 < manOf f y)
  -- equal signs, equal magnitudes
  have hA : 0 < (manOf f x : Rat) * pow2 ((x.e : Int) - f.bias) := mul_pos mx px
  have hB : 0 < (manOf f y : Rat) * pow2 ((y.e : Int) - f.bias) := mul_pos my py
  rw [mul_assoc, mul_assoc] at h
  obtain ⟨hsign, hmag⟩ := sign_mag _ _ _ _ hA hB h
  -- equal exponents: otherwise one mantissa would be at least twice the other
  have key : ∀ (a b : F), F.Valid f a → F.Valid f b →
      (manOf f a : Rat) * pow2 ((a.e : Int) - f.bias) = (manOf f b : Rat) * pow2 ((b.e : Int) - f.bias) →
      a.e ≤ b.e → 2 ^ (f.w - 1) ≤ manOf f b → manOf f a < 2 ^ f.w → a.e = b.e := by
    intro a b _ _ hab hle hb1 ha2
    by_contra hne
    have hlt : a.e < b.e := by omega
    have e1 : ((b.e : Int) - f.bias) = ((a.e : Int) - f.bias) + ((b.e - a.e : Nat) : Int) := by omega
    rw [e1, pow2_add] at hab
    have pa := pow2_pos ((a.e : Int) - f.bias)
    have e2 : pow2 ((b.e - a.e : Nat) : Int) = 2 ^ (b.e - a.e) := by
      have := pow2_sub (b.e - a.e) 0
      simp only [Nat.cast_zero, sub_zero, Nat.sub_zero, Nat.zero_sub, pow_zero, div_one] at this
      exact this
    rw [e2] at hab
    have e3 : (manOf f a : Rat) = (manOf f b : Rat) * 2 ^ (b.e - a.e) := by
      have : pow2 ((a.e : Int) - f.bias) ≠ 0 := ne_of_gt pa
      field_simp at hab
      linarith
    have e4 : manOf f a = manOf f b * 2 ^ (b.e - a.e) := by exact_mod_cast e3
    have e5 : 2 ≤ 2 ^ (b.e - a.e) := by
      calc 2 = 2 ^ 1 := rfl
        _ ≤ 2 ^ (b.e - a.e) := Nat.pow_le_pow_right (by decide) (by omega)
    have : manOf f b * 2 ≤ manOf f b * 2 ^ (b.e - a.e) := Nat.mul_le_mul_left _ e5
    omega
  have hexp : x.e = y.e := by
    rcases Nat.le_total x.e y.e with hle | hle
    · exact key x y hx hy hmag hle hby.1 hbx.2
    · exact (key y x hy hx hmag.symm hle hbx.1 hby.2).symm
  have hman : manOf f x = manOf f y := by
    rw [hexp] at hmag
    have : pow2 ((y.e : Int) - f.bias) ≠ 0 := ne_of_gt py
    have : (manOf f x : Rat) = manOf f y := by
      field_simp at hmag
      linarith
    exact_mod_cast this
  have hm : x.m = y.m := by
    unfold manOf at hman
    rw [hsign] at hman
    split at hman <;> omega
  cases x; cases y
  simp only at hm hexp
  rw [hm, hexp]

end PcbV.Mbf
