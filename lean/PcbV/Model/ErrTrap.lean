import PcbV.Basic
import PcbV.Gen.Errors
/-
  PcbV.Model.ErrTrap — the error-trapping mechanism of `pcbasic/basic/interpreter.py`
  (the `parse` loop with `current_statement`, `trap_error`, `resume_`, `on_error_goto_`, `erl_`/`err_`,
   `error_`, the NO_RESUME end-of-program check, `jump`/`jump_sub`/`return_`) and of
  `pcbasic/basic/implementation.py` (`_handle_error`: message with line number and return to direct
  mode; `end_`, `run_`).

  It follows the position convention of the `Mech` layer of `PcbV.Model.MiniBasic` (property C19):
  a program is flattened to a list of `Instr` (statement + "first statement of line n" marker) and a
  program position is the index of a statement.  `MiniBasic.Stmt` is a closed type without the
  error-trapping statements, so this file has its own statement type; `flatten`, `lineIndex` are the
  same definitions.

  What the code stores and what the model stores:
    * `current_statement`  = byte offset of the `:` / line header in front of the running statement
                           ↦ the index `pc` of the running statement (in the program or in the direct line);
    * `run_mode`           ↦ `run`;
    * `error_resume = (current_statement, run_mode)` ↦ `resume : Option (Bool × Nat)`;
    * `error_pos` (byte offset inside the failing statement, -1 for the direct line, 0 initially)
                           ↦ `EPos` (`prog i`: inside statement i; `direct`; `zero`);
      `Program.get_line_number(pos)` ↦ `lineOf` (the last line marker at or before statement i);
    * `on_error` (None and 0 are treated alike by the code) ↦ `onErr : Nat`, 0 = no trap;
    * an error raised while a DEF FN body is evaluated: `UserFunction.evaluate` puts the program pointer
      back to the call site (in a `finally`) before `trap_error` reads it, so the error belongs to the
      CALLING statement ↦ `fnc` raises like any other statement, at its own position;
    * `values.error_handler._do_raise` (set by ON ERROR GOTO n, n ≠ 0; reset by ON ERROR GOTO 0 and by
      `Interpreter.clear`, i.e. RUN / CLEAR / NEW / CHAIN; NOT reset when RESUME without error switches the
      trap off) ↦ `softRaise`.

  `fixed = true` is the repaired code: `trap_error` forgets `error_resume` when an error is NOT trapped
  (the error occurred inside the handler, or is the re-raise of ON ERROR GOTO 0, or is No RESUME).
  `fixed = false` is the code before the repair, which kept the stale resume position, so that a later
  RESUME at the prompt continued the stopped program and a later run to the end raised No RESUME.
-/
namespace PcbV.ErrTrap

open PcbV.Gen

/-! ## syntax -/

inductive Stmt
  | mark (k : Nat)              -- PRINT k                       (marker in the trace)
  | printErr                    -- PRINT "E";ERR;ERL
  | error (n : Nat)             -- ERROR n
  | fault (e : Nat)             -- a statement that fails with (hard) error e whenever it is executed
  | cfault (v e : Nat)          -- fails with error e while flag v is clear; no effect once it is set
  | soft (e : Nat)              -- float division by zero / overflow: an error only while a trap is set up
  | setFlag (v : Nat)           -- Fv%=1
  | gosub (n : Nat)
  | ret
  | goto (n : Nat)
  | onErr (n : Nat)             -- ON ERROR GOTO n   (0 switches trapping off)
  | resume                      -- RESUME
  | resumeNext                  -- RESUME NEXT
  | resumeLine (n : Nat)        -- RESUME n          (RESUME 0 is RESUME)
  | end_
  | inc                         -- G%=G%+1           (guard counter)
  | endIf (n : Nat)             -- IF G%>n THEN END  (last statement of its line)
  | run                         -- RUN
  | nop                         -- a statement without effect on this mechanism (TROFF, KEY OFF, DATA …)
  | defFn (k : Nat)             -- DEF FN<k>…: defines user function k (Illegal direct outside a program)
  | fnc (ks : List Nat) (v e : Nat)
                                -- a statement whose expression calls user function(s) ks (nested calls:
                                -- all of them must be defined, else Undefined user function); the body
                                -- fails with error e while flag v is clear
  | forc (v e : Nat)            -- FOR Q%=1 TO <expr failing with e while flag v is clear, else 0>; the next
                                -- statement is its NEXT: once the flag is set the (empty) loop is skipped
  | nextq                       -- that NEXT, reached on its own (RESUME NEXT after the FOR failed)
  deriving DecidableEq, Repr

structure Line where
  num : Nat
  stmts : List Stmt
  deriving Repr

structure Instr where
  line : Option Nat      -- `some n`: this is the first statement of line n
  stmt : Stmt
  deriving Repr

def flattenLine (l : Line) : List Instr :=
  match l.stmts with
  | [] => []
  | s :: rest => ⟨some l.num, s⟩ :: rest.map (fun t => ⟨none, t⟩)

def flatten (p : List Line) : List Instr := p.flatMap flattenLine

/-- `Program.line_numbers[n]` -/
def lineIndexFrom : List Instr → Nat → Nat → Option Nat
  | [], _, _ => none
  | ins :: rest, i, n => if ins.line = some n then some i else lineIndexFrom rest (i + 1) n

def lineIndex (code : List Instr) (n : Nat) : Option Nat := lineIndexFrom code 0 n

/-- `Program.get_line_number(pos)` for a position inside statement i: the line marker of the line
    that contains statement i (`cur` = the marker seen so far; `none` is the code's -1) -/
def lineOfFrom (cur : Option Nat) : List Instr → Nat → Option Nat
  | [], _ => cur
  | ins :: _, 0 => if ins.line.isSome then ins.line else cur
  | ins :: rest, i + 1 => lineOfFrom (if ins.line.isSome then ins.line else cur) rest i

def lineOf (code : List Instr) (i : Nat) : Option Nat := lineOfFrom none code i

/-! ## state -/

/-- `Interpreter.error_pos` -/
inductive EPos
  | zero                -- 0: no error yet (after RUN / CLEAR)
  | direct              -- -1: the error occurred in the direct line
  | prog (i : Nat)      -- inside statement i of the program
  deriving DecidableEq, Repr

inductive Item
  | mark (k : Nat)
  | errerl (e : Nat) (l : Int)     -- the two numbers printed by PRINT ERR;ERL
  | soft (e : Nat)                 -- message of a soft-handled math error (execution goes on)
  deriving DecidableEq, Repr

structure St where
  run : Bool                       -- run_mode
  pc : Nat                         -- current_statement
  flags : Nat → Bool
  defs : Nat → Bool                -- user functions defined by DEF FN (cleared by RUN)
  g : Nat                          -- G%
  gosubs : List (Bool × Nat)       -- (run mode, position after the calling statement), innermost first
  onErr : Nat                      -- on_error (0 = None or 0)
  handling : Bool                  -- error_handle_mode
  resume : Option (Bool × Nat)     -- error_resume
  errNum : Nat                     -- error_num
  errPos : EPos                    -- error_pos
  softRaise : Bool                 -- math errors are raised instead of soft-handled
  out : List Item                  -- most recent first

def St.init : St := ⟨false, 0, fun _ => false, fun _ => false, 0, [], 0, false, none, 0, .zero, false, []⟩

inductive Res
  | running (s : St)
  | done (s : St)                              -- control returns to the prompt, no message
  | stopped (e : Nat) (pos : EPos) (s : St)    -- `_handle_error`: message of error e for position pos

/-- ERL -/
def erlVal (code : List Instr) : EPos → Int
  | .zero => 0
  | .direct => 65535
  | .prog i => match lineOf code i with
    | some n => n
    | none => -1

/-- the line named in the message (`get_message(get_line_number(pos))`: only 0 ≤ line < 65535 is shown) -/
def msgLine (code : List Instr) : EPos → Option Nat
  | .zero => (lineOf code 0).filter (· < 65535)
  | .direct => none
  | .prog i => (lineOf code i).filter (· < 65535)

/-- position given to an error raised without one: `tell()-1` in run mode, -1 in the direct line -/
def curPos (s : St) : EPos := if s.run then .prog s.pc else .direct

/-- `trap_error` -/
def trap (fixed : Bool) (code : List Instr) (s : St) (e : Nat) (pos : EPos) : Res :=
  let s1 : St := { s with errNum := e, errPos := pos }
  if s.onErr ≠ 0 ∧ s.handling = false then
    match lineIndex code s.onErr with
    | some j => .running { s1 with resume := some (s.run, s.pc), run := true, pc := j, handling := true }
    | none =>
      -- the trap line has disappeared: `jump` raises inside `trap_error`; that error reaches the prompt
      -- without a position (message without line number)
      .stopped E.undefined_line_number .direct { s1 with resume := some (s.run, s.pc) }
  else
    -- not trapped: the error reaches `_handle_error` (message, back to the prompt); for a Syntax error
    -- `_syntax_error_edit_prompt` resets `error_num`
    .stopped e pos { s1 with handling := false, run := false,
                             errNum := if e = E.stx then 0 else e,
                             resume := if fixed then none else s.resume }

/-- what one statement does, before error handling -/
inductive Outcome
  | next (s : St)                         -- completed; `s.run`/`s.pc` say where to go on
  | fin (s : St)                          -- END
  | raise (e : Nat) (s : St)              -- BASICError(e) without position
  | raiseAt (e : Nat) (pos : EPos) (s : St)

def advance (s : St) : Outcome := .next { s with pc := s.pc + 1 }

/-- `end_` -/
def doEnd (s : St) : Outcome := .fin { s with run := false, handling := false, resume := none }

/-- common part of `resume_` after the RESUME-without-error test -/
def resumeState (s : St) : St := { s with errNum := 0, handling := false, resume := none }

def execStmt (code : List Instr) (s : St) : Stmt → Outcome
  | .mark k => advance { s with out := .mark k :: s.out }
  | .printErr => advance { s with out := .errerl s.errNum (erlVal code s.errPos) :: s.out }
  | .error n => if 1 ≤ n ∧ n ≤ 255 then .raise n s else .raise E.illegal_function_call s
  | .fault e => .raise e s
  | .cfault v e => if s.flags v then advance s else .raise e s
  | .soft e => if s.softRaise then .raise e s else advance { s with out := .soft e :: s.out }
  | .setFlag v => advance { s with flags := fun w => if w = v then true else s.flags w }
  | .gosub n =>
    match lineIndex code n with
    | some j => .next { s with run := true, pc := j, gosubs := (s.run, s.pc + 1) :: s.gosubs }
    | none => .raise E.undefined_line_number s
  | .ret =>
    match s.gosubs with
    | [] => .raise E.return_without_gosub s
    | (m, p) :: gs => .next { s with run := m, pc := p, gosubs := gs }
  | .goto n =>
    match lineIndex code n with
    | some j => .next { s with run := true, pc := j }
    | none => .raise E.undefined_line_number s
  | .onErr n =>
    if n ≠ 0 ∧ lineIndex code n = none then .raise E.undefined_line_number s
    else
      let s1 : St := { s with onErr := n, softRaise := decide (n ≠ 0) }
      if n = 0 ∧ s.handling then .raiseAt s.errNum s.errPos s1 else advance s1
  | .resume =>
    match s.resume with
    | none => .raise E.resume_without_error { s with onErr := 0 }
    | some (m, p) => .next { resumeState s with run := m, pc := p }
  | .resumeNext =>
    match s.resume with
    | none => .raise E.resume_without_error { s with onErr := 0 }
    | some (m, p) => .next { resumeState s with run := m, pc := p + 1 }
  | .resumeLine n =>
    match s.resume with
    | none => .raise E.resume_without_error { s with onErr := 0 }
    | some (m, p) =>
      if n = 0 then .next { resumeState s with run := m, pc := p }
      else match lineIndex code n with
        | some j => .next { resumeState s with run := true, pc := j }
        | none => .raise E.undefined_line_number (resumeState s)
  | .end_ => doEnd s
  | .inc => advance { s with g := s.g + 1 }
  | .endIf n => if s.g > n then doEnd s else advance s
  | .nop => advance s
  | .defFn k =>
    if s.run then advance { s with defs := fun w => if w = k then true else s.defs w }
    else .raise E.illegal_direct s
  | .fnc ks v e =>
    if ks.all s.defs then (if s.flags v then advance s else .raise e s)
    else .raise E.undefined_user_function s
  | .forc v e => if s.flags v then .next { s with pc := s.pc + 2 } else .raise e s
  | .nextq => .raise E.next_without_for s
  | .run =>
    -- `run_`: on_error = 0, handle mode off, stacks cleared, then `_clear_all` → `Interpreter.clear`:
    -- ERR/ERL 0, trapping state initialised, soft handling of math errors switched back on,
    -- GOSUB stack dropped, variables cleared
    .next { s with run := true, pc := 0, flags := fun _ => false, defs := fun _ => false, g := 0,
                   gosubs := [], onErr := 0,
                   handling := false, resume := none, errNum := 0, errPos := .zero, softRaise := false }

/-- the statement under the pointer -/
def fetch (code : List Instr) (dl : List Stmt) (s : St) : Option Stmt :=
  if s.run then (code[s.pc]?).map (·.stmt) else dl[s.pc]?

/-- position reported by the NO_RESUME check (`ins.tell()-len(token)-2`: the last byte of the last line) -/
def endPos (code : List Instr) : EPos := if code.isEmpty then .direct else .prog (code.length - 1)

/-- one turn of the `parse` loop -/
def step (fixed : Bool) (code : List Instr) (dl : List Stmt) (s : St) : Res :=
  match fetch code dl s with
  | none =>
    if s.run ∧ s.resume.isSome then
      -- unfinished error handler: No RESUME, never trapped
      trap fixed code { s with handling := true } E.no_resume (endPos code)
    else .done { s with run := false }
  | some st =>
    match execStmt code s st with
    | .next s' => .running s'
    | .fin s' => .done s'
    | .raise e s' => trap fixed code s' e (curPos s')
    | .raiseAt e pos s' => trap fixed code s' e pos

inductive Status
  | ok
  | err (e : Nat) (line : Option Nat)
  | fuel
  deriving DecidableEq, Repr

def runFuel (fixed : Bool) (code : List Instr) (dl : List Stmt) : Nat → St → St × Status
  | 0, s => (s, .fuel)
  | f + 1, s =>
    match step fixed code dl s with
    | .running s' => runFuel fixed code dl f s'
    | .done s' => (s', .ok)
    | .stopped e pos s' => (s', .err e (msgLine code pos))

/-- `Session.execute(direct line)`: the pointer is put at the start of the new direct line -/
def execute (fixed : Bool) (code : List Instr) (fuel : Nat) (s : St) (dl : List Stmt) : St × Status :=
  runFuel fixed code dl fuel { s with run := false, pc := 0, out := [] }

/-- a history of direct lines typed at the prompt; for each: what was printed, and how it ended -/
def session (fixed : Bool) (code : List Instr) (fuel : Nat) : St → List (List Stmt) → List (List Item × Status)
  | _, [] => []
  | s, dl :: rest =>
    let r := execute fixed code fuel s dl
    (r.1.out.reverse, r.2) :: session fixed code fuel r.1 rest

end PcbV.ErrTrap
