import PcbV.Model.Tokenise
import PcbV.Model.Lister
namespace PcbV.Drv.C17
open PcbV PcbV.Tok PcbV.Lst

def dialect : String → Option Table
  | "advanced" => some PcbV.Gen.Tokens.advanced
  | "pcjr" => some PcbV.Gen.Tokens.pcjr
  | "tandy" => some PcbV.Gen.Tokens.tandy
  | _ => none

/-- `k1=v1,k2=v2` (hex) or `-` -/
def parseTable (s : String) : Option (List (Bytes × Bytes)) :=
  if s == "-" then some [] else
  (s.splitOn ",").mapM (fun e =>
    match e.splitOn "=" with
    | [k, v] => do
        let k ← ofHex k
        let v ← ofHex v
        pure (k, v)
    | _ => none)

def codecOf (tbl : List (Bytes × Bytes)) : Codec :=
  { readFloat := fun w => (tbl.find? (fun p => p.1 == w)).map (·.2),
    showFloat := fun w => (tbl.find? (fun p => p.1 == w)).map (·.2) }

def handle : List String → String
  | ["tok", old, d, line, tbl] =>
    match dialect d, ofHex line, parseTable tbl with
    | some t, some l, some tb =>
      (match tokeniseLine (old == "1") t (codecOf tb) l with
       | .ok b => "ok " ++ toHex b
       | .error e => "err " ++ toString e)
    | _, _, _ => "bad-op"
  | ["lst", old, d, toks, tbl] =>
    match dialect d, ofHex toks, parseTable tbl with
    | some t, some l, some tb =>
      (match detokLine (old == "1") t (codecOf tb) l with
       | .ok none => "ok end"
       | .ok (some (n, txt)) => "ok " ++ toString n ++ " " ++ toHex txt
       | .error e => "err " ++ toString e)
    | _, _, _ => "bad-op"
  | _ => "bad-op"

end PcbV.Drv.C17
