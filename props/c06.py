"""C06 — Numeric comparisons agree with the exact order of values."""
import struct
from fractions import Fraction

from vlib import basic, mbf

LEVEL = 'proof'
RULE = ('typed operand pairs (Integer/Single/Double, all 9 type pairs) built from: a boundary set of integers, '
        'structured MBF patterns (vlib.mbf.gen_float/gen_pair), and for a first operand a related second one: '
        'its exact value converted to the other type, then unchanged / one ulp up or down (across binade '
        'boundaries) / negated / replaced by a zero encoding with garbage mantissa bytes; each '
        '(operator, left, right) is one case; non-trivial = operands are not byte-identical; the same pairs are '
        'evaluated at BASIC level through variables loaded with CVI/CVS/CVD; a further set runs the nine operator '
        'spellings, the trichotomy sums and an IF chain with the operands held in every kind of storage (scalars, '
        'two elements of one array - same or different cell, one- and two-dimensional -, elements of different '
        'arrays, FIELD buffers read with CVI/CVS/CVD, FOR counters, DEF FN parameters, temporaries, and mixtures) in '
        'all type pairings; bubble-sort programs over arrays of patterns check the comparisons used in sequence')
EXPLANATION = ('theorems (PcbV.Props.C06): Float.gt/eq decide the exact order/equality of the rational values of '
               'all valid patterns of any well-formed format, Integer.gt/eq the two\'s-complement order, from_int '
               'and from_single are exact, hence values.eq/neq/lt/gt/lte/gte return -1/0 exactly by the order of '
               'the exact values for all type pairs, trichotomy, <= is not >; correspondence: the real '
               'values.eq/neq/gt/gte/lt/lte and the gt/eq methods against the compiled Lean model; oracle: '
               'fractions.Fraction comparison of the decoded byte patterns, also through Session.execute')
TRUSTED_BASE = ['models PcbV.Model.Mbf (gt/eq/absGt/fromInt/fromSingle), PcbV.Model.IntOps (gt/eq) and '
                'PcbV.Model.Compare (match_types, relational operators) are hand transcriptions of numbers.py / values.py']
ASSUMPTIONS = ['isinstance-dispatch in match_types sees only Integer/Single/Double operands (strings are C09/C10)',
               'Double.gt/eq(Single) method calls (no promotion branch in the code) are not reachable: values.py '
               'promotes both operands first']

OPS = ['eq', 'neq', 'lt', 'gt', 'lte', 'gte']
REL = {
    'eq': lambda a, b: a == b, 'neq': lambda a, b: a != b, 'lt': lambda a, b: a < b,
    'gt': lambda a, b: a > b, 'lte': lambda a, b: a <= b, 'gte': lambda a, b: a >= b,
}
# every spelling the tokeniser accepts
SPELL = [('=', 'eq'), ('<>', 'neq'), ('><', 'neq'), ('<', 'lt'), ('>', 'gt'), ('<=', 'lte'), ('=<', 'lte'),
         ('>=', 'gte'), ('=>', 'gte')]
TYPES = 'isd'
SIGIL = {'i': '%', 's': '!', 'd': '#'}
SIZE = {'i': 2, 's': 4, 'd': 8}


# ---------------------------------------------------------------------------------------------
# exact values and pattern construction (independent of the implementation and of the model)

def value(t, b):
    if t == 'i':
        return Fraction(struct.unpack('<h', bytes(b))[0])
    return mbf.val(t, b)


def ilog2(q):
    """floor(log2 q) for a positive Fraction."""
    k = q.numerator.bit_length() - q.denominator.bit_length()
    if Fraction(2) ** k > q:
        k -= 1
    elif Fraction(2) ** (k + 1) <= q:
        k += 1
    return k


def encode(t, q, rng):
    """A pattern of type t whose value is q when q is representable, else a nearby one (truncated/clamped)."""
    if t == 'i':
        n = int(q)
        n = max(-32768, min(32767, n))
        return struct.pack('<h', n)
    f = mbf.FMT[t]
    w = f['w']
    if q == 0:
        if rng.random() < 0.5:
            return bytes(f['size'])
        return bytes(rng.randrange(256) for _ in range(f['size'] - 1)) + b'\0'
    neg = q < 0
    a = abs(q)
    k = ilog2(a)
    e = k + 129
    if e < 1:
        return mbf.make(t, neg, 1 << (w - 1), 1)
    if e > 255:
        return mbf.make(t, neg, (1 << w) - 1, 255)
    man = int(a / Fraction(2) ** (k - (w - 1)))
    return mbf.make(t, neg, man, e)


def step(t, b, d):
    """The pattern d steps further from zero (d<0: closer) among the non-zero patterns of the same sign."""
    if t == 'i':
        n = struct.unpack('<h', bytes(b))[0]
        return struct.pack('<h', max(-32768, min(32767, n + d)))
    w = mbf.FMT[t]['w']
    e = b[-1]
    if e == 0:
        return b
    m = int.from_bytes(bytes(b[:-1]), 'little')
    neg = m >= 1 << (w - 1)
    idx = (e << (w - 1)) | (m & ((1 << (w - 1)) - 1))
    idx = max(1 << (w - 1), min((256 << (w - 1)) - 1, idx + d))
    return mbf.make(t, neg, (idx & ((1 << (w - 1)) - 1)) | (1 << (w - 1)), idx >> (w - 1))


def negate(t, b):
    if t == 'i':
        n = struct.unpack('<h', bytes(b))[0]
        return struct.pack('<h', max(-32768, min(32767, -n)))
    b = bytearray(b)
    b[-2] ^= 0x80
    return bytes(b)


def int_boundary():
    vals = set()
    for k in range(16):
        for d in (-1, 0, 1):
            for s in (1, -1):
                v = s * (1 << k) + d
                if -32768 <= v <= 32767:
                    vals.add(v)
    vals.update([0, 2, 3, 5, 10, 100, 127, 128, 129, 255, 256, 257, 0x7f00, 0x7fff, -0x8000, -0x7fff, -0x7f01,
                 -256, -255, -257, -129, -128, -127, 12345, -12345, 0x00ff, -0x0100, 0x0100])
    return sorted(vals)


INTS = int_boundary()


def gen_num(rng, t):
    if t == 'i':
        if rng.random() < 0.6:
            return struct.pack('<h', rng.choice(INTS))
        return struct.pack('<H', rng.randrange(65536))
    k = rng.random()
    if k < 0.25:
        # integer-valued or half-integer floats in the Integer range, where mixed comparisons bite
        q = Fraction(rng.choice(INTS)) + rng.choice([0, 0, Fraction(1, 2), Fraction(-1, 2), Fraction(1, 256)])
        return encode(t, q, rng)
    return mbf.gen_float(rng, t)


def zero_like(rng, t):
    """Any encoding of zero of type t."""
    if t == 'i':
        return b'\0\0'
    n = SIZE[t]
    k = rng.random()
    if k < 0.25:
        return bytes(n)
    if k < 0.5:
        return bytes(n - 2) + b'\x80\0'          # "negative" zero
    if k < 0.75:
        return b'\xff' * (n - 1) + b'\0'
    return bytes(rng.randrange(256) for _ in range(n - 1)) + b'\0'


def gen_pair(rng, ta=None, tb=None):
    """A typed operand pair; with ta/tb given, a pair of exactly these types in this order."""
    if ta is not None:
        A, B = gen_pair(rng)
        for _ in range(200):
            if (A[0], B[0]) == (ta, tb):
                return A, B
            if (B[0], A[0]) == (ta, tb):
                return B, A
            A, B = _gen_pair(rng, ta, tb)
        return (ta, gen_num(rng, ta)), (tb, gen_num(rng, tb))
    return _gen_pair(rng, rng.choice(TYPES), rng.choice(TYPES))


def _gen_pair(rng, ta, tb):
    k = rng.random()
    if k < 0.2:
        return (ta, gen_num(rng, ta)), (tb, gen_num(rng, tb))
    if k < 0.3 and ta == tb and ta != 'i':
        a, b = mbf.gen_pair(rng, ta)
        return (ta, a), (tb, b)
    if k < 0.4:
        # zero encodings against each other and against small / negative values
        a = zero_like(rng, ta)
        b = zero_like(rng, tb) if rng.random() < 0.6 else gen_num(rng, tb)
        return ((ta, a), (tb, b)) if rng.random() < 0.5 else ((tb, b), (ta, a))
    # related pair: the exact value of a in type tb, perturbed
    a = gen_num(rng, ta)
    b = encode(tb, value(ta, a), rng)
    j = rng.random()
    if j < 0.3:
        pass
    elif j < 0.5:
        b = step(tb, b, rng.choice([1, -1]))
    elif j < 0.6:
        b = step(tb, b, rng.choice([2, -2, 255, -255, 256, -256, 1 << 16, -(1 << 16)]))
    elif j < 0.75:
        b = negate(tb, b)
    elif j < 0.85:
        b = step(tb, negate(tb, b), rng.choice([1, -1]))
    elif j < 0.95 and tb != 'i' and b[-1] != 0:
        # same mantissa bytes, neighbouring exponent; or exponent byte 0 keeping the mantissa (a zero!)
        b = b[:-1] + bytes([rng.choice([max(1, b[-1] - 1), min(255, b[-1] + 1), 0])])
    else:
        a = step(ta, a, rng.choice([1, -1]))
    return ((ta, a), (tb, b)) if rng.random() < 0.5 else ((tb, b), (ta, a))


# ---------------------------------------------------------------------------------------------
# the real code

class Impl(object):
    """values.eq/neq/gt/gte/lt/lte and the gt/eq methods of numbers.Integer/Single/Double."""

    def __init__(self):
        from pcbasic.basic.values import values, numbers
        from pcbasic.basic.base import error
        self.values, self.numbers, self.error = values, numbers, error
        self.vs = values.Values(None, False)
        self.vs.set_handler(values.FloatErrorHandler(None))
        self.cls = {'i': numbers.Integer, 's': numbers.Single, 'd': numbers.Double}

    def num(self, t, b):
        return self.cls[t](None, self.vs).from_bytes(bytes(b))

    def op(self, name, A, B):
        """Result as 'ok <unsigned pattern>'; called twice on the same objects (must not disturb operands)."""
        x, y = self.num(*A), self.num(*B)
        fn = getattr(self.values, name)
        try:
            r1 = fn(x, y)
            r2 = fn(x, y)
        except self.error.BASICError as e:
            return 'err %d' % e.err
        except Exception as e:  # a host exception escaping
            return 'exc %s' % type(e).__name__
        if not isinstance(r1, self.numbers.Integer) or not isinstance(r2, self.numbers.Integer):
            return 'type %s' % type(r1).__name__
        if bytes(x.to_bytes()) != bytes(A[1]) or bytes(y.to_bytes()) != bytes(B[1]):
            return 'operand-mutated'
        p1 = struct.unpack('<H', bytes(r1.to_bytes()))[0]
        p2 = struct.unpack('<H', bytes(r2.to_bytes()))[0]
        if p1 != p2:
            return 'unstable %d %d' % (p1, p2)
        return 'ok %d' % p1

    def method(self, name, A, B):
        x, y = self.num(*A), self.num(*B)
        try:
            r = getattr(x, name)(y)
        except Exception as e:
            return 'exc %s' % type(e).__name__
        if bytes(x.to_bytes()) != bytes(A[1]) or bytes(y.to_bytes()) != bytes(B[1]):
            return 'operand-mutated'
        return 'ok %d' % int(bool(r))


def line(op, A, B):
    return '%s %s %s %s %s' % (op, A[0], mbf.hx(A[1]), B[0], mbf.hx(B[1]))


def describe(A):
    return '%s:%s(=%s)' % (A[0], mbf.hx(A[1]), float(value(*A)))


KEY_OPS = OPS + ['mgt', 'meq']


def case_key(op, A, B):
    """compact deterministic key of one case (an int), for the distinct count"""
    code = KEY_OPS.index(op) * 9 + TYPES.index(A[0]) * 3 + TYPES.index(B[0]) + 1
    return int.from_bytes(bytes([code]) + bytes(A[1]) + bytes(B[1]), 'little')


def klass(A):
    """coarse class of an operand, for the distribution counters"""
    t, b = A
    if t == 'i':
        return 'i'
    if b[-1] == 0:
        return t + ('0' if not any(b[:-1]) else '0g')
    return t


def check_values(ctx, impl, pairs, ops=OPS):
    cases, lines, outs = [], [], []
    for A, B in pairs:
        va, vb = value(*A), value(*B)
        for op in ops:
            out = impl.op(op, A, B)
            cases.append((op, A, B))
            lines.append(line(op, A, B))
            outs.append(out)
            ctx.case(case_key(op, A, B) if A[1] != B[1] or A[0] != B[0] else 'same:' + op)
            exp = 'ok %d' % (65535 if REL[op](va, vb) else 0)
            if out != exp:
                ctx.fail('values:%s:%s:%s' % (op, line(op, A, B).split(' ', 1)[1], out.split()[0]),
                         {'level': 'values', 'op': op, 'a': [A[0], mbf.hx(A[1])], 'b': [B[0], mbf.hx(B[1])]},
                         'values.%s(%s, %s) returned %s, exact comparison demands %s'
                         % (op, describe(A), describe(B), out, exp))
        ctx.count('types:%s%s' % (A[0], B[0]))
        ctx.count('rel:' + ('lt' if va < vb else 'gt' if va > vb else 'eq'))
        ka, kb = klass(A), klass(B)
        for kk in (ka, kb):
            if kk[-1] in '0g':
                ctx.count('zero-enc:' + kk)
        if ka[-1] in '0g' and kb[-1] in '0g':
            ctx.count('zero-enc:both')
        if va == vb and (A[0] != B[0] or A[1] != B[1]):
            ctx.count('equal-value-different-bytes')
        if va == -vb and va != 0:
            ctx.count('opposite-sign-equal-magnitude')
    ctx.compare(cases, outs, lines, label='values')
    return cases, outs


def check_methods(ctx, impl, pairs):
    cases, lines, outs = [], [], []
    for A, B in pairs:
        if A[0] == 'd' and B[0] == 's':
            continue          # Double.gt(Single): no branch in the code, never called by values.py
        va, vb = value(*A), value(*B)
        for name, mop, rel in (('gt', 'mgt', va > vb), ('eq', 'meq', va == vb)):
            out = impl.method(name, A, B)
            cases.append((mop, A, B))
            lines.append(line(mop, A, B))
            outs.append(out)
            ctx.case(case_key(mop, A, B))
            ctx.count('method:' + name)
            if out != 'ok %d' % int(rel):
                ctx.fail('method:%s:%s' % (name, line(mop, A, B).split(' ', 1)[1]),
                         {'level': 'method', 'op': name, 'a': [A[0], mbf.hx(A[1])], 'b': [B[0], mbf.hx(B[1])]},
                         '%s.%s(%s) returned %s, exact comparison demands %d'
                         % (describe(A), name, describe(B), out, int(rel)))
    ctx.compare(cases, outs, lines, label='method')


# ---------------------------------------------------------------------------------------------
# BASIC level

def chrs(b):
    return '+'.join('CHR$(%d)' % x for x in bytearray(b))


CV = {'i': 'CVI', 's': 'CVS', 'd': 'CVD'}


def basic_pair(ctx, s, A, B, direct):
    """All nine operator spellings on one pair through the real parser/evaluator."""
    va, vb = value(*A), value(*B)
    if direct:
        l, r = '%s(%s)' % (CV[A[0]], chrs(A[1])), '%s(%s)' % (CV[B[0]], chrs(B[1]))
        outs = []
        for grp in (SPELL[:3], SPELL[3:6], SPELL[6:]):
            outs.append(s.execute(('PRINT ' + ';'.join('%s%s%s' % (l, sp, r) for sp, _ in grp)).encode('latin-1')))
        out = b' '.join(outs)
    else:
        l, r = 'X' + SIGIL[A[0]], 'Y' + SIGIL[B[0]]
        pre = s.execute(('%s=%s(%s):%s=%s(%s)' % (l, CV[A[0]], chrs(A[1]), r, CV[B[0]], chrs(B[1]))).encode('latin-1'))
        out = pre + s.execute(('PRINT ' + ';'.join('%s%s%s' % (l, sp, r) for sp, _ in SPELL)).encode('latin-1'))
        # the same relations steering IF and arithmetic on the truth values (exactly one of < = > is -1)
        out2 = s.execute(('IF %s<%s THEN PRINT "L"; ELSE IF %s=%s THEN PRINT "E"; ELSE PRINT "G";' % (l, r, l, r)
                          ).encode('latin-1'))
        out3 = s.execute(('PRINT (%s<%s)+(%s=%s)+(%s>%s);(%s<=%s)+(%s>%s)' % (l, r, l, r, l, r, l, r, l, r)
                          ).encode('latin-1'))
        want2 = b'L' if va < vb else b'E' if va == vb else b'G'
        ctx.case(('basic-if', A, B))
        if out2.strip() != want2 or out3.split() != [b'-1', b'-1']:
            ctx.fail('basic:if:%s' % line('if', A, B).split(' ', 1)[1],
                     {'level': 'basic', 'a': [A[0], mbf.hx(A[1])], 'b': [B[0], mbf.hx(B[1])], 'direct': direct},
                     'IF chain printed %r (expected %r), trichotomy sums printed %r (expected -1 -1) for %s, %s'
                     % (out2, want2, out3, describe(A), describe(B)))
    toks = out.split()
    exp = [b'-1' if REL[op](va, vb) else b'0' for _, op in SPELL]
    ctx.case(('basic', direct, A, B))
    ctx.count('basic:direct' if direct else 'basic:variables')
    if toks != exp:
        bad = [sp for (sp, _), t, e in zip(SPELL, toks + [None] * 9, exp) if t != e]
        ctx.fail('basic:%s:%s' % (','.join(bad) or 'output', line('x', A, B).split(' ', 1)[1]),
                 {'level': 'basic', 'a': [A[0], mbf.hx(A[1])], 'b': [B[0], mbf.hx(B[1])], 'direct': direct},
                 'BASIC comparisons of %s with %s printed %r, exact comparison demands %r (operators %s)'
                 % (describe(A), describe(B), out, b' '.join(exp), ' '.join(sp for sp, _ in SPELL)))


SORT_PROG = [
    '10 N=LEN(S$)/{n}-1:DIM A{g}(N)',
    '20 FOR I=0 TO N:A{g}(I)={cv}(MID$(S$,I*{n}+1,{n})):NEXT',
    '30 FOR I=0 TO N-1:FOR J=0 TO N-1-I',
    '40 IF A{g}(J)>A{g}(J+1) THEN SWAP A{g}(J),A{g}(J+1)',
    '50 NEXT:NEXT',
    '60 FOR I=0 TO N:B$={mk}$(A{g}(I)):FOR K=1 TO {n}:PRINT ASC(MID$(B$,K,1));:NEXT:NEXT',
    '70 C=0:FOR I=0 TO N-1:IF A{g}(I)<=A{g}(I+1) AND NOT (A{g}(I+1)<A{g}(I)) THEN C=C+1',
    '80 NEXT:PRINT C',
]


def basic_sort(ctx, s, t, items):
    """A bubble sort written in BASIC over an array of patterns: many dependent comparisons in a row."""
    n = SIZE[t]
    s.execute(b'NEW')
    for l in SORT_PROG:
        s.execute(l.format(n=n, g=SIGIL[t], cv=CV[t], mk={'i': 'MKI', 's': 'MKS', 'd': 'MKD'}[t]).encode('latin-1'))
    s.set_variable('S$', b''.join(items))
    out = s.execute(b'GOTO 10')      # not RUN: RUN would clear S$
    ctx.case(('sort', t, tuple(items)))
    ctx.count('sort:' + t)
    case = {'level': 'sort', 't': t, 'items': [mbf.hx(i) for i in items]}
    key = 'sort:%s:%s' % (t, ','.join(mbf.hx(i) for i in items))
    try:
        nums = [int(x) for x in out.split()]
    except ValueError:
        ctx.fail(key, case, 'sort program printed %r' % out)
        return
    if len(nums) != n * len(items) + 1:
        ctx.fail(key, case, 'sort program printed %r' % out)
        return
    got = [bytes(nums[i * n:(i + 1) * n]) for i in range(len(items))]
    vals = [value(t, g) for g in got]
    if sorted(got) != sorted(items):
        ctx.fail(key, case, 'sorted array is not a permutation of the input: %r' % [mbf.hx(g) for g in got])
    elif any(vals[i] > vals[i + 1] for i in range(len(vals) - 1)):
        ctx.fail(key, case, 'array sorted with > is not in exact order: %r' % [mbf.hx(g) for g in got])
    elif nums[-1] != len(items) - 1:
        ctx.fail(key, case, '<= / < disagree with the order established by >: count %d of %d'
                 % (nums[-1], len(items) - 1))


# ---------------------------------------------------------------------------------------------
# the same comparison matrix with the operands held in every kind of storage

FN_NAME = {}          # (ta, tb) -> user function comparing its two parameters
FN_PROG = []
for _i, _ta in enumerate(TYPES):
    for _j, _tb in enumerate(TYPES):
        _n = 'FN' + 'ABCDEFGHI'[_i * 3 + _j]
        FN_NAME[(_ta, _tb)] = _n
        _x, _y = 'X' + SIGIL[_ta], 'Y' + SIGIL[_tb]
        FN_PROG.append('%d DEF %s(%s,%s)=-(%s=%s)-2*(%s<>%s)-4*(%s<%s)-8*(%s>%s)-16*(%s<=%s)-32*(%s>=%s)'
                       % (10 + _i * 3 + _j, _n, _x, _y, _x, _y, _x, _y, _x, _y, _x, _y, _x, _y, _x, _y))
FN_BITS = ['eq', 'neq', 'lt', 'gt', 'lte', 'gte']

# operand storage kinds; 'for' (a FOR counter) exists for Integer and Single only (a Double counter is a
# Type mismatch in BASIC)
KINDS = ['scalar', 'arrP', 'arrQ', 'arrM', 'field', 'for', 'temp']
# (left kind, right kind, function wrapper, force equal types, weight)
PLANS = [
    ('arrP', 'arrP', False, True, 6),      # two elements of the same array
    ('arrM', 'arrM', False, True, 3),      # ... of the same two-dimensional array
    ('arrP', 'arrP', True, True, 2),       # ... passed on to DEF FN parameters
    ('arrP', 'arrQ', False, False, 3),     # elements of different arrays
    ('arrQ', 'arrM', False, False, 1),
    ('arrP', 'scalar', False, False, 2), ('scalar', 'arrP', False, False, 2),
    ('scalar', 'scalar', False, False, 1),
    ('field', 'field', False, False, 2), ('field', 'arrP', False, False, 1), ('scalar', 'field', False, False, 1),
    ('for', 'for', False, False, 2), ('for', 'arrP', False, False, 1), ('arrQ', 'for', False, False, 1),
    ('scalar', 'for', False, False, 1), ('for', 'field', False, False, 1),
    ('scalar', 'scalar', True, False, 1), ('temp', 'temp', True, False, 1), ('field', 'arrM', True, False, 1),
    ('temp', 'arrP', False, False, 1), ('arrM', 'temp', False, False, 1),
]


def gen_plan(rng):
    """(A, B, plan) with plan = [left kind, right kind, fn wrapper, left slot, right slot]"""
    kl, kr, fn, same, _ = rng.choices(PLANS, weights=[p[4] for p in PLANS])[0]
    ta = rng.choice('is' if kl == 'for' else TYPES)
    tb = ta if same else rng.choice('is' if kr == 'for' else TYPES)
    A, B = gen_pair(rng, ta, tb)
    il = rng.randrange(9)
    ir = rng.randrange(9)
    if kl == kr and ta == tb and il == ir and A[1] != B[1]:
        ir = (il + 1 + rng.randrange(8)) % 9      # one cell cannot hold two patterns
    return A, B, [kl, kr, fn, il, ir]


def fixed_plans():
    h = lambda x: mbf.unhx(x)
    out = []
    for t, a, b in (('s', '00004081', '00002082'), ('d', '0000000000004081', '0000000000002082'),
                    ('s', '00002082', '00002082'), ('d', '01000000000000ff', '00000000000000ff'),
                    ('s', '000080ff', '0000807f'), ('i', '0100', '0200'), ('s', '00000000', '12345600')):
        for kind in ('arrP', 'arrM'):
            out.append(((t, h(a)), (t, h(b)), [kind, kind, False, 0, 1]))
            out.append(((t, h(b)), (t, h(a)), [kind, kind, False, 7, 2]))
        out.append(((t, h(a)), (t, h(b)), ['arrP', 'arrP', True, 3, 4]))
        out.append(((t, h(a)), (t, h(a)), ['arrP', 'arrP', False, 5, 5]))
        out.append(((t, h(a)), (t, h(a)), ['arrP', 'arrP', False, 5, 6]))
    return out


def place(side, A, kind, slot):
    """(setup statement or None, FOR header or None, expression) holding operand A in the given storage"""
    t, b = A
    g = SIGIL[t]
    lit = '%s(%s)' % (CV[t], chrs(b))
    if kind == 'scalar':
        n = 'UV'[side] + g
        return '%s=%s' % (n, lit), None, n
    if kind in ('arrP', 'arrQ'):
        n = '%s%s(%d)' % (kind[-1], g, slot)
        return '%s=%s' % (n, lit), None, n
    if kind == 'arrM':
        n = 'M%s(%d,%d)' % (g, slot // 3, slot % 3)
        return '%s=%s' % (n, lit), None, n
    if kind == 'field':
        n = ('FA$', 'FB$')[side]
        return 'LSET %s=%s' % (n, chrs(b)), None, '%s(%s)' % (CV[t], n)
    if kind == 'for':
        n, n0 = 'KL'[side] + g, 'KL'[side] + '0' + g
        return '%s=%s' % (n0, lit), 'FOR %s=%s TO %s' % (n, n0, n0), n
    if kind == 'temp':
        return None, None, lit
    raise ValueError(kind)


class StorageSession(object):
    """A session with the arrays, the random-file FIELD and the comparison functions in place."""

    def __init__(self):
        import tempfile
        self.dir = tempfile.mkdtemp(prefix='pcbv_c06_')
        self.s = basic.new_session(devices={'C': self.dir}, current_device='C')
        self.s.__enter__()
        out = b''
        for l in FN_PROG:
            out += self.s.execute(l.encode('latin-1'))
        out += self.s.execute(b'RUN')
        out += self.s.execute(('DIM ' + ','.join('%s%s(8)' % (a, SIGIL[t]) for a in 'PQ' for t in TYPES) + ','
                               + ','.join('M%s(2,2)' % SIGIL[t] for t in TYPES)).encode('latin-1'))
        out += self.s.execute(b'OPEN "R",#1,"C06F.DAT",16:FIELD #1,8 AS FA$,8 AS FB$')
        if out:
            raise RuntimeError('storage session set-up printed %r' % out)

    def close(self):
        import shutil
        try:
            self.s.execute(b'CLOSE')
            self.s.__exit__(None, None, None)
        finally:
            shutil.rmtree(self.dir, ignore_errors=True)


def storage_pair(ctx, ss, A, B, plan):
    """The relational operators on one pair whose operands live in the storage kinds of `plan`."""
    kl, kr, fn, il, ir = plan
    va, vb = value(*A), value(*B)
    sl, hl, l = place(0, A, kl, il)
    sr, hr, r = place(1, B, kr, ir)
    same_cell = (l == r)
    setup = ':'.join(x for x in (sl, sr) if x)
    heads = [h for h in (hl, hr) if h]
    pre = ''.join(h + ':' for h in heads)
    case = {'level': 'storage', 'a': [A[0], mbf.hx(A[1])], 'b': [B[0], mbf.hx(B[1])], 'plan': plan}
    tag = '%s/%s%s' % (kl, kr, '/fn' if fn else '')
    if kl == kr and kl.startswith('arr') and A[0] == B[0]:
        tag += ':same-array' + ('-same-cell' if same_cell else '')
    ctx.case(('storage', tag, A, B))
    ctx.count('storage:' + tag)
    where = '%s ? %s with %s, %s' % (l, r, describe(A), describe(B))
    out0 = ss.s.execute(setup.encode('latin-1')) if setup else b''
    if out0:
        ctx.fail('storage:%s:setup:%s' % (tag, line('x', A, B).split(' ', 1)[1]), case,
                 'loading the operands (%s) printed %r' % (setup, out0))
        return
    exp = {op: REL[op](va, vb) for op in OPS}
    if fn:
        out = ss.s.execute(('%sPRINT %s(%s,%s)%s' % (pre, FN_NAME[(A[0], B[0])], l, r,
                                                     ':END' + ':NEXT' * len(heads) if heads else '')).encode('latin-1'))
        want = sum(1 << i for i, op in enumerate(FN_BITS) if exp[op])
        if out.split() != [b'%d' % want]:
            try:
                got = int(out.split()[0])
                bad = ','.join(op for i, op in enumerate(FN_BITS) if (got >> i) & 1 != int(exp[op])) or 'output'
            except (ValueError, IndexError):
                bad = 'output'
            ctx.fail('storage:%s:%s:%s' % (tag, bad, line('x', A, B).split(' ', 1)[1]), case,
                     'user function over = <> < > <= >= (bits 1,2,4,8,16,32) on %s returned %r, exact comparison '
                     'demands %d' % (where, out, want))
        return
    nine = 'PRINT ' + ';'.join('%s%s%s' % (l, sp, r) for sp, _ in SPELL)
    sums = 'PRINT (%s<%s)+(%s=%s)+(%s>%s);(%s<=%s)+(%s>%s)' % (l, r, l, r, l, r, l, r, l, r)
    if heads:
        chain = ('IF %s<%s THEN PRINT "L":END ELSE IF %s=%s THEN PRINT "E":END ELSE PRINT "G":END' % (l, r, l, r)
                 + ':NEXT' * len(heads))
    else:
        chain = 'IF %s<%s THEN PRINT "L" ELSE IF %s=%s THEN PRINT "E" ELSE PRINT "G"' % (l, r, l, r)
    out = ss.s.execute(('%s%s:%s:%s' % (pre, nine, sums, chain)).encode('latin-1'))
    toks = out.split()
    want = [b'-1' if exp[op] else b'0' for _, op in SPELL] + [b'-1', b'-1',
                                                               b'L' if va < vb else b'E' if va == vb else b'G']
    if toks != want:
        names = [sp for sp, _ in SPELL] + ['trichotomy', 'lte-not-gt', 'if']
        bad = [n for n, t, e in zip(names, toks + [None] * 12, want) if t != e]
        ctx.fail('storage:%s:%s:%s' % (tag, ','.join(bad) or 'output', line('x', A, B).split(' ', 1)[1]), case,
                 'comparisons %s printed %r, exact comparison demands %r (= <> >< < > <= =< >= =>, then '
                 '(<)+(=)+(>), (<=)+(>), IF chain)' % (where, out, b' '.join(want)))


def storage_level(ctx, plans):
    ss = StorageSession()
    try:
        for A, B, plan in plans:
            storage_pair(ctx, ss, A, B, plan)
    finally:
        ss.close()


def basic_level(ctx, pairs, n_sort):
    rng = ctx.rng
    s = basic.new_session()
    with s:
        for i, (A, B) in enumerate(pairs):
            basic_pair(ctx, s, A, B, direct=(i % 3 == 0))
        for _ in range(n_sort):
            t = rng.choice(TYPES)
            k = rng.randrange(2, 9)
            base = gen_num(rng, t)
            items = []
            for _ in range(k):
                j = rng.random()
                if j < 0.3:
                    items.append(gen_num(rng, t))
                elif j < 0.45:
                    items.append(zero_like(rng, t))
                elif j < 0.75:
                    items.append(step(t, base, rng.randrange(-3, 4)))
                else:
                    items.append(negate(t, step(t, base, rng.randrange(-2, 3))))
            basic_sort(ctx, s, t, items)


# ---------------------------------------------------------------------------------------------

def fixed_pairs():
    """Hand-picked pairs named by the quantifier (always run, whatever the seed)."""
    one_s, one_d = b'\0\0\0\x81', bytes(6) + b'\0\x81'
    P = [
        (('s', one_s), ('s', b'\0\0\x80\x81')),                       # 1 vs -1
        (('s', b'\0\0\x80\x81'), ('s', b'\0\0\x80\x82')),             # -1 vs -2
        (('s', b'\xff\xff\x7f\x81'), ('s', b'\0\0\0\x82')),           # adjacent across a binade boundary
        (('s', b'\xff\xff\xff\x81'), ('s', b'\0\0\x80\x82')),
        (('s', b'\x12\x34\x56\0'), ('s', bytes(4))),                  # non-canonical zero vs zero
        (('s', b'\x12\x34\xd6\0'), ('s', b'\0\0\x80\x01')),           # "negative" zero vs smallest negative
        (('s', b'\x12\x34\xd6\0'), ('s', b'\0\0\0\x01')),
        (('s', b'\0\0\x80\x81'), ('s', b'\xff\xff\xff\0')),           # -1 vs negative-looking zero
        (('s', b'\0\0\0\x81'), ('s', b'\xff\xff\x7f\0')),
        (('d', b'\xff' * 7 + b'\0'), ('i', b'\0\0')),
        (('i', b'\0\0'), ('s', b'\x01\0\x80\0')),
        (('i', b'\x01\0'), ('s', one_s)), (('i', b'\x01\0'), ('d', one_d)), (('s', one_s), ('d', one_d)),
        (('s', one_s), ('d', b'\x01' + bytes(5) + b'\0\x81')),        # 1! vs 1#+ulp
        (('s', b'\x01\0\0\x81'), ('d', b'\xff\xff\xff\xff\0\0\0\x81')),   # double just below a single
        (('i', b'\0\x80'), ('s', b'\0\0\x80\x90')),                   # -32768 vs -32768!
        (('i', b'\0\x80'), ('s', b'\x01\0\x80\x90')), (('i', b'\xff\x7f'), ('s', b'\0\xfe\x7f\x8f')),
        (('i', b'\xff\x7f'), ('d', bytes(5) + b'\xfe\x7f\x8f')), (('i', b'\xff\x7f'), ('i', b'\0\x80')),
        (('i', b'\xff\xff'), ('i', b'\0\0')), (('i', b'\0\x01'), ('i', b'\xff\0')),
        (('i', b'\xff\x80'), ('i', b'\0\x81')),
        (('s', b'\xff\xff\x7f\xff'), ('s', b'\xff\xff\xff\xff')),     # +max vs -max
        (('d', b'\xff' * 6 + b'\x7f\xff'), ('s', b'\xff\xff\x7f\xff')),
    ]
    return P + [(b, a) for a, b in P]


def run(ctx):
    impl = Impl()
    rng = ctx.rng
    pairs = fixed_pairs()
    # integer boundary cross product (all six operators) and every type pairing of equal small integers
    for a in INTS[::3]:
        for b in INTS[::3]:
            pairs.append((('i', struct.pack('<h', a)), ('i', struct.pack('<h', b))))
    for n in INTS:
        for d in (0, 1):
            q = Fraction(n) + d * Fraction(1, 2)
            pairs.append((('i', struct.pack('<h', n)), ('s', encode('s', q, rng))))
            pairs.append((('d', encode('d', q, rng)), ('i', struct.pack('<h', n))))
    nrand = 22000 if ctx.quick else 400000
    pairs += [gen_pair(rng) for _ in range(nrand)]
    ctx.log('%d value-level pairs x 6 operators' % len(pairs))
    for i in range(0, len(pairs), 50000):
        check_values(ctx, impl, pairs[i:i + 50000])
    check_methods(ctx, impl, fixed_pairs() + [gen_pair(rng) for _ in range(6000 if ctx.quick else 100000)])
    A, B = pairs[4]
    ctx.sample({'op': 'eq', 'a': describe(A), 'b': describe(B), 'impl': impl.op('eq', A, B)})
    A, B = pairs[14]
    ctx.sample({'op': 'lt', 'a': describe(A), 'b': describe(B), 'impl': impl.op('lt', A, B)})
    A, B = pairs[-1]
    ctx.sample({'op': 'gte', 'a': describe(A), 'b': describe(B), 'impl': impl.op('gte', A, B)})
    sp = fixed_plans() + [gen_plan(rng) for _ in range(450 if ctx.quick else 12000)]
    ctx.log('%d pairs with operands in arrays / scalars / FIELD buffers / FOR counters / DEF FN parameters' % len(sp))
    storage_level(ctx, sp)
    bp = fixed_pairs() + [gen_pair(rng) for _ in range(700 if ctx.quick else 12000)]
    ctx.log('%d BASIC-level pairs' % len(bp))
    basic_level(ctx, bp, 120 if ctx.quick else 1500)


def replay(ctx, payload):
    case = payload.get('case', {})
    sub = Ctx2(ctx)
    lvl = case.get('level')
    if lvl in ('values', 'method', 'basic'):
        A = (case['a'][0], mbf.unhx(case['a'][1]))
        B = (case['b'][0], mbf.unhx(case['b'][1]))
        if lvl == 'values':
            check_values(sub, Impl(), [(A, B)])
        elif lvl == 'method':
            check_methods(sub, Impl(), [(A, B)])
        else:
            s = basic.new_session()
            with s:
                basic_pair(sub, s, A, B, bool(case.get('direct')))
    elif lvl == 'storage':
        A = (case['a'][0], mbf.unhx(case['a'][1]))
        B = (case['b'][0], mbf.unhx(case['b'][1]))
        storage_level(sub, [(A, B, case['plan'])])
    elif lvl == 'sort':
        s = basic.new_session()
        with s:
            basic_sort(sub, s, case['t'], [mbf.unhx(i) for i in case['items']])
    else:
        import random
        sub.rng = random.Random(payload.get('seed', 0))
        run(sub)
    hits = [f for f in sub.failures if f['key'] == payload.get('key')] or sub.failures
    return hits[0]['what'] if hits else None


class Ctx2(object):
    """thin proxy so replay can reuse the checkers without touching the outer evidence"""
    def __init__(self, ctx):
        self.__dict__.update(ctx.__dict__)
        self._ctx = ctx
        self.failures = []
        self.disagreements = []

    def __getattr__(self, name):
        return getattr(self._ctx.__class__, name).__get__(self)
