import PcbV.Model.Paint
/-
  Specification vocabulary (`Region`: 4-connected component of non-border pixels containing the seed inside
  the viewport, by inductive reachability) and the loop invariants of `PcbV.Model.Paint` used by the C32
  property theorems.
-/
namespace PcbV.Paint

/-- the point lies inside the viewport bounds -/
def Bounds.has (B : Bounds) (x y : Int) : Prop := B.x0 ≤ x ∧ x ≤ B.x1 ∧ B.y0 ≤ y ∧ y ≤ B.y1

/-- 4-neighbourhood -/
def Adj (x y x' y' : Int) : Prop :=
  (y' = y ∧ (x' = x + 1 ∨ x' = x - 1)) ∨ (x' = x ∧ (y' = y + 1 ∨ y' = y - 1))

/-- the 4-connected component of non-border pixels of `g` inside the bounds that contains the seed
    (empty when the seed is outside the bounds or on a border pixel) -/
inductive Region (B : Bounds) (g : Grid) (b : Nat) (sx sy : Int) : Int → Int → Prop
  | seed : B.has sx sy → g sx sy ≠ b → Region B g b sx sy sx sy
  | step {x y x' y' : Int} : Region B g b sx sy x y → Adj x y x' y' → B.has x' y' → g x' y' ≠ b →
      Region B g b sx sy x' y'

theorem Region.has {B : Bounds} {g : Grid} {b : Nat} {sx sy x y : Int} (h : Region B g b sx sy x y) :
    B.has x y := by cases h <;> assumption

theorem Region.nonborder {B : Bounds} {g : Grid} {b : Nat} {sx sy x y : Int} (h : Region B g b sx sy x y) :
    g x y ≠ b := by cases h <;> assumption

/-! ### runs -/

theorem runRight_le (g : Grid) (b : Nat) (y : Int) : ∀ (n : Nat) (x : Int), runRight g b y n x ≤ n
  | 0, _ => by simp [runRight]
  | n + 1, x => by
    unfold runRight
    split
    · omega
    · have := runRight_le g b y n (x + 1); omega

theorem runLeft_le (g : Grid) (b : Nat) (y : Int) : ∀ (n : Nat) (x : Int), runLeft g b y n x ≤ n
  | 0, _ => by simp [runLeft]
  | n + 1, x => by
    unfold runLeft
    split
    · omega
    · have := runLeft_le g b y n (x - 1); omega

theorem runRight_nb (g : Grid) (b : Nat) (y : Int) :
    ∀ (n : Nat) (x : Int) (i : Nat), i < runRight g b y n x → g (x + i) y ≠ b
  | 0, x, i, h => by simp [runRight] at h
  | n + 1, x, i, h => by
    unfold runRight at h
    split at h
    · omega
    · rename_i hne
      cases i with
      | zero => simpa using hne
      | succ j =>
        have h2 := runRight_nb g b y n (x + 1) j (by omega)
        have e : x + 1 + (j : Int) = x + ((j + 1 : Nat) : Int) := by omega
        rw [e] at h2; exact h2

theorem runLeft_nb (g : Grid) (b : Nat) (y : Int) :
    ∀ (n : Nat) (x : Int) (i : Nat), i < runLeft g b y n x → g (x - i) y ≠ b
  | 0, x, i, h => by simp [runLeft] at h
  | n + 1, x, i, h => by
    unfold runLeft at h
    split at h
    · omega
    · rename_i hne
      cases i with
      | zero => simpa using hne
      | succ j =>
        have h2 := runLeft_nb g b y n (x - 1) j (by omega)
        have e : x - 1 - (j : Int) = x - ((j + 1 : Nat) : Int) := by omega
        rw [e] at h2; exact h2

/-- a run that ends before the limit ends on a border pixel -/
theorem runRight_stop (g : Grid) (b : Nat) (y : Int) :
    ∀ (n : Nat) (x : Int), runRight g b y n x < n → g (x + runRight g b y n x) y = b
  | 0, x, h => by simp [runRight] at h
  | n + 1, x, h => by
    unfold runRight at h ⊢
    split
    · rename_i he; simpa using he
    · rename_i hne
      rw [if_neg hne] at h
      have h2 := runRight_stop g b y n (x + 1) (by omega)
      have e : x + 1 + (runRight g b y n (x + 1) : Int) = x + ((runRight g b y n (x + 1) + 1 : Nat) : Int) := by
        omega
      rw [e] at h2; exact h2

theorem runLeft_stop (g : Grid) (b : Nat) (y : Int) :
    ∀ (n : Nat) (x : Int), runLeft g b y n x < n → g (x - runLeft g b y n x) y = b
  | 0, x, h => by simp [runLeft] at h
  | n + 1, x, h => by
    unfold runLeft at h ⊢
    split
    · rename_i he; simpa using he
    · rename_i hne
      rw [if_neg hne] at h
      have h2 := runLeft_stop g b y n (x - 1) (by omega)
      have e : x - 1 - (runLeft g b y n (x - 1) : Int) = x - ((runLeft g b y n (x - 1) + 1 : Nat) : Int) := by
        omega
      rw [e] at h2; exact h2

theorem allRun_spec (p : Int → Bool) : ∀ (n : Nat) (x : Int), allRun p n x = true →
    ∀ (i : Nat), i < n → p (x + i) = true
  | 0, _, _, i, hi => by omega
  | n + 1, x, h, i, hi => by
    simp [allRun] at h
    cases i with
    | zero => simpa using h.1
    | succ j =>
      have h2 := allRun_spec p n (x + 1) h.2 j (by omega)
      have e : x + 1 + (j : Int) = x + ((j + 1 : Nat) : Int) := by omega
      rw [e] at h2; exact h2

/-! ### `_scanline_until` at the call sites (the clipping of the row read is the identity there) -/

theorem scan_right_eq (B : Bounds) (g : Grid) (b : Nat) (y x xstop : Int)
    (h1 : B.x0 ≤ x) (h2 : x ≤ xstop + 1) (h3 : xstop ≤ B.x1) :
    scanUntil B g b y x (xstop + 1) = runRight g b y (xstop + 1 - x).toNat x := by
  unfold scanUntil
  by_cases h : x = xstop + 1
  · rw [if_pos h]
    have : (xstop + 1 - x).toNat = 0 := by omega
    rw [this]; simp [runRight]
  · rw [if_neg h, if_pos (by omega)]
    have e1 : max x B.x0 = x := by omega
    have e2 : min (xstop + 1) (B.x1 + 1) = xstop + 1 := by omega
    simp only [e1, e2]

theorem scan_left_eq (B : Bounds) (g : Grid) (b : Nat) (y xs : Int) (h1 : B.x0 ≤ xs) (h2 : xs ≤ B.x1) :
    scanUntil B g b y (xs - 1) (B.x0 - 1) = runLeft g b y (xs - B.x0).toNat (xs - 1) := by
  unfold scanUntil
  by_cases h : xs - 1 = B.x0 - 1
  · rw [if_pos h]
    have : (xs - B.x0).toNat = 0 := by omega
    rw [this]; simp [runLeft]
  · rw [if_neg h, if_neg (by omega)]
    have e1 : max (B.x0 - 1 + 1) B.x0 = B.x0 := by omega
    have e2 : min (xs - 1 + 1) (B.x1 + 1) = xs := by omega
    simp only [e1, e2]

/-! ### soundness invariant -/

/-- entries of the stack are non-empty intervals of Region pixels -/
def IvOk (B : Bounds) (g0 : Grid) (b : Nat) (sx sy : Int) (e : Iv) : Prop :=
  e.xs ≤ e.xe ∧ (e.d = 0 ∨ e.d = 1 ∨ e.d = -1) ∧ ∀ x, e.xs ≤ x → x ≤ e.xe → Region B g0 b sx sy x e.y

structure SInv (B : Bounds) (F : Fill) (g0 : Grid) (b : Nat) (sx sy : Int) (g : Grid) (st : List Iv) : Prop where
  /-- every pixel that differs from the initial picture is in the region and shows the fill -/
  chg : ∀ x y, g x y ≠ g0 x y → Region B g0 b sx sy x y ∧ g x y = F.val x y
  stk : ∀ e ∈ st, IvOk B g0 b sx sy e

/-- pixels that are not border now were not border initially -/
theorem SInv.mono {B : Bounds} {F : Fill} {g0 : Grid} {b : Nat} {sx sy : Int} {g : Grid} {st : List Iv}
    (h : SInv B F g0 b sx sy g st) (x y : Int) (hn : g x y ≠ b) : g0 x y ≠ b := by
  intro h0
  have hne : g x y ≠ g0 x y := by rw [h0]; exact hn
  exact (h.chg x y hne).1.nonborder h0

section
variable {B : Bounds} {F : Fill} {g0 : Grid} {b : Nat} {sx sy : Int} {g : Grid} {st : List Iv}

/-- going left from a region pixel over non-border pixels stays in the region -/
theorem region_runLeft (hI : SInv B F g0 b sx sy g st) (y : Int) :
    ∀ (n : Nat) (x : Int), Region B g0 b sx sy (x + 1) y → B.x0 ≤ x - n + 1 →
      ∀ (i : Nat), i < runLeft g b y n x → Region B g0 b sx sy (x - i) y
  | 0, x, _, _, i, h => by simp [runLeft] at h
  | n + 1, x, hR, hb, i, h => by
    have hnb : g x y ≠ b := by
      have := runLeft_nb g b y (n + 1) x 0 (by omega)
      simpa using this
    have hRx : Region B g0 b sx sy x y := by
      have hh := hR.has
      refine Region.step hR (Or.inl ⟨rfl, Or.inr (by omega)⟩) ?_ (hI.mono x y hnb)
      unfold Bounds.has at hh ⊢
      refine ⟨by omega, by omega, hh.2.2.1, hh.2.2.2⟩
    cases i with
    | zero => simpa using hRx
    | succ j =>
      unfold runLeft at h
      rw [if_neg hnb] at h
      have hR' : Region B g0 b sx sy (x - 1 + 1) y := by
        have e : x - 1 + 1 = x := by omega
        rw [e]; exact hRx
      have h2 := region_runLeft hI y n (x - 1) hR' (by omega) j (by omega)
      have e : x - 1 - (j : Int) = x - ((j + 1 : Nat) : Int) := by omega
      rw [e] at h2; exact h2

theorem region_runRight (hI : SInv B F g0 b sx sy g st) (y : Int) :
    ∀ (n : Nat) (x : Int), Region B g0 b sx sy (x - 1) y → x + n - 1 ≤ B.x1 →
      ∀ (i : Nat), i < runRight g b y n x → Region B g0 b sx sy (x + i) y
  | 0, x, _, _, i, h => by simp [runRight] at h
  | n + 1, x, hR, hb, i, h => by
    have hnb : g x y ≠ b := by
      have := runRight_nb g b y (n + 1) x 0 (by omega)
      simpa using this
    have hRx : Region B g0 b sx sy x y := by
      have hh := hR.has
      refine Region.step hR (Or.inl ⟨rfl, Or.inl (by omega)⟩) ?_ (hI.mono x y hnb)
      unfold Bounds.has at hh ⊢
      refine ⟨by omega, by omega, hh.2.2.1, hh.2.2.2⟩
    cases i with
    | zero => simpa using hRx
    | succ j =>
      unfold runRight at h
      rw [if_neg hnb] at h
      have hR' : Region B g0 b sx sy (x + 1 - 1) y := by
        have e : x + 1 - 1 = x := by omega
        rw [e]; exact hRx
      have h2 := region_runRight hI y n (x + 1) hR' (by omega) j (by omega)
      have e : x + 1 + (j : Int) = x + ((j + 1 : Nat) : Int) := by omega
      rw [e] at h2; exact h2

/-- the extension `x_left .. x_right` of a popped interval consists of region pixels -/
theorem extension_region (hI : SInv B F g0 b sx sy g st) (e : Iv) (he : IvOk B g0 b sx sy e) :
    leftOf B g b e ≤ e.xs ∧ e.xe ≤ rightOf B g b e ∧
    ∀ x, leftOf B g b e ≤ x → x ≤ rightOf B g b e → Region B g0 b sx sy x e.y := by
  obtain ⟨hle, _, hR⟩ := he
  have hs := (hR e.xs (by omega) hle).has
  have hE := (hR e.xe hle (by omega)).has
  unfold Bounds.has at hs hE
  unfold leftOf rightOf
  rw [scan_left_eq B g b e.y e.xs hs.1 hs.2.1, scan_right_eq B g b e.y (e.xe + 1) B.x1 (by omega) (by omega) (by omega)]
  refine ⟨by omega, by omega, ?_⟩
  intro x hx1 hx2
  by_cases hin : e.xs ≤ x ∧ x ≤ e.xe
  · exact hR x hin.1 hin.2
  · by_cases hl : x < e.xs
    · have hRs : Region B g0 b sx sy (e.xs - 1 + 1) e.y := by
        have e' : e.xs - 1 + 1 = e.xs := by omega
        rw [e']; exact hR e.xs (by omega) hle
      have h2 := region_runLeft hI e.y (e.xs - B.x0).toNat (e.xs - 1) hRs (by omega) (e.xs - 1 - x).toNat (by omega)
      have e' : e.xs - 1 - ((e.xs - 1 - x).toNat : Int) = x := by omega
      rw [e'] at h2; exact h2
    · have hRs : Region B g0 b sx sy (e.xe + 1 - 1) e.y := by
        have e' : e.xe + 1 - 1 = e.xe := by omega
        rw [e']; exact hR e.xe hle (by omega)
      have h2 := region_runRight hI e.y (B.x1 + 1 - (e.xe + 1)).toNat (e.xe + 1) hRs (by omega)
        (x - (e.xe + 1)).toNat (by omega)
      have e' : e.xe + 1 + ((x - (e.xe + 1)).toNat : Int) = x := by omega
      rw [e'] at h2; exact h2

/-- `_check_scanline`: if every non-border pixel of the checked range is a region pixel, the pushed
    entries are intervals of region pixels -/
theorem checkLoop_ok (hI : SInv B F g0 b sx sy g st) (y xstop d : Int) (hd : d = 0 ∨ d = 1 ∨ d = -1)
    (hstop : xstop ≤ B.x1) (xa : Int) (ha : B.x0 ≤ xa)
    (hcov : ∀ x, xa ≤ x → x ≤ xstop → g x y ≠ b → Region B g0 b sx sy x y) :
    ∀ (n : Nat) (x : Int) (s : List Iv), xa ≤ x → (∀ e ∈ s, IvOk B g0 b sx sy e) →
      ∀ e ∈ checkLoop B F g b y xstop d n x s, IvOk B g0 b sx sy e
  | 0, x, s, _, hs => by simpa [checkLoop] using hs
  | n + 1, x, s, hx, hs => by
    unfold checkLoop
    by_cases hle : x ≤ xstop
    · rw [if_pos hle]
      rw [scan_right_eq B g b y x xstop (by omega) (by omega) hstop]
      apply checkLoop_ok hI y xstop d hd hstop xa ha hcov n
      · omega
      · intro e he
        split at he
        · rename_i hw
          rcases List.mem_cons.mp he with rfl | he
          · refine ⟨by show x ≤ x + _ - 1; omega, hd, ?_⟩
            intro x' h1 h2
            have h1' : x ≤ x' := h1
            have h2' : x' ≤ x + (runRight g b y (xstop + 1 - x).toNat x : Int) - 1 := h2
            have hle' := runRight_le g b y (xstop + 1 - x).toNat x
            have hnb := runRight_nb g b y (xstop + 1 - x).toNat x (x' - x).toNat (by omega)
            have e' : x + ((x' - x).toNat : Int) = x' := by omega
            rw [e'] at hnb
            exact hcov x' (by omega) (by omega) hnb
          · exact hs e he
        · exact hs e he
    · rw [if_neg hle]; exact hs

theorem checkScanline_ok (hI : SInv B F g0 b sx sy g st) (s : List Iv) (xa xb y d : Int)
    (hd : d = 0 ∨ d = 1 ∨ d = -1) (ha : B.x0 ≤ xa) (hb : xb ≤ B.x1)
    (hcov : ∀ x, xa ≤ x → x ≤ xb → g x y ≠ b → Region B g0 b sx sy x y)
    (hs : ∀ e ∈ s, IvOk B g0 b sx sy e) :
    ∀ e ∈ checkScanline B F g b s xa xb y d, IvOk B g0 b sx sy e := by
  unfold checkScanline
  split
  · exact hs
  · exact checkLoop_ok hI y xb d hd hb xa ha hcov _ xa s (by omega) hs

/-- the pixels above and below the extended interval that are not border are region pixels -/
theorem neighbour_cov (hI : SInv B F g0 b sx sy g st) (y xl xr : Int)
    (hext : ∀ x, xl ≤ x → x ≤ xr → Region B g0 b sx sy x y)
    (y' : Int) (hy : y' = y + 1 ∨ y' = y - 1) (h0 : B.y0 ≤ y') (h1 : y' ≤ B.y1) :
    ∀ x, xl ≤ x → x ≤ xr → g x y' ≠ b → Region B g0 b sx sy x y' := by
  intro x hx1 hx2 hnb
  have hR := hext x hx1 hx2
  have hh := hR.has
  refine Region.step hR (Or.inr ⟨rfl, hy⟩) ?_ (hI.mono x y' hnb)
  unfold Bounds.has at hh ⊢
  exact ⟨hh.1, hh.2.1, h0, h1⟩

theorem pushes_ok (hI : SInv B F g0 b sx sy g st) (e : Iv) (xl xr : Int) (s : List Iv)
    (hd : e.d = 0 ∨ e.d = 1 ∨ e.d = -1) (hle : e.xs ≤ e.xe) (hl : xl ≤ e.xs) (hr : e.xe ≤ xr)
    (hext : ∀ x, xl ≤ x → x ≤ xr → Region B g0 b sx sy x e.y)
    (hs : ∀ e' ∈ s, IvOk B g0 b sx sy e') :
    ∀ e' ∈ pushes B F g b e xl xr s, IvOk B g0 b sx sy e' := by
  have hbl := (hext xl (by omega) (by omega)).has
  have hbr := (hext xr (by omega) (by omega)).has
  unfold Bounds.has at hbl hbr
  have cov := neighbour_cov hI e.y xl xr hext
  unfold pushes
  rcases hd with h | h | h
  · rw [if_pos h]
    have h1 : ∀ e' ∈ (if e.y + 1 ≤ B.y1 then checkScanline B F g b s xl xr (e.y + 1) 1 else s),
        IvOk B g0 b sx sy e' := by
      split
      · exact checkScanline_ok hI s xl xr (e.y + 1) 1 (by omega) hbl.1 hbr.2.1
          (cov (e.y + 1) (Or.inl rfl) (by omega) (by assumption)) hs
      · exact hs
    simp only []
    split
    · exact checkScanline_ok hI _ xl xr (e.y - 1) (-1) (by omega) hbl.1 hbr.2.1
        (cov (e.y - 1) (Or.inr rfl) (by omega) (by omega)) h1
    · exact h1
  · rw [if_neg (by omega)]
    simp only [h]
    have h1 : ∀ e' ∈ (if e.y + 1 ≤ B.y1 ∧ e.y + 1 ≥ B.y0 then checkScanline B F g b s xl xr (e.y + 1) 1 else s),
        IvOk B g0 b sx sy e' := by
      split
      · rename_i hg
        exact checkScanline_ok hI s xl xr (e.y + 1) 1 (by omega) hbl.1 hbr.2.1
          (cov (e.y + 1) (Or.inl rfl) (by omega) (by omega)) hs
      · exact hs
    split
    · rename_i hg
      have c2 := cov (e.y - 1) (Or.inr rfl) (by omega) (by omega)
      apply checkScanline_ok hI _ (e.xe + 1) xr (e.y - 1) (-1) (by omega) (by omega) hbr.2.1
        (fun x a c => c2 x (by omega) c)
      exact checkScanline_ok hI _ xl (e.xs - 1) (e.y - 1) (-1) (by omega) hbl.1 (by omega)
        (fun x a c => c2 x a (by omega)) h1
    · exact h1
  · rw [if_neg (by omega)]
    simp only [h]
    have h1 : ∀ e' ∈ (if e.y + -1 ≤ B.y1 ∧ e.y + -1 ≥ B.y0 then checkScanline B F g b s xl xr (e.y + -1) (-1) else s),
        IvOk B g0 b sx sy e' := by
      split
      · rename_i hg
        exact checkScanline_ok hI s xl xr (e.y + -1) (-1) (by omega) hbl.1 hbr.2.1
          (cov (e.y + -1) (Or.inr (by omega)) (by omega) (by omega)) hs
      · exact hs
    split
    · rename_i hg
      have c2 := cov (e.y - -1) (Or.inl (by omega)) (by omega) (by omega)
      apply checkScanline_ok hI _ (e.xe + 1) xr (e.y - -1) (- -1) (by omega) (by omega) hbr.2.1
        (fun x a c => c2 x (by omega) c)
      exact checkScanline_ok hI _ xl (e.xs - 1) (e.y - -1) (- -1) (by omega) hbl.1 (by omega)
        (fun x a c => c2 x a (by omega)) h1
    · exact h1

/-- one iteration of the main loop keeps the soundness invariant -/
theorem sinv_step (e : Iv) (hI : SInv B F g0 b sx sy g (e :: st)) :
    SInv B F g0 b sx sy (setRow g F.val e.y (leftOf B g b e) (rightOf B g b e))
      (pushes B F g b e (leftOf B g b e) (rightOf B g b e) st) := by
  have he := hI.stk e (List.mem_cons_self ..)
  obtain ⟨hl, hr, hext⟩ := extension_region hI e he
  constructor
  · intro x y hne
    unfold setRow at hne ⊢
    by_cases hw : y = e.y ∧ leftOf B g b e ≤ x ∧ x ≤ rightOf B g b e
    · rw [if_pos hw]
      obtain ⟨rfl, h1, h2⟩ := hw
      exact ⟨hext x h1 h2, rfl⟩
    · rw [if_neg hw] at hne ⊢
      exact hI.chg x y hne
  · exact pushes_ok hI e _ _ st he.2.1 he.1 hl hr hext
      (fun e' h' => hI.stk e' (List.mem_cons_of_mem _ h'))

/-- soundness of the main loop, for every fuel -/
theorem loop_sound : ∀ (n : Nat) (g : Grid) (st : List Iv), SInv B F g0 b sx sy g st →
    ∀ x y, (loop B F b n g st).grid x y ≠ g0 x y →
      Region B g0 b sx sy x y ∧ (loop B F b n g st).grid x y = F.val x y
  | 0, g, st, hI => by simpa [loop] using hI.chg
  | n + 1, g, [], hI => by simpa [loop] using hI.chg
  | n + 1, g, e :: st, hI => by
    have := loop_sound n _ _ (sinv_step e hI)
    simpa [loop] using this
end

/-! ### completeness invariant (solid fill) -/

/-- the stack entry contains the pixel -/
def Covers (e : Iv) (x y : Int) : Prop := e.y = y ∧ e.xs ≤ x ∧ x ≤ e.xe

theorem setRow_in (g : Grid) (val : Int → Int → Nat) (y xl xr x : Int) (h1 : xl ≤ x) (h2 : x ≤ xr) :
    setRow g val y xl xr x y = val x y := by
  unfold setRow; rw [if_pos ⟨rfl, h1, h2⟩]

theorem setRow_out (g : Grid) (val : Int → Int → Nat) (y xl xr x y' : Int)
    (h : ¬ (y' = y ∧ xl ≤ x ∧ x ≤ xr)) : setRow g val y xl xr x y' = g x y' := by
  unfold setRow; rw [if_neg h]

theorem setRow_keep (g : Grid) (f : Nat) (y xl xr x y' : Int) (h : g x y' = f) :
    setRow g (solidFill f).val y xl xr x y' = f := by
  unfold setRow; split
  · rfl
  · exact h

section
variable {B : Bounds} {F : Fill} {g : Grid} {b : Nat}

theorem checkLoop_mono (y xstop d : Int) : ∀ (n : Nat) (x : Int) (s : List Iv),
    ∀ e ∈ s, e ∈ checkLoop B F g b y xstop d n x s
  | 0, x, s, e, h => by simpa [checkLoop] using h
  | n + 1, x, s, e, h => by
    unfold checkLoop
    split
    · apply checkLoop_mono y xstop d n
      split
      · exact List.mem_cons_of_mem _ h
      · exact h
    · exact h

theorem checkScanline_mono (s : List Iv) (xa xb y d : Int) :
    ∀ e ∈ s, e ∈ checkScanline B F g b s xa xb y d := by
  intro e h
  unfold checkScanline
  split
  · exact h
  · exact checkLoop_mono y xb d _ xa s e h

/-- entries added by `_check_scanline` lie in the checked range of the checked row -/
theorem checkLoop_new (y xstop d : Int) (hstop : xstop ≤ B.x1) : ∀ (n : Nat) (x : Int) (s : List Iv),
    B.x0 ≤ x → ∀ e ∈ checkLoop B F g b y xstop d n x s,
      e ∈ s ∨ (e.y = y ∧ e.d = d ∧ x ≤ e.xs ∧ e.xe ≤ xstop)
  | 0, x, s, _, e, h => by left; simpa [checkLoop] using h
  | n + 1, x, s, hx, e, h => by
    unfold checkLoop at h
    by_cases hle : x ≤ xstop
    · rw [if_pos hle, scan_right_eq B g b y x xstop hx (by omega) hstop] at h
      have hle' := runRight_le g b y (xstop + 1 - x).toNat x
      rcases checkLoop_new y xstop d hstop n _ _ (by omega) e h with h1 | h1
      · split at h1
        · rcases List.mem_cons.mp h1 with rfl | h2
          · right
            refine ⟨rfl, rfl, Int.le_refl _, ?_⟩
            show x + _ - 1 ≤ xstop
            omega
          · exact Or.inl h2
        · exact Or.inl h1
      · right
        exact ⟨h1.1, h1.2.1, by omega, h1.2.2.2⟩
    · rw [if_neg hle] at h; exact Or.inl h

theorem checkScanline_new (s : List Iv) (xa xb y d : Int) (ha : B.x0 ≤ xa) (hb : xb ≤ B.x1) :
    ∀ e ∈ checkScanline B F g b s xa xb y d, e ∈ s ∨ (e.y = y ∧ e.d = d ∧ xa ≤ e.xs ∧ e.xe ≤ xb) := by
  intro e h
  unfold checkScanline at h
  split at h
  · exact Or.inl h
  · exact checkLoop_new y xb d hb _ xa s ha e h
end

section
variable {B : Bounds} {f : Nat} {g : Grid} {b : Nat}

/-- `_check_scanline` of a solid fill: every non-border pixel of the checked range already shows the fill
    attribute or is covered by an entry of the resulting stack -/
theorem checkLoop_cover (y xstop d : Int) (hstop : xstop ≤ B.x1) : ∀ (n : Nat) (x : Int) (s : List Iv),
    B.x0 ≤ x → (xstop + 1 - x).toNat ≤ n → ∀ x', x ≤ x' → x' ≤ xstop → g x' y ≠ b →
      g x' y = f ∨ ∃ e ∈ checkLoop B (solidFill f) g b y xstop d n x s, Covers e x' y
  | 0, x, s, _, hn, x', h1, h2, _ => by omega
  | n + 1, x, s, hx, hn, x', h1, h2, hnb => by
    unfold checkLoop
    rw [if_pos (by omega), scan_right_eq B g b y x xstop hx (by omega) hstop]
    have hle' := runRight_le g b y (xstop + 1 - x).toNat x
    by_cases hin : x' < x + (runRight g b y (xstop + 1 - x).toNat x : Int)
    · by_cases hp : runRight g b y (xstop + 1 - x).toNat x > 0 ∧
          ¬ (solidFill f).same g y x (runRight g b y (xstop + 1 - x).toNat x) = true
      · right
        refine ⟨⟨x, x + (runRight g b y (xstop + 1 - x).toNat x : Int) - 1, y, d⟩, ?_, ⟨rfl, h1, by show x' ≤ x + _ - 1; omega⟩⟩
        apply checkLoop_mono
        rw [if_pos hp]
        exact List.mem_cons_self ..
      · left
        have hs : (solidFill f).same g y x (runRight g b y (xstop + 1 - x).toNat x) = true := by
          by_cases h0 : runRight g b y (xstop + 1 - x).toNat x > 0
          · by_cases hs : (solidFill f).same g y x (runRight g b y (xstop + 1 - x).toNat x) = true
            · exact hs
            · exact absurd ⟨h0, hs⟩ hp
          · omega
        have := allRun_spec _ _ _ hs (x' - x).toNat (by omega)
        have e' : x + ((x' - x).toNat : Int) = x' := by omega
        rw [e'] at this
        simpa using this
    · by_cases heq : x' = x + (runRight g b y (xstop + 1 - x).toNat x : Int)
      · have := runRight_stop g b y (xstop + 1 - x).toNat x (by omega)
        rw [← heq] at this
        exact absurd this hnb
      · exact checkLoop_cover y xstop d hstop n _ _ (by omega) (by omega) x' (by omega) h2 hnb

theorem checkScanline_cover (s : List Iv) (xa xb y d : Int) (ha : B.x0 ≤ xa) (hb : xb ≤ B.x1) :
    ∀ x', xa ≤ x' → x' ≤ xb → g x' y ≠ b →
      g x' y = f ∨ ∃ e ∈ checkScanline B (solidFill f) g b s xa xb y d, Covers e x' y := by
  intro x' h1 h2 hnb
  unfold checkScanline
  rw [if_neg (by omega)]
  exact checkLoop_cover y xb d hb _ xa s ha (by omega) x' h1 h2 hnb
end

section
variable {B : Bounds} {F : Fill} {g : Grid} {b : Nat}

theorem pushes_mono (e : Iv) (xl xr : Int) (s : List Iv) : ∀ e' ∈ s, e' ∈ pushes B F g b e xl xr s := by
  intro e' h
  have m := fun (t : List Iv) (xa xb y d : Int) (h : e' ∈ t) =>
    checkScanline_mono (B := B) (F := F) (g := g) (b := b) t xa xb y d e' h
  unfold pushes
  by_cases hd : e.d = 0
  · rw [if_pos hd]
    dsimp only
    by_cases c1 : e.y + 1 ≤ B.y1 <;> by_cases c2 : e.y - 1 ≥ B.y0
    · rw [if_pos c2, if_pos c1]; exact m _ _ _ _ _ (m _ _ _ _ _ h)
    · rw [if_neg c2, if_pos c1]; exact m _ _ _ _ _ h
    · rw [if_pos c2, if_neg c1]; exact m _ _ _ _ _ h
    · rw [if_neg c2, if_neg c1]; exact h
  · rw [if_neg hd]
    dsimp only
    by_cases c1 : e.y + e.d ≤ B.y1 ∧ e.y + e.d ≥ B.y0 <;> by_cases c2 : e.y - e.d ≤ B.y1 ∧ e.y - e.d ≥ B.y0
    · rw [if_pos c2, if_pos c1]; exact m _ _ _ _ _ (m _ _ _ _ _ (m _ _ _ _ _ h))
    · rw [if_neg c2, if_pos c1]; exact m _ _ _ _ _ h
    · rw [if_pos c2, if_neg c1]; exact m _ _ _ _ _ (m _ _ _ _ _ h)
    · rw [if_neg c2, if_neg c1]; exact h

/-- a new entry points away from the row just treated and lies over the interval written there -/
theorem pushes_new (e : Iv) (xl xr : Int) (s : List Iv) (hd : e.d = 0 ∨ e.d = 1 ∨ e.d = -1)
    (hl : xl ≤ e.xs) (hr : e.xe ≤ xr) (hbl : B.x0 ≤ xl) (hbr : xr ≤ B.x1) (hle : e.xs ≤ e.xe) :
    ∀ e' ∈ pushes B F g b e xl xr s,
      e' ∈ s ∨ ((e'.d = 1 ∨ e'.d = -1) ∧ e'.y - e'.d = e.y ∧ xl ≤ e'.xs ∧ e'.xe ≤ xr) := by
  intro e' h
  unfold pushes at h
  -- every `checkScanline` layer either passes the entry through or creates it in its row
  have layer : ∀ (t : List Iv) (xa xb y' d' : Int), B.x0 ≤ xa → xb ≤ B.x1 → xl ≤ xa → xb ≤ xr →
      (d' = 1 ∨ d' = -1) → y' - d' = e.y → e' ∈ checkScanline B F g b t xa xb y' d' →
      (e' ∈ t → e' ∈ s ∨ ((e'.d = 1 ∨ e'.d = -1) ∧ e'.y - e'.d = e.y ∧ xl ≤ e'.xs ∧ e'.xe ≤ xr)) →
      e' ∈ s ∨ ((e'.d = 1 ∨ e'.d = -1) ∧ e'.y - e'.d = e.y ∧ xl ≤ e'.xs ∧ e'.xe ≤ xr) := by
    intro t xa xb y' d' h1 h2 h3 h4 h5 h6 hm k
    rcases checkScanline_new t xa xb y' d' h1 h2 e' hm with h7 | ⟨h7, h8, h9, h10⟩
    · exact k h7
    · right
      rw [h7, h8]
      exact ⟨h5, h6, by omega, by omega⟩
  rcases hd with hd | hd | hd
  · rw [if_pos hd] at h
    dsimp only at h
    by_cases c1 : e.y + 1 ≤ B.y1 <;> by_cases c2 : e.y - 1 ≥ B.y0
    · rw [if_pos c2, if_pos c1] at h
      refine layer _ xl xr (e.y - 1) (-1) hbl hbr (by omega) (by omega) (Or.inr rfl) (by omega) h (fun h => ?_)
      exact layer _ xl xr (e.y + 1) 1 hbl hbr (by omega) (by omega) (Or.inl rfl) (by omega) h Or.inl
    · rw [if_neg c2, if_pos c1] at h
      exact layer _ xl xr (e.y + 1) 1 hbl hbr (by omega) (by omega) (Or.inl rfl) (by omega) h Or.inl
    · rw [if_pos c2, if_neg c1] at h
      exact layer _ xl xr (e.y - 1) (-1) hbl hbr (by omega) (by omega) (Or.inr rfl) (by omega) h Or.inl
    · rw [if_neg c2, if_neg c1] at h; exact Or.inl h
  · rw [if_neg (by omega)] at h
    simp only [hd] at h
    by_cases c1 : e.y + 1 ≤ B.y1 ∧ e.y + 1 ≥ B.y0 <;> by_cases c2 : e.y - 1 ≤ B.y1 ∧ e.y - 1 ≥ B.y0
    · rw [if_pos c2, if_pos c1] at h
      refine layer _ (e.xe + 1) xr (e.y - 1) (-1) (by omega) hbr (by omega) (by omega) (Or.inr rfl) (by omega) h
        (fun h => ?_)
      refine layer _ xl (e.xs - 1) (e.y - 1) (-1) hbl (by omega) (by omega) (by omega) (Or.inr rfl) (by omega) h
        (fun h => ?_)
      exact layer _ xl xr (e.y + 1) 1 hbl hbr (by omega) (by omega) (Or.inl rfl) (by omega) h Or.inl
    · rw [if_neg c2, if_pos c1] at h
      exact layer _ xl xr (e.y + 1) 1 hbl hbr (by omega) (by omega) (Or.inl rfl) (by omega) h Or.inl
    · rw [if_pos c2, if_neg c1] at h
      refine layer _ (e.xe + 1) xr (e.y - 1) (-1) (by omega) hbr (by omega) (by omega) (Or.inr rfl) (by omega) h
        (fun h => ?_)
      exact layer _ xl (e.xs - 1) (e.y - 1) (-1) hbl (by omega) (by omega) (by omega) (Or.inr rfl) (by omega) h
        Or.inl
    · rw [if_neg c2, if_neg c1] at h; exact Or.inl h
  · rw [if_neg (by omega)] at h
    simp only [hd] at h
    by_cases c1 : e.y + -1 ≤ B.y1 ∧ e.y + -1 ≥ B.y0 <;> by_cases c2 : e.y - -1 ≤ B.y1 ∧ e.y - -1 ≥ B.y0
    · rw [if_pos c2, if_pos c1] at h
      refine layer _ (e.xe + 1) xr (e.y - -1) (- -1) (by omega) hbr (by omega) (by omega) (Or.inl (by omega))
        (by omega) h (fun h => ?_)
      refine layer _ xl (e.xs - 1) (e.y - -1) (- -1) hbl (by omega) (by omega) (by omega) (Or.inl (by omega))
        (by omega) h (fun h => ?_)
      exact layer _ xl xr (e.y + -1) (-1) hbl hbr (by omega) (by omega) (Or.inr rfl) (by omega) h Or.inl
    · rw [if_neg c2, if_pos c1] at h
      exact layer _ xl xr (e.y + -1) (-1) hbl hbr (by omega) (by omega) (Or.inr rfl) (by omega) h Or.inl
    · rw [if_pos c2, if_neg c1] at h
      refine layer _ (e.xe + 1) xr (e.y - -1) (- -1) (by omega) hbr (by omega) (by omega) (Or.inl (by omega))
        (by omega) h (fun h => ?_)
      exact layer _ xl (e.xs - 1) (e.y - -1) (- -1) hbl (by omega) (by omega) (by omega) (Or.inl (by omega))
        (by omega) h Or.inl
    · rw [if_neg c2, if_neg c1] at h; exact Or.inl h
end

section
variable {B : Bounds} {f : Nat} {g : Grid} {b : Nat}

/-- solid fill: a non-border pixel above or below the interval just extended already shows the fill
    attribute or is covered by the new stack, except directly behind the popped interval itself -/
theorem pushes_cover (e : Iv) (xl xr : Int) (s : List Iv) (hd : e.d = 0 ∨ e.d = 1 ∨ e.d = -1)
    (hle : e.xs ≤ e.xe) (hl : xl ≤ e.xs) (hr : e.xe ≤ xr) (hbl : B.x0 ≤ xl) (hbr : xr ≤ B.x1)
    (x y' : Int) (hy : y' = e.y + 1 ∨ y' = e.y - 1) (h0 : B.y0 ≤ y') (h1 : y' ≤ B.y1)
    (hx1 : xl ≤ x) (hx2 : x ≤ xr) (hnb : g x y' ≠ b)
    (hback : e.d ≠ 0 → y' = e.y - e.d → ¬ (e.xs ≤ x ∧ x ≤ e.xe)) :
    g x y' = f ∨ ∃ e' ∈ pushes B (solidFill f) g b e xl xr s, Covers e' x y' := by
  -- lift a cover through a further layer
  have lift : ∀ (t : List Iv) (xa xb y'' d' : Int),
      (g x y' = f ∨ ∃ e' ∈ t, Covers e' x y') →
      (g x y' = f ∨ ∃ e' ∈ checkScanline B (solidFill f) g b t xa xb y'' d', Covers e' x y') := by
    intro t xa xb y'' d' h
    rcases h with h | ⟨e', hm, hc⟩
    · exact Or.inl h
    · exact Or.inr ⟨e', checkScanline_mono _ _ _ _ _ e' hm, hc⟩
  have cov := fun (t : List Iv) (xa xb d' : Int) (ha : B.x0 ≤ xa) (hb : xb ≤ B.x1) (h1 : xa ≤ x) (h2 : x ≤ xb) =>
    checkScanline_cover (f := f) t xa xb y' d' ha hb x h1 h2 hnb
  unfold pushes
  rcases hd with hd | hd | hd
  · rw [if_pos hd]
    dsimp only
    rcases hy with hy | hy
    · have c1 : e.y + 1 ≤ B.y1 := by omega
      rw [if_pos c1]
      have e1 : e.y + 1 = y' := by omega
      rw [e1]
      by_cases c2 : e.y - 1 ≥ B.y0
      · rw [if_pos c2]; exact lift _ _ _ _ _ (cov _ _ _ _ hbl hbr hx1 hx2)
      · rw [if_neg c2]; exact cov _ _ _ _ hbl hbr hx1 hx2
    · have c2 : e.y - 1 ≥ B.y0 := by omega
      rw [if_pos c2]
      have e1 : e.y - 1 = y' := by omega
      rw [e1]
      exact cov _ _ _ _ hbl hbr hx1 hx2
  · rw [if_neg (by omega)]
    simp only [hd]
    rcases hy with hy | hy
    · have c1 : e.y + 1 ≤ B.y1 ∧ e.y + 1 ≥ B.y0 := ⟨by omega, by omega⟩
      rw [if_pos c1]
      have e1 : e.y + 1 = y' := by omega
      rw [e1]
      by_cases c2 : e.y - 1 ≤ B.y1 ∧ e.y - 1 ≥ B.y0
      · rw [if_pos c2]; exact lift _ _ _ _ _ (lift _ _ _ _ _ (cov _ _ _ _ hbl hbr hx1 hx2))
      · rw [if_neg c2]; exact cov _ _ _ _ hbl hbr hx1 hx2
    · have c2 : e.y - 1 ≤ B.y1 ∧ e.y - 1 ≥ B.y0 := ⟨by omega, by omega⟩
      rw [if_pos c2]
      have e1 : e.y - 1 = y' := by omega
      rw [e1]
      have hb' := hback (by omega) (by omega)
      by_cases hlt : x < e.xs
      · exact lift _ _ _ _ _ (cov _ xl (e.xs - 1) _ hbl (by omega) hx1 (by omega))
      · exact cov _ (e.xe + 1) xr _ (by omega) hbr (by omega) hx2
  · rw [if_neg (by omega)]
    simp only [hd]
    rcases hy with hy | hy
    · have c2 : e.y - -1 ≤ B.y1 ∧ e.y - -1 ≥ B.y0 := ⟨by omega, by omega⟩
      rw [if_pos c2]
      have e1 : e.y - -1 = y' := by omega
      rw [e1]
      have hb' := hback (by omega) (by omega)
      by_cases hlt : x < e.xs
      · exact lift _ _ _ _ _ (cov _ xl (e.xs - 1) _ hbl (by omega) hx1 (by omega))
      · exact cov _ (e.xe + 1) xr _ (by omega) hbr (by omega) hx2
    · have c1 : e.y + -1 ≤ B.y1 ∧ e.y + -1 ≥ B.y0 := ⟨by omega, by omega⟩
      rw [if_pos c1]
      have e1 : e.y + -1 = y' := by omega
      rw [e1]
      by_cases c2 : e.y - -1 ≤ B.y1 ∧ e.y - -1 ≥ B.y0
      · rw [if_pos c2]; exact lift _ _ _ _ _ (lift _ _ _ _ _ (cov _ _ _ _ hbl hbr hx1 hx2))
      · rw [if_neg c2]; exact cov _ _ _ _ hbl hbr hx1 hx2
end

/-! ### the closure invariant -/

/-- what holds between iterations of a solid fill started in a region without pre-filled pixels:
    the seed is filled or pending; every region neighbour of a filled region pixel is filled or pending;
    the row behind a directed entry is filled over the entry's interval -/
structure CInv (B : Bounds) (f : Nat) (g0 : Grid) (b : Nat) (sx sy : Int) (g : Grid) (st : List Iv) : Prop where
  snd : SInv B (solidFill f) g0 b sx sy g st
  seed : g sx sy = f ∨ ∃ e ∈ st, Covers e sx sy
  clos : ∀ x y x' y', Region B g0 b sx sy x y → g x y = f → Adj x y x' y' → Region B g0 b sx sy x' y' →
    g x' y' = f ∨ ∃ e ∈ st, Covers e x' y'
  back : ∀ e ∈ st, e.d ≠ 0 → ∀ x, e.xs ≤ x → x ≤ e.xe → g x (e.y - e.d) = f

section
variable {B : Bounds} {f : Nat} {g0 : Grid} {b : Nat} {sx sy : Int} {g : Grid} {st : List Iv}

theorem ext_stop_right (e : Iv) (he : IvOk B g0 b sx sy e) (h : rightOf B g b e + 1 ≤ B.x1) :
    g (rightOf B g b e + 1) e.y = b := by
  obtain ⟨hle, _, hR⟩ := he
  have hE := (hR e.xe hle (by omega)).has
  unfold Bounds.has at hE
  unfold rightOf at h ⊢
  rw [scan_right_eq B g b e.y (e.xe + 1) B.x1 (by omega) (by omega) (by omega)] at h ⊢
  have := runRight_stop g b e.y (B.x1 + 1 - (e.xe + 1)).toNat (e.xe + 1) (by omega)
  have e' : e.xe + 1 + (runRight g b e.y (B.x1 + 1 - (e.xe + 1)).toNat (e.xe + 1) : Int) =
      e.xe + (runRight g b e.y (B.x1 + 1 - (e.xe + 1)).toNat (e.xe + 1) : Int) + 1 := by omega
  rw [e'] at this; exact this

theorem ext_stop_left (e : Iv) (he : IvOk B g0 b sx sy e) (h : B.x0 ≤ leftOf B g b e - 1) :
    g (leftOf B g b e - 1) e.y = b := by
  obtain ⟨hle, _, hR⟩ := he
  have hs := (hR e.xs (by omega) hle).has
  unfold Bounds.has at hs
  unfold leftOf at h ⊢
  rw [scan_left_eq B g b e.y e.xs hs.1 hs.2.1] at h ⊢
  have := runLeft_stop g b e.y (e.xs - B.x0).toNat (e.xs - 1) (by omega)
  have e' : e.xs - 1 - (runLeft g b e.y (e.xs - B.x0).toNat (e.xs - 1) : Int) =
      e.xs - (runLeft g b e.y (e.xs - B.x0).toNat (e.xs - 1) : Int) - 1 := by omega
  rw [e'] at this; exact this

/-- a region pixel that shows the border attribute has been filled (only possible when fill = border) -/
theorem border_is_filled (hS : SInv B (solidFill f) g0 b sx sy g st) (x y : Int)
    (hR : Region B g0 b sx sy x y) (hb : g x y = b) : g x y = f := by
  have hne : g x y ≠ g0 x y := by
    rw [hb]; exact fun h => hR.nonborder h.symm
  exact (hS.chg x y hne).2

/-- one iteration of the main loop keeps the closure invariant -/
theorem cinv_step (e : Iv) (hC : CInv B f g0 b sx sy g (e :: st)) :
    CInv B f g0 b sx sy (setRow g (solidFill f).val e.y (leftOf B g b e) (rightOf B g b e))
      (pushes B (solidFill f) g b e (leftOf B g b e) (rightOf B g b e) st) := by
  have hS := hC.snd
  have he := hS.stk e (List.mem_cons_self ..)
  obtain ⟨hl, hr, hext⟩ := extension_region hS e he
  have hle := he.1
  have hd := he.2.1
  have hbl := (hext _ (Int.le_refl _) (by omega)).has
  have hbr := (hext _ (by omega) (Int.le_refl _)).has
  unfold Bounds.has at hbl hbr
  have mono := pushes_mono (B := B) (F := solidFill f) (g := g) (b := b) e (leftOf B g b e) (rightOf B g b e) st
  refine ⟨sinv_step e hS, ?_, ?_, ?_⟩
  · -- seed
    rcases hC.seed with h | ⟨e', hm, hc⟩
    · exact Or.inl (setRow_keep g f _ _ _ _ _ h)
    · rcases List.mem_cons.mp hm with rfl | hm
      · left
        obtain ⟨h1, h2, h3⟩ := hc
        rw [← h1]
        exact setRow_in g _ _ _ _ sx (by omega) (by omega)
      · exact Or.inr ⟨e', mono e' hm, hc⟩
  · -- closure
    intro x y x' y' hR hf hA hR'
    have hh' := hR'.has
    unfold Bounds.has at hh'
    -- the old closure still applies to pixels that already showed the fill
    have old : g x y = f → setRow g (solidFill f).val e.y (leftOf B g b e) (rightOf B g b e) x' y' = f ∨
        ∃ e' ∈ pushes B (solidFill f) g b e (leftOf B g b e) (rightOf B g b e) st, Covers e' x' y' := by
      intro hf0
      rcases hC.clos x y x' y' hR hf0 hA hR' with h | ⟨e', hm, hc⟩
      · exact Or.inl (setRow_keep g f _ _ _ _ _ h)
      · rcases List.mem_cons.mp hm with rfl | hm
        · left
          obtain ⟨h1, h2, h3⟩ := hc
          rw [← h1]
          exact setRow_in g _ _ _ _ x' (by omega) (by omega)
        · exact Or.inr ⟨e', mono e' hm, hc⟩
    by_cases hW : y = e.y ∧ leftOf B g b e ≤ x ∧ x ≤ rightOf B g b e
    · obtain ⟨rfl, hx1, hx2⟩ := hW
      by_cases hW' : y' = e.y ∧ leftOf B g b e ≤ x' ∧ x' ≤ rightOf B g b e
      · left
        obtain ⟨rfl, h1, h2⟩ := hW'
        exact setRow_in g _ _ _ _ x' h1 h2
      · -- the neighbour is not written now
        rw [setRow_out g _ _ _ _ x' y' hW']
        by_cases hb : g x' y' = b
        · exact Or.inl (border_is_filled hS x' y' hR' hb)
        · rcases hA with ⟨hy, hx⟩ | ⟨hx, hy⟩
          · -- same row: the pixel next to the end of the run is border or outside
            exfalso
            subst hy
            rcases hx with hx | hx
            · have : x' = rightOf B g b e + 1 := by omega
              rw [this] at hb
              exact hb (ext_stop_right e he (by omega))
            · have : x' = leftOf B g b e - 1 := by omega
              rw [this] at hb
              exact hb (ext_stop_left e he (by omega))
          · subst hx
            by_cases hbk : e.d ≠ 0 ∧ y' = e.y - e.d ∧ e.xs ≤ x' ∧ x' ≤ e.xe
            · left
              obtain ⟨h1, h2, h3, h4⟩ := hbk
              rw [h2]
              exact hC.back e (List.mem_cons_self ..) h1 x' h3 h4
            · exact pushes_cover e _ _ st hd hle hl hr hbl.1 hbr.2.1 x' y' hy hh'.2.2.1 hh'.2.2.2 hx1 hx2 hb
                (fun h1 h2 h3 => hbk ⟨h1, h2, h3⟩)
    · rw [setRow_out g _ _ _ _ x y hW] at hf
      exact old hf
  · -- the row behind the entries
    intro e' hm hd' x hx1 hx2
    rcases pushes_new e _ _ st hd hl hr hbl.1 hbr.2.1 hle e' hm with h | ⟨_, h2, h3, h4⟩
    · exact setRow_keep g f _ _ _ _ _ (hC.back e' (List.mem_cons_of_mem _ h) hd' x hx1 hx2)
    · rw [h2]
      exact setRow_in g _ _ _ _ x (by omega) (by omega)

/-- when the stack has run empty, the whole region shows the fill attribute -/
theorem cinv_done (hC : CInv B f g0 b sx sy g []) : ∀ x y, Region B g0 b sx sy x y → g x y = f := by
  intro x y hR
  induction hR with
  | seed _ _ =>
    rcases hC.seed with h | ⟨e, hm, _⟩
    · exact h
    · cases hm
  | step hR hA hh hnb ih =>
    rcases hC.clos _ _ _ _ hR ih hA (Region.step hR hA hh hnb) with h | ⟨e, hm, _⟩
    · exact h
    · cases hm

theorem loop_complete : ∀ (n : Nat) (g : Grid) (st : List Iv), CInv B f g0 b sx sy g st →
    (loop B (solidFill f) b n g st).finished = true →
    ∀ x y, Region B g0 b sx sy x y → (loop B (solidFill f) b n g st).grid x y = f
  | 0, g, st, hC, hfin => by
    have : st = [] := by simpa [loop] using hfin
    subst this
    simpa [loop] using cinv_done hC
  | n + 1, g, [], hC, _ => by simpa [loop] using cinv_done hC
  | n + 1, g, e :: st, hC, hfin => by
    have := loop_complete n _ _ (cinv_step e hC) (by simpa [loop] using hfin)
    simpa [loop] using this
end

end PcbV.Paint
