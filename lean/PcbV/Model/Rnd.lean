import PcbV.Basic
import PcbV.Gen.Rnd
/-
  PcbV.Model.Rnd — executable model of pcbasic/basic/values/randomiser.py (class Randomiser)
  and of the places that reset it (Implementation._clear_all → Randomiser.clear).

  The generator state is the attribute `_seed`; every public observation leaves it in
  0 ≤ seed < period, so it is a `Nat` here and the only signed intermediate (the RANDOMIZE key
  times `_step`) is an `Int` reduced with Python's `%`.
  The constants are regenerated from the class on every run (PcbV.Gen.Rnd).
-/
namespace PcbV.Rnd
open PcbV PcbV.Gen.Rnd

/-- `Randomiser._cycle`: `seed = (seed*multiplier + increment) % period` -/
def cycle (s : Nat) : Nat := (s * multiplier + increment) % period

/-- `Randomiser.clear` (RUN, CLEAR, NEW, … through `_clear_all`) -/
def clearSeed : Nat := initSeed

/-! ### RANDOMIZE: `Randomiser.reseed` -/

/-- `struct.unpack('<h', bytes([lo, hi]))` -/
def unpackS16 (lo hi : Nat) : Int :=
  let w := lo + 256 * hi
  if w ≥ 32768 then (w : Int) - 65536 else (w : Int)

/-- The signed 16-bit key `n` that `reseed` derives from `val.to_bytes()` (2, 4 or 8 bytes):
    `final_two = s[-2:]`, `mask = s[-4:-2]` if there are at least 4 bytes else zeros, xor, `<h`. -/
def reseedKey (b : Bytes) : Int :=
  let n := b.length
  let f0 := b.getD (n - 2) 0
  let f1 := b.getD (n - 1) 0
  let m0 := if n ≥ 4 then b.getD (n - 4) 0 else 0
  let m1 := if n ≥ 4 then b.getD (n - 3) 0 else 0
  unpackS16 (f0 ^^^ m0) (f1 ^^^ m1)

/-- the state update of `reseed`:
    `seed &= 0xff; _cycle(); seed += n * step; seed %= period` -/
def reseedN (s : Nat) (n : Int) : Nat :=
  (pyMod ((cycle (s &&& 0xff) : Nat) + n * (step : Nat)) (period : Nat)).toNat

def reseed (s : Nat) (b : Bytes) : Nat := reseedN s (reseedKey b)

/-! ### RND: `Randomiser.rnd_` on the argument after `values.to_single` (4 MBF bytes) -/

/-- `Float.is_zero`: exponent byte is 0 -/
def isZero (f : Bytes) : Bool := f.getD 3 0 == 0
/-- `Float.is_negative`: sign bit of the byte before the exponent -/
def isNeg (f : Bytes) : Bool := decide (f.getD 2 0 ≥ 0x80)

/-- `Float.mantissa` for a Single: `_denormalise` gives
    `man = unpack('<L', b'\0' + buffer[:-1]) | 0x80000000`; result `-(man >> 8)` if negative else `man >> 8`. -/
def mantissa (f : Bytes) : Int :=
  let man := (f.getD 0 0 * 256 + f.getD 1 0 * 65536 + f.getD 2 0 * 16777216) ||| 0x80000000
  if isNeg f then -(((man >>> 8 : Nat)) : Int) else ((man >>> 8 : Nat) : Int)

/-- the state transition of `rnd_`; `none` = `RND` without argument -/
def rndStep (s : Nat) : Option Bytes → Nat
  | none => cycle s
  | some f =>
    if isZero f then s
    else if isNeg f then cycle (-(mantissa f)).toNat   -- `self._seed = -f.mantissa()` then `_cycle()`
    else cycle s

/-- normalisation loop: shift the mantissa left until bit 23 is set, decrementing the exponent -/
def normLoop : Nat → Nat → Nat → Nat × Nat
  | 0, m, e => (m, e)
  | fuel + 1, m, e => if m ≥ 8388608 then (m, e) else normLoop fuel (2 * m) (e - 1)

/-- The bytes of the Single `from_int(seed).idiv(from_int(period))` for the current period 2^24 and
    0 ≤ seed < 2^24: the quotient is exact, so the result is the seed's 24-bit normalised mantissa
    (hidden bit dropped, sign bit clear) with exponent byte 128 − (number of shifts); zero is all zeros. -/
def resultBytes (s : Nat) : Bytes :=
  if s = 0 then [0, 0, 0, 0]
  else
    let r := normLoop 24 s 128
    [r.1 % 256, r.1 / 256 % 256, r.1 / 65536 % 128, r.2]

/-- `rnd_`: new state and returned value -/
def rnd (s : Nat) (arg : Option Bytes) : Nat × Bytes :=
  let s' := rndStep s arg
  (s', resultBytes s')

/-! ### histories -/

inductive Op where
  | rnd (arg : Option Bytes)
  | randomize (b : Bytes)
  | clear
  deriving Repr, DecidableEq

def apply (s : Nat) : Op → Nat
  | .rnd arg => rndStep s arg
  | .randomize b => reseed s b
  | .clear => clearSeed

def run (s : Nat) (ops : List Op) : Nat := ops.foldl apply s

/-- the session's generator state after a history, starting from a fresh session -/
def after (ops : List Op) : Nat := run clearSeed ops

/-- trace used by the driver: state after every op, with the value for RND ops -/
def trace : Nat → List Op → List (Nat × Option Bytes)
  | _, [] => []
  | s, op :: rest =>
    let s' := apply s op
    let v := match op with
      | .rnd _ => some (resultBytes s')
      | _ => none
    (s', v) :: trace s' rest

/-- walk `n` steps of the cycle from `s`, folding every visited state into a rolling hash
    (driver only: lets the harness compare the whole orbit in order) -/
def orbitHash : Nat → Nat → Nat → Nat × Nat
  | 0, s, h => (s, h)
  | n + 1, s, h =>
    let s' := cycle s
    orbitHash n s' ((h * 1000003 + s') % 1099511627689)

end PcbV.Rnd
