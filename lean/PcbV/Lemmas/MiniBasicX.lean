import PcbV.Lemmas.MiniBasic
import PcbV.Model.MiniBasicX
/-
  Lemmas for the extended structured layer `PcbV.Model.MiniBasicX` (IF in statement form, GOSUB to
  compiled subroutines): scan-ahead facts over compiled code, the steps of the mechanism on compiled
  IF / ELSE / GOSUB / RETURN, and the simulation `XSim` between `xexec` and the mechanism.
-/
namespace PcbV.MiniBasic
open PcbV PcbV.Gen

/-! ### scan-ahead over compiled code -/

theorem scanNext_xcompile (entry : Nat → Nat) : ∀ (p : XStmt) (rest : List Stmt) (i k : Nat),
    scanNext (xcompile entry p ++ rest) i k = scanNext rest (i + (xcompile entry p).length) k := by
  intro p
  induction p with
  | skip => intro rest i k; simp [xcompile]
  | seq a b iha ihb =>
    intro rest i k
    simp only [xcompile, List.append_assoc, List.length_append]
    rw [iha, ihb]; congr 1; omega
  | print e => intro rest i k; simp [xcompile, scanNext]
  | let_ v e => intro rest i k; simp [xcompile, scanNext]
  | call j => intro rest i k; simp [xcompile, scanNext]
  | for_ v a b c named body ih =>
    intro rest i k
    simp only [xcompile, List.cons_append, List.append_assoc, scanNext, List.length_cons, List.length_append,
      List.length_nil]
    rw [ih]
    have hm : max (if named then [v] else []).length 1 = 1 := by cases named <;> simp
    simp only [List.nil_append, scanNext, hm]
    have h1 : ¬ (k + 1 = 0) := by omega
    have h2 : ¬ (1 > k + 1) := by omega
    simp only [h1, h2, if_false]
    congr 1; omega
  | while_ c body ih =>
    intro rest i k
    simp only [xcompile, List.cons_append, List.append_assoc, scanNext, List.length_cons, List.length_append,
      List.length_nil]
    rw [ih]
    simp only [List.nil_append, scanNext]
    congr 1; omega
  | ift c thn ih =>
    intro rest i k
    simp only [xcompile, List.cons_append, scanNext, List.length_cons]
    rw [ih]; congr 1; omega
  | ife c thn els iht ihe =>
    intro rest i k
    simp only [xcompile, List.cons_append, List.append_assoc, scanNext, List.length_cons, List.length_append]
    rw [iht]
    simp only [scanNext]
    rw [ihe]; congr 1; omega

theorem scanWend_xcompile (entry : Nat → Nat) : ∀ (p : XStmt) (rest : List Stmt) (i k : Nat),
    scanWend (xcompile entry p ++ rest) i k = scanWend rest (i + (xcompile entry p).length) k := by
  intro p
  induction p with
  | skip => intro rest i k; simp [xcompile]
  | seq a b iha ihb =>
    intro rest i k
    simp only [xcompile, List.append_assoc, List.length_append]
    rw [iha, ihb]; congr 1; omega
  | print e => intro rest i k; simp [xcompile, scanWend]
  | let_ v e => intro rest i k; simp [xcompile, scanWend]
  | call j => intro rest i k; simp [xcompile, scanWend]
  | for_ v a b c named body ih =>
    intro rest i k
    simp only [xcompile, List.cons_append, List.append_assoc, scanWend, List.length_cons, List.length_append,
      List.length_nil]
    rw [ih]
    simp only [List.nil_append, scanWend]
    congr 1; omega
  | while_ c body ih =>
    intro rest i k
    simp only [xcompile, List.cons_append, List.append_assoc, scanWend, List.length_cons, List.length_append,
      List.length_nil]
    rw [ih]
    simp only [List.nil_append, scanWend]
    have h1 : ¬ (k + 1 = 0) := by omega
    simp only [h1, if_false]
    congr 1; omega
  | ift c thn ih =>
    intro rest i k
    simp only [xcompile, List.cons_append, scanWend, List.length_cons]
    rw [ih]; congr 1; omega
  | ife c thn els iht ihe =>
    intro rest i k
    simp only [xcompile, List.cons_append, List.append_assoc, scanWend, List.length_cons, List.length_append]
    rw [iht]
    simp only [scanWend]
    rw [ihe]; congr 1; omega

/-! ### FOR / WHILE steps over a body given as a statement list that is balanced for the scans -/

theorem findNext_bal (code : List Instr) (pre post : List Stmt) (v : Nat) (a b : Expr) (c : Option Expr)
    (cb : List Stmt) (vs : List Nat)
    (hbal : ∀ rest i k, scanNext (cb ++ rest) i k = scanNext rest (i + cb.length) k)
    (hS : stmts code = pre ++ .for_ v a b c :: (cb ++ .next vs :: post)) (hvs : vs = [] ∨ vs = [v]) :
    findNext code pre.length v = .ok (pre.length + 1 + cb.length, 0) := by
  unfold findNext
  rw [stmtsAfter_eq, hS, drop_mid, hbal]
  rcases hvs with h | h <;> subst h <;> simp [scanNext]

theorem step_for_bal (code : List Instr) (pre post : List Stmt) (v : Nat) (a b : Expr) (c : Option Expr)
    (cb : List Stmt) (vs : List Nat) (m : St) (hpc : m.pc = pre.length)
    (hbal : ∀ rest i k, scanNext (cb ++ rest) i k = scanNext rest (i + cb.length) k)
    (hS : stmts code = pre ++ .for_ v a b c :: (cb ++ .next vs :: post)) (hvs : vs = [] ∨ vs = [v])
    (ha : InRange (a.eval m.env)) (hb : InRange (b.eval m.env)) (hc : InRange (stepValue m.env c)) :
    step code m =
      (if (if sign (stepValue m.env c) ≥ 0 then decide (a.eval m.env > b.eval m.env)
            else decide (b.eval m.env > a.eval m.env)) then
        step code (atNext pre cb.length v (b.eval m.env) (stepValue m.env c)
          (sign (stepValue m.env c)) ⟨m.env.set v (a.eval m.env), m.out⟩ m.fors m.whiles m.gosubs)
      else
        .running ⟨pre.length + 1, m.env.set v (a.eval m.env),
          ⟨v, b.eval m.env, stepValue m.env c, sign (stepValue m.env c), pre.length + 1,
            (pre.length + 1 + cb.length, 0)⟩ :: m.fors, m.whiles, m.gosubs, m.out⟩) := by
  have hat : stmtAt code m.pc = some (.for_ v a b c) := by rw [hpc]; exact stmtAt_mid code pre _ _ hS
  have hfn : findNext code m.pc v = .ok (pre.length + 1 + cb.length, 0) := by
    rw [hpc]; exact findNext_bal code pre post v a b c cb vs hbal hS hvs
  have hnv := nextVarsAt_compiled code pre post v a b c cb vs hS
  have hset : (m.env.set v (a.eval m.env)) v = a.eval m.env := by simp [Env.set]
  rw [step_atNext code pre post v a b c cb vs _ _ _ _ m.fors m.whiles m.gosubs hS hvs]
  simp only [step, stepWith, hat, execFor, ha, hb, hc, not_true_eq_false, if_false, forEnter, hfn]
  generalize (if sign (stepValue m.env c) ≥ 0 then decide (a.eval m.env > b.eval m.env)
            else decide (b.eval m.env > a.eval m.env)) = cond
  cases cond with
  | true =>
    simp only [if_true]
    let r : ForRec := ⟨v, b.eval m.env, stepValue m.env c, sign (stepValue m.env c), m.pc + 1,
      (pre.length + 1 + cb.length, 0)⟩
    have h1 := iterate_top ⟨pre.length + 1 + cb.length, m.env.set v (a.eval m.env), r :: m.fors,
      m.whiles, m.gosubs, m.out⟩ r m.fors none rfl (.inl rfl)
    simp only [r] at h1
    rw [h1, hnv]
    have hd : vs.drop (0 + 1) = [] := by rcases hvs with h | h <;> subst h <;> rfl
    simp only [hset, hpc]
    by_cases hr : InRange (a.eval m.env + stepValue m.env c)
    · by_cases he : loopEnds (sign (stepValue m.env c)) (a.eval m.env + stepValue m.env c) (b.eval m.env) = true
      · have hl : pre.length + 1 + cb.length + 1 = pre.length + 2 + cb.length := by omega
        simp only [hr, he, hd, nextVars, after, atNext, not_true_eq_false, if_false, if_true, hl]
      · simp only [hr, he, not_true_eq_false, if_false, Bool.false_eq_true]
    · simp only [hr, atNext, not_false_eq_true, if_true]
  | false =>
    simp only [Bool.false_eq_true, if_false, hpc]

theorem step_while_bal (code : List Instr) (pre post : List Stmt) (c : Expr) (cb : List Stmt) (m : St)
    (hpc : m.pc = pre.length)
    (hbal : ∀ rest i k, scanWend (cb ++ rest) i k = scanWend rest (i + cb.length) k)
    (hS : stmts code = pre ++ .while_ c :: (cb ++ .wend :: post)) :
    step code m =
      (if c.eval m.env ≠ 0 then
        .running ⟨pre.length + 1, m.env, m.fors, (pre.length, pre.length + 1 + cb.length) :: m.whiles,
          m.gosubs, m.out⟩
      else .running ⟨pre.length + 2 + cb.length, m.env, m.fors, m.whiles, m.gosubs, m.out⟩) := by
  have hat : stmtAt code pre.length = some (.while_ c) := stmtAt_mid code pre _ _ hS
  have hsw : scanWend (stmtsAfter code pre.length) (pre.length + 1) 0 = some (pre.length + 1 + cb.length) := by
    rw [stmtsAfter_eq, hS, drop_mid, hbal]
    simp [scanWend]
  simp only [step, stepWith, hat, hpc, hsw]
  have hl : pre.length + 1 + cb.length + 1 = pre.length + 2 + cb.length := by omega
  by_cases h : c.eval m.env = 0 <;> simp [h, hl]

/-! ### IF: the ELSE search and the end of the line -/

theorem getElem?_block {α : Type} (pre : List α) (x : α) (mid post : List α) (t : Nat) (ht : t < mid.length) :
    (pre ++ x :: (mid ++ post))[pre.length + 1 + t]? = mid[t]? := by
  have h1 : pre ++ x :: (mid ++ post) = (pre ++ [x]) ++ (mid ++ post) := by simp
  rw [h1, List.getElem?_append_right (by simp)]
  have h2 : pre.length + 1 + t - (pre ++ [x]).length = t := by simp
  rw [h2, List.getElem?_append_left ht]

theorem instr_at (code : List Instr) (j : Nat) (st : Stmt) (h : (stmts code)[j]? = some st) :
    ∃ ins, code[j]? = some ins ∧ ins.stmt = st := by
  simp only [stmts, List.getElem?_map, Option.map_eq_some_iff] at h
  exact h

theorem drop_cons_of_getElem? {α : Type} (l : List α) (i : Nat) (x : α) (h : l[i]? = some x) :
    l.drop i = x :: l.drop (i + 1) := by
  obtain ⟨hi, hx⟩ := List.getElem?_eq_some_iff.mp h
  rw [List.drop_eq_getElem_cons hi, hx]

/-- neither IF nor ELSE -/
def plainStmt (st : Stmt) : Prop := (∀ c t, st ≠ .ifThen c t) ∧ (∀ t, st ≠ .else_ t)

theorem noIf_plain (entry : Nat → Nat) : ∀ (p : XStmt), NoIf p → ∀ st ∈ xcompile entry p, plainStmt st := by
  intro p
  induction p with
  | skip => intro _ st h; simp [xcompile] at h
  | seq a b iha ihb =>
    intro h st hst
    simp only [xcompile, List.mem_append] at hst
    rcases hst with hst | hst
    · exact iha h.1 st hst
    · exact ihb h.2 st hst
  | print e => intro _ st h; simp only [xcompile, List.mem_singleton] at h; subst h; exact ⟨by intros; simp, by intros; simp⟩
  | let_ v e => intro _ st h; simp only [xcompile, List.mem_singleton] at h; subst h; exact ⟨by intros; simp, by intros; simp⟩
  | call k => intro _ st h; simp only [xcompile, List.mem_singleton] at h; subst h; exact ⟨by intros; simp, by intros; simp⟩
  | for_ v a b c named body ih =>
    intro h st hst
    simp only [xcompile, List.mem_cons, List.mem_append, List.mem_singleton, List.not_mem_nil, or_false] at hst
    rcases hst with hst | hst | hst
    · subst hst; exact ⟨by intros; simp, by intros; simp⟩
    · exact ih h st hst
    · subst hst; exact ⟨by intros; simp, by intros; simp⟩
  | while_ c body ih =>
    intro h st hst
    simp only [xcompile, List.mem_cons, List.mem_append, List.mem_singleton, List.not_mem_nil, or_false] at hst
    rcases hst with hst | hst | hst
    · subst hst; exact ⟨by intros; simp, by intros; simp⟩
    · exact ih h st hst
    · subst hst; exact ⟨by intros; simp, by intros; simp⟩
  | ift c thn _ => intro h; exact absurd h (by simp [NoIf])
  | ife c thn els _ _ => intro h; exact absurd h (by simp [NoIf])

theorem scanElse_range (code : List Instr) : ∀ (n i nest : Nat),
    (∀ j, i ≤ j → j < i + n → ∃ ins, code[j]? = some ins ∧ ins.line = none ∧ plainStmt ins.stmt) →
    scanElse (code.drop i) i nest = scanElse (code.drop (i + n)) (i + n) nest
  | 0, i, nest, _ => rfl
  | n + 1, i, nest, h => by
    obtain ⟨ins, hi, hl, hp⟩ := h i (by omega) (by omega)
    rw [drop_cons_of_getElem? code i ins hi]
    have ih := scanElse_range code n (i + 1) nest (fun j h1 h2 => h j (by omega) (by omega))
    have e : i + 1 + n = i + (n + 1) := by omega
    rw [e] at ih
    rw [← ih]
    cases hs : ins.stmt <;> simp only [scanElse, hl, Option.isSome_none, Bool.false_eq_true, if_false, hs]
    · exact absurd hs (hp.1 _ _)
    · exact absurd hs (hp.2 _)

theorem skipLine_range (code : List Instr) : ∀ (n i : Nat),
    (∀ j, i ≤ j → j < i + n → ∃ ins, code[j]? = some ins ∧ ins.line = none) →
    skipLine (code.drop i) i = skipLine (code.drop (i + n)) (i + n)
  | 0, i, _ => rfl
  | n + 1, i, h => by
    obtain ⟨ins, hi, hl⟩ := h i (by omega) (by omega)
    rw [drop_cons_of_getElem? code i ins hi]
    have ih := skipLine_range code n (i + 1) (fun j h1 h2 => h j (by omega) (by omega))
    have e : i + 1 + n = i + (n + 1) := by omega
    rw [e] at ih
    rw [← ih]
    simp [skipLine, hl]

theorem scanElse_eol (code : List Instr) (e nest : Nat) (h : lineStartOrEnd code e) :
    scanElse (code.drop e) e nest = .eol e := by
  cases hc : code[e]? with
  | none =>
    have : code.drop e = [] := List.drop_eq_nil_of_le (by simpa using hc)
    rw [this]; rfl
  | some ins =>
    rw [drop_cons_of_getElem? code e ins hc]
    simp [scanElse, h ins hc]

theorem skipLine_end (code : List Instr) (e : Nat) (h : lineStartOrEnd code e) :
    skipLine (code.drop e) e = e := by
  cases hc : code[e]? with
  | none =>
    have : code.drop e = [] := List.drop_eq_nil_of_le (by simpa using hc)
    rw [this]; rfl
  | some ins =>
    rw [drop_cons_of_getElem? code e ins hc]
    simp [skipLine, h ins hc]

theorem scanElse_found (code : List Instr) (j : Nat) (ins : Instr) (t : Option Nat)
    (hc : code[j]? = some ins) (hl : ins.line = none) (hs : ins.stmt = .else_ t) :
    scanElse (code.drop j) j 0 = .found j t := by
  rw [drop_cons_of_getElem? code j ins hc]
  simp [scanElse, hl, hs]

theorem instrs_of_block (code : List Instr) (A mid B : List Stmt) (hS : stmts code = A ++ (mid ++ B))
    (j : Nat) (h1 : A.length ≤ j) (h2 : j < A.length + mid.length) :
    ∃ ins, code[j]? = some ins ∧ ins.stmt ∈ mid := by
  have ht : j - A.length < mid.length := by omega
  have h : (stmts code)[j]? = some mid[j - A.length] := by
    rw [hS, List.getElem?_append_right h1, List.getElem?_append_left ht, List.getElem?_eq_getElem ht]
  obtain ⟨ins, hi, hs⟩ := instr_at code j _ h
  exact ⟨ins, hi, hs ▸ List.getElem_mem ht⟩

/-- IF … THEN … ELSE …: the false branch is found after the THEN statements -/
theorem step_ife (entry : Nat → Nat) (code : List Instr) (pre post : List Stmt) (c : Expr) (thn els : XStmt)
    (m : St) (hpc : m.pc = pre.length)
    (hS : stmts code = pre ++ .ifThen c none :: (xcompile entry thn ++ .else_ none :: (xcompile entry els ++ post)))
    (hL : Layout entry code pre.length (.ife c thn els)) :
    step code m =
      (if c.eval m.env ≠ 0 then .running { m with pc := pre.length + 1 }
       else .running { m with pc := pre.length + 2 + (xcompile entry thn).length }) := by
  obtain ⟨hnt, _, hln, _⟩ := hL
  have hat : stmtAt code pre.length = some (.ifThen c none) := stmtAt_mid code pre _ _ hS
  by_cases hc : c.eval m.env = 0
  · have hrange : ∀ j, pre.length + 1 ≤ j → j < pre.length + 1 + (xcompile entry thn).length →
        ∃ ins, code[j]? = some ins ∧ ins.line = none ∧ plainStmt ins.stmt := by
      intro j h1 h2
      obtain ⟨ins, hi, hm⟩ := instrs_of_block code (pre ++ [.ifThen c none]) (xcompile entry thn)
        (.else_ none :: (xcompile entry els ++ post)) (by simp [hS]) j (by simp; omega) (by simp; omega)
      exact ⟨ins, hi, hln j (by omega) (by omega) ins hi, noIf_plain entry thn hnt _ hm⟩
    have helse : ∃ ins, code[pre.length + 1 + (xcompile entry thn).length]? = some ins ∧ ins.stmt = .else_ none := by
      apply instr_at
      have : pre ++ .ifThen c none :: (xcompile entry thn ++ .else_ none :: (xcompile entry els ++ post)) =
          (pre ++ .ifThen c none :: xcompile entry thn) ++ .else_ none :: (xcompile entry els ++ post) := by simp
      rw [hS, this]
      have hl : pre.length + 1 + (xcompile entry thn).length = (pre ++ Stmt.ifThen c none :: xcompile entry thn).length := by
        simp; omega
      rw [hl]; exact getElem?_mid _ _ _
    obtain ⟨ins, hi, hs⟩ := helse
    have hscan := scanElse_range code (xcompile entry thn).length (pre.length + 1) 0 hrange
    rw [scanElse_found code _ ins none hi (hln _ (by omega) (by omega) ins hi) hs] at hscan
    simp only [step, stepWith, hpc, hat, hc, ne_eq, not_true_eq_false, if_false, hscan]
    congr 2; omega
  · simp only [step, stepWith, hpc, hat, hc, ne_eq, not_false_eq_true, if_true]

/-- the ELSE reached at the end of the THEN branch ends the line -/
theorem step_else (entry : Nat → Nat) (code : List Instr) (pre post : List Stmt) (c : Expr) (thn els : XStmt)
    (m : St) (hpc : m.pc = pre.length + 1 + (xcompile entry thn).length)
    (hS : stmts code = pre ++ .ifThen c none :: (xcompile entry thn ++ .else_ none :: (xcompile entry els ++ post)))
    (hL : Layout entry code pre.length (.ife c thn els)) :
    step code m =
      .running { m with pc := pre.length + 2 + (xcompile entry thn).length + (xcompile entry els).length } := by
  obtain ⟨_, _, hln, hend⟩ := hL
  have hS' : stmts code = (pre ++ .ifThen c none :: xcompile entry thn) ++ .else_ none :: (xcompile entry els ++ post) := by
    simp [hS]
  have hl : pre.length + 1 + (xcompile entry thn).length = (pre ++ Stmt.ifThen c none :: xcompile entry thn).length := by
    simp; omega
  have hat : stmtAt code (pre.length + 1 + (xcompile entry thn).length) = some (.else_ none) := by
    rw [hl]; exact stmtAt_mid code _ _ _ hS'
  have hrange : ∀ j, pre.length + 1 + (xcompile entry thn).length + 1 ≤ j →
      j < pre.length + 1 + (xcompile entry thn).length + 1 + (xcompile entry els).length →
      ∃ ins, code[j]? = some ins ∧ ins.line = none := by
    intro j h1 h2
    obtain ⟨ins, hi, _⟩ := instrs_of_block code (pre ++ .ifThen c none :: xcompile entry thn ++ [.else_ none])
      (xcompile entry els) post (by simp [hS]) j (by simp; omega) (by simp; omega)
    exact ⟨ins, hi, hln j (by omega) (by omega) ins hi⟩
  have hskip := skipLine_range code (xcompile entry els).length (pre.length + 1 + (xcompile entry thn).length + 1) hrange
  have he : pre.length + 1 + (xcompile entry thn).length + 1 + (xcompile entry els).length =
      pre.length + 2 + (xcompile entry thn).length + (xcompile entry els).length := by omega
  rw [he, skipLine_end code _ hend] at hskip
  simp only [step, stepWith, hpc, hat, nextLine, hskip]

/-- IF … THEN … without ELSE: a false condition skips the rest of the line -/
theorem step_ift (entry : Nat → Nat) (code : List Instr) (pre post : List Stmt) (c : Expr) (thn : XStmt)
    (m : St) (hpc : m.pc = pre.length)
    (hS : stmts code = pre ++ .ifThen c none :: (xcompile entry thn ++ post))
    (hL : Layout entry code pre.length (.ift c thn)) :
    step code m =
      (if c.eval m.env ≠ 0 then .running { m with pc := pre.length + 1 }
       else .running { m with pc := pre.length + 1 + (xcompile entry thn).length }) := by
  obtain ⟨hnt, hln, hend⟩ := hL
  have hat : stmtAt code pre.length = some (.ifThen c none) := stmtAt_mid code pre _ _ hS
  by_cases hc : c.eval m.env = 0
  · have hrange : ∀ j, pre.length + 1 ≤ j → j < pre.length + 1 + (xcompile entry thn).length →
        ∃ ins, code[j]? = some ins ∧ ins.line = none ∧ plainStmt ins.stmt := by
      intro j h1 h2
      obtain ⟨ins, hi, hm⟩ := instrs_of_block code (pre ++ [.ifThen c none]) (xcompile entry thn)
        post (by simp [hS]) j (by simp; omega) (by simp; omega)
      exact ⟨ins, hi, hln j (by omega) (by omega) ins hi, noIf_plain entry thn hnt _ hm⟩
    have hscan := scanElse_range code (xcompile entry thn).length (pre.length + 1) 0 hrange
    rw [scanElse_eol code _ 0 hend] at hscan
    simp only [step, stepWith, hpc, hat, hc, ne_eq, not_true_eq_false, if_false, hscan]
  · simp only [step, stepWith, hpc, hat, hc, ne_eq, not_false_eq_true, if_true]


/-- statements without IF put no constraint on the line layout -/
theorem layout_noIf (entry : Nat → Nat) (code : List Instr) : ∀ (off : Nat) (p : XStmt), NoIf p → Layout entry code off p := by
  intro off p
  induction p generalizing off with
  | skip | print _ | let_ _ _ | call _ => intro _; trivial
  | seq a b iha ihb => intro h; exact ⟨iha _ h.1, ihb _ h.2⟩
  | for_ v a b c named body ih => intro h; exact ih _ h
  | while_ c body ih => intro h; exact ih _ h
  | ift c thn _ => intro h; exact absurd h (by simp [NoIf])
  | ife c thn els _ _ => intro h; exact absurd h (by simp [NoIf])

/-- continue after a successful part with further steps of the mechanism -/
theorem Outcome.bind_ok {code : List Instr} {m0 : St} {r : SRes} {fa fb : SSt → St}
    (ho : Outcome code m0 r fa) (hk : ∀ σ', Steps code (fa σ') (fb σ')) : Outcome code m0 r fb := by
  cases r with
  | ok σ' => exact Steps.trans ho (hk σ')
  | err e σ' => exact ho
  | fuel => trivial

/-! ### the simulation -/

/-- the compiled subroutines: subroutine k stands at index `start k`, on a line numbered `entry k`,
    followed by RETURN; the line numbers of subroutines that do not exist are not in the program -/
structure SubsOk (entry : Nat → Nat) (code : List Instr) (subs : List XStmt) (start : Nat → Nat) : Prop where
  defined : ∀ k body, subs[k]? = some body →
    ∃ pre post, stmts code = pre ++ xcompile entry body ++ .ret :: post ∧ pre.length = start k ∧
      lineIndex code (entry k) = some (start k) ∧ Layout entry code (start k) body
  undefined : ∀ k, subs[k]? = none → lineIndex code (entry k) = none

structure XSim (entry : Nat → Nat) (code : List Instr) (subs : List XStmt) (f : Nat) : Prop where
  stmt : ∀ (p : XStmt) (σ : SSt) (pre post : List Stmt) fs ws gs,
    stmts code = pre ++ xcompile entry p ++ post → Layout entry code pre.length p →
    Outcome code (after pre.length fs ws gs σ) (xexec subs f (.stmt p) σ)
      (after (pre.length + (xcompile entry p).length) fs ws gs)
  forNext : ∀ (v : Nat) (stop step sgn : Int) (body : XStmt) (σ : SSt) (pre post : List Stmt) fs ws gs
    (a b : Expr) (c : Option Expr) (vs : List Nat),
    stmts code = pre ++ .for_ v a b c :: (xcompile entry body ++ .next vs :: post) → (vs = [] ∨ vs = [v]) →
    Layout entry code (pre.length + 1) body →
    Outcome code (atNext pre (xcompile entry body).length v stop step sgn σ fs ws gs)
      (xexec subs f (.forNext v stop step sgn body) σ)
      (after (pre.length + 2 + (xcompile entry body).length) fs ws gs)
  whileWend : ∀ (c : Expr) (body : XStmt) (σ : SSt) (pre post : List Stmt) fs ws gs,
    stmts code = pre ++ .while_ c :: (xcompile entry body ++ .wend :: post) →
    Layout entry code (pre.length + 1) body →
    Outcome code (atWend pre (xcompile entry body).length σ fs ws gs)
      (xexec subs f (.whileWend c body) σ)
      (after (pre.length + 2 + (xcompile entry body).length) fs ws gs)

theorem xsim_forNext_succ (entry : Nat → Nat) (code : List Instr) (subs : List XStmt) (f : Nat)
    (ih : XSim entry code subs f) :
    ∀ (v : Nat) (stop stp sgn : Int) (body : XStmt) (σ : SSt) (pre post : List Stmt) fs ws gs
    (a b : Expr) (c : Option Expr) (vs : List Nat),
    stmts code = pre ++ .for_ v a b c :: (xcompile entry body ++ .next vs :: post) → (vs = [] ∨ vs = [v]) →
    Layout entry code (pre.length + 1) body →
    Outcome code (atNext pre (xcompile entry body).length v stop stp sgn σ fs ws gs)
      (xexec subs (f + 1) (.forNext v stop stp sgn body) σ)
      (after (pre.length + 2 + (xcompile entry body).length) fs ws gs) := by
  intro v stop stp sgn body σ pre post fs ws gs a b c vs hS hvs hL
  have hstep := step_atNext code pre post v a b c (xcompile entry body) vs stop stp sgn σ fs ws gs hS hvs
  simp only [xexec]
  by_cases hr : InRange (σ.env v + stp)
  · by_cases he : loopEnds sgn (σ.env v + stp) stop = true
    · simp only [hr, he, not_true_eq_false, if_false, if_true] at hstep ⊢
      exact Steps.one hstep
    · simp only [hr, he, not_true_eq_false, if_false, Bool.false_eq_true] at hstep ⊢
      refine Outcome.prepend (Steps.one hstep) ?_
      have hbody := ih.stmt body ⟨σ.env.set v (σ.env v + stp), σ.out⟩ (pre ++ [.for_ v a b c])
        (.next vs :: post)
        (⟨v, stop, stp, sgn, pre.length + 1, (pre.length + 1 + (xcompile entry body).length, 0)⟩ :: fs) ws gs
        (by simp [hS]) (by simpa using hL)
      simp only [List.length_append, List.length_singleton] at hbody
      exact Outcome.bind hbody
        (fun σ' => ih.forNext v stop stp sgn body σ' pre post fs ws gs a b c vs hS hvs hL)
  · simp only [hr, not_false_eq_true, if_true] at hstep ⊢
    exact ⟨_, _, Steps.refl _, hstep, rfl⟩

theorem xsim_whileWend_succ (entry : Nat → Nat) (code : List Instr) (subs : List XStmt) (f : Nat)
    (ih : XSim entry code subs f) :
    ∀ (c : Expr) (body : XStmt) (σ : SSt) (pre post : List Stmt) fs ws gs,
    stmts code = pre ++ .while_ c :: (xcompile entry body ++ .wend :: post) →
    Layout entry code (pre.length + 1) body →
    Outcome code (atWend pre (xcompile entry body).length σ fs ws gs)
      (xexec subs (f + 1) (.whileWend c body) σ)
      (after (pre.length + 2 + (xcompile entry body).length) fs ws gs) := by
  intro c body σ pre post fs ws gs hS hL
  have hstep := step_atWend code pre post c (xcompile entry body) σ fs ws gs hS
  simp only [xexec]
  by_cases h : c.eval σ.env = 0
  · simp only [h, ne_eq, not_true_eq_false, if_false] at hstep ⊢
    exact Steps.one hstep
  · simp only [h, ne_eq, not_false_eq_true, if_true] at hstep ⊢
    refine Outcome.prepend (Steps.one hstep) ?_
    have hbody := ih.stmt body σ (pre ++ [.while_ c]) (.wend :: post) fs
      ((pre.length, pre.length + 1 + (xcompile entry body).length) :: ws) gs (by simp [hS]) (by simpa using hL)
    simp only [List.length_append, List.length_singleton] at hbody
    exact Outcome.bind hbody (fun σ' => ih.whileWend c body σ' pre post fs ws gs hS hL)

theorem xsim_stmt_succ (entry : Nat → Nat) (code : List Instr) (subs : List XStmt) (start : Nat → Nat)
    (hsubs : SubsOk entry code subs start) (f : Nat) (ih : XSim entry code subs f) :
    ∀ (p : XStmt) (σ : SSt) (pre post : List Stmt) fs ws gs,
    stmts code = pre ++ xcompile entry p ++ post → Layout entry code pre.length p →
    Outcome code (after pre.length fs ws gs σ) (xexec subs (f + 1) (.stmt p) σ)
      (after (pre.length + (xcompile entry p).length) fs ws gs) := by
  intro p σ pre post fs ws gs hS hL
  cases p with
  | skip =>
    simp only [xexec, xcompile, List.length_nil, Nat.add_zero, Outcome]
    exact Steps.refl _
  | seq a b =>
    simp only [xexec]
    have ha := ih.stmt a σ pre (xcompile entry b ++ post) fs ws gs (by simp [hS, xcompile]) hL.1
    refine Outcome.bind ha (fun σ' => ?_)
    have hb := ih.stmt b σ' (pre ++ xcompile entry a) post fs ws gs (by simp [hS, xcompile])
      (by simpa using hL.2)
    simp only [List.length_append] at hb
    simp only [xcompile, List.length_append, ← Nat.add_assoc]
    exact hb
  | print e =>
    have hS' : stmts code = pre ++ .print e :: post := by simpa [xcompile] using hS
    have hat := stmtAt_mid code pre _ _ hS'
    simp only [xexec, xcompile, List.length_singleton, Outcome]
    apply Steps.one
    simp [step, stepWith, after, hat]
  | let_ v e =>
    have hS' : stmts code = pre ++ .let_ v e :: post := by simpa [xcompile] using hS
    have hat := stmtAt_mid code pre _ _ hS'
    simp only [xexec, xcompile, List.length_singleton]
    by_cases hr : InRange (e.eval σ.env)
    · simp only [hr, if_true, Outcome]
      apply Steps.one
      simp [step, stepWith, after, hat, hr]
    · simp only [hr, if_false, Outcome]
      exact ⟨_, after pre.length fs ws gs σ, Steps.refl _, by simp [step, stepWith, after, hat, hr], rfl⟩
  | for_ v a b c named body =>
    let vs : List Nat := if named then [v] else []
    have hvs : vs = [] ∨ vs = [v] := by cases named <;> simp [vs]
    have hS' : stmts code = pre ++ .for_ v a b c :: (xcompile entry body ++ .next vs :: post) := by
      simpa [xcompile, vs] using hS
    have hLb : Layout entry code (pre.length + 1) body := hL
    have hat := stmtAt_mid code pre _ _ hS'
    have hlen : pre.length + (xcompile entry (.for_ v a b c named body)).length =
        pre.length + 2 + (xcompile entry body).length := by
      simp [xcompile]; omega
    rw [hlen]
    simp only [xexec]
    by_cases ha : InRange (a.eval σ.env)
    · by_cases hb : InRange (b.eval σ.env)
      · by_cases hc : InRange (stepValue σ.env c)
        · simp only [ha, hb, hc, not_true_eq_false, if_false]
          have hstep : step code (after pre.length fs ws gs σ) =
              (if (if sign (stepValue σ.env c) ≥ 0 then decide (a.eval σ.env > b.eval σ.env)
                    else decide (b.eval σ.env > a.eval σ.env)) then
                step code (atNext pre (xcompile entry body).length v (b.eval σ.env) (stepValue σ.env c)
                  (sign (stepValue σ.env c)) ⟨σ.env.set v (a.eval σ.env), σ.out⟩ fs ws gs)
              else
                .running ⟨pre.length + 1, σ.env.set v (a.eval σ.env),
                  ⟨v, b.eval σ.env, stepValue σ.env c, sign (stepValue σ.env c), pre.length + 1,
                    (pre.length + 1 + (xcompile entry body).length, 0)⟩ :: fs, ws, gs, σ.out⟩) :=
            step_for_bal code pre post v a b c (xcompile entry body) vs (after pre.length fs ws gs σ) rfl
              (scanNext_xcompile entry body) hS' hvs ha hb hc
          have hnext := fun σ1 => ih.forNext v (b.eval σ.env) (stepValue σ.env c) (sign (stepValue σ.env c))
            body σ1 pre post fs ws gs a b c vs hS' hvs hLb
          generalize hcond : (if sign (stepValue σ.env c) ≥ 0 then decide (a.eval σ.env > b.eval σ.env)
            else decide (b.eval σ.env > a.eval σ.env)) = cond at hstep
          cases cond with
          | true =>
            simp only [if_true] at hstep ⊢
            refine Outcome.first_step ?_ hstep (hnext _)
            intro σ0; simp only [after, atNext]; omega
          | false =>
            simp only [Bool.false_eq_true, if_false] at hstep ⊢
            refine Outcome.prepend (Steps.one hstep) ?_
            have hbody := ih.stmt body ⟨σ.env.set v (a.eval σ.env), σ.out⟩ (pre ++ [.for_ v a b c])
              (.next vs :: post)
              (⟨v, b.eval σ.env, stepValue σ.env c, sign (stepValue σ.env c), pre.length + 1,
                (pre.length + 1 + (xcompile entry body).length, 0)⟩ :: fs) ws gs (by simp [hS'])
              (by simpa using hLb)
            simp only [List.length_append, List.length_singleton] at hbody
            exact Outcome.bind hbody (fun σ' => hnext σ')
        · simp only [ha, hb, hc, not_true_eq_false, not_false_eq_true, if_false, if_true, Outcome]
          exact ⟨_, after pre.length fs ws gs σ, Steps.refl _,
            by simp [step, stepWith, after, hat, execFor, ha, hb, hc], rfl⟩
      · simp only [ha, hb, not_true_eq_false, not_false_eq_true, if_false, if_true, Outcome]
        exact ⟨_, after pre.length fs ws gs σ, Steps.refl _,
          by simp [step, stepWith, after, hat, execFor, ha, hb], rfl⟩
    · simp only [ha, not_false_eq_true, if_true, Outcome]
      exact ⟨_, after pre.length fs ws gs σ, Steps.refl _,
        by simp [step, stepWith, after, hat, execFor, ha], rfl⟩
  | while_ c body =>
    have hS' : stmts code = pre ++ .while_ c :: (xcompile entry body ++ .wend :: post) := by
      simpa [xcompile] using hS
    have hLb : Layout entry code (pre.length + 1) body := hL
    have hlen : pre.length + (xcompile entry (.while_ c body)).length = pre.length + 2 + (xcompile entry body).length := by
      simp [xcompile]; omega
    rw [hlen]
    have hstep := step_while_bal code pre post c (xcompile entry body) (after pre.length fs ws gs σ) rfl
      (scanWend_xcompile entry body) hS'
    simp only [xexec]
    by_cases h : c.eval σ.env = 0
    · have h' : c.eval (after pre.length fs ws gs σ).env = 0 := h
      simp only [h', ne_eq, not_true_eq_false, if_false] at hstep
      simp only [h, ne_eq, not_true_eq_false, if_false, Outcome]
      exact Steps.one hstep
    · have h' : c.eval (after pre.length fs ws gs σ).env ≠ 0 := h
      simp only [h', ne_eq, not_false_eq_true, if_true] at hstep
      simp only [h, ne_eq, not_false_eq_true, if_true]
      refine Outcome.prepend (Steps.one hstep) ?_
      have hbody := ih.stmt body σ (pre ++ [.while_ c]) (.wend :: post) fs
        ((pre.length, pre.length + 1 + (xcompile entry body).length) :: ws) gs (by simp [hS'])
        (by simpa using hLb)
      simp only [List.length_append, List.length_singleton] at hbody
      exact Outcome.bind hbody (fun σ' => ih.whileWend c body σ' pre post fs ws gs hS' hLb)
  | ift c thn =>
    have hS' : stmts code = pre ++ .ifThen c none :: (xcompile entry thn ++ post) := by
      simpa [xcompile] using hS
    have hlen : pre.length + (xcompile entry (.ift c thn)).length = pre.length + 1 + (xcompile entry thn).length := by
      simp [xcompile]; omega
    rw [hlen]
    have hstep := step_ift entry code pre post c thn (after pre.length fs ws gs σ) rfl hS' hL
    simp only [xexec]
    by_cases h : c.eval σ.env = 0
    · have h' : c.eval (after pre.length fs ws gs σ).env = 0 := h
      simp only [h', ne_eq, not_true_eq_false, if_false] at hstep
      simp only [h, ne_eq, not_true_eq_false, if_false, Outcome]
      exact Steps.one hstep
    · have h' : c.eval (after pre.length fs ws gs σ).env ≠ 0 := h
      simp only [h', ne_eq, not_false_eq_true, if_true] at hstep
      simp only [h, ne_eq, not_false_eq_true, if_true]
      refine Outcome.prepend (Steps.one hstep) ?_
      have hthn := ih.stmt thn σ (pre ++ [.ifThen c none]) post fs ws gs (by simp [hS'])
        (layout_noIf entry code _ thn hL.1)
      simp only [List.length_append, List.length_singleton] at hthn
      exact hthn
  | ife c thn els =>
    have hS' : stmts code = pre ++ .ifThen c none ::
        (xcompile entry thn ++ .else_ none :: (xcompile entry els ++ post)) := by
      simpa [xcompile] using hS
    have hlen : pre.length + (xcompile entry (.ife c thn els)).length =
        pre.length + 2 + (xcompile entry thn).length + (xcompile entry els).length := by
      simp [xcompile]; omega
    rw [hlen]
    have hstep := step_ife entry code pre post c thn els (after pre.length fs ws gs σ) rfl hS' hL
    simp only [xexec]
    by_cases h : c.eval σ.env = 0
    · have h' : c.eval (after pre.length fs ws gs σ).env = 0 := h
      simp only [h', ne_eq, not_true_eq_false, if_false] at hstep
      simp only [h, ne_eq, not_true_eq_false, if_false]
      refine Outcome.prepend (Steps.one hstep) ?_
      have hels := ih.stmt els σ (pre ++ .ifThen c none :: xcompile entry thn ++ [.else_ none]) post fs ws gs
        (by simp [hS']) (layout_noIf entry code _ els hL.2.1)
      simp only [List.length_append, List.length_cons, List.length_singleton, List.length_nil] at hels
      have e1 : pre.length + ((xcompile entry thn).length + 1) + (0 + 1) = pre.length + 2 + (xcompile entry thn).length := by
        omega
      have e2 : pre.length + ((xcompile entry thn).length + 1) + (0 + 1) + (xcompile entry els).length =
          pre.length + 2 + (xcompile entry thn).length + (xcompile entry els).length := by omega
      rw [e2, e1] at hels
      exact hels
    · have h' : c.eval (after pre.length fs ws gs σ).env ≠ 0 := h
      simp only [h', ne_eq, not_false_eq_true, if_true] at hstep
      simp only [h, ne_eq, not_false_eq_true, if_true]
      refine Outcome.prepend (Steps.one hstep) ?_
      have hthn := ih.stmt thn σ (pre ++ [.ifThen c none])
        (.else_ none :: (xcompile entry els ++ post)) fs ws gs (by simp [hS'])
        (layout_noIf entry code _ thn hL.1)
      simp only [List.length_append, List.length_singleton] at hthn
      refine Outcome.bind_ok hthn (fun σ' => ?_)
      apply Steps.one
      exact step_else entry code pre post c thn els
        (after (pre.length + 1 + (xcompile entry thn).length) fs ws gs σ') rfl hS' hL
  | call k =>
    have hS' : stmts code = pre ++ .gosub (entry k) :: post := by simpa [xcompile] using hS
    have hat := stmtAt_mid code pre _ _ hS'
    simp only [xexec, xcompile, List.length_singleton]
    cases hk : subs[k]? with
    | none =>
      simp only [Outcome]
      exact ⟨_, after pre.length fs ws gs σ, Steps.refl _,
        by simp [step, stepWith, after, hat, jumpSub, hsubs.undefined k hk], rfl⟩
    | some body =>
      obtain ⟨spre, spost, hSb, hlen, hline, hLb⟩ := hsubs.defined k body hk
      simp only []
      have hcall : step code (after pre.length fs ws gs σ) =
          .running (after spre.length fs ws ((pre.length + 1) :: gs) σ) := by
        simp [step, stepWith, after, hat, jumpSub, hline, hlen]
      refine Outcome.prepend (Steps.one hcall) ?_
      have hbody := ih.stmt body σ spre (.ret :: spost) fs ws ((pre.length + 1) :: gs) hSb (hlen ▸ hLb)
      refine Outcome.bind_ok hbody (fun σ' => ?_)
      apply Steps.one
      have hS2 : stmts code = (spre ++ xcompile entry body) ++ .ret :: spost := by simpa using hSb
      have hret : stmtAt code (spre.length + (xcompile entry body).length) = some .ret := by
        have := stmtAt_mid code _ _ _ hS2
        simpa using this
      simp [step, stepWith, after, hret]


theorem xsim (entry : Nat → Nat) (code : List Instr) (subs : List XStmt) (start : Nat → Nat)
    (hsubs : SubsOk entry code subs start) : ∀ f, XSim entry code subs f
  | 0 => ⟨fun _ _ _ _ _ _ _ _ _ => by simp [xexec, Outcome],
          fun _ _ _ _ _ _ _ _ _ _ _ _ _ _ _ _ _ _ => by simp [xexec, Outcome],
          fun _ _ _ _ _ _ _ _ _ _ => by simp [xexec, Outcome]⟩
  | f + 1 =>
    have ih := xsim entry code subs start hsubs f
    ⟨xsim_stmt_succ entry code subs start hsubs f ih, xsim_forNext_succ entry code subs f ih,
     xsim_whileWend_succ entry code subs f ih⟩

/-! ### early exits: stale stack records -/

/-- Invariant for early exits from loops (GOTO to a line after the loop): the FOR stack of the mechanism
    (second argument) is the stack of the loops that are really active (first argument, innermost first)
    with stale records in between.  A stale record was pushed by a loop inside the body of the active
    loop below it (or, at the bottom, by a finished part of the program), so the NEXT it belongs to lies
    inside that body: after `forpos`, before the active loop's own NEXT. -/
inductive WithStale : List ForRec → List ForRec → Prop
  | nil : WithStale [] []
  | live (r : ForRec) {act ms : List ForRec} : WithStale act ms → WithStale (r :: act) (r :: ms)
  | stale (x : ForRec) {act ms : List ForRec} : WithStale act ms →
      (∀ r, act.head? = some r → r.forpos ≤ x.nextpos.1 ∧ x.nextpos.1 < r.nextpos.1) →
      WithStale act (x :: ms)

/-- the search of `iterate_loop` goes through the stale records above the innermost active loop, finds
    that loop's record and drops them; what is left satisfies the invariant again -/
theorem findRec_withStale : ∀ (ms : List ForRec) (r : ForRec) (act : List ForRec),
    WithStale (r :: act) ms → ∃ ms', findRec r.nextpos ms = some (r, ms') ∧ WithStale act ms'
  | [], r, act, h => by cases h
  | x :: ms, r, act, h => by
    cases h with
    | live _ h' => exact ⟨ms, by simp [findRec], h'⟩
    | stale _ h' hx =>
      obtain ⟨ms', h1, h2⟩ := findRec_withStale ms r act h'
      have hne : x.nextpos ≠ r.nextpos := by
        intro he
        have := (hx r rfl).2
        rw [he] at this; omega
      exact ⟨ms', by simp [findRec, hne, h1], h2⟩

theorem iterate_withStale (s : St) (r : ForRec) (act : List ForRec) (vn : Option Nat)
    (h : WithStale (r :: act) s.fors) (hv : vn = none ∨ vn = some r.var) :
    ∃ ms', WithStale act ms' ∧ iterate s r.nextpos vn = iterate { s with fors := r :: ms' } r.nextpos vn := by
  obtain ⟨ms', h1, h2⟩ := findRec_withStale s.fors r act h
  refine ⟨ms', h2, ?_⟩
  have : ¬ (vn.isSome ∧ vn ≠ some r.var) := by rcases hv with h | h <;> simp [h]
  simp only [iterate, h1, findRec, if_true, this, if_false]

/-- the same for WEND: records of inner WHILE loops left by an early exit are popped -/
theorem popWhile_skips_stale (pos wh : Nat) : ∀ (K ws : List (Nat × Nat)),
    (∀ x ∈ K, x.2 ≠ pos) → popWhile pos (K ++ (wh, pos) :: ws) = some (wh, ws)
  | [], ws, _ => by simp [popWhile]
  | (a, b) :: K, ws, h => by
    have hb : b ≠ pos := h (a, b) (List.mem_cons_self ..)
    simp only [List.cons_append, popWhile, hb, if_false]
    exact popWhile_skips_stale pos wh K ws (fun x hx => h x (List.mem_cons_of_mem _ hx))

end PcbV.MiniBasic
