import PcbV.Model.ClearChain
import PcbV.Lemmas.Heap
/-
  Lemmas about the CHAIN string migration (`PcbV.ClearChain`): the invariant of the copy loops of
  `preserve_commons` and what the restore loops leave behind.  Used by `PcbV.Props.C23`.
-/
namespace PcbV.ClearChain
open PcbV
open PcbV.Heap (Ptr lookup Blocks)

/-! ### the second string space -/

theorem put_fields (st : Store) (b : Bytes) :
    (st.put b).1.current = st.current - b.length ∧
    (st.put b).1.strs = (if b.length > 0 then (st.current - b.length + 1, b) :: st.strs else st.strs) ∧
    (st.put b).1.ovf = (st.ovf || decide (st.current ≤ b.length)) ∧
    (st.put b).2 = ⟨b.length, st.current - b.length + 1⟩ := ⟨rfl, rfl, rfl, rfl⟩

theorem put_ovf (st : Store) (b : Bytes) (h : (st.put b).1.ovf = false) :
    st.ovf = false ∧ b.length < st.current := by
  rw [(put_fields st b).2.2.1] at h
  simp at h
  exact ⟨h.1, by omega⟩

theorem put_blocks (top : Nat) (st : Store) (b : Bytes) (hb : Blocks st.current top st.strs)
    (hn : b.length < st.current) : Blocks (st.put b).1.current top (st.put b).1.strs := by
  rw [(put_fields st b).1, (put_fields st b).2.1]
  by_cases hp : b.length > 0
  · rw [if_pos hp]
    refine ⟨by omega, hp, ?_⟩
    have : st.current - b.length + 1 + b.length - 1 = st.current := by omega
    rw [this]; exact hb
  · rw [if_neg hp]
    have : b.length = 0 := by omega
    rw [this]; exact hb

theorem put_keeps (top : Nat) (st : Store) (b : Bytes) (hb : Blocks st.current top st.strs)
    (hn : b.length ≤ st.current)
    (a : Nat) (c : Bytes) (hl : lookup st.strs a = some c) : lookup (st.put b).1.strs a = some c := by
  rw [(put_fields st b).2.1]
  by_cases hp : b.length > 0
  · rw [if_pos hp]
    have := (hb.key hl).1
    rw [Heap.lookup_cons_ne _ _ _ _ (by omega)]; exact hl
  · rw [if_neg hp]; exact hl

/-- pointer `q` reads as `v` in the string map `strs`, and lies above `cur` when it is not empty -/
def PtrIs (strs : List (Nat × Bytes)) (cur : Nat) (q : Ptr) (v : Bytes) : Prop :=
  q.len = v.length ∧ (0 < v.length → lookup strs q.addr = some v ∧ cur < q.addr)

theorem PtrIs.mono {strs strs' : List (Nat × Bytes)} {cur cur' : Nat} {q : Ptr} {v : Bytes}
    (h : PtrIs strs cur q v) (hk : ∀ a c, lookup strs a = some c → lookup strs' a = some c)
    (hc : cur' ≤ cur) : PtrIs strs' cur' q v :=
  ⟨h.1, fun hv => ⟨hk _ _ (h.2 hv).1, Nat.lt_of_le_of_lt hc (h.2 hv).2⟩⟩

theorem put_ptr (st : Store) (b : Bytes) (hn : b.length < st.current) :
    PtrIs (st.put b).1.strs (st.put b).1.current (st.put b).2 b := by
  rw [(put_fields st b).1, (put_fields st b).2.1, (put_fields st b).2.2.2]
  refine ⟨rfl, fun hv => ?_⟩
  rw [if_pos hv]
  exact ⟨Heap.lookup_cons_self _ _ _, by show st.current - b.length < st.current - b.length + 1; omega⟩

/-! ### the copy loop -/

theorem migrate_ovf (m : Mem) (E : List (Key × Ptr)) :
    ∀ (st : Store), (migrate m st E).1.ovf = false → st.ovf = false := by
  induction E with
  | nil => intro st h; simpa [migrate] using h
  | cons e r ih =>
    obtain ⟨k, p⟩ := e
    intro st h
    simp only [migrate] at h
    exact (put_ovf _ _ (ih _ h)).1

theorem migrate_spec (m : Mem) (top : Nat) (E : List (Key × Ptr)) :
    ∀ (st : Store), (migrate m st E).1.ovf = false → Blocks st.current top st.strs →
      st.ovf = false ∧
      Blocks (migrate m st E).1.current top (migrate m st E).1.strs ∧
      (migrate m st E).1.current ≤ st.current ∧
      (∀ a c, lookup st.strs a = some c → lookup (migrate m st E).1.strs a = some c) ∧
      (migrate m st E).2.map (·.1) = E.map (·.1) ∧
      (∀ k q, (k, q) ∈ (migrate m st E).2 →
        ∃ p, (k, p) ∈ E ∧ PtrIs (migrate m st E).1.strs (migrate m st E).1.current q (deref m p)) := by
  induction E with
  | nil =>
    intro st h hb
    simp only [migrate] at h ⊢
    refine ⟨h, hb, Nat.le_refl _, fun _ _ x => x, ?_, ?_⟩
    · simp
    · intro k q hq; cases hq
  | cons e r ih =>
    obtain ⟨k0, p0⟩ := e
    intro st h hb
    simp only [migrate] at h ⊢
    obtain ⟨i1, i2, i3, i4, i5, i6⟩ := ih (st.put (deref m p0)).1 h
      (by
        -- Blocks of the store after the put: needs the no-overflow fact, obtained from the tail first
        have hov : (st.put (deref m p0)).1.ovf = false := by
          -- ovf is monotone through the tail
          have aux : ∀ (E' : List (Key × Ptr)) (st' : Store), (migrate m st' E').1.ovf = false → st'.ovf = false := by
            intro E'
            induction E' with
            | nil => intro st' h'; simpa [migrate] using h'
            | cons e' r' ih' =>
              obtain ⟨k', p'⟩ := e'
              intro st' h'
              simp only [migrate] at h'
              exact (put_ovf _ _ (ih' _ h')).1
          exact aux r _ h
        exact put_blocks top st _ hb (put_ovf _ _ hov).2)
    have hput := put_ovf _ _ i1
    refine ⟨hput.1, i2, ?_, ?_, ?_, ?_⟩
    · have := (put_fields st (deref m p0)).1
      omega
    · intro a c hl
      exact i4 a c (put_keeps top st _ hb (Nat.le_of_lt hput.2) a c hl)
    · simp only [List.map_cons, i5]
    · intro k q hq
      rcases List.mem_cons.mp hq with hq | hq
      · cases hq
        refine ⟨p0, List.mem_cons_self, ?_⟩
        exact (put_ptr st (deref m p0) hput.2).mono i4 i3
      · obtain ⟨p, hp, hv⟩ := i6 k q hq
        exact ⟨p, List.mem_cons_of_mem _ hp, hv⟩

/-! ### the sort is a permutation -/

theorem mem_insertDesc (e x : Key × Ptr) (l : List (Key × Ptr)) : x ∈ insertDesc e l ↔ x = e ∨ x ∈ l := by
  induction l with
  | nil => simp [insertDesc]
  | cons y r ih =>
    simp only [insertDesc]
    split
    · simp only [List.mem_cons, ih]
      constructor
      · rintro (h | h | h)
        · exact Or.inr (Or.inl h)
        · exact Or.inl h
        · exact Or.inr (Or.inr h)
      · rintro (h | h | h)
        · exact Or.inr (Or.inl h)
        · exact Or.inl h
        · exact Or.inr (Or.inr h)
    · simp only [List.mem_cons]

theorem mem_sortDesc (x : Key × Ptr) (l : List (Key × Ptr)) : x ∈ sortDesc l ↔ x ∈ l := by
  induction l with
  | nil => simp [sortDesc]
  | cons e r ih => simp only [sortDesc, mem_insertDesc, ih, List.mem_cons]

/-! ### the assignment dict -/

theorem asgLookup_mem (asg : List (Key × Ptr)) (k : Key) (q : Ptr) (h : asgLookup asg k = some q) :
    (k, q) ∈ asg := by
  induction asg with
  | nil => simp [asgLookup] at h
  | cons x r ih =>
    obtain ⟨k', q'⟩ := x
    simp only [asgLookup] at h
    split at h
    · next hk => cases h; subst hk; exact List.mem_cons_self
    · exact List.mem_cons_of_mem _ (ih h)

theorem asgLookup_of_key (asg : List (Key × Ptr)) (k : Key) (h : k ∈ asg.map (·.1)) :
    ∃ q, asgLookup asg k = some q := by
  induction asg with
  | nil => simp at h
  | cons x r ih =>
    obtain ⟨k', q'⟩ := x
    simp only [asgLookup]
    split
    · exact ⟨q', rfl⟩
    · next hk =>
      simp only [List.map_cons, List.mem_cons] at h
      rcases h with h | h
      · exact absurd h.symm hk
      · exact ih h

/-! ### snapshots and entries -/

theorem pick_lookup (names : List Bytes) (vars : List (Bytes × α)) (n : Bytes) (v : α)
    (h : (n, v) ∈ pick names vars) : vars.lookup n = some v ∧ n ∈ names := by
  simp only [pick, List.mem_filterMap] at h
  obtain ⟨n', hn', hv⟩ := h
  cases hl : vars.lookup n' with
  | none => simp [hl] at hv
  | some w =>
    simp [hl] at hv
    obtain ⟨rfl, rfl⟩ := hv
    exact ⟨hl, hn'⟩

/-- a snapshot is functional: one value per name -/
def Fn (l : List (Bytes × α)) : Prop := ∀ n c c', (n, c) ∈ l → (n, c') ∈ l → c = c'

theorem pick_fn (names : List Bytes) (vars : List (Bytes × α)) : Fn (pick names vars) := by
  intro n c c' h h'
  have a := (pick_lookup names vars n c h).1
  have b := (pick_lookup names vars n c' h').1
  rw [a] at b; exact Option.some.inj b

theorem mem_scalarEntries (ss : List (Bytes × Cell)) (k : Key) (p : Ptr) :
    (k, p) ∈ scalarEntries ss ↔ ∃ n, k = (n, 0) ∧ (n, Cell.str p) ∈ ss := by
  simp only [scalarEntries, List.mem_filterMap]
  constructor
  · rintro ⟨⟨n, c⟩, hx, hf⟩
    cases c with
    | num b => simp at hf
    | str p' =>
      simp at hf
      obtain ⟨rfl, rfl⟩ := hf
      exact ⟨n, rfl, hx⟩
  · rintro ⟨n, rfl, hx⟩
    exact ⟨(n, Cell.str p), hx, rfl⟩

theorem mem_cellEntries (name : Bytes) (cells : List Cell) (k : Key) (p : Ptr) :
    (k, p) ∈ cellEntries name cells ↔ ∃ i, k = (name, i) ∧ cells[i]? = some (Cell.str p) := by
  simp only [cellEntries, List.mem_filterMap]
  constructor
  · rintro ⟨⟨c, i⟩, hx, hf⟩
    have hx' := List.mem_zipIdx_iff_getElem?.mp hx
    cases c with
    | num b => simp at hf
    | str p' =>
      simp at hf
      obtain ⟨rfl, rfl⟩ := hf
      exact ⟨i, rfl, hx'⟩
  · rintro ⟨i, rfl, hx⟩
    exact ⟨(Cell.str p, i), List.mem_zipIdx_iff_getElem?.mpr hx, rfl⟩

theorem mem_arrayEntries (sa : List (Bytes × Arr)) (k : Key) (p : Ptr) :
    (k, p) ∈ arrayEntries sa ↔ ∃ n a i, (n, a) ∈ sa ∧ k = (n, i) ∧ a.2[i]? = some (Cell.str p) := by
  simp only [arrayEntries, List.mem_flatMap, mem_cellEntries]
  constructor
  · rintro ⟨⟨n, a⟩, hx, i, hk, hc⟩
    exact ⟨n, a, i, hx, hk, hc⟩
  · rintro ⟨n, a, i, hx, hk, hc⟩
    exact ⟨(n, a), hx, i, hk, hc⟩

/-! ### cells after the migration -/

/-- cell `c'` (in string map `strs`) shows the value `v` -/
def CellIs (strs : List (Nat × Bytes)) (cur : Nat) : Cell → Val → Prop
  | .num b, .num b' => b = b'
  | .str q, .str v => PtrIs strs cur q v
  | _, _ => False

theorem CellIs.mono {strs strs' : List (Nat × Bytes)} {cur cur' : Nat} {c : Cell} {v : Val}
    (h : CellIs strs cur c v) (hk : ∀ a x, lookup strs a = some x → lookup strs' a = some x)
    (hc : cur' ≤ cur) : CellIs strs' cur' c v := by
  cases c <;> cases v <;> simp only [CellIs] at h ⊢
  · exact h
  · exact h.mono hk hc

/-- a key that has an entry gets, after the copy loop over the sorted entries, a pointer that reads as
    the old value — provided the entries of one key all carry the same pointer -/
theorem rewrite_spec (m : Mem) (top : Nat) (st : Store) (E : List (Key × Ptr))
    (hov : (migrate m st (sortDesc E)).1.ovf = false) (hb : Blocks st.current top st.strs)
    (k : Key) (c : Cell)
    (hin : ∀ p, c = Cell.str p → (k, p) ∈ E)
    (huniq : ∀ p p', c = Cell.str p → (k, p') ∈ E → p' = p) :
    CellIs (migrate m st (sortDesc E)).1.strs (migrate m st (sortDesc E)).1.current
      (rewrite (migrate m st (sortDesc E)).2 k c) (absCell m c) := by
  obtain ⟨_, _, _, _, hkeys, hall⟩ := migrate_spec m top (sortDesc E) st hov hb
  cases c with
  | num b => simp [rewrite, absCell, CellIs]
  | str p =>
    have hmem : (k, p) ∈ sortDesc E := (mem_sortDesc _ _).mpr (hin p rfl)
    have hk : k ∈ (migrate m st (sortDesc E)).2.map (·.1) := by
      rw [hkeys]; exact List.mem_map.mpr ⟨(k, p), hmem, rfl⟩
    obtain ⟨q, hq⟩ := asgLookup_of_key _ k hk
    obtain ⟨p', hp', hv⟩ := hall k q (asgLookup_mem _ _ _ hq)
    have : p' = p := huniq p p' rfl ((mem_sortDesc _ _).mp hp')
    subst this
    simp only [rewrite, hq, Option.getD_some, absCell, CellIs]
    exact hv

theorem scalars_migrated (m : Mem) (top : Nat) (st : Store) (ss : List (Bytes × Cell)) (hfn : Fn ss)
    (hov : (migrate m st (sortDesc (scalarEntries ss))).1.ovf = false) (hb : Blocks st.current top st.strs) :
    ∀ x ∈ ss, CellIs (migrate m st (sortDesc (scalarEntries ss))).1.strs
      (migrate m st (sortDesc (scalarEntries ss))).1.current
      (rewrite (migrate m st (sortDesc (scalarEntries ss))).2 (x.1, 0) x.2) (absCell m x.2) := by
  intro x hx
  obtain ⟨n, c⟩ := x
  apply rewrite_spec m top st _ hov hb
  · intro p hc; subst hc
    exact (mem_scalarEntries _ _ _).mpr ⟨n, rfl, hx⟩
  · intro p p' hc hp'; subst hc
    obtain ⟨n', hk, hm⟩ := (mem_scalarEntries _ _ _).mp hp'
    have hn : n = n' := congrArg Prod.fst hk
    subst hn
    exact Cell.str.inj (hfn _ _ _ hm hx)

theorem arrays_migrated (m : Mem) (top : Nat) (st : Store) (sa : List (Bytes × Arr)) (hfn : Fn sa)
    (hov : (migrate m st (sortDesc (arrayEntries sa))).1.ovf = false) (hb : Blocks st.current top st.strs) :
    ∀ x ∈ sa, ∀ i c, x.2.2[i]? = some c →
      CellIs (migrate m st (sortDesc (arrayEntries sa))).1.strs
        (migrate m st (sortDesc (arrayEntries sa))).1.current
        (rewrite (migrate m st (sortDesc (arrayEntries sa))).2 (x.1, i) c) (absCell m c) := by
  intro x hx i c hc
  obtain ⟨n, a⟩ := x
  apply rewrite_spec m top st _ hov hb
  · intro p hcp; subst hcp
    exact (mem_arrayEntries _ _ _).mpr ⟨n, a, i, hx, rfl, hc⟩
  · intro p p' hcp hp'; subst hcp
    obtain ⟨n', a', i', hm, hk, hc'⟩ := (mem_arrayEntries _ _ _).mp hp'
    have hn : n = n' := congrArg Prod.fst hk
    have hi : i = i' := congrArg Prod.snd hk
    subst hn; subst hi
    have : a' = a := hfn _ _ _ hm hx
    subst this
    simp only at hc
    rw [hc] at hc'
    exact (Cell.str.inj (Option.some.inj hc')).symm

theorem getElem?_rewriteCells (asg : List (Key × Ptr)) (name : Bytes) (cells : List Cell) (i : Nat) :
    (rewriteCells asg name cells)[i]? = (cells[i]?).map (rewrite asg (name, i)) := by
  simp only [rewriteCells, List.getElem?_map, List.getElem?_zipIdx, Option.map_map]
  cases cells[i]? <;> simp

/-! ### the restore loops -/

theorem restoreScalars_ok (L : List (Bytes × Cell)) :
    ∀ (m m' : Mem), restoreScalars L m = .ok m' →
      m'.scalars = m.scalars ++ L ∧ m'.arrays = m.arrays ∧ m'.strs = m.strs ∧ m'.current = m.current ∧
      m'.codeStart = m.codeStart ∧ m'.progSize = m.progSize ∧ m'.code = m.code ∧ m'.deftype = m.deftype ∧
      m'.base = m.base ∧ m'.baseByDim = m.baseByDim ∧ m'.total = m.total ∧ m'.stackSize = m.stackSize ∧
      m'.arrBytes = m.arrBytes ∧ m'.fieldsSet = m.fieldsSet := by
  induction L with
  | nil =>
    intro m m' h
    simp only [restoreScalars] at h
    cases h
    simp
  | cons x r ih =>
    obtain ⟨n, c⟩ := x
    intro m m' h
    simp only [restoreScalars] at h
    split at h
    · cases h
    · have := ih _ _ h
      simp only [List.append_assoc, List.singleton_append] at this
      exact this

theorem restoreArrays_ok (L : List (Bytes × Arr)) :
    ∀ (m m' : Mem), restoreArrays L m = .ok m' →
      m'.arrays = m.arrays ++ L ∧ m'.scalars = m.scalars ∧ m'.strs = m.strs ∧ m'.current = m.current ∧
      m'.codeStart = m.codeStart ∧ m'.progSize = m.progSize ∧ m'.code = m.code ∧ m'.deftype = m.deftype ∧
      (m.base.isSome → m'.base = m.base ∧ m'.baseByDim = m.baseByDim) ∧
      (L = [] → m'.base = m.base ∧ m'.baseByDim = m.baseByDim) ∧
      m'.total = m.total ∧ m'.stackSize = m.stackSize ∧
      m'.scalBytes = m.scalBytes ∧ m'.fieldsSet = m.fieldsSet := by
  induction L with
  | nil =>
    intro m m' h
    simp only [restoreArrays] at h
    cases h
    simp
  | cons x r ih =>
    obtain ⟨n, a⟩ := x
    intro m m' h
    simp only [restoreArrays] at h
    split at h
    · cases h
    · split at h
      · cases h
      · split at h
        · cases h
        · have := ih _ _ h
          simp only [List.append_assoc, List.singleton_append] at this
          obtain ⟨h1, h2, h3, h4, h5, h6, h7, h8, h9, _, h11, h12, h13, h14⟩ := this
          refine ⟨h1, h2, h3, h4, h5, h6, h7, h8, ?_, ?_, h11, h12, h13, h14⟩
          · intro hs
            have := h9 (by simp)
            cases hb : m.base with
            | none => simp [hb] at hs
            | some b => simpa [hb] using this
          · intro hnil; cases hnil

/-- reading a migrated cell in the rebuilt memory -/
theorem absCell_of_CellIs (m' : Mem) (cur : Nat) (c : Cell) (v : Val)
    (h : CellIs m'.strs cur c v) (hv : m'.varStart ≤ cur) : absCell m' c = v := by
  cases c <;> cases v <;> simp only [CellIs] at h
  · simp [absCell, h]
  · rename_i q b
    simp only [absCell, deref]
    by_cases h0 : b.length = 0
    · have : q.len = 0 := by rw [h.1]; exact h0
      simp [this, List.eq_nil_of_length_eq_zero h0]
    · obtain ⟨hl, hc⟩ := h.2 (by omega)
      have h1 : ¬ q.len = 0 := by rw [h.1]; exact h0
      have h2 : m'.varStart ≤ q.addr := by omega
      simp [h1, h2, hl]

/-! ### the pieces of `chain_` -/

theorem migrateAll_spec (m : Mem) (ss : List (Bytes × Cell)) (sa : List (Bytes × Arr))
    (hfs : Fn ss) (hfa : Fn sa) (hov : (migrateAll m ss sa).1.ovf = false) :
    Blocks (migrateAll m ss sa).1.current m.top (migrateAll m ss sa).1.strs ∧
    ∃ asgS asgA,
      (migrateAll m ss sa).2.1 = rewriteScalars asgS ss ∧
      (migrateAll m ss sa).2.2 = rewriteArrays asgA sa ∧
      (∀ x ∈ ss, CellIs (migrateAll m ss sa).1.strs (migrateAll m ss sa).1.current
        (rewrite asgS (x.1, 0) x.2) (absCell m x.2)) ∧
      (∀ x ∈ sa, ∀ i c, x.2.2[i]? = some c →
        CellIs (migrateAll m ss sa).1.strs (migrateAll m ss sa).1.current
          (rewrite asgA (x.1, i) c) (absCell m c)) := by
  simp only [migrateAll] at hov ⊢
  have hov1 := migrate_ovf m _ _ hov
  have hb0 : Blocks (Store.mk [] m.top false).current m.top (Store.mk [] m.top false).strs := Nat.le_refl _
  obtain ⟨_, b1, _, _, _, _⟩ := migrate_spec m m.top _ _ hov1 hb0
  obtain ⟨_, b2, c2, k2, _, _⟩ := migrate_spec m m.top _ _ hov b1
  refine ⟨b2, _, _, rfl, rfl, ?_, ?_⟩
  · intro x hx
    exact (scalars_migrated m m.top _ ss hfs hov1 hb0 x hx).mono k2 c2
  · intro x hx i c hc
    exact arrays_migrated m m.top _ sa hfa hov b1 x hx i c hc

theorem restoreCommons_ok (st : Store) (ss : List (Bytes × Cell)) (sa : List (Bytes × Arr)) (m m4 : Mem)
    (h : restoreCommons st ss sa m = .ok m4) :
    st.ovf = false ∧ m.varStart ≤ st.current ∧
    m4.scalars = m.scalars ++ ss ∧ m4.arrays = m.arrays ++ sa ∧ m4.strs = st.strs ∧ m4.current = st.current ∧
    m4.codeStart = m.codeStart ∧ m4.progSize = m.progSize ∧ m4.code = m.code ∧ m4.deftype = m.deftype ∧
    m4.total = m.total ∧ m4.stackSize = m.stackSize ∧
    (m.base.isSome → m4.base = m.base) ∧ (sa = [] → m4.base = m.base) := by
  simp only [restoreCommons] at h
  split at h
  · cases h
  · rename_i hc
    simp only [Bool.or_eq_true, decide_eq_true_eq, not_or, Bool.not_eq_true, Nat.not_lt] at hc
    split at h
    · cases h
    · rename_i m2 h2
      obtain ⟨a1, a2, a3, a4, a5, a6, a7, a8, a9, _, a11, a12, _, _⟩ := restoreScalars_ok ss _ _ h2
      obtain ⟨b1, b2, b3, b4, b5, b6, b7, b8, b9, b10, b11, b12, _, _⟩ := restoreArrays_ok sa _ _ h
      refine ⟨hc.1, by omega, ?_, ?_, ?_, ?_, ?_, ?_, ?_, ?_, ?_, ?_, ?_, ?_⟩
      · rw [b2, a1]
      · rw [b1, a2]
      · rw [b3, a3]
      · rw [b4, a4]
      · rw [b5, a5]
      · rw [b6, a6]
      · rw [b7, a7]
      · rw [b8, a8]
      · rw [b11, a11]
      · rw [b12, a12]
      · intro hs
        have : m2.base.isSome := by rw [a9]; exact hs
        rw [(b9 this).1, a9]
      · intro hnil
        rw [(b10 hnil).1, a9]

theorem chainLoad_ok (fixHold : Bool) (pf : List (Nat × Bytes) × Nat) (jump : Option Nat) (s1 s3 : St)
    (h : chainLoad fixHold pf jump s1 = .ok s3) :
    s3 = { s1 with prog := pf.1, mem := { s1.mem with progSize := pf.2, code := [] },
                   it := { clearStacks s1.it with runMode := true } } := by
  unfold chainLoad at h
  by_cases hj : jumpOk pf.1 jump = true
  · simp only [hj, Bool.not_true, Bool.false_eq_true, if_false, Except.ok.injEq] at h
    exact h.symm
  · simp [hj] at h

theorem chainLoad_error (fixHold : Bool) (pf : List (Nat × Bytes) × Nat) (jump : Option Nat)
    (s1 t : St) (e : Nat) (h : chainLoad fixHold pf jump s1 = .error (e, t)) :
    e = Gen.E.ifc ∧ t.mem.allowCollect = (fixHold || s1.mem.allowCollect) := by
  unfold chainLoad at h
  by_cases hj : jumpOk pf.1 jump = true
  · simp [hj] at h
  · simp only [hj, Bool.not_false, if_true, Except.error.injEq, Prod.mk.injEq] at h
    obtain ⟨rfl, rfl⟩ := h
    exact ⟨rfl, rfl⟩

theorem pick_names (names : List Bytes) (vars : List (Bytes × α)) (n : Bytes) :
    n ∈ (pick names vars).map (·.1) ↔ n ∈ names ∧ ∃ v, vars.lookup n = some v := by
  simp only [pick, List.mem_map, List.mem_filterMap]
  constructor
  · rintro ⟨⟨n', v⟩, ⟨n'', hn, hv⟩, rfl⟩
    cases hl : vars.lookup n'' with
    | none => simp [hl] at hv
    | some w =>
      simp [hl] at hv
      obtain ⟨rfl, rfl⟩ := hv
      exact ⟨hn, w, hl⟩
  · rintro ⟨hn, v, hv⟩
    exact ⟨(n, v), ⟨n, hn, by simp [hv]⟩, rfl⟩

theorem restoreScalars_error (L : List (Bytes × Cell)) :
    ∀ (m : Mem) (e : Nat), restoreScalars L m = .error e → e = Gen.E.out_of_memory := by
  induction L with
  | nil => intro m e h; cases h
  | cons x r ih =>
    obtain ⟨n, c⟩ := x
    intro m e h
    simp only [restoreScalars] at h
    split at h
    · cases h; rfl
    · exact ih _ _ h

theorem restoreArrays_error (L : List (Bytes × Arr)) :
    ∀ (m : Mem) (e : Nat), restoreArrays L m = .error e →
      e = Gen.E.out_of_memory ∨ e = Gen.E.duplicate_definition ∨ e = Gen.E.subscript_out_of_range := by
  induction L with
  | nil => intro m e h; cases h
  | cons x r ih =>
    obtain ⟨n, a⟩ := x
    intro m e h
    simp only [restoreArrays] at h
    split at h
    · cases h; exact Or.inr (Or.inl rfl)
    · split at h
      · cases h; exact Or.inr (Or.inr rfl)
      · split at h
        · cases h; exact Or.inl rfl
        · exact ih _ _ h

theorem restoreCommons_error (st : Store) (ss : List (Bytes × Cell)) (sa : List (Bytes × Arr)) (m : Mem) (e : Nat)
    (h : restoreCommons st ss sa m = .error e) :
    e = Gen.E.out_of_memory ∨ e = Gen.E.duplicate_definition ∨ e = Gen.E.subscript_out_of_range := by
  simp only [restoreCommons] at h
  split at h
  · cases h; exact Or.inl rfl
  · split at h
    · rename_i e' h2
      cases h
      exact Or.inl (restoreScalars_error _ _ _ h2)
    · exact restoreArrays_error _ _ _ h

/-! ### CHAIN … ALL keeps everything -/

theorem pick_of_lookup (vars : List (Bytes × α)) (l : List (Bytes × α))
    (h : ∀ x ∈ l, vars.lookup x.1 = some x.2) : pick (l.map (·.1)) vars = l := by
  induction l with
  | nil => rfl
  | cons x r ih =>
    have hx := h x List.mem_cons_self
    have hr := ih (fun y hy => h y (List.mem_cons_of_mem _ hy))
    simp only [pick, List.map_cons, List.filterMap_cons, hx, Option.map_some] at hr ⊢
    rw [hr]

theorem lookup_of_nodup (vars : List (Bytes × α)) (hnd : (vars.map (·.1)).Nodup) :
    ∀ x ∈ vars, vars.lookup x.1 = some x.2 := by
  induction vars with
  | nil => intro x hx; cases hx
  | cons y r ih =>
    obtain ⟨k, v⟩ := y
    simp only [List.map_cons, List.nodup_cons] at hnd
    intro x hx
    rcases List.mem_cons.mp hx with rfl | hx
    · simp
    · have hne : x.1 ≠ k := by
        intro he
        exact hnd.1 (he ▸ List.mem_map.mpr ⟨x, hx, rfl⟩)
      rw [List.lookup_cons]
      have : (x.1 == k) = false := by simpa using hne
      rw [this]
      exact ih hnd.2 x hx

theorem pick_self (vars : List (Bytes × α)) (hnd : (vars.map (·.1)).Nodup) :
    pick (vars.map (·.1)) vars = vars := pick_of_lookup vars vars (lookup_of_nodup vars hnd)

theorem restoreScalars_byDim (L : List (Bytes × Cell)) :
    ∀ (m m' : Mem), restoreScalars L m = .ok m' → m'.baseByDim = m.baseByDim :=
  fun m m' h => (restoreScalars_ok L m m' h).2.2.2.2.2.2.2.2.2.1

/-- with no array to restore, the "base implied by DIM" flag is what `_clear_all` left -/
theorem restoreCommons_byDim (st : Store) (ss : List (Bytes × Cell)) (m m4 : Mem)
    (h : restoreCommons st ss [] m = .ok m4) : m4.baseByDim = m.baseByDim ∧ m4.base = m.base := by
  simp only [restoreCommons] at h
  split at h
  · cases h
  · split at h
    · cases h
    · rename_i m2 h2
      simp only [restoreArrays, Except.ok.injEq] at h
      subst h
      have a := restoreScalars_ok ss _ _ h2
      exact ⟨a.2.2.2.2.2.2.2.2.2.1, a.2.2.2.2.2.2.2.2.1⟩

end PcbV.ClearChain
