#!/bin/sh
# tools/apply_fix.sh <name>   applies pending_fixes/<name>.diff to /repo, commits with <name>.msg, prints the short hash
set -e
n="$1"
cd /repo
git apply --check /verif/pending_fixes/$n.diff
git apply /verif/pending_fixes/$n.diff
files=$(git diff --name-only | grep -v GWBROUND || true)
git add $files
git commit -q -F /verif/pending_fixes/$n.msg
git log --oneline | head -1
mkdir -p /verif/pending_fixes/applied
git -C /verif mv pending_fixes/$n.diff pending_fixes/applied/ 2>/dev/null || mv /verif/pending_fixes/$n.diff /verif/pending_fixes/applied/
git -C /verif mv pending_fixes/$n.msg pending_fixes/applied/ 2>/dev/null || mv /verif/pending_fixes/$n.msg /verif/pending_fixes/applied/
