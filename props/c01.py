"""C01 — no BASIC input ever produces an internal interpreter error (partial proof + exploration)."""
import io
import multiprocessing
import os
import random
import re
import shutil
import signal
import tempfile
import traceback

from vlib import core

LEVEL = 'proof'
RULE = ('statements and programs mutated from the repository\'s own BASIC corpus (numeric and string literals replaced by '
        'boundary values), statement/function templates filled with boundary arguments, alone and after ON ERROR GOTO, '
        'byte soup and mutated tokenised/protected/ASCII files given to LOAD/RUN/MERGE/CHAIN, the documented default '
        'Session() configuration, RENUM with active traps; a case is one Session.execute/evaluate call; distinct = distinct '
        'input text; observable: the type of any exception leaving the session API other than Exit')
EXPLANATION = ('PARTIAL: the theorems (PcbV.Props.C01) cover the funnel decision logic and the enumerated host-call sites '
               '(TIME$/DATE$ -> datetime, ENVIRON -> os.environ, RENUM trap remap, PEEK preset table, Integer.from_int -> '
               'struct.pack, exponent byte) for every input; the global claim over all programs is NOT a theorem and is '
               'covered only by this exploration (generators above), which is also the failing-input search.')
TRUSTED_BASE = ['site models in PcbV.Model.Funnel/Clock/IntOps/Mbf are hand transcriptions; the list of sites is finite and hand-chosen']
ASSUMPTIONS = ['host exceptions from call sites outside the modelled ones are only searched for, not excluded by proof']

BOUNDARY_NUMS = [b'-1', b'0', b'1', b'2', b'7', b'8', b'15', b'16', b'24', b'25', b'39', b'40', b'41', b'79', b'80', b'81',
                 b'127', b'128', b'254', b'255', b'256', b'257', b'639', b'640', b'32766', b'32767', b'32768', b'-32768',
                 b'-32769', b'65534', b'65535', b'65536', b'-65536', b'1E38', b'-1E38', b'1.7E38', b'1D308', b'1E-39', b'.5',
                 b'2.5', b'-.5', b'1E10', b'16777216', b'33554432', b'33554433', b'&HFFFF', b'&H8000', b'&O177777', b'3.4E38',
                 b'1#', b'1!', b'1%', b'99999', b'1000000']
BOUNDARY_STRS = [b'""', b'"A"', b'CHR$(0)', b'CHR$(255)', b'STRING$(255,65)', b'STRING$(255,0)', b'"A"+CHR$(0)+"B"',
                 b'CHR$(0)+CHR$(0)', b'"\xff\xfe"', b'" "', b'"*.*"', b'"A:"', b'"C:\\"', b'"..\\X"', b'"X$;"', b'"="',
                 b'"A="', b'"=A"', b'"12:30"', b'"-1"', b'"1-1-80"', b'"CON"', b'"LPT1:"', b'"COM1:"', b'"CAS1:"', b'"SCRN:"',
                 b'"KYBD:"', b'"@:"', b'"NUL"', b'SPACE$(200)', b'"1E99"', b'"&H"', b'"T255L64O6N84"', b'"U32767"',
                 b'"M+32767,+32767"', b'"TA360"', b'"S255"', b'"XA$;"', b'"=A;"', b'"C"+CHR$(13)', b'"ZZZ"', b'MKI$(-1)',
                 b'MKS$(1E38)', b'MKD$(1D308)', b'"\x1a"', b'"\r\n"']

TEMPLATES = [
    b'PRINT {n} + {n}', b'PRINT {n} - {n}', b'PRINT {n} * {n}', b'PRINT {n} / {n}', b'PRINT {n} \\ {n}', b'PRINT {n} MOD {n}',
    b'PRINT {n} ^ {n}', b'PRINT {n} AND {n}', b'PRINT {n} OR {n}', b'PRINT {n} XOR {n}', b'PRINT {n} EQV {n}',
    b'PRINT {n} IMP {n}', b'PRINT NOT {n}', b'PRINT -{n}', b'PRINT {n} = {n}', b'PRINT {s} + {s}', b'PRINT {s} < {s}',
    b'PRINT ABS({n})', b'PRINT ASC({s})', b'PRINT ATN({n})', b'PRINT CDBL({n})', b'PRINT CHR$({n})', b'PRINT CINT({n})',
    b'PRINT COS({n})', b'PRINT CSNG({n})', b'PRINT CVI({s})', b'PRINT CVS({s})', b'PRINT CVD({s})', b'PRINT EXP({n})',
    b'PRINT FIX({n})', b'PRINT FRE({n})', b'PRINT FRE({s})', b'PRINT HEX$({n})', b'PRINT INSTR({n},{s},{s})',
    b'PRINT INSTR({s},{s})', b'PRINT INT({n})', b'PRINT LEFT$({s},{n})', b'PRINT LEN({s})', b'PRINT LOG({n})',
    b'PRINT MID$({s},{n},{n})', b'PRINT MID$({s},{n})', b'PRINT MKI$({n})', b'PRINT MKS$({n})', b'PRINT MKD$({n})',
    b'PRINT OCT$({n})', b'PRINT PEEK({n})', b'PRINT POS({n})', b'PRINT RIGHT$({s},{n})', b'PRINT RND({n})',
    b'PRINT SGN({n})', b'PRINT SIN({n})', b'PRINT SPACE$({n})', b'PRINT SPC({n})', b'PRINT SQR({n})', b'PRINT STR$({n})',
    b'PRINT STRING$({n},{n})', b'PRINT STRING$({n},{s})', b'PRINT TAB({n})', b'PRINT TAN({n})', b'PRINT VAL({s})',
    b'PRINT VARPTR(A)', b'PRINT VARPTR$(A$)', b'PRINT VARPTR(#{n})', b'PRINT SCREEN({n},{n})', b'PRINT SCREEN({n},{n},{n})',
    b'PRINT POINT({n},{n})', b'PRINT POINT({n})', b'PRINT PMAP({n},{n})', b'PRINT STICK({n})', b'PRINT STRIG({n})',
    b'PRINT PEN({n})', b'PRINT INP({n})', b'PRINT USR({n})', b'PRINT USR{n}({n})', b'PRINT EOF({n})', b'PRINT LOC({n})',
    b'PRINT LOF({n})', b'PRINT INPUT$({n},#{n})', b'PRINT ENVIRON$({n})', b'PRINT ENVIRON$({s})', b'PRINT ERDEV; ERDEV$',
    b'PRINT ERR; ERL', b'PRINT CSRLIN', b'PRINT TIMER', b'PRINT DATE$; TIME$', b'PRINT IOCTL$(#{n})', b'PRINT PLAY({n})',
    b'PRINT EXTERR({n})', b'PRINT LPOS({n})', b'PRINT USING {s}; {n}', b'PRINT USING {s}; {s}', b'PRINT USING "###.##"; {n}',
    b'PRINT USING "**$##,.##^^^^"; {n}', b'PRINT USING "\\  \\"; {s}', b'LPRINT {n}; {s}', b'LPRINT USING {s}; {n}',
    b'WRITE {n}, {s}', b'A = {n}', b'A% = {n}', b'A# = {n}', b'A$ = {s}', b'A!({n}) = {n}', b'DIM B({n})', b'DIM B({n},{n})',
    b'DIM C$({n})', b'ERASE B', b'OPTION BASE {n}', b'SWAP A, B', b'SWAP A$, B$', b'MID$(A$, {n}, {n}) = {s}',
    b'LSET A$ = {s}', b'RSET A$ = {s}', b'DEF SEG = {n}', b'DEF SEG', b'POKE {n}, {n}', b'OUT {n}, {n}',
    b'DEFINT A-Z', b'DEFSTR S', b'DEF USR{n} = {n}', b'CLEAR', b'CLEAR ,{n}', b'CLEAR ,{n},{n}',
    b'CLEAR ,,{n}', b'CLEAR {n},{n},{n},{n}', b'RANDOMIZE {n}', b'ERROR {n}', b'RESUME', b'RESUME NEXT', b'RESUME {n}',
    b'RETURN', b'RETURN {n}', b'NEXT', b'WEND', b'GOTO {n}', b'GOSUB {n}', b'ON {n} GOTO 10,20', b'ON {n} GOSUB 10',
    b'ON ERROR GOTO {n}', b'RESTORE {n}', b'READ A', b'RUN {n}', b'CONT', b'STOP', b'END', b'NEW', b'LIST {n}-{n}',
    b'LIST {n}', b'LLIST {n}', b'DELETE {n}-{n}', b'DELETE {n}', b'RENUM {n},{n},{n}', b'RENUM {n}', b'AUTO {n},{n}',
    b'EDIT {n}', b'TRON', b'TROFF', b'KEY ON', b'KEY OFF', b'KEY LIST', b'KEY {n}, {s}', b'KEY({n}) ON', b'KEY({n}) STOP',
    b'ON KEY({n}) GOSUB {n}', b'ON TIMER({n}) GOSUB {n}', b'TIMER ON', b'ON PLAY({n}) GOSUB {n}', b'PLAY ON', b'PEN ON',
    b'ON PEN GOSUB {n}', b'STRIG({n}) ON', b'STRIG ON', b'ON STRIG({n}) GOSUB {n}', b'COM({n}) ON', b'ON COM({n}) GOSUB {n}',
    b'SCREEN {n}', b'SCREEN {n},{n}', b'SCREEN {n},{n},{n},{n}', b'SCREEN ,,{n},{n}', b'WIDTH {n}', b'WIDTH {n},{n}',
    b'WIDTH {s},{n}', b'WIDTH #{n},{n}', b'WIDTH LPRINT {n}', b'COLOR {n}', b'COLOR {n},{n}', b'COLOR {n},{n},{n}',
    b'CLS', b'CLS {n}', b'LOCATE {n},{n}', b'LOCATE {n},{n},{n},{n},{n}', b'LOCATE ,,{n}', b'VIEW PRINT {n} TO {n}',
    b'VIEW PRINT', b'VIEW ({n},{n})-({n},{n}),{n},{n}', b'VIEW SCREEN ({n},{n})-({n},{n})', b'VIEW',
    b'WINDOW ({n},{n})-({n},{n})', b'WINDOW SCREEN ({n},{n})-({n},{n})', b'WINDOW', b'PSET ({n},{n}),{n}',
    b'PRESET ({n},{n})', b'PSET STEP({n},{n})', b'LINE ({n},{n})-({n},{n}),{n}', b'LINE -({n},{n}),{n},B',
    b'LINE ({n},{n})-({n},{n}),{n},BF,{n}', b'LINE ({n},{n})-STEP({n},{n}),,,{n}', b'CIRCLE ({n},{n}),{n}',
    b'CIRCLE ({n},{n}),{n},{n},{n},{n},{n}', b'CIRCLE STEP({n},{n}),{n},,,,{n}', b'PAINT ({n},{n}),{n},{n}',
    b'PAINT ({n},{n}),{s},{n},{s}', b'PAINT ({n},{n})', b'DRAW {s}', b'GET ({n},{n})-({n},{n}),B', b'PUT ({n},{n}),B,XOR',
    b'PUT ({n},{n}),B', b'PALETTE {n},{n}', b'PALETTE', b'PALETTE USING B({n})', b'PCOPY {n},{n}', b'BEEP', b'BEEP ON',
    b'PLAY "MB":SOUND {n},{n}', b'PLAY "MB":SOUND {n},{n},{n},{n}', b'SOUND ON', b'NOISE {n},{n},{n}', b'PLAY "MB"+{s}', b'PLAY "MB"+{s},{s},{s}',
    b'OPEN {s} FOR OUTPUT AS {n}', b'OPEN {s} FOR INPUT AS #{n}', b'OPEN {s} FOR APPEND AS {n}',
    b'OPEN {s} FOR RANDOM AS {n} LEN={n}', b'OPEN {s} AS {n}', b'OPEN "R",{n},{s},{n}', b'OPEN {s},#{n},{s}',
    b'OPEN {s} FOR RANDOM ACCESS READ WRITE LOCK READ AS {n}', b'OPEN {s} FOR INPUT SHARED AS {n}', b'CLOSE', b'CLOSE #{n}',
    b'CLOSE {n},{n}', b'RESET', b'FIELD #{n}, {n} AS A$, {n} AS B$', b'FIELD {n}', b'GET #{n}', b'GET #{n},{n}',
    b'PUT #{n},{n}', b'PUT {n}', b'LOCK #{n}', b'LOCK #{n},{n} TO {n}', b'UNLOCK #{n},{n} TO {n}', b'UNLOCK {n}',
    b'PRINT #{n}, {n}; {s}', b'PRINT #{n}, USING {s}; {n}', b'WRITE #{n}, {n}, {s}', b'INPUT #{n}, A, A$',
    b'LINE INPUT #{n}, A$', b'IOCTL #{n}, {s}', b'KILL {s}', b'NAME {s} AS {s}', b'MKDIR {s}', b'RMDIR {s}', b'CHDIR {s}',
    b'FILES', b'FILES {s}', b'LOAD {s}', b'LOAD {s},R', b'SAVE {s}', b'SAVE {s},A', b'SAVE {s},P', b'MERGE {s}',
    b'CHAIN {s}', b'CHAIN {s},{n},ALL', b'CHAIN MERGE {s},{n},ALL,DELETE {n}-{n}', b'COMMON A, B$, C()', b'RUN {s}',
    b'BLOAD {s}', b'BLOAD {s},{n}', b'BSAVE {s},{n},{n}', b'ENVIRON {s}', b'TIME$ = {s}', b'DATE$ = {s}', b'SHELL',
    b'SHELL {s}', b'SYSTEM', b'TERM', b'MOTOR', b'MOTOR {n}', b'CALL A', b'CALL A({n},B$)', b'CALLS A', b'LCOPY {n}',
    b'LET A = {n}', b'FOR I={n} TO {n} STEP {n}:NEXT', b'FOR I%={n} TO {n}:NEXT', b'WHILE {n}:A=A+1:IF A>5 THEN END ELSE WEND',
    b'IF {n} THEN {n} ELSE {n}', b'IF {s}={s} THEN PRINT 1 ELSE PRINT 2', b'DEF FNA(X)=X*{n}', b'DEF FNS$(X$)=X$+{s}',
    b'PRINT FNA({n})', b'DATA {n},{s}', b'REM {s}', b"' {n}", b'LINE INPUT A$', b'INPUT A', b'INPUT "X";A$,B', b'INPUT;"X",A',
    b'PRINT INKEY$', b'PRINT INPUT$({n})', b'RANDOMIZE', b'KEY {n}, CHR$({n})+CHR$({n})', b'ON {n} GOTO', b'PRINT SPC({n});TAB({n})',
    b'VIEW PRINT {n} TO {n}:LOCATE {n},{n}:PRINT {s};', b'SCREEN {n}:PSET({n},{n}):PRINT POINT({n},{n})',
    b'SCREEN 1:VIEW({n},{n})-({n},{n}):CLS:WINDOW({n},{n})-({n},{n}):LINE({n},{n})-({n},{n})',
    b'SCREEN 2:DIM B({n}):GET({n},{n})-({n},{n}),B:PUT({n},{n}),B', b'SCREEN 1:DRAW {s}:PAINT({n},{n}),{n},{n}',
    b'OPEN "T" FOR OUTPUT AS 1:PRINT#1,{s}:CLOSE:OPEN "T" FOR INPUT AS 1:INPUT#1,A$:PRINT EOF(1):CLOSE',
    b'OPEN "R" AS 1 LEN={n}:FIELD 1,{n} AS A$:LSET A$={s}:PUT 1,{n}:GET 1,{n}:PRINT LOF(1);LOC(1):CLOSE',
    b'ON ERROR GOTO 0', b'OPTION BASE {n}:DIM Q({n}):Q({n})={n}', b'A$={s}:B$=A$+A$+A$:PRINT LEN(B$)',
    b'DEF SEG={n}:POKE {n},{n}:PRINT PEEK({n})', b'DEF SEG=0:POKE 1050,PEEK(1052)', b'DEF SEG=&HB800:POKE {n},{n}:BSAVE "V",{n},{n}',
]

BANNED = re.compile(br'\bSHELL\b|\bSYSTEM\b|\bTERM\b', re.I)


class CaseTimeout(BaseException):
    pass


def _alarm(signum, frame):
    raise CaseTimeout()


def site_of(tb):
    """innermost frame inside the pcbasic package: 'file.py:function'"""
    site = None
    for fs in traceback.extract_tb(tb):
        fn = fs.filename.replace('\\', '/')
        if '/pcbasic/' in fn:
            site = '%s:%s' % (fn.split('/pcbasic/')[-1], fs.name)
    return site or 'outside-pcbasic'


def load_corpus(repo):
    pool = set()
    root = os.path.join(repo, 'tests', 'basic')
    for dp, dn, fns in os.walk(root):
        if os.sep + 'model' in dp or os.sep + 'output' in dp:
            continue
        for fn in fns:
            if fn.upper().endswith('.BAS'):
                try:
                    data = open(os.path.join(dp, fn), 'rb').read()
                except EnvironmentError:
                    continue
                if data[:1] in (b'\xff', b'\xfe', b'\xfc'):
                    continue
                for line in data.replace(b'\r', b'\n').split(b'\n'):
                    line = line.strip().rstrip(b'\x1a')
                    m = re.match(br'^\d+\s*(.*)$', line)
                    body = m.group(1) if m else line
                    if 2 <= len(body) <= 160 and not BANNED.search(body):
                        pool.add(body)
    return sorted(pool)


def mutate(rng, line):
    def num(m):
        return rng.choice(BOUNDARY_NUMS) if rng.random() < 0.35 else m.group(0)

    def strg(m):
        return rng.choice(BOUNDARY_STRS) if rng.random() < 0.3 else m.group(0)
    out = re.sub(br'"[^"]*"', strg, line)
    out = re.sub(br'(?<![A-Za-z0-9$%!#"&.])\d+(\.\d+)?', num, out)
    k = rng.random()
    if k < 0.05 and len(out) > 3:
        i = rng.randrange(len(out))
        out = out[:i] + out[i + 1:]
    elif k < 0.1:
        i = rng.randrange(len(out) + 1)
        out = out[:i] + rng.choice([b',', b'(', b')', b'-', b'#', b'$', b'"', b':', b';', b'\xff', b'\x00', b'&H', b'.', b'E']) + out[i:]
    return out


def fill(rng, tmpl):
    out = tmpl
    while b'{n}' in out:
        out = out.replace(b'{n}', rng.choice(BOUNDARY_NUMS), 1)
    while b'{s}' in out:
        out = out.replace(b'{s}', rng.choice(BOUNDARY_STRS), 1)
    return out


def soup_file(rng, corpus_programs):
    k = rng.random()
    if k < 0.25:
        body = bytes(rng.randrange(256) for _ in range(rng.randrange(0, 400)))
        return rng.choice([b'\xff', b'\xfe', b'\xfd', b'\xfc', b'', b'1']) + body
    if k < 0.5:
        # plausible tokenised image with broken links / tokens
        out = bytearray(b'\xff')
        for i in range(rng.randrange(1, 8)):
            out += bytes([rng.randrange(1, 256), rng.randrange(256), (i * 10) & 255, rng.randrange(0, 3)])
            out += bytes(rng.choice([0x91, 0x20, 0x41, 0x0e, 0x0f, 0x1c, 0x1d, 0x1f, 0x22, 0x3a, 0x8f, 0x84, 0xfd, 0xfe, 0xff,
                                     rng.randrange(256)]) for _ in range(rng.randrange(0, 20)))
            out += b'\0'
        out += rng.choice([b'\0\0\x1a', b'\0\0', b'', b'\0'])
        return bytes(out)
    prog = bytearray(rng.choice(corpus_programs)) if corpus_programs else bytearray(b'10 PRINT 1\r\n')
    for _ in range(rng.randrange(0, 6)):
        if prog:
            i = rng.randrange(len(prog))
            prog[i] = rng.randrange(256)
    if rng.random() < 0.3:
        prog = prog[:rng.randrange(len(prog) + 1)]
    return bytes(prog)


def worker(args):
    seed, kind, n, repo, corpus, corpus_programs = args
    rng = random.Random(seed)
    import sys
    if repo not in sys.path:
        sys.path.insert(0, repo)
    from pcbasic.basic import Session
    from pcbasic.basic.base import error
    signal.signal(signal.SIGALRM, _alarm)
    import logging
    logging.disable(logging.CRITICAL)
    findings, stats, samples = [], {}, []

    def count(k):
        stats[k] = stats.get(k, 0) + 1

    root = tempfile.mkdtemp(prefix='pcbv_c01_')
    mount = os.path.join(root, 'a', 'b', 'mount')
    os.makedirs(mount)
    cwd = os.getcwd()
    os.chdir(mount)
    session = [None]
    hist = []
    kwlog = [None]
    seen = set()

    def new_session():
        if session[0] is not None:
            try:
                session[0].close()
            except BaseException:
                pass
        os.makedirs(mount, exist_ok=True)
        try:
            os.chdir(mount)
        except EnvironmentError:
            pass
        for fn in os.listdir(mount):
            p = os.path.join(mount, fn)
            try:
                shutil.rmtree(p) if os.path.isdir(p) else os.remove(p)
            except EnvironmentError:
                pass
        kw = dict(output_streams=None, input_streams=io.BytesIO(b'1\r"a",2\r\r12:30\rY\r' * 3))
        if kind == 'default':
            # the documented defaults for everything except the stdio streams
            kw = dict(output_streams=None, input_streams=None)
        else:
            kw.update(devices={'C': mount}, current_device='C')
            if rng.random() < 0.3:
                kw['video'] = rng.choice(['cga', 'ega', 'vga', 'tandy', 'pcjr', 'hercules', 'mda'])
            if rng.random() < 0.2:
                kw['syntax'] = rng.choice(['advanced', 'pcjr', 'tandy'])
            if kw.get('syntax') == 'tandy':
                kw['video'] = 'tandy'
            if kw.get('syntax') == 'pcjr':
                kw['video'] = 'pcjr'
        del hist[:]
        kwlog[0] = {k: v for k, v in kw.items() if k in ('video', 'syntax')}
        s = Session(**kw)
        s.start()
        limit = [0]

        def hook(token):
            limit[0] += 1
            if limit[0] > 3000:
                limit[0] = 0
                raise error.Break()
        s.set_hook(hook)
        session[0] = s
        return s

    def run_one(text, how='execute'):
        s = session[0] or new_session()
        count('cases')
        hist.append([how, text.decode('latin-1')])
        seen.add(hash((how, text)))
        signal.setitimer(signal.ITIMER_REAL, 1.5)
        try:
            if how == 'evaluate':
                s.evaluate(text)
            else:
                s.execute(text)
            signal.setitimer(signal.ITIMER_REAL, 0)
            return None
        except CaseTimeout:
            count('timeout')
            session[0] = None
            return None
        except error.Exit:
            signal.setitimer(signal.ITIMER_REAL, 0)
            count('exit')
            session[0] = None
            return None
        except BaseException as e:
            signal.setitimer(signal.ITIMER_REAL, 0)
            if isinstance(e, (KeyboardInterrupt, SystemExit)):
                raise
            import sys as _sys
            tb = _sys.exc_info()[2]
            site = site_of(tb)
            key = '%s@%s' % (type(e).__name__, site)
            # context tag: the stored program image has line numbers out of ascending order (only reachable by
            # loading a hand-made or corrupted tokenised file); the editing code assumes ascending order
            try:
                ln = s._impl.program.line_numbers
                order = [n for n, _pos in sorted(ln.items(), key=lambda kv: kv[1]) if n != 65536]
                if order != sorted(order):
                    key += ':unsorted-program-image'
                elif any(h[0] == 'file' and h[2][:2] in ('ff', 'fe', 'fd', 'fc') for h in hist):
                    # a fuzzed binary (tokenised/protected) program file was written and possibly loaded in
                    # this session: the stored image may violate the invariants the editing code relies on
                    key += ':after-fuzzed-binary-program-file'
            except BaseException:
                pass
            count('host-exception')
            findings.append({'key': key, 'kind': kind, 'how': how, 'input': text.decode('latin-1'),
                             'history': [list(h) for h in hist[-60:]], 'session_kw': kwlog[0],
                             'exception': '%s: %s' % (type(e).__name__, str(e)[:200]),
                             'trace': [('%s:%d:%s' % (f.filename.split('/pcbasic/')[-1], f.lineno, f.name))
                                       for f in traceback.extract_tb(tb)[-4:]]})
            session[0] = None
            return key
        finally:
            signal.setitimer(signal.ITIMER_REAL, 0)

    try:
        i = 0
        while i < n:
            if session[0] is None or rng.random() < 0.04:
                new_session()
            if kind in ('templates', 'default'):
                text = fill(rng, rng.choice(TEMPLATES))
                if kind == 'default' and rng.random() < 0.6:
                    text = fill(rng, rng.choice([b'PRINT PEEK({n})', b'DEF SEG={n}:PRINT PEEK({n})', b'POKE {n},{n}',
                                                 b'DEF SEG:PRINT PEEK({n})', b'PRINT INP({n})', b'PRINT USR({n})',
                                                 b'BSAVE "M",{n},{n}', b'DEF SEG=0:PRINT PEEK(1040)']))
                if BANNED.search(text):
                    continue
                if rng.random() < 0.15:
                    # inside a program, under an error trap
                    run_one(b'NEW')
                    run_one(b'10 ON ERROR GOTO 100')
                    run_one(b'20 ' + text)
                    run_one(b'30 END')
                    run_one(b'100 PRINT ERR;ERL:RESUME NEXT')
                    text = b'RUN'
                elif rng.random() < 0.15:
                    text = text + b':' + fill(rng, rng.choice(TEMPLATES))
                    if BANNED.search(text):
                        continue
                how = 'execute'
                if rng.random() < 0.08 and text.startswith(b'PRINT ') and b':' not in text:
                    text, how = text[6:], 'evaluate'
                run_one(text, how)
                if i < 2:
                    samples.append(text.decode('latin-1'))
                i += 1
            elif kind == 'corpus':
                if rng.random() < 0.5:
                    text = mutate(rng, rng.choice(corpus))
                    if BANNED.search(text):
                        continue
                    run_one(text)
                    if i < 2:
                        samples.append(text.decode('latin-1'))
                    i += 1
                else:
                    run_one(b'NEW')
                    ln = 10
                    if rng.random() < 0.4:
                        run_one(b'5 ON ERROR GOTO 9000')
                        run_one(b'9000 PRINT ERR;ERL:RESUME NEXT')
                    prog = []
                    for _ in range(rng.randrange(2, 9)):
                        body = mutate(rng, rng.choice(corpus))
                        if BANNED.search(body):
                            continue
                        prog.append(b'%d %s' % (ln, body))
                        run_one(prog[-1])
                        ln += 10
                    run_one(b'8999 END')
                    run_one(rng.choice([b'RUN', b'RUN', b'LIST', b'RENUM', b'RENUM 100,20,5', b'SAVE "P"', b'SAVE "P",A',
                                        b'SAVE "P",P', b'RUN 20', b'DELETE 20-40', b'RENUM 30000,20,10000', b'LLIST']))
                    if rng.random() < 0.3:
                        run_one(rng.choice([b'CONT', b'LOAD "P"', b'MERGE "P"', b'CHAIN "P"', b'RUN "P"', b'LIST']))
                    if i < 2:
                        samples.append([p.decode('latin-1') for p in prog[:4]])
                    i += len(prog) + 2
            elif kind == 'files':
                data = soup_file(rng, corpus_programs)
                name = rng.choice(['X.BAS', 'Y', 'Z.BAS'])
                os.makedirs(mount, exist_ok=True)
                with open(os.path.join(mount, name), 'wb') as f:
                    f.write(data)
                if session[0] is None:
                    new_session()
                hist.append(['file', name, data.hex()])
                stem = name.split('.')[0].encode()
                text = rng.choice([b'LOAD "%s"', b'RUN "%s"', b'MERGE "%s"', b'CHAIN "%s"', b'LOAD "%s",R', b'BLOAD "%s"',
                                   b'CHAIN MERGE "%s",10', b'OPEN "%s" FOR INPUT AS 1:LINE INPUT#1,A$:INPUT#1,B:CLOSE']) % stem
                r = run_one(text)
                if r and findings:
                    findings[-1]['file_hex'] = data[:200].hex()
                for follow in rng.sample([b'LIST', b'RUN', b'RENUM', b'SAVE "W",A', b'DELETE 10-', b'EDIT 10', b'LLIST',
                                          b'PRINT FRE(0)'], 2):
                    r = run_one(follow)
                    if r and findings and 'file_hex' not in findings[-1]:
                        findings[-1]['file_hex'] = data[:200].hex()
                        findings[-1]['after'] = text.decode('latin-1')
                if i < 2:
                    samples.append({'file_hex': data[:40].hex(), 'stmt': text.decode('latin-1')})
                i += 3
            elif kind == 'renum':
                run_one(b'NEW')
                lines = sorted(rng.sample(range(1, 400), rng.randrange(3, 9)))
                trap = rng.choice(lines)
                ktrap = rng.choice(lines)
                run_one(b'%d ON ERROR GOTO %d:ON KEY(1) GOSUB %d:KEY(1) ON:ON TIMER(5) GOSUB %d' % (lines[0], trap, ktrap, ktrap))
                for l in lines[1:]:
                    run_one(b'%d PRINT %d' % (l, l))
                run_one(b'%d END' % (lines[-1] + 1))
                run_one(b'RUN')
                new = rng.choice([rng.randrange(0, 70000), lines[-1] + rng.randrange(0, 50), 10, 65529, 65530])
                old = rng.choice(lines + [0, rng.randrange(0, 500)])
                text = b'RENUM %d,%d,%d' % (new, old, rng.choice([1, 2, 10, 1000, 0, 65535]))
                run_one(text)
                run_one(rng.choice([b'LIST', b'CONT', b'RUN', b'GOTO %d' % lines[1]]))
                if i < 2:
                    samples.append({'lines': lines, 'trap': trap, 'stmt': text.decode('latin-1')})
                i += 4
    finally:
        try:
            if session[0] is not None:
                session[0].close()
        except BaseException:
            pass
        os.chdir(cwd)
        shutil.rmtree(root, ignore_errors=True)
    stats['distinct_inputs'] = len(seen)
    return findings, stats, samples


def explore(ctx, plan, nproc=None):
    nproc = nproc or int(os.environ.get('C01_PROCS', '8'))
    corpus = load_corpus(core.REPO)
    corpus_programs = []
    root = os.path.join(core.REPO, 'tests', 'basic')
    for dp, dn, fns in os.walk(root):
        for fn in fns:
            if fn.upper().endswith('.BAS') and len(corpus_programs) < 300:
                try:
                    corpus_programs.append(open(os.path.join(dp, fn), 'rb').read()[:3000])
                except EnvironmentError:
                    pass
    ctx.notes['corpus_lines'] = len(corpus)
    tasks = []
    for kind, total in plan:
        per = max(1, total // nproc)
        for w in range(nproc):
            tasks.append((ctx.rng.randrange(2**31), kind, per, core.REPO, corpus, corpus_programs))
    with multiprocessing.get_context('fork').Pool(nproc) as pool:
        results = pool.map(worker, tasks, chunksize=1)
    for (findings, stats, samples), task in zip(results, tasks):
        for k, v in stats.items():
            ctx.count('%s:%s' % (task[1], k), v)
            if k == 'cases':
                ctx.evaluations += v
        for f in findings:
            ctx.distinct.add(f['input'])
            ctx.fail(f['key'], f, 'host exception escaped the session API: %s (input %r)' % (f['exception'], f['input'][:120]))
        for smp in samples[:1]:
            ctx.sample({'kind': task[1], 'case': smp})
    # distinct count: distinct (call kind, input text) per worker, summed over workers (inputs repeated in two
    # workers are counted twice; the set-up statements NEW / RUN are counted once per worker)
    nd = sum(st.get('distinct_inputs', 0) for _f, st, _s in results)
    ctx.distinct.update(('distinct-input', i) for i in range(nd))


def site_models(ctx):
    """correspondence for the modelled sites that have no other property check: RENUM trap remap, PEEK preset"""
    from vlib import basic
    rng = ctx.rng
    lines, outs, cases = [], [], []
    for _ in range(40 if ctx.quick else 400):
        nums = sorted(rng.sample(range(1, 300), rng.randrange(3, 8)))
        trap = rng.choice(nums)
        s = basic.new_session()
        with s:
            s.execute(b'%d ON ERROR GOTO %d' % (nums[0], trap))
            for l in nums[1:]:
                s.execute(b'%d PRINT %d' % (l, l))
            s.execute(b'RUN')
            old = rng.choice(nums)
            new = nums[-1] + rng.randrange(1, 100)
            out = basic.safe_exec(s, b'RENUM %d,%d,10' % (new, old))
            got = s._impl.interpreter.on_error
            renumbered = [l for l in nums if l >= old]
            mapping = ','.join('%d:%d' % (l, new + 10 * i) for i, l in enumerate(renumbered))
            lines.append('renumtrap %s %d' % (mapping or '-', trap))
            outs.append('ok %d' % got if b'EXC' not in out else 'exc')
            cases.append((nums, trap, old, new))
            ctx.case(('renumtrap', tuple(nums), trap, old, new))
            exp = (new + 10 * renumbered.index(trap)) if trap in renumbered else trap
            if b'<<EXC' in out or got != exp:
                ctx.fail('renum-trap', {'lines': nums, 'trap': trap, 'old': old, 'new': new},
                         'after RENUM %d,%d the ON ERROR line is %r (output %r), expected %d' % (new, old, got, out, exp))
    ctx.compare(cases, outs, lines, label='renum-trap')


FIXED_HISTORIES = [
    # known finding C01-F1: corrupted tokenised file with lines out of order, then RENUM and MERGE
    [['file', 'Z.BAS', 'ffb5530002220e843a0005080a010086d01401c11f201c203a1c1f8f0f0e84208f1c0f2391002d241e021f0e1d8f8f'
                       '9122ff410f0f4120911c0e3a20220002892801fe84208f000000'],
     ['execute', 'LOAD "Z"'], ['execute', 'RENUM'],
     ['file', 'X.BAS', b'10 REM PC-BASIC test\r\n20 REM MID$ function\r\n30 OPEN "OUTPUT.TXT" FOR OUTPUT AS 1\r\n'.hex()],
     ['execute', 'MERGE "X"']],
    # repaired defects, kept as regression histories
    [['execute', 'SCREEN 1'], ['execute', 'DEF SEG=0:PRINT PEEK(1126)']],
    [['execute', 'CLEAR 639,32767,&HFFFF,32767'], ['execute', 'PRINT FRE("")']],
    [['execute', 'BLOAD "KYBD:",256'], ['execute', 'OPEN "CON" FOR APPEND AS 1'], ['execute', 'BSAVE "ZZZ",80,-1']],
    [['execute', 'FOR I=1.7E38 TO 255 STEP 1E38:NEXT'], ['execute', 'PRINT 1 IMP "a"'], ['execute', 'PRINT HEX$(-65537)']],
    [['execute', 'DEF SEG=&HB800:BSAVE "V",&HFFFF,&H8000'], ['execute', 'SCREEN 1:A$="XA$;":DRAW A$']],
    [['execute', 'TIME$="-1:00:00"'], ['execute', 'ENVIRON "A=B"+CHR$(0)+"C"'], ['execute', 'PRINT &O1 2']],
]


def fixed_histories(ctx):
    """Deterministic histories: the known finding (so that it is shown on every run) and repaired defects."""
    from pcbasic.basic import Session
    from pcbasic.basic.base import error
    signal.signal(signal.SIGALRM, _alarm)
    for hi, history in enumerate(FIXED_HISTORIES):
        root = tempfile.mkdtemp(prefix='pcbv_c01f_')
        cwd = os.getcwd()
        mount = os.path.join(root, 'a', 'b', 'mount')
        os.makedirs(mount)
        os.chdir(mount)
        s = Session(output_streams=None, input_streams=None, devices={'C': mount}, current_device='C')
        s.start()
        done = []
        try:
            for h in history:
                done.append(h)
                if h[0] == 'file':
                    with open(os.path.join(mount, h[1]), 'wb') as f:
                        f.write(bytes.fromhex(h[2]))
                    continue
                ctx.case(('fixed', hi, h[1]))
                ctx.count('fixed:cases')
                signal.setitimer(signal.ITIMER_REAL, 5.0)
                try:
                    s.execute(h[1].encode('latin-1'))
                except (error.Exit, CaseTimeout):
                    break
                except Exception as e:
                    import sys as _sys
                    key = '%s@%s' % (type(e).__name__, site_of(_sys.exc_info()[2]))
                    try:
                        ln = s._impl.program.line_numbers
                        order = [n for n, _pos in sorted(ln.items(), key=lambda kv: kv[1]) if n != 65536]
                        if order != sorted(order):
                            key += ':unsorted-program-image'
                        elif any(x[0] == 'file' and x[2][:2] in ('ff', 'fe', 'fd', 'fc') for x in done):
                            key += ':after-fuzzed-binary-program-file'
                    except Exception:
                        pass
                    ctx.fail(key, {'kind': 'fixed', 'how': 'execute', 'input': h[1], 'history': [list(x) for x in done]},
                             'host exception escaped the session API: %s: %s (input %r)' % (type(e).__name__, e, h[1]))
                    break
                finally:
                    signal.setitimer(signal.ITIMER_REAL, 0)
        finally:
            try:
                s.close()
            except Exception:
                pass
            os.chdir(cwd)
            shutil.rmtree(root, ignore_errors=True)


def run(ctx):
    site_models(ctx)
    fixed_histories(ctx)
    if ctx.quick:
        plan = [('templates', 2100), ('corpus', 1700), ('files', 560), ('default', 420), ('renum', 280)]
    else:
        plan = [('templates', 120000), ('corpus', 120000), ('files', 30000), ('default', 14000), ('renum', 14000)]
    scale = float(os.environ.get('C01_SCALE', '1'))
    explore(ctx, [(k, int(n * scale)) for k, n in plan])


def replay(ctx, payload):
    case = payload.get('case', {})
    if 'input' not in case:
        return None
    from pcbasic.basic import Session
    from pcbasic.basic.base import error
    signal.signal(signal.SIGALRM, _alarm)
    root = tempfile.mkdtemp(prefix='pcbv_c01r_')
    cwd = os.getcwd()
    try:
        mount = os.path.join(root, 'a', 'b', 'mount')
        os.makedirs(mount)
        os.chdir(mount)
        kw = dict(output_streams=None, input_streams=io.BytesIO(b'1\r"a",2\r\r12:30\rY\r' * 3))
        if case.get('kind') == 'default':
            kw = dict(output_streams=None, input_streams=None)
        else:
            kw.update(devices={'C': mount}, current_device='C')
            kw.update(case.get('session_kw') or {})
        s = Session(**kw)
        s.start()
        history = case.get('history') or [[case.get('how', 'execute'), case['input']]]
        try:
            for h in history:
                if h[0] == 'file':
                    os.makedirs(mount, exist_ok=True)
                    with open(os.path.join(mount, h[1]), 'wb') as f:
                        f.write(bytes.fromhex(h[2]))
                    continue
                signal.setitimer(signal.ITIMER_REAL, 3.0)
                try:
                    if h[0] == 'evaluate':
                        s.evaluate(h[1].encode('latin-1'))
                    else:
                        s.execute(h[1].encode('latin-1'))
                except error.Exit:
                    return None
                except CaseTimeout:
                    return None
                except Exception as e:
                    return 'host exception %s: %s (at %r)' % (type(e).__name__, e, h[1][:80])
                finally:
                    signal.setitimer(signal.ITIMER_REAL, 0)
        finally:
            try:
                s.close()
            except Exception:
                pass
    finally:
        os.chdir(cwd)
        shutil.rmtree(root, ignore_errors=True)
    return None
