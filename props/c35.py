"""C35 — The displayed picture always equals the emulator's screen state."""
import os
import shutil
import tempfile

from vlib import basic

LEVEL = 'proof'
RULE = ('one case = one statement of a random history (PRINT with wrap/scroll/control characters, CLS, COLOR, LOCATE, '
        'VIEW PRINT, KEY ON/OFF, SCREEN mode/page switches (also four-argument SCREEN and WIDTH between modes with '
        'different page counts from high page numbers), WIDTH, PCOPY, POKE into video memory, PSET/LINE/CIRCLE/'
        'PAINT/GET/PUT/DRAW/VIEW, INPUT with typed keys) executed in a real Session of one of the adapters cga/ega/vga/tandy/pcjr/hercules/'
        'olivetti (and ega/vga under the double-byte codepages 936/932/949/950 with strings of lead bytes, trail bytes, '
        'complete characters and ASCII written over existing text) with a recording video queue, checked after the statement; plus one case per operation of random '
        'operation histories on real VideoBuffer pages of small geometry; non-trivial = the statement emitted at '
        'least one update/clear_rows/scroll/set_mode signal')
EXPLANATION = ('theorems (PcbV.Props.C35): display_tracks_buffer (induction over arbitrary valid histories of page '
               'operations, page switches and copies on any number of pages: consumer canvas = visible page, pixels '
               'and characters), resubmit_redraws / reachable_redraws (Display.rebuild reproduces the visible page), '
               'counterexample theorems for the three repaired defects (D12 scroll fill, scroll_down row deletion, PCOPY row '
               'sharing). correspondence: real VideoBuffer objects (real Font, colourmap, '
               'codepage) driven through operation histories; emitted signals, page contents and canvas compared with '
               'the Lean model. oracle: a reference display written from interface/video_sdl2.py + video_curses.py '
               'folds the recorded signals of a real Session after EVERY statement and is compared with '
               'Session.get_pixels()/get_chars(); Display.rebuild() and Session.suspend/resume are replayed into a '
               'fresh reference display')
TRUSTED_BASE = ['model PcbV.Model.Screen is a hand transcription of display/buffers.py:VideoBuffer, '
                'base/bytematrix.py slicing/move, display.py:set_page/pcopy_/rebuild and of the consumers '
                'interface/video_sdl2.py (pixels) and video_curses.py (text)',
                'the reference display in props/c35.py is a second, independent transcription of the consumers']
ASSUMPTIONS = ['glyph rendering, split_attr and the byte-row -> unicode-cell conversion (single- or double-byte) are '
               'parameters of the model; full-width sprite rendering is not modelled (DBCS correspondence compares text, '
               'signals and geometry, not pixels); insert/delete of the '
               'interactive line editor and row length/wrap flags are not modelled (they reach the display only through '
               'the modelled _update/force_submit path)',
               'pixel size = text size x font size (all modes except Hercules graphics, which the oracle covers)']


# ---------------------------------------------------------------------------------------------
# recording queue and reference display (independent of buffers.py / bytematrix.py)

class RecQueue(object):
    """Stands in for the video queue: records, never blocks the engine."""

    def __init__(self):
        self.items = []

    def qsize(self):
        return 0

    def empty(self):
        return True

    def full(self):
        return False

    def put(self, item, block=False, timeout=False):
        self.items.append(item)

    def put_nowait(self, item):
        self.items.append(item)

    def get(self, block=False, timeout=False):
        from pcbasic.compat import queue
        raise queue.Empty

    def task_done(self):
        pass

    def join(self):
        pass

    def drain(self):
        items, self.items = self.items, []
        return items


def sprite_rows(sprite):
    """rows of a ByteMatrix payload as bytes (read without the ByteMatrix conversion helpers)"""
    return [bytes(bytearray(r)) for r in sprite._rows][:sprite.height] if sprite.height and sprite.width else []


class RefDisplay(object):
    """What a display shows after applying the video signals (from video_sdl2.py / video_curses.py)."""

    def __init__(self):
        self.canvas = None
        self.text = None
        self.ch = self.cw = self.th = self.tw = self.fh = self.fw = 0
        self.kinds = {}

    def feed(self, event):
        t = event.event_type
        self.kinds[t] = self.kinds.get(t, 0) + 1
        h = getattr(self, 'on_' + t, None)
        if h:
            h(*event.params)

    def on_set_mode(self, canvas_height, canvas_width, text_height, text_width):
        self.fh = -(-canvas_height // text_height)
        self.fw = canvas_width // text_width
        self.ch, self.cw, self.th, self.tw = canvas_height, canvas_width, text_height, text_width
        self.canvas = [bytearray(canvas_width) for _ in range(canvas_height)]
        self.text = [[u' '] * text_width for _ in range(text_height)]

    def on_update(self, row, col, unicode_matrix, attr_matrix, y0, x0, sprite):
        rows = sprite_rows(sprite)
        if rows:
            if y0 + len(rows) > self.ch or x0 + len(rows[0]) > self.cw:
                rows = [r[:max(0, self.cw - x0)] for r in rows[:max(0, self.ch - y0)]]
            for i, r in enumerate(rows):
                self.canvas[y0 + i][x0:x0 + len(r)] = r
        for i, trow in enumerate(unicode_matrix):
            if 0 <= row - 1 + i < self.th:
                for j, c in enumerate(trow):
                    if 0 <= col - 1 + j < self.tw:
                        self.text[row - 1 + i][col - 1 + j] = c

    def on_clear_rows(self, back_attr, start, stop):
        for y in range((start - 1) * self.fh, min(stop * self.fh, self.ch)):
            self.canvas[y][:] = bytes(bytearray([back_attr])) * self.cw
        for r in range(start - 1, min(stop, self.th)):
            self.text[r] = [u' '] * self.tw

    def on_scroll(self, direction, from_line, scroll_height, back_attr):
        fh = self.fh
        hi_y0, hi_y1 = (from_line - 1) * fh, (scroll_height - 1) * fh
        lo_y0, lo_y1 = from_line * fh, scroll_height * fh
        blank = bytes(bytearray([back_attr])) * self.cw
        if direction == -1:
            src = [bytes(r) for r in self.canvas[lo_y0:lo_y1]]
            for dst, s in zip(self.canvas[hi_y0:hi_y1], src):
                dst[:] = s
            for dst in self.canvas[hi_y1:lo_y1]:
                dst[:] = blank
            self.text[from_line - 1:scroll_height - 1] = [list(r) for r in self.text[from_line:scroll_height]]
            self.text[scroll_height - 1] = [u' '] * self.tw
        else:
            src = [bytes(r) for r in self.canvas[hi_y0:hi_y1]]
            for dst, s in zip(self.canvas[lo_y0:lo_y1], src):
                dst[:] = s
            for dst in self.canvas[hi_y0:lo_y0]:
                dst[:] = blank
            self.text[from_line:scroll_height] = [list(r) for r in self.text[from_line - 1:scroll_height - 1]]
            self.text[from_line - 1] = [u' '] * self.tw


def diff_screen(ref, pixels, chars):
    """None if the reference display shows exactly `pixels` / `chars`, else a description."""
    if ref.canvas is None:
        return 'no set_mode signal was ever sent'
    if len(pixels) != ref.ch or (pixels and len(pixels[0]) != ref.cw):
        return 'canvas size %dx%d, interpreter reports %dx%d' % (
            ref.cw, ref.ch, len(pixels[0]) if pixels else 0, len(pixels))
    for y, (a, b) in enumerate(zip(pixels, ref.canvas)):
        a = bytes(bytearray(a))
        if a != bytes(b):
            x = next(i for i in range(len(a)) if a[i:i + 1] != bytes(b[i:i + 1]))
            return 'pixel (x=%d,y=%d): display shows %d, interpreter reports %d' % (x, y, b[x], bytearray(a)[x])
    if len(chars) != ref.th:
        return 'text rows: display %d, interpreter %d' % (ref.th, len(chars))
    for r, (a, b) in enumerate(zip(chars, ref.text)):
        if list(a) != list(b):
            c = next(i for i in range(min(len(a), len(b))) if a[i] != b[i]) if len(a) == len(b) else -1
            return 'character (row=%d,col=%d): display shows %r, interpreter reports %r' % (
                r + 1, c + 1, b[c] if c >= 0 else b, a[c] if c >= 0 else a)
    return None


# ---------------------------------------------------------------------------------------------
# buffer level: real VideoBuffer pages of small geometry  <->  Lean model  (+ oracle)

def font_byte(c, i):
    return (c * 37 + i * 101 + (c // 16) * 7) % 256


class BufferRig(object):
    """Real VideoBuffer objects with a real Font (synthetic glyph bytes), colourmap and codepage."""

    # bytes used in DBCS histories: blanks, ASCII that is / is not a trail byte, lead bytes, high trails, non-pairing
    DBCS_ALPHABET = [0x20, 0x41, 0x43, 0x31, 0x7e, 0xb0, 0xc4, 0xa1, 0x81, 0xfe, 0x7f, 0x80, 0xff]

    def __init__(self, dbcs=False):
        from pcbasic.basic.display import font as fontmod
        self.dbcs = dbcs
        if dbcs:
            # codepage 936 (GBK) without box protection: the converter is then the plain lead/trail pairing
            from pcbasic.basic import codepage as read_cp
            self.session = basic.new_session(codepage=read_cp('936'), box_protect=False, video='vga')
        else:
            self.session = basic.new_session()
        disp = self.session._impl.display
        self.codepage = self.session._impl.codepage
        self.colourmap = disp.colourmap          # text-mode colour map: back = (attr >> 4) & 7
        self.fontmod = fontmod
        self.uni = [self.codepage.codepoint_to_unicode(bytes(bytearray([c])), use_substitutes=True)
                    for c in range(256)]
        self.inv = {u: c for c, u in enumerate(self.uni)}
        self.alphabet = None
        if dbcs:
            cp = self.codepage
            assert cp.dbcs and not cp.box_protect
            lead = set(bytearray(b''.join(cp.lead)))
            trail = set(bytearray(b''.join(cp.trail)))
            assert lead == set(range(0x81, 0xff)) and trail == set(range(0x40, 0xff)) - {0x7f}, 'GBK ranges changed'
            # cell codes as in the model: single byte b -> b, pair -> 256*lead+trail, u'' marker -> 65535;
            # keep only alphabet bytes whose cells are told apart by their unicode value
            alpha = list(self.DBCS_ALPHABET)
            while True:
                inv, bad = {u'': 65535}, None
                for b in alpha:
                    u = self.uni[b]
                    if u in inv:
                        bad = b
                        break
                    inv[u] = b
                if bad is None:
                    for l in alpha:
                        for t in alpha:
                            if l in lead and t in trail:
                                u = cp.codepoint_to_unicode(bytes(bytearray([l, t])), use_substitutes=True)
                                if u in inv:
                                    bad = t if t not in (0x20, 0x41) else l
                                    break
                                inv[u] = 256 * l + t
                        if bad is not None:
                            break
                if bad is None:
                    break
                alpha.remove(bad)
            self.inv, self.alphabet = inv, alpha
        self.fonts = {}

    def font(self, fh):
        if fh not in self.fonts:
            fd = {self.uni[c]: bytes(bytearray(font_byte(c, i) for i in range(fh))) for c in range(256)}
            f = self.fontmod.Font(fh, fd, self.codepage)
            f.init_mode(8, fh)
            self.fonts[fh] = f
        return self.fonts[fh]


class FakeQueues(object):
    def __init__(self):
        self.video = RecQueue()


def hexs(bs):
    bs = bytes(bytearray(bs))
    return bs.hex() if bs else '-'


def hex16(codes):
    """cell codes, 4 hex digits each"""
    return ''.join('%04x' % c for c in codes) if codes else '-'


def gen_buffer_history(rng, th, tw, fh, np_, nops, alphabet=None):
    """Valid operation history (protocol words) for the model and the real pages.
    With `alphabet` (DBCS run): bytes come from it, several adjacent cells are often written in one
    `collect_updates` bracket (a string), and there are no pixel writes (graphics modes have no DBCS)."""
    H, W = th * fh, tw * 8
    ops = ['V,%d' % rng.randrange(np_)]
    locked = [False] * np_
    attrs = [7, 0x17, 0x70, 0x1e, 0x47, 0, 0x2f, 0xf4, 0x87]
    for _ in range(nops):
        i = rng.randrange(np_)
        k = rng.random()
        if alphabet and k < 0.45:
            row = rng.choice([1, th, rng.randint(1, th)])
            col = rng.choice([1, tw, tw - 1, rng.randint(1, tw)])
            n = rng.choice([1, 1, 1, 2, 2, 3, 4])
            cells = [(col + j, rng.choice(alphabet)) for j in range(n) if 1 <= col + j <= tw]
            attr = rng.choice(attrs)
            bracket = len(cells) > 1 and not locked[i] and rng.random() < 0.7
            if bracket:
                ops.append('L,%d' % i)
            for cc, ch in cells:
                ops.append('P,%d,%d,%d,%d,%d' % (i, row, cc, ch, attr))
            if bracket:
                ops.append('U,%d' % i)
        elif k < 0.30:
            row = rng.choice([1, th, rng.randint(1, th)])
            col = rng.choice([1, tw, rng.randint(1, tw)])
            ops.append('P,%d,%d,%d,%d,%d' % (i, row, col, rng.choice([32, 65, 0, 255, 219, rng.randrange(256)]),
                                              rng.choice(attrs)))
        elif k < 0.38:
            if locked[i]:
                ops.append('U,%d' % i)
            else:
                ops.append('L,%d' % i)
            locked[i] = not locked[i]
        elif k < 0.46 and not locked[i]:
            a = rng.randint(1, th)
            b = rng.randint(a, th)
            ops.append('C,%d,%d,%d,%d' % (i, a, b, rng.choice(attrs)))
        elif k < 0.52 and not locked[i]:
            ops.append('F,%d,%d,%d,%d' % (i, rng.randint(1, th), rng.choice([1, 2, tw, rng.randint(1, tw)]),
                                           rng.choice(attrs)))
        elif k < 0.72:
            a = rng.randint(1, th)
            b = rng.choice([a, th, rng.randint(a, th)])
            ops.append('%s,%d,%d,%d,%d' % (rng.choice(['SU', 'SD']), i, a, b, rng.choice(attrs)))
        elif k < 0.84 and not alphabet:
            y0 = rng.randrange(H)
            y1 = rng.choice([y0 + 1, H, rng.randint(y0 + 1, H)])
            x0 = rng.randrange(W)
            x1 = rng.choice([x0 + 1, W, rng.randint(x0 + 1, W)])
            data = [rng.choice([0, 1, 3, 15, rng.randrange(256)]) for _ in range((y1 - y0) * (x1 - x0))]
            ops.append('X,%d,%d,%d,%d,%d,%s' % (i, y0, y1, x0, x1, hexs(data)))
        elif k < 0.92:
            ops.append('V,%d' % rng.choice([rng.randrange(np_), np_, np_ + 2]))
        else:
            src = rng.randrange(np_)
            if not locked[src]:       # PCOPY never runs inside collect_updates
                ops.append('Y,%d,%d' % (src, rng.randrange(np_)))
    return ops


def run_buffer_history(rig, th, tw, fh, np_, attr, ops, oracle=None):
    """Drive the real VideoBuffer pages; returns the canonical string the Lean driver prints.
    `oracle(opword, what)` is called when the reference display disagrees with the visible page."""
    from pcbasic.basic.display.buffers import VideoBuffer
    from pcbasic.basic.base.bytematrix import ByteMatrix
    from pcbasic.basic.base import signals
    queues = FakeQueues()
    font = rig.font(fh)
    H, W = th * fh, tw * 8
    dbcs = rig.dbcs
    pxh = (lambda b: '-') if dbcs else hexs      # full-width sprite rendering is not modelled
    pages = [VideoBuffer(queues, H, W, th, tw, rig.colourmap, attr, font, rig.codepage, do_fullwidth=dbcs)
             for _ in range(np_)]
    vnum = 0
    locks = {}
    ref = RefDisplay()
    sig_words = []
    allsig = []

    def emit(items):
        for ev in items:
            allsig.append(ev)
            ref.feed(ev)
            p = ev.params
            if ev.event_type == signals.VIDEO_SET_MODE:
                sig_words.append('M,%d,%d,%d,%d' % tuple(p))
            elif ev.event_type == signals.VIDEO_UPDATE:
                row, col, um, am, y0, x0, sprite = p
                txt = [rig.inv.get(c, 63) for r in um for c in r]
                att = [a for r in am for a in r]
                rows = sprite_rows(sprite)
                sig_words.append('U,%d,%d,%d,%d,%s,%s,%d,%d,%d,%d,%s' % (
                    row, col, len(um), len(um[0]) if um else 0, hex16(txt), hexs(att), y0, x0,
                    len(rows), len(rows[0]) if rows else 0, pxh(b''.join(rows))))
            elif ev.event_type == signals.VIDEO_CLEAR_ROWS:
                sig_words.append('C,%d,%d,%d' % tuple(p))
            elif ev.event_type == signals.VIDEO_SCROLL:
                sig_words.append('S,%d,%d,%d,%d' % tuple(p))

    from pcbasic.basic.base import signals as sg
    emit([sg.Event(sg.VIDEO_SET_MODE, (H, W, th, tw))])
    for w in ops:
        f = w.split(',')
        tag = f[0]
        if tag == 'X':
            i, y0, y1, x0, x1 = map(int, f[1:6])
            data = bytes.fromhex(f[6]) if f[6] != '-' else b''
            pages[i].pixels[y0:y1, x0:x1] = ByteMatrix(y1 - y0, x1 - x0, list(bytearray(data)))
        else:
            a = list(map(int, f[1:]))
            if tag == 'P':
                pages[a[0]].put_char_attr(a[1], a[2], bytes(bytearray([a[3]])), a[4])
            elif tag == 'L':
                cm = pages[a[0]].collect_updates()
                cm.__enter__()
                locks[a[0]] = cm
            elif tag == 'U':
                locks.pop(a[0]).__exit__(None, None, None)
            elif tag == 'C':
                pages[a[0]].clear_rows(a[1], a[2], a[3])
            elif tag == 'F':
                pages[a[0]].clear_row_from(a[1], a[2], a[3])
            elif tag == 'SU':
                pages[a[0]].scroll_up(a[1], a[2], a[3])
            elif tag == 'SD':
                pages[a[0]].scroll_down(a[1], a[2], a[3])
            elif tag == 'V':
                # Display.set_page
                if a[0] < np_:
                    pages[vnum].set_visible(False)
                    pages[a[0]].set_visible(True)
                    vnum = a[0]
            elif tag == 'Y':
                pages[a[1]].copy_from(pages[a[0]])
        emit(queues.video.drain())
        if oracle is not None:
            vp = pages[vnum]
            px = [bytes(bytearray(r)) for r in vp._pixels._rows]
            tx = vp.get_chars(as_type=type(u''))
            locked = vnum in locks
            d = diff_screen(ref, px, tx if not locked else [list(r) for r in ref.text])
            if not d and not locked and not dbcs:
                # the raw character buffer (what get_chars() / SCREEN() report) shows the same characters
                raw = [[rig.uni[ord(c)] for c in r.chars] for r in vp._rows]
                d = diff_screen(ref, px, raw)
                if d:
                    d = 'raw character buffer: ' + d
            if d:
                oracle(w, d)
                oracle = None
    # canonical output
    def page_word(p):
        chars = [ord(c) for r in p._rows for c in r.chars]
        att = [a for r in p._rows for a in r.attrs]
        ut = [rig.inv.get(c, 63) for r in p._dbcs_text for c in r]
        px = b''.join(bytes(bytearray(r)) for r in p._pixels._rows)
        return '%s,%s,%s,%s,%d' % (hexs(chars), hexs(att), hex16(ut), pxh(px), 1 if p._visible else 0)
    page_words = [page_word(p) for p in pages]
    cvpx = pxh(b''.join(bytes(r) for r in ref.canvas))
    cvtx = hex16([rig.inv.get(c, 63) for r in ref.text for c in r])
    # Display.rebuild: mode, then every page resubmits; folded into a fresh reference display
    ref2 = RefDisplay()
    ref2.feed(sg.Event(sg.VIDEO_SET_MODE, (H, W, th, tw)))
    for p in pages:
        p.resubmit()
    for ev in queues.video.drain():
        ref2.feed(ev)
    cv2px = pxh(b''.join(bytes(r) for r in ref2.canvas))
    cv2tx = hex16([rig.inv.get(c, 63) for r in ref2.text for c in r])
    for cm in locks.values():
        cm.__exit__(None, None, None)
    return 'ok %s %d %s %s %s %s %s' % (';'.join(sig_words), vnum, ';'.join(page_words),
                                       cvpx, cvtx, cv2px, cv2tx)


def buffer_level(ctx, nhist):
    rigs = {False: BufferRig(), True: BufferRig(dbcs=True)}
    rng = ctx.rng
    cases, outs, lines = [], [], []
    for n in range(nhist):
        dbcs = n % 3 == 2            # a third of the histories under a double-byte codepage
        rig = rigs[dbcs]
        th, tw, fh = rng.randint(2, 5), rng.randint(2, 6), rng.choice([1, 2, 3, 4])
        if dbcs:
            th, tw = rng.randint(1, 3), rng.randint(3, 8)
        np_ = rng.choice([1, 2, 2, 3])
        attr = rng.choice([7, 0x17, 0x70])
        nops = rng.choice([3, 8, 20, 40])
        ops = gen_buffer_history(rng, th, tw, fh, np_, nops, rig.alphabet)
        case = {'level': 'buffer', 'geom': [th, tw, fh, np_, attr], 'dbcs': dbcs, 'ops': ops}
        ctx.count('buffer-histories:' + ('dbcs' if dbcs else 'sbcs'))

        def oracle(opword, what, case=case):
            ctx.fail('buffer:%s' % opword.split(',')[0], dict(case, at=opword),
                     'VideoBuffer history: after %s the reference display differs from the visible page: %s'
                     % (opword, what))
        try:
            out = run_buffer_history(rig, th, tw, fh, np_, attr, ops, oracle)
        except Exception as e:  # noqa
            out = 'exc %s' % type(e).__name__
            ctx.fail('buffer:exception:%s' % type(e).__name__, case, 'VideoBuffer history raised %r' % (e,))
        for w in ops:
            ctx.case(('buf', n, len(cases), w))
            ctx.count('bufop:' + w.split(',')[0])
        cases.append(case)
        outs.append(out)
        lines.append('run %d %d %d 8 %d %d %d %s' % (th, tw, fh, np_, attr, 1 if dbcs else 0, ';'.join(ops)))
    ctx.compare(cases, outs, lines, label='buffer-history')
    if cases:
        ctx.sample({'buffer_history': lines[0][:300], 'impl': outs[0][:300]})


# ---------------------------------------------------------------------------------------------
# session level: random BASIC histories, reference display after every statement

_FONT_CACHE = {}


def session_kwargs(cfg):
    kw = dict(video=cfg['video'])
    fam = cfg.get('font')
    cpname = cfg.get('codepage', '437')
    if fam:
        if (fam, cpname) not in _FONT_CACHE:
            from pcbasic import data
            cpd = data.read_codepage(cpname)
            _FONT_CACHE[(fam, cpname)] = (cpd, data.read_fonts(cpd, fam.split(',')))
        cpd, fonts = _FONT_CACHE[(fam, cpname)]
        kw.update(codepage=cpd, font=fonts)
    if 'box_protect' in cfg:
        kw['box_protect'] = cfg['box_protect']
    if cfg.get('monitor'):
        kw['monitor'] = cfg['monitor']
    if cfg.get('text_width'):
        kw['text_width'] = cfg['text_width']
    return kw


CONFIGS = [
    dict(video='cga', modes=[0, 1, 2]),
    dict(video='ega', font='vga', modes=[0, 1, 2, 7, 8, 9]),
    dict(video='vga', font='vga', modes=[0, 1, 2, 7, 8, 9]),
    dict(video='tandy', font='tandy2', modes=[0, 1, 2, 3, 4, 5, 6]),
    dict(video='pcjr', font='tandy2', modes=[0, 1, 2, 3, 4, 5, 6]),
    dict(video='hercules', font='cga,mda', modes=[0, 3]),
    dict(video='olivetti', font='cga,olivetti', modes=[0, 1, 2, 3]),
    dict(video='cga', text_width=40, modes=[0, 1]),
    dict(video='mda', font='cga,mda', monitor='mono', modes=[0]),
]


def rand_text(rng, width):
    n = rng.choice([0, 1, 3, 10, width - 1, width, width + 1, 2 * width + 3, rng.randint(0, 3 * width)])
    alphabet = 'ABCxyz 0123#@'
    return ''.join(rng.choice(alphabet) for _ in range(n))


def rand_page(rng):
    """page numbers: the low ones every mode has, and high ones only some modes have (40-column text: 8 pages)"""
    return rng.choice([0, 0, 1, 1, 2, 3, rng.randrange(8)])


def gen_statement(rng, st):
    """One BASIC statement (class label, text).  `st` tracks a guess of mode/width for realistic coordinates;
    statements that turn out illegal simply print an error message (which is text output, too)."""
    mode, width = st['mode'], st['width']
    graphics = mode != 0
    k = rng.random()
    if k < 0.22:
        s = rand_text(rng, width)
        end = rng.choice(['', ';', ',', ''])
        return 'print', 'PRINT "%s"%s' % (s, end)
    if k < 0.30:
        n = rng.choice([1, 3, 24, 26, 30, 60])
        return 'print-loop', 'FOR I=1 TO %d:PRINT I%s:NEXT' % (n, rng.choice(['', ';', ',']))
    if k < 0.36:
        c = rng.choice([10, 13, 12, 11, 28, 29, 30, 31, 9, 8, 0, 255, 219, 1, 14])
        return 'print-ctrl', 'PRINT "AB";CHR$(%d);"CD"%s' % (c, rng.choice(['', ';']))
    if k < 0.44:
        if graphics and mode == 1:
            return 'color', 'COLOR %d,%d' % (rng.randrange(16), rng.randrange(4))
        return 'color', 'COLOR %d,%d%s' % (rng.randrange(32), rng.randrange(8),
                                            rng.choice(['', '', ',%d' % rng.randrange(16)]))
    if k < 0.50:
        return 'cls', rng.choice(['CLS', 'CLS', 'CLS 0', 'CLS 1', 'CLS 2'])
    if k < 0.58:
        return 'locate', 'LOCATE %d,%d' % (rng.choice([1, 24, 25, rng.randint(1, 25)]),
                                            rng.choice([1, width, rng.randint(1, width)]))
    if k < 0.63:
        a = rng.randint(1, 24)
        b = rng.choice([a, 24, rng.randint(a, 24), 25])
        return 'view-print', rng.choice(['VIEW PRINT %d TO %d' % (a, b), 'VIEW PRINT %d TO %d' % (a, b), 'VIEW PRINT'])
    if k < 0.66:
        return 'key', rng.choice(['KEY ON', 'KEY OFF'])
    if k < 0.71:
        m = rng.choice(st['modes'])
        st['mode'] = m
        st['width'] = {0: st['width'] if st['width'] in (40, 80) else 80, 1: 40, 2: 80, 3: 80 if st['video'] in (
            'hercules', 'olivetti') else 20, 4: 40, 5: 40, 6: 80, 7: 40, 8: 80, 9: 80}.get(m, 80)
        if rng.random() < 0.4:
            # all four arguments: a mode change that names its pages (the page list is rebuilt while
            # the old active/visible page numbers may lie beyond the new mode's page count)
            st['cs'] = rng.randrange(2)
            return 'screen-full', 'SCREEN %d,%d,%d,%d' % (m, st['cs'], rand_page(rng), rand_page(rng))
        st['cs'] = 0        # an omitted colorswitch is taken as 0
        return 'screen', 'SCREEN %d' % m
    if k < 0.76:
        # page switches keep the mode only if the colorswitch is repeated (an omitted one counts as 0)
        a, v = rand_page(rng), rand_page(rng)
        cs = st.get('cs', 1) if rng.random() < 0.85 else ''
        if cs == '':
            st['cs'] = 0
        return 'screen-page', rng.choice(['SCREEN ,%s,%d,%d' % (cs, a, v), 'SCREEN ,%s,%d' % (cs, a),
                                          'SCREEN ,%s,,%d' % (cs, v), 'SCREEN ,%s,0,0' % cs])
    if k < 0.79:
        w = rng.choice([40, 80])
        if not graphics:
            st['width'] = w
        return 'width', 'WIDTH %d' % w
    if k < 0.82:
        return 'pcopy', 'PCOPY %d,%d' % (rand_page(rng), rand_page(rng))
    if k < 0.87:
        # typed input echoed by the line editor (wraps at the right border and scrolls the rows below DOWN)
        return 'input', '@keys=%d@LOCATE %d,%d:INPUT A$' % (rng.choice([0, 3, 15, 30, 90]), rng.randint(1, 24),
                                                            rng.choice([1, width - 8, width - 2, rng.randint(1, width)]))
    if k < 0.89 and not graphics:
        off = rng.choice([0, 1, 158, 160, rng.randrange(4000)])
        return 'poke', 'DEF SEG=&H%s:POKE %d,%d:DEF SEG' % ('B000' if st['video'] in ('mda', 'hercules') else 'B800',
                                                         off, rng.randrange(256))
    # graphics statements (in text mode they print Illegal function call)
    xm, ym = {1: (320, 200), 2: (640, 200), 3: (720, 348) if st['video'] == 'hercules' else (640, 400)
              if st['video'] == 'olivetti' else (160, 200), 4: (320, 200), 5: (320, 200), 6: (640, 200),
              7: (320, 200), 8: (640, 200), 9: (640, 350)}.get(mode, (320, 200))
    x, y = rng.randint(-5, xm + 5), rng.randint(-5, ym + 5)
    x2, y2 = rng.randint(0, xm - 1), rng.randint(0, ym - 1)
    c = rng.randrange(16)
    g = rng.random()
    if g < 0.2:
        return 'pset', 'PSET (%d,%d),%d' % (x, y, c)
    if g < 0.45:
        return 'line', 'LINE (%d,%d)-(%d,%d),%d%s' % (x, y, x2, y2, c, rng.choice(['', ',B', ',BF']))
    if g < 0.6:
        return 'circle', 'CIRCLE (%d,%d),%d,%d' % (x2, y2, rng.choice([1, 10, 50, 200]), c)
    if g < 0.7:
        return 'paint', 'PAINT (%d,%d),%d' % (x2, y2, c)
    if g < 0.82:
        w, h = rng.randint(1, 12), rng.randint(1, 10)
        return 'getput', 'DIM A%%(200):GET (%d,%d)-(%d,%d),A%%:PUT (%d,%d),A%%,%s:ERASE A%%' % (
            min(x2, xm - 13), min(y2, ym - 11), min(x2, xm - 13) + w, min(y2, ym - 11) + h,
            rng.randint(0, xm - 14), rng.randint(0, ym - 12), rng.choice(['XOR', 'PSET', 'OR', 'AND', 'PRESET']))
    if g < 0.9:
        return 'draw', 'DRAW "BM%d,%d C%d U9 R12 D7 L5 E4"' % (x2, y2, c % 4)
    return 'view', rng.choice(['VIEW (%d,%d)-(%d,%d),%d,%d' % (min(x2, xm - 30), min(y2, ym - 30), min(x2, xm - 30) + 25,
                                                          min(y2, ym - 30) + 20, c % 4, (c + 1) % 4),
                               'VIEW', 'WINDOW (0,0)-(100,100)', 'WINDOW'])


def gen_history(rng, cfg, n):
    st = dict(mode=0, width=cfg.get('text_width', 80), modes=cfg['modes'], video=cfg['video'])
    hist = []
    # histories often start by entering a mode and a colour, so that scrolling with a background is common
    if rng.random() < 0.7:
        m = rng.choice(cfg['modes'])
        st['mode'] = m
        st['width'] = {1: 40, 4: 40, 5: 40, 7: 40}.get(m, st['width'] if m == 0 else 80)
        st['cs'] = 0
        hist.append(('screen', 'SCREEN %d' % m))
    if rng.random() < 0.6:
        hist.append(('color', 'COLOR %d,%d' % (rng.randrange(16), rng.randrange(1, 8))))
    while len(hist) < n:
        hist.append(gen_statement(rng, st))
    return hist


class SessionRun(object):
    """A real Session with the recording queue and the reference display attached."""

    def __init__(self, cfg):
        self.cfg = cfg
        self.session = basic.new_session(**session_kwargs(cfg))
        self.queue = RecQueue()
        self.ref = RefDisplay()
        self.attach(self.session)

    def attach(self, session):
        session._impl.queues.video = self.queue
        # what attaching an interface does (Implementation.attach_interface): rebuild the screen
        session._impl.display.rebuild()
        self.pump()

    def pump(self):
        n = 0
        from pcbasic.basic.base import signals
        for ev in self.queue.drain():
            self.ref.feed(ev)
            if ev.event_type in (signals.VIDEO_UPDATE, signals.VIDEO_CLEAR_ROWS, signals.VIDEO_SCROLL,
                                 signals.VIDEO_SET_MODE):
                n += 1
        return n

    def check(self):
        s = self.session
        return diff_screen(self.ref, s.get_pixels(), s.get_chars(as_type=type(u'')))

    def check_bytes(self):
        """the raw characters (get_chars as bytes) against the display's text through the codepage"""
        s = self.session
        if getattr(self, '_uni_of', None) is None or self._uni_cp is not s._impl.codepage:
            cp = self._uni_cp = s._impl.codepage
            self._uni_of = {bytes(bytearray([c])): cp.codepoint_to_unicode(bytes(bytearray([c])), use_substitutes=True)
                            for c in range(256)}
        uni = self._uni_of
        raw = s.get_chars()
        for r, (row, trow) in enumerate(zip(raw, self.ref.text)):
            if [uni[b] for b in row] != list(trow):
                c = next(i for i, (b, u) in enumerate(zip(row, trow)) if uni[b] != u)
                return 'character (row=%d,col=%d): display shows %r, interpreter reports byte %r' % (
                    r + 1, c + 1, trow[c], row[c])
        return None

    def check_rebuild(self):
        """Display.rebuild folded into a FRESH reference display must reproduce the screen"""
        s = self.session
        fresh = RefDisplay()
        s._impl.display.rebuild()
        for ev in self.queue.items:
            fresh.feed(ev)
        self.pump()
        return diff_screen(fresh, s.get_pixels(), s.get_chars(as_type=type(u'')))


def run_history(ctx, cfg, hist, report, tmpdir=None, resume_at=()):
    """Execute the history; after every statement compare.  report(kind, index, label, what)."""
    run = SessionRun(cfg)
    d = run.check()
    if d:
        report('initial', -1, 'start', d)
        return
    for idx, (label, stmt) in enumerate(hist):
        if stmt.startswith('@keys='):
            nkeys, stmt = stmt[6:].split('@', 1)
            run.session.press_keys(u'k' * int(nkeys) + u'\r')
        out = basic.safe_exec(run.session, stmt.encode('latin-1'))
        if out.startswith(b'<<EXC'):
            ctx.count('host-exception:' + out.decode('latin-1'))
            return
        nsig = run.pump()
        ctx.case((cfg['video'], idx, stmt))
        ctx.count('stmt:' + label)
        ctx.count('nontrivial' if nsig else 'no-signal')
        d = run.check()
        if d:
            report('screen', idx, label, d)
            return
        # cell-by-cell comparison of the raw bytes only means something for single-byte codepages
        d = None if run.session._impl.codepage.dbcs else run.check_bytes()
        if d:
            report('chars', idx, label, d)
            return
        if label in ('screen', 'screen-full', 'screen-page', 'pcopy', 'width') or idx % 7 == 6:
            d = run.check_rebuild()
            ctx.count('rebuild-checks')
            if d:
                report('rebuild', idx, label, d)
                return
        if idx in resume_at and tmpdir:
            # a resumed session redraws: suspend, resume, attach a fresh display
            path = os.path.join(tmpdir, 'state.bin')
            before_px = run.session.get_pixels()
            before_tx = run.session.get_chars(as_type=type(u''))
            try:
                from pcbasic.basic import Session
                run.session.suspend(path)
                resumed = Session.resume(path)
            except Exception as e:  # noqa   (pickling trouble is C40's business)
                ctx.count('resume-skipped:' + type(e).__name__)
                continue
            if resumed is None:
                ctx.count('resume-skipped:none')
                continue
            run.session = resumed
            run.queue = RecQueue()
            run.ref = RefDisplay()
            run.attach(resumed)
            ctx.count('resume-checks')
            d = run.check()
            if not d and (resumed.get_pixels() != before_px or resumed.get_chars(as_type=type(u'')) != before_tx):
                d = 'the resumed session reports a different screen than the suspended one'
            if d:
                report('resume', idx, label, d)
                return
    for name, cnt in run.ref.kinds.items():
        ctx.count('signal:' + name, cnt)


def shrink(ctx, cfg, hist, key_kind, budget=25):
    """Shortest failing prefix, then greedy removal of single statements (bounded)."""
    def fails(h):
        res = []
        run_history(Quiet(ctx), cfg, h, lambda kind, idx, label, what: res.append((kind, idx, label, what)))
        return res[0] if res else None
    best = hist
    i = 0
    while i < len(best) - 1 and budget > 0:
        cand = best[:i] + best[i + 1:]
        budget -= 1
        r = fails(cand)
        if r and r[0] == key_kind:
            best = cand
        else:
            i += 1
    return best


class Quiet(object):
    """ctx stand-in that keeps the PRNG and swallows bookkeeping"""
    def __init__(self, ctx):
        self.rng = ctx.rng

    def count(self, *a, **k):
        pass

    def case(self, *a, **k):
        pass


def session_level(ctx, nhist, nstmt):
    rng = ctx.rng
    tmpdir = tempfile.mkdtemp(prefix='pcbv_c35_')
    try:
        for n in range(nhist):
            cfg = CONFIGS[n % len(CONFIGS)] if n < len(CONFIGS) else rng.choice(CONFIGS)
            hist = gen_history(rng, cfg, nstmt)
            ctx.count('adapter:' + cfg['video'])
            found = []

            def report(kind, idx, label, what):
                found.append((kind, idx, label, what))
            resume_at = (rng.randrange(len(hist)),) if n % 3 == 0 else ()
            run_history(ctx, cfg, hist, report, tmpdir, resume_at)
            if found:
                kind, idx, label, what = found[0]
                prefix = hist[:idx + 1]
                if kind in ('screen', 'chars', 'rebuild'):
                    prefix = shrink(ctx, cfg, prefix, kind)
                ctx.fail('%s:%s' % (kind, label),
                         {'level': 'session', 'cfg': {k: v for k, v in cfg.items()}, 'history': prefix,
                          'resume_at': list(resume_at) if kind == 'resume' else []},
                         '%s (%s): after %s the display that applies the emitted video signals differs from the '
                         'interpreter: %s' % (cfg['video'], kind, ' : '.join(s for _, s in prefix[-4:]), what))
            if n == 0:
                ctx.sample({'cfg': cfg['video'], 'history': [s for _, s in hist[:8]]})
    finally:
        shutil.rmtree(tmpdir, ignore_errors=True)


# ---------------------------------------------------------------------------------------------
# mode changes between modes with DIFFERENT page counts while the active/visible page number is high

def mode_states(cfg):
    """(mode, text width or None) states of an adapter; text mode counts once per width (8 vs 4 pages)"""
    res = []
    for m in cfg['modes']:
        if m == 0:
            res += [(0, 40), (0, 80)]
        else:
            res.append((m, None))
    return res


def enter_state(state, page, two_step, rng):
    """statements that end in `state` with active = visible = `page` (illegal ones just print an error)"""
    m, w = state
    cs = 1 if m == 0 else 0
    out = []
    if m == 0:
        out.append(('screen-full', 'SCREEN 0,%d,0,0' % cs))
        out.append(('width', 'WIDTH %d' % w))
    if two_step or m == 0:
        if m != 0:
            out.append(('screen-full', 'SCREEN %d,%d,0,0' % (m, cs)))
        out.append(('screen-page', 'SCREEN ,%d,%d,%d' % (cs, page, page)))
    else:
        out.append(('screen-full', 'SCREEN %d,%d,%d,%d' % (m, cs, page, page)))
    return out, cs


def page_count_history(rng, cfg, a_state, b_state, page):
    hist, cs = enter_state(a_state, page, rng.random() < 0.5, rng)
    hist.append(('print', 'PRINT "PAGE %d OF %s"' % (page, a_state[0])))
    if rng.random() < 0.5:
        hist.append(('color', 'COLOR %d,%d' % (rng.randrange(1, 16), rng.randrange(8))))
    if rng.random() < 0.3:
        hist.append(('pcopy', 'PCOPY %d,%d' % (page, rng.choice([0, 1, page]))))
    # the transition: the page list is rebuilt; pages are given explicitly (WIDTH always passes 0,0)
    bm, bw = b_state
    bcs = 1 if bm == 0 else 0
    low = rng.choice([(0, 0), (0, 0), (1, 1), (0, 1), (1, 0)])
    if bm == 0 and a_state[0] == 0:
        hist.append(('width', 'WIDTH %d' % bw))
    elif bm == 0:
        hist.append(('screen-full', 'SCREEN 0,%d,%d,%d' % (bcs, low[0], low[1])))
        hist.append(('width', 'WIDTH %d' % bw))
    else:
        hist.append(('screen-full', 'SCREEN %d,%d,%d,%d' % (bm, bcs, low[0], low[1])))
    # text and graphics output afterwards, compared after every statement
    hist.append(('print', 'PRINT "AFTER THE SWITCH"'))
    hist.append(('locate', 'LOCATE %d,%d' % (rng.randint(2, 20), rng.randint(1, 15))))
    hist.append(('print', 'PRINT "%s";' % rand_text(rng, 40)))
    hist.append(('line', 'LINE (%d,%d)-(%d,%d),%d,B' % (rng.randrange(100), rng.randrange(100), rng.randrange(150),
                                                    rng.randrange(150), rng.randrange(1, 4))))
    hist.append(('color', 'COLOR %d,%d' % (rng.randrange(1, 16), rng.randrange(1, 4))))
    hist.append(('cls', 'CLS'))
    hist.append(('print-loop', 'FOR I=1 TO 26:PRINT I:NEXT'))
    hist.append(('screen-page', 'SCREEN ,%d,0,0' % bcs))
    hist.append(('print', 'PRINT "PAGE ZERO"'))
    return hist


def page_count_level(ctx, nrandom, all_pairs):
    rng = ctx.rng
    for ci, cfg in enumerate(CONFIGS):
        states = mode_states(cfg)
        plans = []
        if all_pairs:
            for a in states:
                for b in states:
                    if a != b:
                        for page in (rng.choice([1, 2, 3]), rng.choice([4, 5, 6, 7])):
                            plans.append((a, b, page))
        else:
            # the deterministic core: from 40-column text (8 pages) on a page 80-column text does not have,
            # and from a high text page into every graphics mode of the adapter
            if (0, 40) in states and (0, 80) in states:
                plans.append(((0, 40), (0, 80), rng.choice([4, 5, 6, 7])))
            text = (0, 80) if (0, 80) in states else states[0]
            for b in states:
                if b[0] != 0:
                    plans.append((text, b, rng.choice([1, 2, 3])))
        for _ in range(nrandom):
            a, b = rng.choice(states), rng.choice(states)
            plans.append((a, b, rng.choice([1, 2, 3, 5, 7])))
        for a, b, page in plans:
            hist = page_count_history(rng, cfg, a, b, page)
            ctx.count('page-count-histories')
            found = []
            run_history(ctx, cfg, hist, lambda kind, idx, label, what: found.append((kind, idx, label, what)))
            if found:
                kind, idx, label, what = found[0]
                prefix = hist[:idx + 1]
                if kind in ('screen', 'chars', 'rebuild'):
                    prefix = shrink(ctx, cfg, prefix, kind, budget=12)
                ctx.fail('%s:%s' % (kind, label),
                         {'level': 'session', 'cfg': dict(cfg), 'history': prefix, 'resume_at': []},
                         '%s (%s): mode change %s -> %s from page %d; after %s the display that applies the emitted '
                         'video signals differs from the interpreter: %s'
                         % (cfg['video'], kind, a, b, page, ' : '.join(s for _, s in prefix[-4:]), what))


# ---------------------------------------------------------------------------------------------
# text histories under double-byte codepages (DBCS text needs a 14/16-pixel font: ega / vga)

DBCS_CODEPAGES = ['936', '932', '949', '950']


def dbcs_config(cpname, video, box_protect):
    return dict(video=video, font='vga', codepage=cpname, box_protect=box_protect, modes=[0])


def codepage_bytes(cfg):
    """(lead bytes, trail bytes that are printable ASCII, high trail bytes, neither) of the configured codepage"""
    s = basic.new_session(**session_kwargs(cfg))
    cp = s._impl.codepage
    lead = sorted(bytearray(b''.join(cp.lead)))
    trail = sorted(bytearray(b''.join(cp.trail)))
    s.close()
    return dict(lead=lead, atrail=[b for b in trail if 0x41 <= b < 0x7f], htrail=[b for b in trail if b >= 0x80],
                plain=[b for b in range(0x30, 0x3a)] + [0x20])


def chr_list(bs):
    return ';'.join('CHR$(%d)' % b for b in bs)


def dbcs_fragment(rng, cb):
    """a short byte string: ASCII, lone lead, lone trail, complete character, and mixtures"""
    k = rng.random()
    lead, at, ht, plain = cb['lead'], cb['atrail'], cb['htrail'], cb['plain']
    if k < 0.2:
        return [rng.choice(lead)]                                   # lone lead byte
    if k < 0.35:
        return [rng.choice(at + ht)]                                # lone (possible) trail byte
    if k < 0.55:
        return [rng.choice(lead), rng.choice(at + ht)]              # a complete double-byte character
    if k < 0.7:
        return [rng.choice(at) for _ in range(rng.randint(1, 5))]   # ASCII that can serve as trail bytes
    if k < 0.8:
        return [rng.choice(plain) for _ in range(rng.randint(1, 3))]
    n = rng.randint(2, 6)
    return [rng.choice(rng.choice([lead, at, ht, plain])) for _ in range(n)]


def dbcs_history(rng, cb, nstmt, width=80):
    """text written at arbitrary columns over existing text on a few rows: halves of characters are
    overwritten, new pairs arise from a written lead + an existing trail and vice versa, also at the row end"""
    rows = [rng.randint(1, 23) for _ in range(2)]
    hist = []
    if rng.random() < 0.5:
        hist.append(('color', 'COLOR %d,%d' % (rng.randrange(1, 16), rng.randrange(8))))
    while len(hist) < nstmt:
        k = rng.random()
        row = rng.choice(rows)
        col = rng.choice([rng.randint(1, 10), rng.randint(1, 10), rng.randint(1, 10), width - 2, width - 1, width,
                          rng.randint(1, width)])
        if k < 0.72:
            frag = dbcs_fragment(rng, cb)
            hist.append(('dbcs-print', 'LOCATE %d,%d:PRINT %s;' % (row, col, chr_list(frag))))
        elif k < 0.78:
            hist.append(('color', 'COLOR %d,%d' % (rng.randrange(1, 16), rng.randrange(8))))
        elif k < 0.84:
            # the key line and logical-line clearing rebuild whole rows of the unicode buffer
            hist.append(('key', rng.choice(['KEY ON', 'KEY OFF'])))
        elif k < 0.9:
            hist.append(('dbcs-scroll', 'LOCATE 23,1:PRINT %s:PRINT %s' % (chr_list(dbcs_fragment(rng, cb)),
                                                                         chr_list(dbcs_fragment(rng, cb)))))
            rows = [max(1, r - rng.choice([0, 1, 2])) for r in rows]
        elif k < 0.94:
            hist.append(('cls', 'CLS'))
        elif k < 0.97:
            hist.append(('pcopy', rng.choice(['PCOPY 0,1', 'SCREEN ,1,1,0', 'SCREEN ,1,0,0', 'SCREEN ,1,1,1'])))
        else:
            width = rng.choice([40, 80])
            hist.append(('width', 'WIDTH %d' % width))
    return hist


def dbcs_core_history(rng, cb):
    """deterministic core: a run of ASCII trail-capable letters, then a lone lead byte written at each
    column in front of / inside / behind it, and a lone trail written behind an existing lone lead"""
    hist = []
    row = 2
    for col in (1, 2, 3, 4, 5):
        letters = [rng.choice(cb['atrail']) for _ in range(4)]
        hist.append(('dbcs-print', 'LOCATE %d,2:PRINT %s;' % (row, chr_list(letters))))
        hist.append(('dbcs-print', 'LOCATE %d,%d:PRINT %s;' % (row, col, chr_list([rng.choice(cb['lead'])]))))
        hist.append(('dbcs-print', 'LOCATE %d,%d:PRINT %s;' % (row, col + 1, chr_list([rng.choice(cb['htrail'])]))))
        hist.append(('dbcs-print', 'LOCATE %d,%d:PRINT %s;' % (row, col, chr_list([rng.choice(cb['plain'])]))))
        row += 1
    # a complete character, then each half rewritten unchanged in another colour (the redraw must take the
    # whole character), then each half replaced
    for col in (1, 10):
        l, t = rng.choice(cb['lead']), rng.choice(cb['atrail'] + cb['htrail'])
        hist.append(('dbcs-print', 'LOCATE 8,%d:PRINT %s;' % (col, chr_list([65, l, t, 66]))))
        hist.append(('color', 'COLOR %d,%d' % (rng.randrange(9, 16), rng.randrange(1, 8))))
        hist.append(('dbcs-print', 'LOCATE 8,%d:PRINT %s;' % (col + 1, chr_list([l]))))
        hist.append(('color', 'COLOR %d,%d' % (rng.randrange(1, 8), rng.randrange(1, 8))))
        hist.append(('dbcs-print', 'LOCATE 8,%d:PRINT %s;' % (col + 2, chr_list([t]))))
        hist.append(('dbcs-print', 'LOCATE 8,%d:PRINT %s;' % (col + 1, chr_list([rng.choice(cb['plain'])]))))
    hist.append(('dbcs-print', 'LOCATE 9,79:PRINT %s;' % chr_list([rng.choice(cb['atrail']), rng.choice(cb['atrail'])])))
    hist.append(('dbcs-print', 'LOCATE 9,78:PRINT %s;' % chr_list([rng.choice(cb['lead'])])))
    hist.append(('dbcs-print', 'LOCATE 9,80:PRINT %s;' % chr_list([rng.choice(cb['lead'])])))
    return hist


def dbcs_level(ctx, nrandom, nstmt):
    rng = ctx.rng
    plans = []
    for i, cpname in enumerate(DBCS_CODEPAGES):
        # the core once per codepage (adapter and box protection alternate), random histories on top
        plans.append((dbcs_config(cpname, 'vga' if i % 2 == 0 else 'ega', i % 2 == 1), True))
    for _ in range(nrandom):
        plans.append((dbcs_config(rng.choice(DBCS_CODEPAGES), rng.choice(['vga', 'ega']), rng.random() < 0.5), False))
    cbs = {}
    for cfg, core in plans:
        if cfg['codepage'] not in cbs:
            cbs[cfg['codepage']] = codepage_bytes(cfg)
        cb = cbs[cfg['codepage']]
        hist = dbcs_core_history(rng, cb) if core else []
        hist += dbcs_history(rng, cb, nstmt)
        ctx.count('dbcs-histories:%s' % cfg['codepage'])
        found = []
        run_history(ctx, cfg, hist, lambda kind, idx, label, what: found.append((kind, idx, label, what)))
        if found:
            kind, idx, label, what = found[0]
            prefix = hist[:idx + 1]
            if kind in ('screen', 'rebuild'):
                prefix = shrink(ctx, cfg, prefix, kind, budget=30)
            ctx.fail('%s:%s' % (kind, label),
                     {'level': 'session', 'cfg': dict(cfg), 'history': prefix, 'resume_at': []},
                     '%s codepage %s%s (%s): after %s the display that applies the emitted video signals differs '
                     'from the interpreter: %s' % (cfg['video'], cfg['codepage'], '' if cfg['box_protect'] else ':nobox',
                                                   kind, ' : '.join(s for _, s in prefix[-3:]), what))


# boundary histories from the design (D12 and its single-row variant, page switches, key bar, wrapping)
FIXED_HISTORIES = [
    (0, ['SCREEN 0', 'COLOR 7,1', 'CLS', 'FOR I=1 TO 30:PRINT I:NEXT']),
    (0, ['COLOR 14,4', 'VIEW PRINT 5 TO 5', 'PRINT "ABC"', 'PRINT "DEF"', 'VIEW PRINT', 'PRINT "X"']),
    (0, ['COLOR 7,2', 'KEY ON', 'FOR I=1 TO 26:PRINT STRING$(81,65):NEXT', 'KEY OFF', 'LOCATE 25,1', 'PRINT "Z";']),
    (0, ['SCREEN 1', 'COLOR 1,1', 'LINE (0,0)-(100,100),2,BF', 'FOR I=1 TO 26:PRINT I:NEXT', 'CLS 1']),
    (1, ['SCREEN 0,1', 'COLOR 1,3', 'SCREEN ,1,1,0', 'PRINT "HIDDEN"', 'FOR I=1 TO 30:PRINT I:NEXT', 'SCREEN ,1,1,1',
         'PCOPY 1,0', 'SCREEN ,1,0,0', 'PCOPY 1,0']),
    (1, ['SCREEN 0,1', 'PRINT "HELLO"', 'PCOPY 0,1', 'SCREEN ,1,1,0', 'CLS', 'PRINT "ON PAGE 1"', 'SCREEN ,1,0,0']),
    (0, ['PRINT "HELLO"', 'PCOPY 0,1', 'SCREEN ,1,1,0', 'CLS', 'SCREEN ,1,0,0', 'SCREEN ,1,1,1']),
    (1, ['SCREEN 9,1', 'COLOR 3,1', 'FOR I=1 TO 30:PRINT I:NEXT', 'CIRCLE (320,175),100,2', 'PAINT (320,175),4,2',
         'SCREEN 9,1,1,0', 'LINE (0,0)-(639,349),5', 'SCREEN 9,1,1,1', 'PCOPY 1,0', 'SCREEN 9,1,0,0']),
    (3, ['SCREEN 0', 'WIDTH 40', 'COLOR 0,7', 'FOR I=1 TO 50:PRINT "0123456789";:NEXT', 'WIDTH 80', 'PRINT "A"']),
    (0, ['COLOR 7,1', 'FOR I=1 TO 23:PRINT I:NEXT', '@keys=25@LOCATE 3,70:INPUT A$', '@keys=100@LOCATE 20,75:INPUT A$']),
    (5, ['SCREEN 3', 'FOR I=1 TO 30:PRINT I:NEXT', 'LINE (0,0)-(719,347),1', 'LOCATE 25,1', 'PRINT "XYZ";', 'CLS']),
]


def fixed_level(ctx):
    for ci, stmts in FIXED_HISTORIES:
        cfg = CONFIGS[ci]
        hist = [(s.split('@')[-1].split()[0].lower(), s) for s in stmts]
        found = []
        run_history(ctx, cfg, hist, lambda kind, idx, label, what: found.append((kind, idx, label, what)))
        if found:
            kind, idx, label, what = found[0]
            ctx.fail('%s:%s' % (kind, label),
                     {'level': 'session', 'cfg': dict(cfg), 'history': hist[:idx + 1], 'resume_at': []},
                     '%s (%s): after %s the display differs from the interpreter: %s'
                     % (cfg['video'], kind, ' : '.join(stmts[:idx + 1][-4:]), what))


def run(ctx):
    fixed_level(ctx)
    ctx.log('fixed histories done')
    buffer_level(ctx, 250 if ctx.quick else 4000)
    ctx.log('buffer-level histories done')
    dbcs_level(ctx, 4 if ctx.quick else 60, 25 if ctx.quick else 80)
    ctx.log('double-byte codepage histories done')
    page_count_level(ctx, 1 if ctx.quick else 6, not ctx.quick)
    ctx.log('page-count histories done')
    if ctx.quick:
        session_level(ctx, 27, 45)
    else:
        session_level(ctx, 90, 120)


def replay(ctx, payload):
    case = payload.get('case', {})
    found = []
    if case.get('level') == 'buffer':
        rig = BufferRig(dbcs=bool(case.get('dbcs')))
        th, tw, fh, np_, attr = case['geom']
        run_buffer_history(rig, th, tw, fh, np_, attr, case['ops'], lambda w, what: found.append(
            'VideoBuffer history: after %s the reference display differs from the visible page: %s' % (w, what)))
        return found[0] if found else None
    if case.get('level') == 'session':
        hist = [tuple(x) for x in case['history']]
        tmpdir = tempfile.mkdtemp(prefix='pcbv_c35_')
        try:
            run_history(Quiet(ctx), case['cfg'], hist,
                        lambda kind, idx, label, what: found.append('%s (%s) after %s: %s' % (
                            case['cfg']['video'], kind, hist[idx][1] if idx >= 0 else 'start', what)),
                        tmpdir, tuple(case.get('resume_at', ())))
        finally:
            shutil.rmtree(tmpdir, ignore_errors=True)
        return found[0] if found else None
    return None
