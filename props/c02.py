"""C02 — Integer operators follow 16-bit two's-complement semantics."""
import struct

from vlib import basic, translated

LEVEL = 'proof'
RULE = ('operand pairs from a boundary set (powers of two +-1, byte-carry 255/256, sign boundaries) crossed with '
        'itself, plus PRNG pairs; each (operator, a, b) is one case; non-trivial = not both operands zero; '
        'FOR loops with start/stop/step near the limits run through the real interpreter; FOR loops whose start / '
        'limit / step are literals, scalars or array elements (of the counter\'s type and of the other numeric types) '
        'that the loop body or a GOSUB from it assigns to while the loop runs')
EXPLANATION = ('theorems: iadd/isub/ineg/iabs/idiv/imod/bitwise/gt/eq specs over all 16-bit patterns '
               '(PcbV.Props.C02); correspondence: Integer methods, values.* operators and Session-level '
               'PRINT / FOR compared with the Lean model; oracle: Python int two\'s-complement arithmetic'
               '; the FOR record holds the operand values of the moment FOR was executed (for_operands_captured: '
               'the run is a function of those three values, so later assignments to the operand variables '
               'cannot show)'
               '; source tie: the arithmetic of Integer.idiv_int / imod behind the zero test is translated '
               'mechanically from the current Python AST into PcbV.Gen.Translated.idivCore / imodCore '
               '(gen/py2lean.py), proved equal to the model (translated_idiv_eq, translated_imod_eq) and compared '
               'with the real methods (vlib/translated.py)'
               '; source tie, part 2: the byte-level code of Integer.ineg / iadd / gt is translated mechanically '
               '(PcbV.Gen.Translated.inegCore / iaddCore / igtCore), proved equal to the model on all 16-bit '
               'patterns (translated_ineg_eq, translated_iadd_eq, translated_igt_eq) and compared with the real '
               'methods')
TRUSTED_BASE = ['model PcbV.Model.IntOps is a hand transcription of numbers.py:Integer and values.py bitwise operators',
                'translator gen/py2lean.py + PcbV.PyInt (Python int semantics of // % abs and ^ & | in Lean), validated by '
                'vlib/translated.py against the real idiv_int / imod and Python\'s own operators; it covers these two '
                'methods only',
                'for ineg / iadd / gt the translator glue (gen/tables_py2lean.py) fixes the conventions: buffer bytes '
                'as parameters, the stored byte pair as lo+256*hi, raise OVERFLOW as -6']
ASSUMPTIONS = ['struct.pack/unpack <h/<H behave as documented']


def s16(w):
    return w - 65536 if w >= 32768 else w


def boundary_values():
    vals = set()
    for k in range(17):
        for d in (-2, -1, 0, 1, 2):
            vals.add(((1 << k) + d) & 0xffff)
            vals.add((-(1 << k) + d) & 0xffff)
    for v in (0, 1, 2, 3, 7, 9, 10, 100, 255, 256, 257, 0x7f, 0x80, 0x81, 0xff00, 0x00ff, 0x7fff, 0x8000, 0x8001,
              0xffff, 0xfffe, 30000, 35536, 0x1234, 0xedcb, 0x5555, 0xaaaa, 0x7f00, 0x80ff, 0x7eff, 0xfeff):
        vals.add(v)
    return sorted(vals)


def trunc_div(a, b):
    q = abs(a) // abs(b)
    return q if (a >= 0) == (b >= 0) else -q


def oracle(op, a, b):
    """Expected ('ok', pattern) / ('err', n) from the property statement, on signed values."""
    x, y = s16(a), (s16(b) if b is not None else None)
    if op == 'idiv':
        if y == 0:
            return ('err', 11)
        q = trunc_div(x, y)
        return ('ok', q & 0xffff) if -32768 <= q <= 32767 else ('err', 6)
    if op == 'imod':
        if y == 0:
            return ('err', 11)
        q = trunc_div(x, y)
        if not -32768 <= q <= 32767:
            return ('err', 6)
        return ('ok', (x - y * q) & 0xffff)
    if op in ('iadd', 'isub'):
        r = x + y if op == 'iadd' else x - y
        return ('ok', r & 0xffff) if -32768 <= r <= 32767 else ('err', 6)
    if op == 'ineg':
        return ('ok', (-x) & 0xffff) if x != -32768 else ('err', 6)
    if op == 'iabs':
        return ('ok', abs(x) & 0xffff) if x != -32768 else ('err', 6)
    if op == 'and':
        return ('ok', a & b)
    if op == 'or':
        return ('ok', a | b)
    if op == 'xor':
        return ('ok', a ^ b)
    if op == 'eqv':
        return ('ok', ~(a ^ b) & 0xffff)
    if op == 'imp':
        return ('ok', (~a | b) & 0xffff)
    if op == 'not':
        return ('ok', ~a & 0xffff)
    if op == 'gt':
        return ('ok', int(x > y))
    if op == 'eq':
        return ('ok', int(x == y))
    raise ValueError(op)


class Impl(object):
    """The real code: numbers.Integer methods and values.* operator functions."""

    def __init__(self):
        from pcbasic.basic.values import values, numbers
        from pcbasic.basic.base import error
        self.values, self.numbers, self.error = values, numbers, error
        self.vs = values.Values(None, False)
        self.vs.set_handler(values.FloatErrorHandler(None))

    def integer(self, w):
        return self.numbers.Integer(None, self.vs).from_bytes(struct.pack('<H', w))

    def call(self, op, a, b=None):
        v, n = self.values, self.numbers
        x = self.integer(a)
        y = self.integer(b) if b is not None else None
        try:
            if op == 'iadd':
                r = x.iadd(y)
            elif op == 'isub':
                r = x.isub(y)
            elif op == 'ineg':
                r = x.ineg()
            elif op == 'iabs':
                r = x.iabs()
            elif op == 'idiv':
                r = v.intdiv(x, y)
            elif op == 'imod':
                r = v.mod_(x, y)
            elif op == 'and':
                r = v.and_(x, y)
            elif op == 'or':
                r = v.or_(x, y)
            elif op == 'xor':
                r = v.xor_(x, y)
            elif op == 'eqv':
                r = v.eqv_(x, y)
            elif op == 'imp':
                r = v.imp_(x, y)
            elif op == 'not':
                r = v.not_(x)
            elif op == 'gt':
                return 'ok %d' % int(bool(x.gt(y)))
            elif op == 'eq':
                return 'ok %d' % int(bool(x.eq(y)))
            else:
                raise ValueError(op)
        except self.error.BASICError as e:
            return 'err %d' % e.err
        except Exception as e:  # a host exception escaping is itself a violation of the spec
            return 'exc %s' % type(e).__name__
        if not isinstance(r, n.Integer):
            return 'type %s' % type(r).__name__
        return 'ok %d' % struct.unpack('<H', bytes(r.to_bytes()))[0]


BIN_OPS = ['iadd', 'isub', 'idiv', 'imod', 'and', 'or', 'xor', 'eqv', 'imp', 'gt', 'eq']
UN_OPS = ['ineg', 'iabs', 'not']
KNOWN_S2 = 'S2:imod:-32768:-1'


def check_cases(ctx, impl, cases):
    lines = ['%s %d %d' % (op, a, b) if b is not None else '%s %d' % (op, a) for op, a, b in cases]
    outs = [impl.call(op, a, b) for op, a, b in cases]
    ctx.compare(cases, outs, lines)
    for (op, a, b), out in zip(cases, outs):
        ctx.case((op, a, b))
        ctx.count('op:' + op)
        if op == 'isub' and b == 32768:
            # Integer.isub negates the subtrahend first; BASIC-level subtraction never uses it
            # (values.sub promotes to Single) – not part of the property statement
            continue
        exp = oracle(op, a, b)
        got = tuple(out.split()[:2])
        got = (got[0], int(got[1])) if got[0] in ('ok', 'err') else (out,)
        if got[0] == 'err':
            ctx.count('err:%s' % got[1])
        if got != exp:
            key = KNOWN_S2 if (op, a, b) == ('imod', 32768, 65535) and got == ('ok', 0) else \
                '%s:%d:%s' % (op, s16(a), s16(b) if b is not None else '')
            ctx.fail(key, {'op': op, 'a': a, 'b': b, 'level': 'values'},
                     'expected %s, implementation returned %s' % (exp, out))


class _Hang(BaseException):
    """raised by the CPU-time guard around one interpreter run"""


def run_guarded(s, text, seconds=20):
    """session.execute under a CPU-time limit (ITIMER_VIRTUAL; the wall-clock alarm belongs to vlib.main):
    a loop that never ends is reported by the caller, it must not stall the check."""
    import signal

    def on_timer(signum, frame):
        raise _Hang()
    old = signal.signal(signal.SIGVTALRM, on_timer)
    signal.setitimer(signal.ITIMER_VIRTUAL, seconds)
    try:
        return s.execute(text)
    finally:
        signal.setitimer(signal.ITIMER_VIRTUAL, 0)
        signal.signal(signal.SIGVTALRM, old)


def run_for_program(s, prog):
    """Enter and RUN a FOR test program; -> ('ok <counters seen> <status>', status)."""
    try:
        s.execute(b'NEW')
        for l in prog.split(b'\r'):
            if l:
                s.execute(l)
        out = run_guarded(s, b'RUN')
    except _Hang:
        return 'hang', 'hang'
    toks = out.replace(b'\xff', b' ').split()
    vals, status = [], None
    for i, t in enumerate(toks):
        if t == b'fuel':
            status = 'fuel'
            break
        if t == b'end':
            status = 'end %d' % (int(toks[i + 1]) & 0xffff)
            break
        if t == b'Overflow':
            status = 'err 6'
            break
        try:
            vals.append(int(t) & 0xffff)
        except ValueError:
            status = 'unparsed %r' % out
            break
    return 'ok %s %s' % (','.join(map(str, vals)) or '-', status), status


def for_expected(start, stop, step, fuel):
    """oracle: start, limit and step are the values the operands had when FOR was executed; exact addition,
    Overflow exactly when the sum leaves the range"""
    exp_vals, c = [], start
    empty = (start > stop) if step >= 0 else (stop > start)
    exp_status = None
    first = True
    while True:
        if not (empty and first):
            if len(exp_vals) >= fuel:
                exp_status = 'fuel'
                break
            exp_vals.append(c & 0xffff)
            if len(exp_vals) >= fuel:
                exp_status = 'fuel'
                break
        first = False
        c += step
        if not -32768 <= c <= 32767:
            exp_status = 'err 6'
            break
        if (c > stop) if step > 0 else (stop > c):
            exp_status = 'end %d' % (c & 0xffff)
            break
    return 'ok %s %s' % (','.join(map(str, exp_vals)) or '-', exp_status)


# operand forms of FOR I%=<start> TO <limit> STEP <step>: a literal, a scalar / array element of the counter's own
# type (to_type hands those through unconverted), scalars / elements of the other numeric types (converted)
FOR_FORMS = ['lit', 'int', 'int', 'int', 'arr', 'arr', 'arr', 'sng', 'dbl', 'sarr']
FOR_NAMES = {
    'int': (b'P%', b'Q%', b'S%'), 'arr': (b'A%(1)', b'A%(2)', b'A%(3)'), 'sng': (b'P!', b'Q!', b'S!'),
    'dbl': (b'P#', b'Q#', b'S#'), 'sarr': (b'B!(1)', b'B!(0)', b'B!(5)'),
}
FOR_FUEL = 12


def for_operand_program(rng, bv):
    """One FOR loop whose operands are variables that the loop body assigns to while the loop runs.
    -> (program, (start, stop, step), description, model request)"""
    kind = rng.random()
    if kind < 0.5:
        start = rng.randint(-20, 20)
        step = rng.choice([1, 1, 2, 3, 5, 7, -1, -2, -3, -7, 0])
        stop = start + step * rng.randint(-1, 12) + rng.randint(-1, 1)
    elif kind < 0.8:
        start = rng.choice([32767, 32760, 32000, 30000, -32768, -32760, -32000, -30000])
        step = rng.choice([1, 2, 7, 100, 255, 256, 1000, -1, -2, -7, -100, -255, -256, -1000])
        stop = rng.choice([32767, 32766, 32700, -32768, -32767, -32700, start, 0])
    else:
        start, stop, step = (s16(rng.choice(bv)) for _ in range(3))
    vals = [start, stop, step]
    forms = [rng.choice(FOR_FORMS) for _ in range(3)]
    if step == 1 and rng.random() < 0.2:
        forms[2] = 'none'
    if all(f in ('lit', 'none') for f in forms):
        # at least one operand is a variable of the counter's type, mostly the step
        forms[rng.choice([2, 2, 0, 1])] = rng.choice(['int', 'arr'])
    texts, setup, change = [], [], []
    operands, env = [], []
    for role in range(3):
        form, v = forms[role], vals[role]
        if form in ('lit', 'none'):
            texts.append(b'%d' % v)
            operands.append('l%d' % (v & 0xffff))
            continue
        name = FOR_NAMES[form][role]
        texts.append(name)
        setup.append(b'%s=%d' % (name, v))
        slot = len(env)
        operands.append('v%d' % slot)
        env.append(v & 0xffff)
        d = rng.choice([1, -1, 3, -5])
        if rng.random() < 0.3 and abs(v) + FOR_FUEL * abs(d) <= 32767:
            # a different value on every pass
            change.append((b'%s=%s%+d' % (name, name, d), '%d+%d' % (slot, d & 0xffff)))
        else:
            new = rng.choice([0, -v, v + 1, v - 1, 2 * v, 32767, -32768, 1, -1, s16(rng.choice(bv)), rng.randint(-40, 40)])
            if new == v or not -32768 <= new <= 32767:
                new = 0 if v else 9
            change.append((b'%s=%d' % (name, new), '%d=%d' % (slot, new & 0xffff)))
    rng.shuffle(change)
    where = rng.choice(['before', 'after', 'gosub', 'gosub-before', 'split'])
    assigns = ','.join(c[1] for c in change)
    change = b':'.join(c[0] for c in change)
    first_pass = 1
    head = b'FOR I%%=%s TO %s' % (texts[0], texts[1]) + (b'' if forms[2] == 'none' else b' STEP ' + texts[2])
    show = b'PRINT I%%;:K%%=K%%+1:IF K%%>=%d THEN PRINT " fuel":END' % FOR_FUEL
    sub = b''
    if where == 'before':
        body = change + b'\r30 ' + show
    elif where == 'after':
        body = show + b'\r30 ' + change
    elif where == 'gosub':
        body, sub = show + b'\r30 GOSUB 100', b'100 ' + change + b':RETURN\r'
    elif where == 'gosub-before':
        body, sub = b'GOSUB 100\r30 ' + show, b'100 ' + change + b':RETURN\r'
    else:
        # the assignments happen from pass first_pass on (K% counts the completed passes)
        first_pass = rng.randint(2, 4)
        body, sub = b'IF K%%>=%d THEN GOSUB 100\r30 ' % (first_pass - 1) + show, b'100 ' + change + b':RETURN\r'
    prog = (b'10 DIM A%(5),B!(5):K%=0:' + b':'.join(setup) + b'\r20 ' + head + b'\r25 ' + body +
            b'\r40 NEXT\r50 PRINT "end ";I%:END\r' + sub)
    request = 'forenv %d %d %s %s %s' % (FOR_FUEL, first_pass, ' '.join(operands), ','.join(map(str, env)) or '-',
                                         assigns or '-')
    return prog, (start, stop, step), '%s:%s' % (','.join(forms), where), request


def for_operands(ctx, s, n):
    """FOR loops with variable / array-element operands that are reassigned inside the loop (body or GOSUB):
    start, limit and step are fixed when FOR is executed."""
    rng = ctx.rng
    bv = boundary_values()
    lines, cases, outs = [], [], []
    first_prog = None
    for _ in range(n):
        prog, (start, stop, step), desc, request = for_operand_program(rng, bv)
        first_prog = first_prog or prog
        impl_out, status = run_for_program(s, prog)
        cases.append(('forvar', desc, start, stop, step))
        outs.append(impl_out)
        # the model gets the operands, the variable store and the body's assignments, and reads the operands itself
        lines.append(request)
        ctx.case(('forvar', prog))
        ctx.count('basic:forvar')
        ctx.count('forvar:' + (status or 'none').split()[0])
        for f in desc.split(':')[0].split(','):
            ctx.count('forvar-operand:' + f)
        exp_out = for_expected(start, stop, step, FOR_FUEL)
        if impl_out != exp_out:
            ctx.fail('forvar:%s:%d:%d:%d' % (desc, start, stop, step),
                     {'forprog': prog.decode('latin-1'), 'for': [start, stop, step], 'fuel': FOR_FUEL},
                     'FOR I%%=%d TO %d STEP %d given as %s and reassigned inside the loop: got %s, expected %s; '
                     'program %r' % (start, stop, step, desc, impl_out, exp_out, prog))
        if status == 'hang':
            break
    ctx.compare(cases, outs, lines, label='forvar')
    if cases:
        ctx.sample({'forvar': cases[0], 'program': first_prog.decode('latin-1'), 'impl': outs[0]})


def basic_level(ctx, n_expr, n_for, n_forvar):
    """The same operators through the real parser/evaluator, plus integer FOR counters."""
    rng = ctx.rng
    bv = boundary_values()
    s = basic.new_session()
    names = {'idiv': '\\', 'imod': 'MOD', 'and': 'AND', 'or': 'OR', 'xor': 'XOR', 'eqv': 'EQV', 'imp': 'IMP'}
    with s:
        for _ in range(n_expr):
            op = rng.choice(sorted(names))
            a, b = rng.choice(bv), rng.choice(bv)
            # operands as integer variables, so the literal parser is not involved
            s.execute(b'A%%=%d:B%%=%d' % (s16(a), s16(b)))
            out = s.execute(b'PRINT A%% %s B%%' % names[op].encode())
            ctx.case(('basic', op, a, b))
            ctx.count('basic:' + op)
            exp = oracle(op, a, b)
            text = out.strip()
            if exp[0] == 'ok':
                ok = text == b'%d' % s16(exp[1]) or text == b' %d' % s16(exp[1])
                ok = ok or text.split() == [b'%d' % s16(exp[1])]
            else:
                ok = (b'Overflow' in out) if exp[1] == 6 else (b'Division by zero' in out)
            if not ok:
                key = KNOWN_S2 if (op, a, b) == ('imod', 32768, 65535) and text.split() == [b'0'] else \
                    'basic:%s:%d:%d' % (op, s16(a), s16(b))
                ctx.fail(key, {'op': op, 'a': a, 'b': b, 'level': 'basic'},
                         'PRINT A%% %s B%% with A%%=%d B%%=%d printed %r, expected %s'
                         % (names[op], s16(a), s16(b), out, exp))
        # operands just outside the accepted range
        for lit, want in ((b'32768!', b'Overflow'), (b'-32769!', b'Overflow'), (b'65536!', b'Overflow'),
                          (b'1E10', b'Overflow')):
            for opn in (b'\\', b'MOD', b'AND', b'OR', b'XOR', b'EQV', b'IMP'):
                out = s.execute(b'PRINT 1 %s %s' % (opn, lit))
                ctx.case(('outside', opn, lit))
                if lit == b'32768!' and opn in (b'AND', b'OR', b'XOR', b'EQV', b'IMP'):
                    # statement: bitwise operators accept up to 65535 (S1)
                    if b'Overflow' in out:
                        ctx.fail('S1:unsigned-operand-overflow', {'expr': '1 %s 32768!' % opn.decode()},
                                 'bitwise operand 32768..65535 raises Overflow (operands are converted as signed)')
                    continue
                if want not in out:
                    ctx.fail('outside:%s:%s' % (opn.decode(), lit.decode()), {'expr': '1 %s %s' % (opn, lit)},
                             'expected Overflow, got %r' % out)
        # FOR loops with integer counters near the limits
        fuel = 12
        lines, cases, outs = [], [], []
        for _ in range(n_for):
            kind = rng.random()
            if kind < 0.5:
                start = rng.choice([32767, 32760, 32000, 30000, -32768, -32760, -30000, 0, 1, -1, 100])
                step = rng.choice([1, 2, 7, 255, 256, 1000, 30000, 32767, -1, -2, -255, -256, -1000, -30000, -32768, 0])
                stop = rng.choice([32767, 32766, -32768, -32767, 0, start, 20000, -20000])
            else:
                start, stop, step = (s16(rng.choice(bv)) for _ in range(3))
            prog = (b'10 K%%=0:FOR I%%=%d TO %d STEP %d\r20 PRINT I%%;:K%%=K%%+1:IF K%%>=%d THEN PRINT " fuel":END\r'
                    b'30 NEXT\r40 PRINT "end ";I%%\r' % (start, stop, step, fuel))
            impl_out, status = run_for_program(s, prog)
            cases.append(('for', start, stop, step))
            outs.append(impl_out)
            lines.append('for %d %d %d %d' % (fuel, start & 0xffff, stop & 0xffff, step & 0xffff))
            ctx.case(('for', start, stop, step))
            ctx.count('basic:for')
            ctx.count('for:' + (status or 'none').split()[0])
            exp_out = for_expected(start, stop, step, fuel)
            if impl_out != exp_out:
                ctx.fail('for:%d:%d:%d' % (start, stop, step), {'for': [start, stop, step], 'fuel': fuel},
                         'FOR I%%=%d TO %d STEP %d: got %s, expected %s' % (start, stop, step, impl_out, exp_out))
        ctx.compare(cases, outs, lines, label='for')
        if cases:
            ctx.sample({'for': cases[0], 'impl': outs[0]})
        for_operands(ctx, s, n_forvar)


def run(ctx):
    translated.check_intbytes(ctx)
    translated.check_intdiv(ctx)
    impl = Impl()
    rng = ctx.rng
    bv = boundary_values()
    cases = []
    for op in BIN_OPS:
        for a in bv:
            for b in bv:
                cases.append((op, a, b))
    nrand = 20000 if ctx.quick else 2000000
    for _ in range(nrand):
        cases.append((rng.choice(BIN_OPS), rng.randrange(65536), rng.randrange(65536)))
    if ctx.quick:
        for op in UN_OPS:
            cases += [(op, a, None) for a in bv]
            cases += [(op, rng.randrange(65536), None) for _ in range(500)]
    else:
        for op in UN_OPS:
            cases += [(op, a, None) for a in range(65536)]
    ctx.log('%d value-level cases' % len(cases))
    for i in range(0, len(cases), 200000):
        check_cases(ctx, impl, cases[i:i + 200000])
    ctx.sample({'op': cases[0][0], 'a': cases[0][1], 'b': cases[0][2], 'impl': impl.call(*cases[0])})
    ctx.sample({'op': 'imod', 'a': 65529, 'b': 2, 'impl': impl.call('imod', 65529, 2)})
    basic_level(ctx, 600 if ctx.quick else 20000, 150 if ctx.quick else 3000, 180 if ctx.quick else 3000)


def replay(ctx, payload):
    case = payload.get('case', {})
    impl = Impl()
    sub = Ctx2(ctx)
    if 'op' in case and case.get('level') == 'values':
        check_cases(sub, impl, [(case['op'], case['a'], case['b'])])
    elif 'forprog' in case:
        # the recorded program itself
        with basic.new_session() as s:
            got, _ = run_for_program(s, case['forprog'].encode('latin-1'))
        exp = for_expected(*(case['for'] + [case['fuel']]))
        return None if got == exp else 'got %s, expected %s' % (got, exp)
    else:
        # re-run the BASIC-level part deterministically with the recorded seed
        import random
        sub.rng = random.Random(payload.get('seed', 0))
        run(sub)
    hits = [f for f in sub.failures if f['key'] == payload.get('key')]
    return hits[0]['what'] if hits else None


class Ctx2(object):
    """thin proxy so replay can reuse run() without touching the outer evidence"""
    def __init__(self, ctx):
        self.__dict__.update(ctx.__dict__)
        self._ctx = ctx
        self.failures = []
        self.disagreements = []

    def __getattr__(self, name):
        return getattr(self._ctx.__class__, name).__get__(self)
