import PcbV.Lemmas.Viewport
import PcbV.Gen.Translated
/-
  C30 — Graphics never draws outside the viewport or the active page.

  Property theorems about `PcbV.Model.Viewport` (GraphicsViewPort + ByteMatrix index semantics) and
  `PcbV.Model.Draw` (the integer drawing primitives as lists of `graph_view[yi, xi] = attr` calls, the
  statement front end with the text-mode test, pages).  All theorems quantify over every well-formed
  viewport (`0 ≤ x0 ≤ x1 < W`, `0 ≤ y0 ≤ y1 < H`, relative or absolute) and over all integer arguments.
  Not modelled (host floats): WINDOW scaling, the CIRCLE front end (aspect, arcs) — covered by the oracle only.
-/
namespace PcbV.C30
open PcbV PcbV.Viewport PcbV.Draw PcbV.ViewportLemmas

/-- **setitem_in_view** (single pixel): whatever the coordinates, `graph_view[y, x] = attr` assigns at most the
    cell of that point, and only if it lies in the viewport rectangle. -/
theorem pixel_in_view (v : View) (hv : v.wf) (x y cx cy : Int)
    (hw : v.written (.int y) (.int x) cx cy = true) : v.inRect cx cy := by
  obtain ⟨hc, ex, ey⟩ := (pixel_written v hv x y cx cy).mp hw
  unfold View.contains at hc
  simp only [decide_eq_true_eq] at hc
  have := xmin_off v; have := xmax_off v; have := ymin_off v; have := ymax_off v
  unfold View.inRect
  omega

/-- **setitem_in_view**: for every well-formed viewport and every index pair (integers or slices with
    arbitrary, possibly open or negative bounds) whose stop bounds are not negative after conversion to
    absolute coordinates (`stopOk`: the precondition every call site establishes, see `cutoff_establishes_stop`,
    `paint_interval_in_view`, `put_in_view`), every matrix cell assigned lies in the viewport rectangle.
    Single pixels need no precondition. -/
theorem setitem_in_view (v : View) (hv : v.wf) (yi xi : Ix) (cx cy : Int)
    (hpre : (yi.isInt = true ∧ xi.isInt = true) ∨ (stopOk v.offY yi ∧ stopOk v.offX xi))
    (hw : v.written yi xi cx cy = true) : v.inRect cx cy := by
  match yi, xi, hpre, hw with
  | .int y, .int x, _, hw => exact pixel_in_view v hv x y cx cy hw
  | .int y, .slice a b, hpre, hw =>
    have hp : stopOk v.offY (.int y) ∧ stopOk v.offX (.slice a b) := by
      rcases hpre with h | h
      · exact absurd h.2 (by simp [Ix.isInt])
      · exact h
    exact clip_case v hv _ _ cx cy rfl hp.1 hp.2 hw
  | .slice a b, .int x, hpre, hw =>
    have hp : stopOk v.offY (.slice a b) ∧ stopOk v.offX (.int x) := by
      rcases hpre with h | h
      · exact absurd h.1 (by simp [Ix.isInt])
      · exact h
    exact clip_case v hv _ _ cx cy rfl hp.1 hp.2 hw
  | .slice a b, .slice c d, hpre, hw =>
    have hp : stopOk v.offY (.slice a b) ∧ stopOk v.offX (.slice c d) := by
      rcases hpre with h | h
      · exact absurd h.1 (by simp [Ix.isInt])
      · exact h
    exact clip_case v hv _ _ cx cy rfl hp.1 hp.2 hw

/-- The precondition of `setitem_in_view` cannot be dropped: `_convert_slice` clips a stop bound only from
    above, so a stop left of a relative viewport becomes a negative matrix index, which Python wraps around.
    (No call site of graphics.py produces such an index; this documents what the call-site theorems are for.) -/
theorem setitem_stop_precondition_is_needed :
    ∃ (v : View) (yi xi : Ix) (cx cy : Int), v.wf ∧ v.written yi xi cx cy = true ∧ ¬ v.inRect cx cy :=
  ⟨⟨320, 200, 10, 10, 50, 50, false, true⟩, .int 3, .slice (some 0) (some (-15)), 100, 13, by decide, by decide, by decide⟩

/-- A well-formed viewport never makes `ByteMatrix.__setitem__` raise IndexError. -/
theorem setitem_no_index_error (v : View) (hv : v.wf) (yi xi : Ix) : v.setitemRaises yi xi = false := by
  obtain ⟨h0, h1, h2, h3, h4, h5⟩ := hv
  have := xmin_off v; have := xmax_off v; have := ymin_off v; have := ymax_off v
  match yi, xi with
  | .int y, .int x =>
    unfold View.setitemRaises
    rw [convertSlice_int]
    by_cases hc : v.contains x y = true
    · have hc' := hc
      unfold View.contains at hc'
      simp only [decide_eq_true_eq] at hc'
      rw [if_pos hc]
      simp only [Ix.raises, pyIndex_of_range v.H (y + v.offY) (by omega) (by omega),
        pyIndex_of_range v.W (x + v.offX) (by omega) (by omega)]
      rfl
    · rw [if_neg hc]; rfl
  | .int _, .slice _ _ => rfl
  | .slice _ _, .int _ => rfl
  | .slice _ _, .slice _ _ => rfl

/-- `cutoff_coord` establishes the call-site precondition: the clamped coordinate, converted to absolute,
    lies in `-1 .. W` (resp. `-1 .. H`), so `coordinate + 1` is a non-negative stop bound. -/
theorem cutoff_establishes_stop (v : View) (hv : v.wf) (x y : Int) :
    -1 ≤ (v.cutoffCoord x y).1 + v.offX ∧ (v.cutoffCoord x y).1 + v.offX ≤ v.W ∧
    -1 ≤ (v.cutoffCoord x y).2 + v.offY ∧ (v.cutoffCoord x y).2 + v.offY ≤ v.H := by
  obtain ⟨h0, h1, h2, h3, h4, h5⟩ := hv
  simp only [View.cutoffCoord, View.convertCoords]
  omega

/-- Any primitive that only issues single-pixel assignments stays in the viewport. -/
theorem pixel_ops_in_view (v : View) (hv : v.wf) (ops : Ops) (hp : AllPixels ops) (cx cy : Int)
    (hw : writes v ops cx cy) : v.inRect cx cy := by
  obtain ⟨op, hm, hw⟩ := hw
  have := hp op hm
  match op, this, hw with
  | ⟨.int y, .int x⟩, _, hw => exact pixel_in_view v hv x y cx cy hw

/-- **primitive_in_view**, LINE: all integer endpoints, every style. -/
theorem line_in_view (v : View) (hv : v.wf) (x0 y0 x1 y1 : Int) (pattern : Nat) (cx cy : Int)
    (hw : writes v (drawLine v x0 y0 x1 y1 pattern) cx cy) : v.inRect cx cy :=
  pixel_ops_in_view v hv _ (drawLine_pixels v x0 y0 x1 y1 pattern) cx cy hw

/-- **primitive_in_view**, LINE …,B. -/
theorem box_in_view (v : View) (hv : v.wf) (x0 y0 x1 y1 : Int) (pattern : Nat) (cx cy : Int)
    (hw : writes v (drawBox v x0 y0 x1 y1 pattern) cx cy) : v.inRect cx cy :=
  pixel_ops_in_view v hv _ (drawBox_pixels v x0 y0 x1 y1 pattern) cx cy hw

/-- **primitive_in_view**, LINE …,BF: the one slice assignment is made with stops `cutoff + 1`, which
    `cutoff_coord` keeps non-negative in absolute coordinates; hence no wrap-around, for all integer corners. -/
theorem box_filled_in_view (v : View) (hv : v.wf) (x0 y0 x1 y1 : Int) (cx cy : Int)
    (hw : writes v (drawBoxFilled v x0 y0 x1 y1) cx cy) : v.inRect cx cy := by
  obtain ⟨op, hm, hw⟩ := hw
  have c0 := cutoff_establishes_stop v hv x0 y0
  have c1 := cutoff_establishes_stop v hv x1 y1
  simp only [drawBoxFilled, List.mem_singleton] at hm
  subst hm
  refine setitem_in_view v hv _ _ cx cy (Or.inr ⟨?_, ?_⟩) hw
  · simp only [stopOk]; split <;> omega
  · simp only [stopOk]; split <;> omega

/-- **primitive_in_view**, CIRCLE back end (whole circle, any centre and radius, any fuel). -/
theorem circle_in_view (v : View) (hv : v.wf) (x0 y0 r : Int) (cx cy : Int)
    (hw : writes v (drawCircle x0 y0 r) cx cy) : v.inRect cx cy :=
  pixel_ops_in_view v hv _ (drawCircle_pixels x0 y0 r) cx cy hw

/-- **primitive_in_view**, ellipse back end (whole ellipse, any centre and radii, any fuel). -/
theorem ellipse_in_view (v : View) (hv : v.wf) (x0 y0 rx ry : Int) (fuel : Nat) (ops : Ops)
    (h : drawEllipse x0 y0 rx ry fuel = some ops) (cx cy : Int)
    (hw : writes v ops cx cy) : v.inRect cx cy :=
  pixel_ops_in_view v hv _ (drawEllipse_pixels x0 y0 rx ry fuel ops h) cx cy hw

/-- PAINT: the interval write `graph_view[y, x_left:x_right+1]` of `_flood_fill` stays in the viewport whenever
    the interval starts at or right of the left bound and the row is not above the top bound (the flood fill
    keeps `bound_x0 ≤ x_left ≤ x_right + 1` and `bound_y0 ≤ y`). -/
theorem paint_interval_in_view (v : View) (hv : v.wf) (y xl xr : Int)
    (hx : v.xmin ≤ xl) (hlr : xl ≤ xr + 1) (hy : v.ymin ≤ y) (cx cy : Int)
    (hw : writes v (fillInterval y xl xr) cx cy) : v.inRect cx cy := by
  obtain ⟨op, hm, hw⟩ := hw
  obtain ⟨h0, h1, h2, h3, h4, h5⟩ := hv
  have := xmin_off v; have := ymin_off v
  simp only [fillInterval, List.mem_singleton] at hm
  subst hm
  refine setitem_in_view v ⟨h0, h1, h2, h3, h4, h5⟩ _ _ cx cy (Or.inr ⟨?_, ?_⟩) hw
  · simp only [stopOk]; omega
  · simp only [stopOk]; omega

/-- PUT: a sprite that does not fit raises Illegal function call and writes nothing. -/
theorem put_not_fitting_ifc (v : View) (x y w h : Int)
    (hn : v.contains x y = false ∨ v.contains (x + w - 1) (y + h - 1) = false) :
    put v x y w h = .error PcbV.Gen.E.ifc := by
  unfold put
  rcases hn with hn | hn
  · simp [hn, Viewport.ifc]
  · by_cases h1 : v.contains x y = true
    · simp [h1, hn, Viewport.ifc]
    · simp [h1, Viewport.ifc]

/-- PUT: an accepted sprite is written inside the viewport. -/
theorem put_in_view (v : View) (hv : v.wf) (x y w h : Int) (ops : Ops)
    (hok : put v x y w h = .ok ops) (cx cy : Int) (hw : writes v ops cx cy) : v.inRect cx cy := by
  unfold put at hok
  by_cases h1 : v.contains x y = true
  · by_cases h2 : v.contains (x + w - 1) (y + h - 1) = true
    · simp only [h1, h2, not_true_eq_false, if_false] at hok
      injection hok with hok
      subst hok
      obtain ⟨op, hm, hw⟩ := hw
      simp only [List.mem_singleton] at hm
      subst hm
      unfold View.contains at h2
      simp only [decide_eq_true_eq] at h2
      have := xmin_off v; have := ymin_off v
      obtain ⟨h0, hh1, hh2, h3, h4, h5⟩ := hv
      refine setitem_in_view v ⟨h0, hh1, hh2, h3, h4, h5⟩ _ _ cx cy (Or.inr ⟨?_, ?_⟩) hw
      · simp only [stopOk]; omega
      · simp only [stopOk]; omega
    · simp [h1, h2] at hok
  · simp [h1] at hok

/-- PUT: an accepted sprite is assigned to a matrix range of exactly its own size (so the slice assignment of
    `ByteMatrix.__setitem__` keeps every pixel row at its length): the fit test is made on the size that is written. -/
theorem put_target_is_sprite_size (v : View) (hv : v.wf) (x y w h : Int) (hw : 0 < w) (hh : 0 < h) (ops : Ops)
    (hok : put v x y w h = .ok ops) : ∀ op ∈ ops, targetSize v op = (w, h) := by
  unfold put at hok
  by_cases h1 : v.contains x y = true
  · by_cases h2 : v.contains (x + w - 1) (y + h - 1) = true
    · simp only [h1, h2, not_true_eq_false, if_false] at hok
      injection hok with hok
      subst hok
      intro op hm
      simp only [List.mem_singleton] at hm
      subst hm
      unfold View.contains at h1 h2
      simp only [decide_eq_true_eq] at h1 h2
      obtain ⟨h0, hh1, hh2, h3, h4, h5⟩ := hv
      have ex := clipAxis_range_exact v.W v.x0 v.x1 v.xmin v.xmax v.offX x (x + w - 1 + 1) h0 hh2
        (xmin_off v) (xmax_off v) (by omega) (by omega) (by omega)
      have ey := clipAxis_range_exact v.H v.y0 v.y1 v.ymin v.ymax v.offY y (y + h - 1 + 1) h3 h5
        (ymin_off v) (ymax_off v) (by omega) (by omega) (by omega)
      simp only [targetSize, View.writeRect, View.convertSlice, ex, ey, Prod.mk.injEq]
      omega
    · simp [h1, h2] at hok
  · simp [h1] at hok

/-- The fit test must be made on the size that is written: tested on half the width (the size record of a Tandy
    SCREEN 6 array), a 16x6 sprite put 9 pixels left of the right edge of the viewport is accepted although its
    target range is only 9 columns wide - the pixel rows grow and everything right of the viewport is shifted. -/
theorem put_checked_on_other_size_counterexample :
    ∃ (v : View) (ops : Ops), v.wf ∧ putChecked v 40 1 8 6 16 6 = .ok ops ∧
      (∀ op ∈ ops, targetSize v op = (9, 6)) ∧ put v 40 1 16 6 = .error PcbV.Gen.E.ifc := by
  refine ⟨(View.full 640 200).set 160 50 208 68 false, _, by decide, rfl, ?_, by decide⟩
  intro op hm
  simp only [List.mem_singleton] at hm
  subst hm
  decide

/-- **primitive_in_view**: every drawing statement of the integer level, under the current viewport. -/
theorem primitive_in_view (v : View) (hv : v.wf) (st : Stmt) (ops : Ops) (hok : st.ops v = .ok ops)
    (hfill : ∀ y xl xr, st = .fill y xl xr → v.xmin ≤ xl ∧ xl ≤ xr + 1 ∧ v.ymin ≤ y)
    (cx cy : Int) (hw : writes v ops cx cy) : v.inRect cx cy := by
  cases st with
  | pset x y =>
    simp only [Stmt.ops, Except.ok.injEq] at hok; subst hok
    exact pixel_ops_in_view v hv _ (allPixels_cons (isPixel_pixel x y) allPixels_nil) cx cy hw
  | line a b c d p =>
    simp only [Stmt.ops, Except.ok.injEq] at hok; subst hok; exact line_in_view v hv a b c d p cx cy hw
  | box a b c d p =>
    simp only [Stmt.ops, Except.ok.injEq] at hok; subst hok; exact box_in_view v hv a b c d p cx cy hw
  | boxFilled a b c d =>
    simp only [Stmt.ops, Except.ok.injEq] at hok; subst hok; exact box_filled_in_view v hv a b c d cx cy hw
  | circle x y r =>
    simp only [Stmt.ops, Except.ok.injEq] at hok; subst hok; exact circle_in_view v hv x y r cx cy hw
  | ellipse x y rx ry fuel =>
    simp only [Stmt.ops, Except.ok.injEq] at hok; subst hok
    cases he : drawEllipse x y rx ry fuel with
    | none => rw [he] at hw; obtain ⟨op, hm, _⟩ := hw; cases hm
    | some o => rw [he] at hw; exact ellipse_in_view v hv x y rx ry fuel o he cx cy hw
  | fill y xl xr =>
    simp only [Stmt.ops, Except.ok.injEq] at hok; subst hok
    obtain ⟨a, b, c⟩ := hfill y xl xr rfl
    exact paint_interval_in_view v hv y xl xr a b c cx cy hw
  | put x y w h => exact put_in_view v hv x y w h ops hok cx cy hw
  | view _ _ _ _ _ _ _ =>
    simp only [Stmt.ops, Except.ok.injEq] at hok; subst hok; obtain ⟨op, hm, _⟩ := hw; cases hm
  | viewOff => simp only [Stmt.ops, Except.ok.injEq] at hok; subst hok; obtain ⟨op, hm, _⟩ := hw; cases hm
  | setPage _ => simp only [Stmt.ops, Except.ok.injEq] at hok; subst hok; obtain ⟨op, hm, _⟩ := hw; cases hm
  | setMode _ _ _ _ _ =>
    simp only [Stmt.ops, Except.ok.injEq] at hok; subst hok; obtain ⟨op, hm, _⟩ := hw; cases hm

/-! ### VIEW -/

/-- **view_statement_in_screen** (partial for the border, see below).  For an accepted `VIEW [SCREEN] (x0,y0)-(x1,y1)[,fill[,border]]`:
    the new viewport is the ordered rectangle and is well formed; everything drawn lies on the screen;
    the fill lies in the new rectangle; nothing at all is drawn when neither fill nor border is given.
    GAP (hence `_partial`): that the border cells lie on the one-pixel frame around the new rectangle is not
    proved here (it needs the geometry of `_draw_straight`, which belongs to C31); the oracle checks it. -/
theorem view_statement_in_screen_partial (v : View) (x0 y0 x1 y1 : Int) (a f b : Bool) (ops : Ops) (v' : View)
    (hok : viewStmt v x0 y0 x1 y1 a f b = .ok (ops, v')) :
    v'.wf ∧ v'.W = v.W ∧ v'.H = v.H ∧
    (v'.x0, v'.y0, v'.x1, v'.y1) = (min x0 x1, min y0 y1, max x0 x1, max y0 y1) ∧ v'.absolute = a ∧
    (∀ cx cy, writes v.unset ops cx cy → onScreen v cx cy) ∧
    (b = false → ∀ cx cy, writes v.unset ops cx cy → v'.inRect cx cy) ∧
    (f = false → b = false → ops = []) := by
  unfold viewStmt at hok
  split at hok
  · cases hok
  · rename_i hx
    split at hok
    · cases hok
    · rename_i hy
      split at hok
      · cases hok
      · rename_i hne
        have hx : 0 ≤ x0 ∧ x0 ≤ v.W - 1 ∧ 0 ≤ x1 ∧ x1 ≤ v.W - 1 := by simpa using hx
        have hy : 0 ≤ y0 ∧ y0 ≤ v.H - 1 ∧ 0 ≤ y1 ∧ y1 ≤ v.H - 1 := by simpa using hy
        simp only [Except.ok.injEq, Prod.mk.injEq] at hok
        obtain ⟨hops, hv'⟩ := hok
        subst hv'
        have hu : v.unset.wf := full_wf v.W v.H (by omega) (by omega)
        refine ⟨?_, rfl, rfl, rfl, rfl, ?_, ?_, ?_⟩
        · simp only [View.wf, View.set, View.unset, View.full]; omega
        · intro cx cy hw
          have hin : v.unset.inRect cx cy := by
            subst hops
            obtain ⟨op, hm, hw⟩ := hw
            rcases List.mem_append.mp hm with hm | hm
            · cases f
              · cases hm
              · exact box_filled_in_view v.unset hu x0 y0 x1 y1 cx cy ⟨op, hm, hw⟩
            · cases b
              · cases hm
              · exact box_in_view v.unset hu _ _ _ _ _ cx cy ⟨op, hm, hw⟩
          simp only [View.inRect, View.unset, View.full] at hin
          simp only [onScreen]; omega
        · intro hb cx cy hw
          subst hops hb
          simp only [Bool.false_eq_true, if_false, List.append_nil] at hw
          cases f
          · obtain ⟨op, hm, _⟩ := hw; cases hm
          · simp only [if_true] at hw
            have := box_filled_full_bbox v.W v.H x0 y0 x1 y1 cx cy ⟨hx.1, hx.2.1⟩ ⟨hx.2.2.1, hx.2.2.2⟩
              ⟨hy.1, hy.2.1⟩ ⟨hy.2.2.1, hy.2.2.2⟩ hw
            simp only [View.inRect, View.set, View.unset, View.full]
            omega
        · intro hf hb
          subst hops hf hb
          rfl

/-! ### pages, histories, text mode -/

/-- what `Display.set_page` / `Graphics.set_page` maintain: the viewport points at the active page and its
    rectangle lies on the screen -/
def Inv (s : Screen) : Prop := s.gvPage = s.apage ∧ s.view.wf

/-- the side condition of PAINT's interval write (established by `_flood_fill`, see `paint_interval_in_view`) -/
def FillOk (v : View) (st : Stmt) : Prop :=
  ∀ y xl xr, st = .fill y xl xr → v.xmin ≤ xl ∧ xl ≤ xr + 1 ∧ v.ymin ≤ y

/-- One statement: the invariant is kept, no page other than the active one changes, and on the active page
    nothing changes outside the viewport rectangle (for VIEW: outside the screen; and outside the new rectangle
    when no border is requested).  **only_active_page** + **primitive_in_view** at the level of the statement. -/
theorem step_only_active_page_in_view (s : Screen) (hinv : Inv s) (attr : Nat) (st : Stmt) (s' : Screen)
    (hfill : FillOk s.view st) (hnm : st.isModeSwitch = false) (h : step s attr st = .ok s') :
    Inv s' ∧
    (∀ i, i ≠ s.apage → s'.pages i = s.pages i) ∧
    (∀ x y, (match st with
             | .view _ _ _ _ _ _ b => ¬ onScreen s.view x y ∨ (b = false ∧ ¬ s'.view.inRect x y)
             | _ => ¬ s.view.inRect x y) →
        s'.pages s.apage x y = s.pages s.apage x y) := by
  obtain ⟨hgv, hwf⟩ := hinv
  have generic : ∀ (st : Stmt) (ops : Ops), st.ops s.view = .ok ops → FillOk s.view st →
      s' = { s with pages := drawTo s s.view attr ops } →
      Inv s' ∧ (∀ i, i ≠ s.apage → s'.pages i = s.pages i) ∧
      (∀ x y, ¬ s.view.inRect x y → s'.pages s.apage x y = s.pages s.apage x y) := by
    intro st ops hops hf hs'
    subst hs'
    refine ⟨⟨hgv, hwf⟩, ?_, ?_⟩
    · intro i hi
      exact drawTo_other s s.view attr ops i (by rw [hgv]; exact hi)
    · intro x y hn
      show drawTo s s.view attr ops s.apage x y = s.pages s.apage x y
      rw [← hgv, drawTo_same]
      exact applyOps_frame s.view attr ops _ x y
        (fun hw => hn (primitive_in_view s.view hwf st ops hops hf x y hw))
  have draw : ∀ (st : Stmt), (¬ ∃ a b c d e f g, st = .view a b c d e f g) → st ≠ .viewOff →
      (¬ ∃ n, st = .setPage n) → FillOk s.view st →
      ((if s.textMode = true then (.error ifc : R Screen) else
        match st.ops s.view with
        | .error e => .error e
        | .ok ops => .ok { s with pages := drawTo s s.view attr ops }) = .ok s') →
      Inv s' ∧ (∀ i, i ≠ s.apage → s'.pages i = s.pages i) ∧
      (∀ x y, ¬ s.view.inRect x y → s'.pages s.apage x y = s.pages s.apage x y) := by
    intro st _ _ _ hf h
    split at h
    · cases h
    · split at h
      · cases h
      · rename_i ops hops
        injection h with h
        exact generic st ops hops hf h.symm
  cases st with
  | setMode _ _ _ _ _ => exact absurd hnm (by simp [Stmt.isModeSwitch])
  | setPage n =>
    simp only [step] at h
    split at h
    · cases h
    · injection h with h
      subst h
      exact ⟨⟨rfl, hwf⟩, fun _ _ => rfl, fun _ _ _ => rfl⟩
  | viewOff =>
    simp only [step] at h
    split at h
    · cases h
    · injection h with h
      subst h
      refine ⟨⟨hgv, ?_⟩, fun _ _ => rfl, fun _ _ _ => rfl⟩
      obtain ⟨h0, h1, h2, h3, h4, h5⟩ := hwf
      simp only [View.wf, View.unset, View.full]; omega
  | view x0 y0 x1 y1 a f b =>
    simp only [step] at h
    split at h
    · cases h
    · split at h
      · cases h
      · rename_i ops v' hv
        injection h with h
        subst h
        obtain ⟨w1, _, _, _, _, w6, w7, _⟩ := view_statement_in_screen_partial s.view x0 y0 x1 y1 a f b ops v' hv
        refine ⟨⟨hgv, w1⟩, ?_, ?_⟩
        · intro i hi
          exact drawTo_other s s.view.unset attr ops i (by rw [hgv]; exact hi)
        · intro x y hn
          show drawTo s s.view.unset attr ops s.apage x y = s.pages s.apage x y
          rw [← hgv, drawTo_same]
          apply applyOps_frame
          intro hw
          rcases hn with hn | ⟨hb, hn⟩
          · exact hn (w6 x y hw)
          · exact hn (w7 hb x y hw)
  | pset x y => exact draw _ (by simp) (by simp) (by simp) hfill (by simp only [step] at h; exact h)
  | line a b c d p => exact draw _ (by simp) (by simp) (by simp) hfill (by simp only [step] at h; exact h)
  | box a b c d p => exact draw _ (by simp) (by simp) (by simp) hfill (by simp only [step] at h; exact h)
  | boxFilled a b c d => exact draw _ (by simp) (by simp) (by simp) hfill (by simp only [step] at h; exact h)
  | circle x y r => exact draw _ (by simp) (by simp) (by simp) hfill (by simp only [step] at h; exact h)
  | ellipse x y rx ry fuel => exact draw _ (by simp) (by simp) (by simp) hfill (by simp only [step] at h; exact h)
  | fill y xl xr => exact draw _ (by simp) (by simp) (by simp) hfill (by simp only [step] at h; exact h)
  | put x y w hh => exact draw _ (by simp) (by simp) (by simp) hfill (by simp only [step] at h; exact h)

/-- A video mode switch (`SCREEN m[,,apage]`, page arguments given or omitted) re-establishes the invariant: the
    fresh viewport of the new mode points at the page that is active afterwards, whatever the state before
    (the mode switch itself erases all pages, which is why it is excluded from the page-frame theorems). -/
theorem mode_switch_points_at_active_page (s : Screen) (attr : Nat) (t : Bool) (w h : Int) (np : Nat)
    (a : Option Nat) (s' : Screen) (hs : step s attr (.setMode t w h np a) = .ok s') :
    Inv s' ∧ s'.apage = a.getD s.apage ∧ s'.apage < np ∧ s'.view = View.full w h := by
  simp only [step] at hs
  split at hs
  · cases hs
  · rename_i hc
    injection hs with hs
    subst hs
    refine ⟨⟨rfl, ?_⟩, rfl, ?_, rfl⟩
    · simp only [View.wf, View.full]; omega
    · show a.getD s.apage < np
      omega

/-- Over every history - drawing statements, VIEW, page switches and video mode switches in any order, failing
    statements included - the viewport points at the active page and its rectangle lies on the screen; so
    `step_only_active_page_in_view` applies to whatever statement comes next. -/
theorem run_keeps_inv (attr : Nat) (sts : List Stmt) :
    ∀ (s : Screen), Inv s → (∀ st ∈ sts, ∀ v, FillOk v st) → Inv (run s attr sts) := by
  induction sts with
  | nil => intro s h _; exact h
  | cons st rest ih =>
    intro s hinv hf
    have hfr : ∀ st ∈ rest, ∀ v, FillOk v st := fun st hm => hf st (List.mem_cons_of_mem _ hm)
    unfold run
    cases hs : step s attr st with
    | error e => exact ih s hinv hfr
    | ok s' =>
      simp only []
      apply ih s' ?_ hfr
      cases hm : st.isModeSwitch with
      | false => exact (step_only_active_page_in_view s hinv attr st s' (hf st List.mem_cons_self s.view) hm hs).1
      | true =>
        cases st with
        | setMode t w h np a => exact (mode_switch_points_at_active_page s attr t w h np a s' hs).1
        | _ => simp [Stmt.isModeSwitch] at hm

/-- Why `Graphics.set_page` must not be skipped after `init_mode`: with the shortcut "the requested page equals
    the remembered active page, nothing to do", `SCREEN 7,,1,1 : SCREEN 8` leaves the fresh viewport on page 0
    while page 1 is active, and the next PSET changes page 0.  (Model of a seeded change, not of /repo.) -/
theorem mode_switch_shortcut_breaks_inv :
    ∃ (s s1 s2 : Screen) (attr : Nat), Inv s ∧ s.apage = 1 ∧
      setModeShortcut s false 640 200 16 none = .ok s1 ∧ s1.apage = 1 ∧ ¬ Inv s1 ∧
      step s1 attr (.pset 10 10) = .ok s2 ∧ s2.pages 0 10 10 ≠ s1.pages 0 10 10 ∧
      ∃ s1', step s attr (.setMode false 640 200 16 none) = .ok s1' ∧ Inv s1' := by
  refine ⟨⟨false, 32, 1, 1, View.full 320 200, fun _ _ _ => 0⟩, _, _, 3, ⟨rfl, by decide⟩, rfl, rfl, rfl, ?_,
    rfl, ?_, _, rfl, ⟨rfl, by decide⟩⟩
  · intro h; exact absurd h.1 (by decide)
  · decide

/-- **only_active_page**, over histories within one video mode: from any state in which the viewport points at
    the active page, after any list of statements (page switches, VIEW, drawing statements in any order, failing
    ones included), a page that was never the active page at any point of the history is unchanged. -/
theorem only_active_page (attr : Nat) (sts : List Stmt) :
    ∀ (s : Screen), Inv s → (∀ st ∈ sts, ∀ v, FillOk v st) → (∀ st ∈ sts, st.isModeSwitch = false) → ∀ (i : Nat),
      (∀ k, (run s attr (sts.take k)).apage ≠ i) → (run s attr sts).pages i = s.pages i := by
  induction sts with
  | nil => intro s _ _ _ i _; rfl
  | cons st rest ih =>
    intro s hinv hf hm i hk
    have h0 : s.apage ≠ i := by simpa [run] using hk 0
    have hfr : ∀ st ∈ rest, ∀ v, FillOk v st := fun st hm => hf st (List.mem_cons_of_mem _ hm)
    have hmr : ∀ st ∈ rest, st.isModeSwitch = false := fun st h => hm st (List.mem_cons_of_mem _ h)
    unfold run
    cases hs : step s attr st with
    | error e =>
      simp only []
      apply ih s hinv hfr hmr i
      intro k
      have := hk (k + 1)
      simpa [List.take, run, hs] using this
    | ok s' =>
      simp only []
      obtain ⟨hinv', hp, _⟩ := step_only_active_page_in_view s hinv attr st s' (hf st List.mem_cons_self s.view)
        (hm st List.mem_cons_self) hs
      rw [ih s' hinv' hfr hmr i ?_]
      · exact hp i (fun h => h0 h.symm)
      · intro k
        have := hk (k + 1)
        simpa [List.take, run, hs] using this

/-- **text_mode_ifc**: in a text mode every graphics statement raises Illegal function call (and, being an
    error, leaves the state as it was: `run` skips it). -/
theorem text_mode_ifc (s : Screen) (attr : Nat) (st : Stmt) (ht : s.textMode = true) (hg : st.isGraphics = true) :
    step s attr st = .error PcbV.Gen.E.ifc := by
  cases st <;> simp [step, ht, Viewport.ifc, Stmt.isGraphics] at hg ⊢

/-! ### statements that fail -/

/-- **failed_op_keeps_view**: over the whole statement alphabet (drawing statements, VIEW with or without attribute
    values, VIEW off, page switch, mode switch), a statement that raises an error leaves the state exactly as it
    was - the viewport, the active page, the page the viewport points at and every pixel of every page.  For VIEW
    this is the order of `view_`: the coordinate and the 0..255 attribute checks precede `graph_view.unset()`. -/
theorem failed_op_keeps_view (s : Screen) (attr : Nat) (op : Op) (h : (exec s attr op).2 ≠ none) :
    (exec s attr op).1 = s := by
  cases op with
  | stmt st =>
    simp only [exec] at h ⊢
    cases hs : step s attr st with
    | ok s' => rw [hs] at h; exact absurd rfl h
    | error e => rfl
  | viewAttr x0 y0 x1 y1 a f b =>
    simp only [exec] at h ⊢
    unfold viewExec at h ⊢
    split
    · rfl
    · split
      · rfl
      · split
        · rfl
        · split
          · rfl
          · split
            · rfl
            · split
              · rfl
              · rename_i h1 h2 h3 h4 h5 h6
                simp only [h1, h2, h3, h4, h5, h6, if_false] at h
                exact absurd rfl h

/-- Hence in every history a failing statement can be dropped without changing the state reached - in particular
    the viewport in force for the drawing statements that follow it. -/
theorem failed_op_is_skipped (s : Screen) (attr : Nat) (op : Op) (rest : List Op)
    (h : (exec s attr op).2 ≠ none) : execAll s attr (op :: rest) = execAll s attr rest := by
  show execAll (exec s attr op).1 attr rest = execAll s attr rest
  rw [failed_op_keeps_view s attr op h]

/-- an accepted VIEW with attribute values is the VIEW statement of `step` (fill / border given or not) -/
theorem view_attr_ok_is_step (s : Screen) (attr : Nat) (x0 y0 x1 y1 : Int) (a : Bool) (f b : Option Int)
    (h : (viewExec s attr x0 y0 x1 y1 a f b).2 = none) :
    step s attr (.view x0 y0 x1 y1 a f.isSome b.isSome) = .ok (viewExec s attr x0 y0 x1 y1 a f b).1 := by
  by_cases ht : s.textMode = true
  · simp [viewExec, ht] at h
  by_cases hx : (0 ≤ x0 ∧ x0 ≤ s.view.W - 1 ∧ 0 ≤ x1 ∧ x1 ≤ s.view.W - 1)
  case neg => simp [viewExec, ht, hx] at h
  by_cases hy : (0 ≤ y0 ∧ y0 ≤ s.view.H - 1 ∧ 0 ≤ y1 ∧ y1 ≤ s.view.H - 1)
  case neg => simp [viewExec, ht, hx, hy] at h
  by_cases he : (x0 = x1 ∨ y0 = y1)
  · simp [viewExec, ht, hx, hy, he] at h
  by_cases hf : attrOk f = true
  case neg => simp [viewExec, ht, hx, hy, he, hf] at h
  by_cases hb : attrOk b = true
  case neg => simp [viewExec, ht, hx, hy, he, hf, hb] at h
  simp only [step, viewStmt, viewExec, ht, hx, hy, he, hf, hb, not_true_eq_false, if_false,
    Bool.false_eq_true]
  cases f <;> cases b <;>
    simp [drawTo, applyOps, List.foldl_append, setPg_setPg, setPg_self, setPg]

/-- The seeded reordering (attribute checks inside `_set_view`, after `graph_view.unset()`): a VIEW whose border
    attribute is 300 raises Illegal function call but leaves the full-screen viewport in force instead of the one
    that was set; the code's order keeps it. -/
theorem lazy_view_attr_check_drops_view :
    ∃ (s : Screen) (attr : Nat), Inv s ∧
      (viewExecLazy s attr 120 60 180 90 false none (some 300)).2 = some PcbV.Gen.E.ifc ∧
      (viewExecLazy s attr 120 60 180 90 false none (some 300)).1.view ≠ s.view ∧
      (viewExec s attr 120 60 180 90 false none (some 300)) = (s, some PcbV.Gen.E.ifc) := by
  refine ⟨⟨false, 2, 0, 0, (View.full 320 200).set 100 50 200 100 false, fun _ _ _ => 0⟩, 3, ⟨rfl, by decide⟩,
    rfl, by decide, rfl⟩

/-! ### non-vacuity: the hypotheses are satisfiable and the primitives do write cells -/

example : (View.full 320 200).wf := by decide
example : ((View.full 320 200).set 10 10 50 50 false).wf := by decide
example : writes (View.full 320 200) (drawLine (View.full 320 200) 0 0 5 3 0xffff) 5 3 := by decide
example : writes ((View.full 320 200).set 10 10 50 50 false)
    (drawBoxFilled ((View.full 320 200).set 10 10 50 50 false) (-100) (-100) 3 2) 13 12 := by decide
example : writes ((View.full 320 200).set 10 10 50 50 true) (drawCircle 30 30 5) 35 30 := by decide
example : put ((View.full 320 200).set 10 10 50 50 false) 0 0 9 7 =
    .ok [⟨.slice (some 0) (some 7), .slice (some 0) (some 9)⟩] := by decide
example : put ((View.full 320 200).set 10 10 50 50 false) 33 0 9 7 = .error 5 := by decide
example : Inv ⟨false, 2, 0, 0, View.full 8 8, fun _ _ _ => 0⟩ := ⟨rfl, by decide⟩
example : FillOk (View.full 8 8) (.fill 3 1 5) := by
  intro y xl xr h; injection h with h1 h2 h3; subst h1 h2 h3; decide

/-! ### the code before the repairs -/

/-- Defect (repaired, pending fix C30-view-omitted-fill-border): before the repair `VIEW (x0,y0)-(x1,y1)` without fill and border
    still drew both with attribute 0, i.e. it wrote cells although nothing was to be drawn — also on the
    frame outside the new viewport. -/
theorem old_view_counterexample :
    ∃ (v : View) (ops : Ops) (v' : View) (cx cy : Int), v.wf ∧
      viewStmtOld v 2 2 4 4 false false false = .ok (ops, v') ∧
      (∃ op ∈ ops, v.unset.written op.yi op.xi cx cy = true) ∧ ¬ v'.inRect cx cy ∧
      (viewStmt v 2 2 4 4 false false false).map Prod.fst = .ok [] := by
  refine ⟨View.full 8 8, _, _, 1, 1, by decide, rfl, ?_, by decide, rfl⟩
  decide

/-- Defect (repaired, pending fix C30-set-page-viewport-size): before the repair `SCREEN ,,n` with a VIEW smaller than the screen
    left the viewport pointing at the old page while the active page number changed, so the next drawing
    statement changed a page other than the active one. -/
theorem old_set_page_counterexample :
    ∃ (s s1 s2 : Screen) (attr : Nat), Inv s ∧ setPageOld s 1 = .ok s1 ∧ ¬ Inv s1 ∧
      step s1 attr (.pset 0 0) = .ok s2 ∧ s1.apage = 1 ∧ s2.pages 0 10 10 ≠ s1.pages 0 10 10 := by
  refine ⟨⟨false, 2, 0, 0, (View.full 320 200).set 10 10 50 50 false, fun _ _ _ => 0⟩, _, _, 1,
    ⟨rfl, by decide⟩, rfl, ?_, rfl, rfl, ?_⟩
  · intro h; exact absurd h.1 (by decide)
  · decide

/-! ### tie to the source: the integer code of `GraphicsViewPort`

`PcbV.Gen.Translated.vp*` are regenerated from the Python AST of `GraphicsViewPort.width`, `height`,
`get_bounds`, `_convert_coords`, `contains`, `get_mid`, `cutoff_coord` (gen/tables_py2lean.py; parameters
`absolute = self._absolute`, `(r0, r1, r2, r3) = self._rect`, `maxW, maxH = self._max_width, _max_height`;
a method returning a tuple is one definition per component; calls of `get_bounds` / `_convert_coords`
are the translated definitions).  The theorems say that the hand-written `View` functions are that code,
for every viewport state and all integer coordinates. -/

open PcbV.Gen.Translated in
theorem translated_vp_supported :
    vpWidth_supported = true ∧ vpHeight_supported = true ∧ vpBounds0_supported = true ∧
    vpBounds1_supported = true ∧ vpBounds2_supported = true ∧ vpBounds3_supported = true ∧
    vpConvert0_supported = true ∧ vpConvert1_supported = true ∧ vpContains_supported = true ∧
    vpMid0_supported = true ∧ vpMid1_supported = true ∧ vpCutoff0_supported = true ∧
    vpCutoff1_supported = true := by decide

open PcbV.Gen.Translated in
theorem translated_vpBounds_eq (v : View) :
    v.getBounds = (vpBounds0 v.absolute v.x0 v.y0 v.x1 v.y1, vpBounds1 v.absolute v.x0 v.y0 v.x1 v.y1,
      vpBounds2 v.absolute v.x0 v.y0 v.x1 v.y1, vpBounds3 v.absolute v.x0 v.y0 v.x1 v.y1) ∧
    v.width = vpWidth v.x0 v.y0 v.x1 v.y1 ∧ v.height = vpHeight v.x0 v.y0 v.x1 v.y1 := by
  simp [View.getBounds, View.xmin, View.ymin, View.xmax, View.ymax, View.width, View.height,
    vpBounds0, vpBounds1, vpBounds2, vpBounds3, vpWidth, vpHeight]

open PcbV.Gen.Translated in
theorem translated_vpContains_eq (v : View) (x y : Int) :
    v.contains x y = vpContains v.absolute v.x0 v.y0 v.x1 v.y1 x y := by
  cases h : v.absolute <;>
  simp [View.contains, View.xmin, View.ymin, View.xmax, View.ymax, View.width, View.height,
    vpContains, vpBounds0, vpBounds1, vpBounds2, vpBounds3, vpWidth, vpHeight, h, Bool.and_assoc]

open PcbV.Gen.Translated in
theorem translated_vpConvert_eq (v : View) (x y : Int) :
    v.convertCoords x y = (vpConvert0 v.absolute v.x0 v.y0 v.x1 v.y1 x y, vpConvert1 v.absolute v.x0 v.y0 v.x1 v.y1 x y) := by
  cases h : v.absolute <;> simp [View.convertCoords, View.offX, View.offY, vpConvert0, vpConvert1, h]

open PcbV.Gen.Translated in
theorem translated_vpMid_eq (v : View) :
    v.getMid = (vpMid0 v.absolute v.x0 v.y0 v.x1 v.y1, vpMid1 v.absolute v.x0 v.y0 v.x1 v.y1) := by
  have e : ∀ z : Int, Int.fdiv z 2 = z / 2 := fun z => Int.fdiv_eq_ediv_of_nonneg z (by decide)
  cases h : v.absolute <;>
  simp [View.getMid, View.xmin, View.ymin, View.xmax, View.ymax, View.width, View.height,
    vpMid0, vpMid1, vpBounds0, vpBounds1, vpBounds2, vpBounds3, vpWidth, vpHeight, h, e]

open PcbV.Gen.Translated in
theorem translated_vpCutoff_eq (v : View) (x y : Int) :
    v.cutoffCoord x y = (vpCutoff0 v.absolute v.x0 v.y0 v.x1 v.y1 v.W v.H x y,
      vpCutoff1 v.absolute v.x0 v.y0 v.x1 v.y1 v.W v.H x y) := by
  cases h : v.absolute <;>
  simp [View.cutoffCoord, View.convertCoords, View.offX, View.offY, vpCutoff0, vpCutoff1, vpConvert0, vpConvert1, h]

end PcbV.C30
