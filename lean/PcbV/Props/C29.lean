import PcbV.Lemmas.Cassette
/-
  C29 — Files written to a cassette image read back intact.

  Property theorems about `PcbV.Cassette`, the record-level model of devices/cassette.py with ALL
  repairs applied (`rel = true`: `_search` closes the stream when it runs off the tape end; `fixed = true`: `_flush_record_buffer` keeps a full last chunk for the
  closing record; `skipBody = true`: `_search` plays past the records of a skipped file; `closeStream`/
  `closeFile` = `closeStreamWith true`: `close` plays a file open for reading to its end).  The bit
  level (leader, sync, trailer, CAS bit packing, WAV pulses) is abstracted to "a tape is a list of
  records, a record a list of 256-byte blocks"; the CRC is a parameter (a block written verifies).
  Vocabulary (PcbV.Lemmas.Cassette): `TFile` = a file as it lies on tape, `encode` = its records,
  `textRecs cs` = the records of a text body written in the chunks `cs`, `annot` = how the written
  `File`s lie on the tape (text headers repeat the numbers of the last binary file).
-/
namespace PcbV.C29
open PcbV PcbV.Cassette PcbV.CassetteLemmas

/-- Record framing of binary files (B, P, M): one multi-block record gives back every content,
    whatever its length (0, multiples of 256, …). -/
theorem binary_roundtrip (d : Bytes) :
    readRecordLen d.length (writeRecord d) = .ok d ∧
    fillFrom true d.length (writeRecord d) = .ok (d, true) :=
  ⟨readRecordLen_writeRecord d, fillFrom_bin d⟩

/-- Text files (D, A), every history of `write` calls (PRINT#/WRITE#/SAVE,A write byte by byte) and every
    total length: after CLOSE the tape holds `textRecs cs` after what was there, and reading these
    records — whatever follows them on the tape — returns exactly the bytes written, marks the buffer
    complete and leaves the tape at the record after the file. -/
theorem text_roundtrip (s : St) (cs : List Bytes) (ho : s.isOpen = true) (hw : s.writing = true)
    (ht : isText s.ftype = true) (hbuf : s.buf = []) :
    (closeFile true (cs.foldl (write true) s)).done = s.done ++ textRecs cs ∧
    (closeFile true (cs.foldl (write true) s)).isOpen = false ∧
    ∀ (len : Nat) (tail : Tape) (c : Bytes),
      readLoop false len none (textRecs cs ++ tail) c [] false = .ok (c ++ cs.flatten, [], true, tail) := by
  rw [stream_text_records s cs ho hw ht hbuf]
  exact ⟨rfl, rfl, fun len tail c => textRecs_read cs len tail c⟩

/-- The way the bytes are cut into `write` calls does not matter. -/
theorem chunking_irrelevant (cs : List Bytes) (len : Nat) (tail : Tape) :
    readLoop false len none (textRecs cs ++ tail) [] [] false
      = readLoop false len none (textRecs [cs.flatten] ++ tail) [] [] false := by
  rw [textRecs_read, textRecs_read]; simp

/-- data_roundtrip + skip_others + no_mixing, on any tape: let the records ahead be the files `pre`
    (none of which answers the request), the file `f` (which does) and then ANY records `post`.
    OPEN/LOAD/BLOAD prints Skipped for each file of `pre` in order and Found for `f`, reports `f`'s
    header; reading then returns exactly `f.content` (nothing of `pre` or `post` is mixed in);
    afterwards the head is exactly in front of `post` (file k+1's header), and after CLOSE the
    stream is closed again, so the statement applies again to the next request. -/
theorem data_roundtrip (req types : Bytes) (pre : List TFile) (f : TFile) (post : Tape) (s : St)
    (hreq : req.any (· < 32) = false) (hs : s.isOpen = false)
    (hpre : ∀ g ∈ pre, g.wf ∧ nameMatches req types (padName g.name) g.ftype = false)
    (hf : f.wf) (hm : nameMatches req types (padName f.name) f.ftype = true)
    (ha : s.ahead = encode pre ++ (fileRecs f ++ post)) :
    ∃ s1 s2, openInput true true s req types = (pre.map skippedMsg ++ [foundMsg f], s1, .ok (hdrOf f)) ∧
      s1.ftype = f.ftype ∧
      Cassette.read s1 none = .ok (f.content, s2) ∧
      s2.ahead = post ∧ s2.done = s.done ++ encode pre ++ fileRecs f ∧
      (closeFile true s2).ahead = post ∧ (closeFile true s2).isOpen = false := by
  have hreq' : (req.any fun x => decide (x < 32)) = false := hreq
  have hfuel : pre.length < s.ahead.length + 1 := by
    have := encode_length pre
    rw [ha, List.length_append]; omega
  have hsearch := search_finds req types f post hf hm pre hpre s _ hfuel ha
  have hr := read_body (afterOpen s (s.done ++ encode pre ++ [hdrRec f]) f post) f post hf rfl rfl rfl rfl rfl
  refine ⟨afterOpen s (s.done ++ encode pre ++ [hdrRec f]) f post, _, ?_, rfl, hr, rfl, ?_, ?_, ?_⟩
  · simp [openInput, hs, hreq', hsearch]
  · simp [afterOpen, fileRecs, List.append_assoc]
  · exact (drains_close _ post (drains_complete _ rfl) rfl rfl).1
  · exact (drains_close _ post (drains_complete _ rfl) rfl rfl).2.1

/-- A request that no file between the head and the end of the tape answers (a name that is not there,
    or a file that lies behind the head): Skipped for each file passed, Device Timeout — and afterwards
    the tape is rewound to its beginning and the stream is CLOSED, so the hypotheses of `data_roundtrip`
    hold again with the whole tape ahead: every file can still be found by name after a failed search. -/
theorem failed_search_rewinds (req types : Bytes) (pre : List TFile) (s : St)
    (hreq : req.any (· < 32) = false) (hs : s.isOpen = false)
    (hpre : ∀ g ∈ pre, g.wf ∧ nameMatches req types (padName g.name) g.ftype = false)
    (ha : s.ahead = encode pre) :
    ∃ s', openInput true true s req types = (pre.map skippedMsg, s', .error Gen.E.device_timeout) ∧
      s'.isOpen = false ∧ s'.done = [] ∧ s'.ahead = s.done ++ s.ahead ∧ s'.last = s.last := by
  have hreq' : (req.any fun x => decide (x < 32)) = false := hreq
  have hfuel : pre.length < s.ahead.length + 1 := by
    have := encode_length pre
    rw [ha]; omega
  obtain ⟨s', h1, h2⟩ := search_fails req types pre hpre s _ hfuel ha
  exact ⟨s', by simp [openInput, hs, hreq', h1], h2⟩

/-- Partial reads: let the search have found `g` (the state `afterOpen …`, whatever was before), and let the
    program take ANY sequence of `read(n)` from it (INPUT$, LINE INPUT#, INPUT# — any amounts, also none)
    and then CLOSE the file with the rest unread.  Then (repaired `close`, which plays the file to its
    end) the head is exactly in front of what follows `g` on the tape, the stream is closed and its
    buffer is empty — the hypotheses of `data_roundtrip` hold again, so the next file reads back intact
    and nothing of `g`'s unread rest can appear in it. -/
theorem partial_read_then_close (s : St) (d : Tape) (g : TFile) (post : Tape) (hg : g.wf)
    (ns : List Nat) (s2 : St) (hr : reads (afterOpen s d g post) ns = .ok s2) :
    (closeFile true s2).ahead = post ∧ (closeFile true s2).isOpen = false ∧
    (closeFile true s2).buf = [] ∧ (closeFile true s2).last = s.last := by
  obtain ⟨h1, h2, h3, h4⟩ := drains_reads ns _ s2 post (drains_afterOpen s d g post hg) hr
  obtain ⟨c1, c2, c3, c4⟩ := drains_close s2 post h1 (by rw [h2]; rfl) (by rw [h3]; rfl)
  exact ⟨c1, c2, c3, by rw [c4, h4]; rfl⟩

/-- Whatever the history, CLOSE leaves no bytes in the record buffer, and `open_read` starts every file
    with an empty buffer that is not marked complete (the two resets the buffer hygiene rests on). -/
theorem buffer_reset (fixed : Bool) (s : St) :
    (s.isOpen = true → (closeFile fixed s).buf = []) ∧
    (∀ s' h, openRead s = .ok (s', h) → s'.buf = [] ∧ s'.complete = false) := by
  constructor
  · intro ho
    have hb : ∀ (drain : Bool) (t : St), t.isOpen = true → (closeStreamWith drain fixed t).buf = [] := by
      intro drain t h; simp [closeStreamWith, h]
    have hwo : (write fixed s [0]).isOpen = s.isOpen := by
      unfold write flush; split <;> rfl
    unfold closeFile closeFileWith
    split
    · exact hb _ _ (by rw [hwo]; exact ho)
    · exact hb _ _ ho
  · intro s' h hopen
    unfold openRead at hopen
    cases hsc : scanHeader s.ahead with
    | error e => rw [hsc] at hopen; simp at hopen
    | ok v =>
      obtain ⟨b, used, left⟩ := v
      rw [hsc] at hopen
      simp only [Except.ok.injEq, Prod.mk.injEq] at hopen
      obtain ⟨rfl, _⟩ := hopen
      exact ⟨rfl, rfl⟩

/-- A failed statement keeps the state: while a cassette file is open, every further request to the tape —
    open for output of any type (OPEN FOR OUTPUT/APPEND, SAVE, SAVE ,A, SAVE ,P, BSAVE) or for input (OPEN FOR
    INPUT, LOAD, MERGE, BLOAD) — is refused with File already open and returns the stream state UNCHANGED
    (file type, last header numbers, buffer, mode, tape position), so the I/O on the open file goes on as if the
    statement had never been issued and all round-trip theorems still apply to it. -/
theorem refused_keeps_state (s : St) (h : s.isOpen = true) :
    (∀ name ft seg offs len, openWrite s name ft seg offs len = .error Gen.E.file_already_open) ∧
    (∀ skip rel req types, openInput skip rel s req types = ([], s, .error Gen.E.file_already_open)) ∧
    (∀ fixed f, writeFile fixed s f = .error Gen.E.file_already_open) := by
  refine ⟨?_, ?_, ?_⟩
  · intro name ft seg offs len; simp [openWrite, h]
  · intro skip rel req types; simp [openInput, h]
  · intro fixed f; simp [writeFile, openWrite, h]

/-- no_mixing, stated as independence: the bytes delivered for `f` are the same whatever other files
    precede it (and are skipped) and whatever follows it. -/
theorem no_mixing (req types : Bytes) (pre pre' : List TFile) (f : TFile) (post post' : Tape) (s s' : St)
    (hreq : req.any (· < 32) = false) (hs : s.isOpen = false) (hs' : s'.isOpen = false)
    (hpre : ∀ g ∈ pre, g.wf ∧ nameMatches req types (padName g.name) g.ftype = false)
    (hpre' : ∀ g ∈ pre', g.wf ∧ nameMatches req types (padName g.name) g.ftype = false)
    (hf : f.wf) (hm : nameMatches req types (padName f.name) f.ftype = true)
    (ha : s.ahead = encode pre ++ (fileRecs f ++ post))
    (ha' : s'.ahead = encode pre' ++ (fileRecs f ++ post')) :
    (Cassette.read (openInput true true s req types).2.1 none).map (·.1) = .ok f.content ∧
    (Cassette.read (openInput true true s' req types).2.1 none).map (·.1) = .ok f.content := by
  obtain ⟨s1, s2, h1, _, h2, _⟩ := data_roundtrip req types pre f post s hreq hs hpre hf hm ha
  obtain ⟨s1', s2', h1', _, h2', _⟩ := data_roundtrip req types pre' f post' s' hreq hs' hpre' hf hm ha'
  rw [h1, h1']; simp only []
  rw [h2, h2']; exact ⟨rfl, rfl⟩

/-- What the writer puts on a fresh tape for ANY sequence of files (names without control characters,
    lengths and addresses below 64K): exactly `encode (annot (0,0,0) fs)`; each annotated file is well
    formed and keeps name, type and content — so `data_roundtrip` applies to every file of it. -/
theorem written_tape (fs : List File) (hfs : ∀ f ∈ fs, fileOk f) :
    ∃ s', writeFiles true (attach []) fs = .ok s' ∧ s'.tape = encode (annot (0, 0, 0) fs) ∧ s'.isOpen = false := by
  obtain ⟨s', h1, h2, h3, h4⟩ := writeFiles_tape fs (attach []) hfs rfl rfl
  exact ⟨s', h1, by simp [St.tape, h2, h3, attach], h4⟩

/-- End to end, for EVERY sequence of files `pre ++ f :: rest` (any contents, any lengths) written to a
    fresh tape: after ejecting and attaching the image again, a request that `f` answers and no file of
    `pre` does prints Skipped for each file of `pre`, Found for `f`, returns exactly `f.content`, and
    leaves the head in front of the records of `rest` (the next file's header). -/
theorem tape_roundtrip (pre : List File) (f : File) (rest : List File) (req types : Bytes)
    (hok : ∀ g ∈ pre ++ f :: rest, fileOk g) (hreq : req.any (· < 32) = false)
    (hpre : ∀ g ∈ pre, nameMatches req types (padName g.name) g.ftype = false)
    (hm : nameMatches req types (padName f.name) f.ftype = true) :
    ∃ s' s1 s2 h, writeFiles true (attach []) (pre ++ f :: rest) = .ok s' ∧
      openInput true true (attach (closeStream true s').tape) req types =
        (pre.map (fun g => (⟨false, padName g.name, g.ftype⟩ : Msg)) ++ [⟨true, padName f.name, f.ftype⟩], s1, .ok h) ∧
      s1.ftype = f.ftype ∧
      Cassette.read s1 none = .ok (f.content, s2) ∧
      s2.ahead = encode (annot (newLast (pre.foldl newLast (0, 0, 0)) f) rest) := by
  obtain ⟨s', hw, htape, hclosed⟩ := written_tape (pre ++ f :: rest) hok
  have hl0 : lastOk (0, 0, 0) := ⟨by decide, by decide, by decide⟩
  have hokpre : ∀ g ∈ pre, fileOk g := fun g hg => hok g (by simp [hg])
  have hokf : fileOk f := hok f (by simp)
  have hl1 := foldl_newLast_ok pre (0, 0, 0) hokpre hl0
  have hfld := annot1_fields (pre.foldl newLast (0, 0, 0)) f
  have hcs : closeStream true s' = s' := by simp [closeStream, closeStreamWith, hclosed]
  have hahead : (attach (closeStream true s').tape).ahead =
      encode (annot (0, 0, 0) pre) ++ (fileRecs (annot1 (pre.foldl newLast (0, 0, 0)) f) ++
        encode (annot (newLast (pre.foldl newLast (0, 0, 0)) f) rest)) := by
    rw [hcs, htape, annot_append]
    simp [attach, annot, encode, encode_append]
  obtain ⟨s1, s2, h1, h2, h3, h4, _⟩ := data_roundtrip req types (annot (0, 0, 0) pre)
    (annot1 (pre.foldl newLast (0, 0, 0)) f) _ (attach (closeStream true s').tape) hreq rfl
    (annot_nomatch req types pre (0, 0, 0) hokpre hl0 hpre)
    (annot1_wf _ f hokf hl1) (by rw [hfld.1, hfld.2.1]; exact hm) hahead
  refine ⟨s', s1, s2, hdrOf (annot1 (pre.foldl newLast (0, 0, 0)) f), hw, ?_, ?_, ?_, h4⟩
  · rw [h1, annot_skipped]; simp [foundMsg, hfld.1, hfld.2.1]
  · rw [h2, hfld.2.1]
  · rw [h3, hfld.2.2]

/-! ### non-vacuity and the defects of the unrepaired code -/

/-- write the files on a fresh tape, eject, attach again, open `req` and read everything -/
def roundTrip (fixed skip : Bool) (fs : List File) (req types : Bytes) : Option (List Msg × Bytes) :=
  match writeFiles fixed (attach []) fs with
  | .error _ => none
  | .ok s =>
    let r := openInput skip true (attach (closeStream fixed s).tape) req types
    match r.2.2, Cassette.read r.2.1 none with
    | .ok _, .ok (d, _) => some (r.1, d)
    | _, _ => none

def fileOne (n : Nat) : File := ⟨[79, 78, 69], tD, List.replicate n 65, 0, 0⟩
def fileTwo : File := ⟨[84, 87, 79], tD, [88, 89], 0, 0⟩
/-- 164 bytes that start like the header fields of a data file called TWO -/
def fileTrap : File := ⟨[79, 78, 69], tD, [84, 87, 79, 32, 32, 32, 32, 32, 0] ++ List.replicate 155 120, 0, 0⟩

/-- the repaired code at the critical length 254 (= 255 with the NUL): intact -/
example : roundTrip true true [fileOne 254, fileTwo] [79, 78, 69] [tD]
    = some ([⟨true, [79, 78, 69, 32, 32, 32, 32, 32], tD⟩], List.replicate 254 65) := by decide +kernel
example : roundTrip true true [fileOne 254, fileTwo] [84, 87, 79] [tD]
    = some ([⟨false, [79, 78, 69, 32, 32, 32, 32, 32], tD⟩, ⟨true, [84, 87, 79, 32, 32, 32, 32, 32], tD⟩], [88, 89]) := by
  decide +kernel
example : roundTrip true true [fileTrap, fileTwo] [84, 87, 79] [tD]
    = some ([⟨false, [79, 78, 69, 32, 32, 32, 32, 32], tD⟩, ⟨true, [84, 87, 79, 32, 32, 32, 32, 32], tD⟩], [88, 89]) := by
  decide +kernel
example : fileOk (fileOne 254) ∧ fileOk fileTwo := by
  refine ⟨⟨Or.inr (Or.inr (Or.inl rfl)), by decide, ?_, by decide, by decide⟩,
          ⟨Or.inr (Or.inr (Or.inl rfl)), by decide, by decide, by decide, by decide⟩⟩
  show (List.replicate 254 65).length < 65536
  rw [List.length_replicate]; decide

/-- D10 (original `_flush_record_buffer`, `len(data) < 255`): a 254-byte data file gets no closing
    record; reading it runs on into the next file's header (254 + NUL + 164 header bytes) … -/
theorem d10_counterexample :
    (roundTrip false true [fileOne 254, fileTwo] [79, 78, 69] [tD]).map (fun r => r.2.length) = some 419 ∧
    roundTrip false true [fileOne 254, fileTwo] [79, 78, 69] [tD]
      ≠ some ([⟨true, [79, 78, 69, 32, 32, 32, 32, 32], tD⟩], List.replicate 254 65) := by
  decide +kernel

/-- … and with the original `_search` (no skipping of the body) a data file whose closing record holds
    165 bytes (count byte 0xA5) is taken for a header: the request for TWO is answered from inside
    file ONE and delivers bytes of TWO's header instead of TWO's content. -/
theorem skip_counterexample :
    roundTrip true false [fileTrap, fileTwo] [84, 87, 79] [tD]
      ≠ some ([⟨false, [79, 78, 69, 32, 32, 32, 32, 32], tD⟩, ⟨true, [84, 87, 79, 32, 32, 32, 32, 32], tD⟩], [88, 89]) ∧
    (roundTrip true false [fileTrap, fileTwo] [84, 87, 79] [tD]).map (fun r => r.2.length) = some 164 := by
  decide +kernel

/-- write the files, attach again, search a name that is not on the tape, then open `req` -/
def afterMiss (rel : Bool) (fs : List File) (req types : Bytes) : Option (List Msg × R Unit) :=
  match writeFiles true (attach []) fs with
  | .error _ => none
  | .ok s =>
    let r0 := openInput true rel (attach (closeStream true s).tape) [78, 79, 80, 69] types
    let r := openInput true rel r0.2.1 req types
    some (r0.1 ++ r.1, r.2.2.map fun _ => ())

/-- the repaired code finds ONE after the failed search for NOPE -/
example : afterMiss true [fileOne 3, fileTwo] [79, 78, 69] [tD]
    = some ([⟨false, [79, 78, 69, 32, 32, 32, 32, 32], tD⟩, ⟨false, [84, 87, 79, 32, 32, 32, 32, 32], tD⟩,
             ⟨true, [79, 78, 69, 32, 32, 32, 32, 32], tD⟩], .ok ()) := by decide +kernel

/-- original `_search` (stream left open when the search runs off the end of the tape after passing a
    header): the next OPEN of a file that IS on the tape fails with File already open (55). -/
theorem timeout_counterexample :
    afterMiss false [fileOne 3, fileTwo] [79, 78, 69] [tD]
      = some ([⟨false, [79, 78, 69, 32, 32, 32, 32, 32], tD⟩, ⟨false, [84, 87, 79, 32, 32, 32, 32, 32], tD⟩],
              .error Gen.E.file_already_open) := by
  decide +kernel

/-- a full record of 255 bytes, then the 164 bytes of `fileTrap`: the closing record starts with 0xA5 -/
def fileTrap2 : File := ⟨[79, 78, 69], tD, List.replicate 255 121 ++ fileTrap.content, 0, 0⟩

/-- write the files, attach again, open ONE, read `n` bytes, CLOSE, then open `req` and read everything -/
def afterPartial (drain : Bool) (fs : List File) (n : Nat) (req types : Bytes) : Option (List Msg × Bytes) :=
  match writeFiles true (attach []) fs with
  | .error _ => none
  | .ok s =>
    let r0 := openInput true true (attach (closeStream true s).tape) [79, 78, 69] types
    match Cassette.read r0.2.1 (some n) with
    | .error _ => none
    | .ok (_, s1) =>
      let r := openInput true true (closeFileWith drain true s1) req types
      match r.2.2, Cassette.read r.2.1 none with
      | .ok _, .ok (d, _) => some (r.1, d)
      | _, _ => none

/-- the repaired `close`: after 5 bytes of ONE, TWO is found and intact -/
example : afterPartial true [fileTrap2, fileTwo] 5 [84, 87, 79] [tD]
    = some ([⟨true, [84, 87, 79, 32, 32, 32, 32, 32], tD⟩], [88, 89]) := by decide +kernel

/-- original `close` (head stays inside the partly read file): the closing record of ONE (165 bytes, count
    byte 0xA5) is taken for the header of TWO and bytes of TWO's real header are delivered as its content. -/
theorem close_counterexample :
    afterPartial false [fileTrap2, fileTwo] 5 [84, 87, 79] [tD]
      ≠ some ([⟨true, [84, 87, 79, 32, 32, 32, 32, 32], tD⟩], [88, 89]) ∧
    (afterPartial false [fileTrap2, fileTwo] 5 [84, 87, 79] [tD]).map (fun r => r.2.length) = some 164 := by
  decide +kernel

end PcbV.C29
