/-
  C16 — a protected program never discloses its text in direct mode.

  The theorems are about the guard logic of PcbV.Model.Protected (a transcription of the `protected`
  tests in program.py / machine.py / implementation.py) over the *generated* dispatch tables
  PcbV.Gen.Stmts.  What is proved: every callback of the real tables is classified, every callback
  classified as disclosing or injecting is stopped by its guard in direct mode whenever the flag is
  set, the flag cannot be cleared from direct mode without dropping the program, SAVE ,P stays
  possible, and the flag is not consulted on the execution path (except by the always-guards of
  LIST/LLIST/EDIT/SAVE/MERGE/CHAIN MERGE, as in GW-BASIC).
  What is NOT proved here (assumption, validated by the enumeration in props/c16.py): that a callback
  classified `harmless` really cannot reach the program text.
-/
import PcbV.Lemmas.Protected

namespace PcbV.C16
open PcbV.Protected PcbV.Protected.Lemmas PcbV.Gen.Stmts

/-! ### the classification covers the generated tables -/

/-- Every callback that occurs in the statement or function dispatch table of the current source is
    classified.  A statement or function added to parser/statements.py or parser/expressions.py
    (new callback) makes this fail until it is classified. -/
theorem classification_total :
    ∀ e ∈ statements ++ functions, (classify e.2).isSome = true := by decide +kernel

/-- … and so is every constructor of the generated enumeration. -/
theorem classification_total_enum : ∀ c ∈ allCbs, (classify c).isSome = true := by decide +kernel

/-- Each callback is classified once (the table is a function). -/
theorem classification_unambiguous : (classTable.map (·.1)).Nodup := by decide +kernel

/-! ### no disclosure -/

/-- *Partial* (gap: READ).  For every classified callback other than READ and every argument class for
    which it would emit program text/bytes or inject code: if the program is protected, the statement
    executed from a direct line ends in Illegal function call, with nothing done (state unchanged).
    Missing for the full statement: `interpreter.read_` copies DATA items of the protected program into
    variables from direct mode without any guard (see `read_data_counterexample`, known finding
    C16-READ). -/
theorem no_disclosure_partial (c : Cb) (k : Class) (s : St) (a : Args)
    (hc : classify c = some k) (hr : c ≠ Cb.interpreter_read_)
    (hp : s.prot = true) (hpre : a.preErr = none)
    (hd : materialise k.danger a ≠ .none) :
    step false s (.stmt c a) = (.ifc, s) := by
  have hm := lookup_mem c k classTable hc
  have hk := table_guarded (c, k) hm hr
  have hb := guarded_blocks k s a hk hp hd
  simp [step, hc, hpre, hb]

/-- Entering (or deleting) a numbered line at the prompt fails with Illegal function call. -/
theorem enter_line_blocked (s : St) (hp : s.prot = true) :
    step false s .enterLine = (.ifc, s) := by
  simp [step, hp]

/-- The statements the property names, with the outcome spelled out. -/
theorem named_statements_blocked (s : St) (a : Args) (hp : s.prot = true) (hpre : a.preErr = none) :
    step false s (.stmt .list_ a) = (.ifc, s) ∧
    step false s (.stmt .interpreter_llist_ a) = (.ifc, s) ∧
    step false s (.stmt .edit_ a) = (.ifc, s) ∧
    step false s (.stmt .all_memory_peek_ a) = (.ifc, s) ∧
    step false s (.stmt .all_memory_bsave_ a) = (.ifc, s) ∧
    step false s (.stmt .all_memory_poke_ a) = (.ifc, s) ∧
    step false s (.stmt .all_memory_bload_ a) = (.ifc, s) ∧
    (a.mode ≠ 2 ∨ a.devD = true → step false s (.stmt .save_ a) = (.ifc, s)) ∧
    (a.hasLine = true → step false s (.stmt .merge_ a) = (.ifc, s)) ∧
    (a.merge = true → step false s (.stmt .chain_ a) = (.ifc, s)) := by
  have c1 : classify .list_ = some ⟨.emit, .always, .none⟩ := by decide +kernel
  have c2 : classify .interpreter_llist_ = some ⟨.emit, .always, .none⟩ := by decide +kernel
  have c3 : classify .edit_ = some ⟨.emit, .always, .none⟩ := by decide +kernel
  have c4 : classify .all_memory_peek_ = some ⟨.emit, .directOnly, .none⟩ := by decide +kernel
  have c5 : classify .all_memory_bsave_ = some ⟨.emit, .directOnly, .none⟩ := by decide +kernel
  have c6 : classify .all_memory_poke_ = some ⟨.none, .directOnly, .pokeFlag⟩ := by decide +kernel
  have c7 : classify .all_memory_bload_ = some ⟨.none, .directOnly, .pokeFlag⟩ := by decide +kernel
  have c8 : classify .save_ = some ⟨.emitUnlessP, .unlessP, .none⟩ := by decide +kernel
  have c9 : classify .merge_ = some ⟨.injectIfLine, .storeLine, .none⟩ := by decide +kernel
  have c10 : classify .chain_ = some ⟨.injectIfMergeLine, .ifMerge, .loadFile⟩ := by decide +kernel
  refine ⟨?_, ?_, ?_, ?_, ?_, ?_, ?_, ?_, ?_, ?_⟩
  · simp [step, c1, hpre, hp, blocked]
  · simp [step, c2, hpre, hp, blocked]
  · simp [step, c3, hpre, hp, blocked]
  · simp [step, c4, hpre, hp, blocked]
  · simp [step, c5, hpre, hp, blocked]
  · simp [step, c6, hpre, hp, blocked]
  · simp [step, c7, hpre, hp, blocked]
  · intro h
    rcases h with h | h
    · by_cases hd : a.devD = true <;> simp [step, c8, hpre, hp, blocked, effMode, h, hd]
    · simp [step, c8, hpre, hp, blocked, effMode, h]
  · intro h; simp [step, c9, hpre, hp, blocked, h]
  · intro h; simp [step, c10, hpre, hp, blocked, h]

/-- Defect of the code as it is (kept as known finding C16-READ): READ in direct mode gets through on a
    protected program and hands DATA items to the user. -/
theorem read_data_counterexample :
    ¬ (∀ (c : Cb) (k : Class) (s : St) (a : Args), classify c = some k → s.prot = true →
        a.preErr = none → materialise k.danger a ≠ .none → step false s (.stmt c a) = (.ifc, s)) := by
  intro h
  have := h .interpreter_read_ ⟨.emitData, .none, .none⟩ ⟨true, true, true⟩ {} (by decide) rfl rfl (by decide)
  revert this
  decide

/-! ### SAVE ,P -/

/-- SAVE in protected form is never stopped by the flag (direct mode or program), discloses nothing and
    leaves the flags alone. -/
theorem save_p_allowed (run : Bool) (s : St) (a : Args) (hm : a.mode = 2) (hd : a.devD = false)
    (hpre : a.preErr = none) :
    step run s (.stmt .save_ a) = (.pass .none, s) := by
  have c8 : classify .save_ = some ⟨.emitUnlessP, .unlessP, .none⟩ := by decide +kernel
  simp [step, c8, hpre, blocked, effMode, hd, hm, materialise, applyEffect]

/-- The guard of SAVE looks at the type of the file that was actually opened, the same value that selects
    the output format: on a device that ignores the requested type (LPTn:, PRN report 'D' and would get the
    plain listing) a protected program is refused whatever mode letter the statement carries — also `,P`;
    and whenever SAVE is let through on a protected program, what is written is the protected form. -/
theorem save_typeless_device_blocked (run : Bool) (s : St) (a : Args) (hp : s.prot = true)
    (hd : a.devD = true) (hpre : a.preErr = none) :
    step run s (.stmt .save_ a) = (.ifc, s) := by
  have c8 : classify .save_ = some ⟨.emitUnlessP, .unlessP, .none⟩ := by decide +kernel
  simp [step, c8, hpre, blocked, effMode, hd, hp]

theorem save_through_is_protected_form (run : Bool) (s : St) (a : Args) (hp : s.prot = true) (d : Danger)
    (h : (step run s (.stmt .save_ a)).1 = .pass d) : d = .none ∧ effMode a = 2 := by
  have c8 : classify .save_ = some ⟨.emitUnlessP, .unlessP, .none⟩ := by decide +kernel
  simp only [step, c8] at h
  cases hpre : a.preErr with
  | some n => simp [hpre] at h
  | none =>
    simp only [hpre, blocked, hp, Bool.true_and] at h
    by_cases he : effMode a = 2
    · simp [he, materialise] at h
      exact ⟨h.symm, he⟩
    · simp [he] at h

/-! ### the flag cannot be cleared from direct mode -/

/-- No history of direct-mode operations (statements and functions of the table with any arguments, line
    entry) gets from "protected program in memory" to "its bytes in memory and the flag clear":
    the only direct operations that clear the flag (NEW, LOAD, RUN "file", CHAIN) replace the program. -/
theorem flag_not_clearable_in_direct_mode (s : St) (ops : List Op) (hi : Inv s) :
    Inv (runDirect s ops).2 := by
  induction ops generalizing s with
  | nil => exact hi
  | cons op ops ih =>
    simp only [runDirect]
    exact ih _ (step_inv false s op hi (by simp))

/-- POKE to the flag's address from a direct line is itself guarded (the address conversion comes first,
    then the guard, then the value). -/
theorem poke_flag_blocked (s : St) (a : Args) (hp : s.prot = true) (hpre : a.preErr = none) :
    step false s (.stmt .all_memory_poke_ a) = (.ifc, s) ∧
    step false s (.stmt .all_memory_bload_ a) = (.ifc, s) := by
  have c6 : classify .all_memory_poke_ = some ⟨.none, .directOnly, .pokeFlag⟩ := by decide +kernel
  have c7 : classify .all_memory_bload_ = some ⟨.none, .directOnly, .pokeFlag⟩ := by decide +kernel
  constructor
  · simp [step, c6, hpre, hp, blocked]
  · simp [step, c7, hpre, hp, blocked]

/-! ### histories -/

/-- *Partial* (gap: READ).  Over every mixed history — direct-mode operations interleaved with statements
    executed by the program itself — that starts in a state satisfying the invariant, in which the program
    does not clear its own flag and no direct READ occurs: no direct-mode operation that is executed
    while protected bytes are in memory emits program text or injects code.
    Missing for the full statement: direct READ (known finding C16-READ). -/
theorem history_no_disclosure_partial (s : St) (h : List (Bool × Op)) (hi : Inv s)
    (hprog : ∀ e ∈ h, e.1 = true → clearsFlag e.2 = false)
    (hread : ∀ e ∈ h, e.1 = false → ∀ a, e.2 ≠ .stmt .interpreter_read_ a) :
    ∀ t ∈ (runMixed s h).1, t.1 = false → t.2.2 = true → discloses t.2.1 = false := by
  induction h generalizing s with
  | nil => intro t ht; simp [runMixed] at ht
  | cons e h ih =>
    obtain ⟨r, op⟩ := e
    intro t ht
    simp only [runMixed, List.mem_cons] at ht
    rcases ht with ht | ht
    · subst ht
      intro hr hsec
      simp only at hr hsec
      subst hr
      exact direct_step_quiet s op hi hsec (hread (false, op) List.mem_cons_self rfl)
    · refine ih _ (step_inv r s op hi ?_) ?_ ?_ t ht
      · intro hr; exact hprog (r, op) List.mem_cons_self hr
      · intro e he; exact hprog e (List.mem_cons_of_mem _ he)
      · intro e he; exact hread e (List.mem_cons_of_mem _ he)

/-! ### execution is unaffected -/

/-- The callbacks whose guard also fires in run mode are exactly these six (as in GW-BASIC: a protected
    program that LISTs, SAVEs in plain form, MERGEs or CHAIN MERGEs gets Illegal function call). -/
theorem always_guarded_callbacks :
    (classTable.filter (fun e => e.2.guard != Guard.none && e.2.guard != Guard.directOnly)).map (·.1)
      = [.list_, .interpreter_llist_, .edit_, .save_, .merge_, .chain_] := by decide +kernel

/-- For every other callback the flag is not consulted on the execution path: the outcome of the statement
    executed by the program does not depend on the flags at all. -/
theorem run_unaffected (c : Cb) (k : Class) (a : Args) (s s' : St) (hc : classify c = some k)
    (hg : k.guard = .none ∨ k.guard = .directOnly) :
    (step true s (.stmt c a)).1 = (step true s' (.stmt c a)).1 := by
  simp only [step, hc]
  cases a.preErr with
  | some n => rfl
  | none =>
    rcases hg with hg | hg <;> simp [hg, blocked]

/-- Literal deviation from "runs exactly as its unprotected original" (statement-vs-code, known finding
    C16-RUN-SELF): a program that LISTs itself behaves differently once protected. -/
theorem run_self_list_counterexample :
    ¬ (∀ (c : Cb) (a : Args) (s s' : St),
        (step true s (.stmt c a)).1 = (step true s' (.stmt c a)).1) := by
  intro h
  have := h .list_ {} ⟨true, true, true⟩ ⟨false, true, false⟩
  revert this
  decide

/-! ### non-vacuity -/

example : Inv ⟨true, true, true⟩ := ⟨rfl, fun _ => rfl⟩
example : Inv (loadInto ⟨false, true, false⟩ 2) := ⟨rfl, fun _ => rfl⟩
-- LOAD "P" from an unprotected state establishes the invariant state used above
example : (step false ⟨false, true, false⟩ (.stmt .load_ { mode := 2 })).2 = ⟨true, true, true⟩ := by decide
-- LIST on it is blocked, on an unprotected program it emits
example : step false ⟨true, true, true⟩ (.stmt .list_ {}) = (.ifc, ⟨true, true, true⟩) := by decide
example : (step false ⟨false, true, false⟩ (.stmt .list_ {})).1 = .pass .emit := by decide
-- PEEK from the program itself gets through, POKE 1450,0 from the program clears the flag
example : (step true ⟨true, true, true⟩ (.stmt .all_memory_peek_ {})).1 = .pass .emit := by decide
example : (step true ⟨true, true, true⟩ (.stmt .all_memory_poke_ { flag := true, zero := true })).2
    = ⟨false, true, true⟩ := by decide
-- a history: POKE, NEW, LIST — the flag is only cleared together with the program
example : (runDirect ⟨true, true, true⟩
    [.stmt .all_memory_poke_ { flag := true, zero := true }, .stmt .list_ {}, .stmt .new_ {}, .stmt .list_ {}])
    = ([.ifc, .ifc, .pass .none, .pass .emit], ⟨false, true, false⟩) := by decide
-- without allow_protect (hide_protected off) nothing is hidden: the hypothesis `allow` is needed
example : (step false (loadInto ⟨false, false, false⟩ 2) (.stmt .list_ {})).1 = .pass .emit := by decide

end PcbV.C16
