import PcbV.Lemmas.DataRead
/-
  C22 — READ returns the DATA items of the program in line and statement order.

  Subject: `PcbV.DataRead` (transcription of Interpreter.read_/restore_, TokenisedStream.skip_to /
  skip_to_token, CodeStream.read_to/read_string/read_number) running on the byte list
  `renderProg p` of an arbitrary well-formed program layout `p : Prog`:
    * statements separated by ':' or by line headers NUL ptr ptr lo hi (ptr ≠ 0), end marker NUL NUL NUL;
    * DATA statements (blanks, token, items separated by commas; an item is blank padding around either
      unquoted text without , " : NUL or a closed quoted string without " and NUL, or — as the last item of
      the last statement of a line — an unclosed quoted string `"text` that runs to the end of the line:
      its payload is every byte between the quote and the NUL, blanks, commas and colons included);
    * other statements built from ordinary bytes, tokens with payload bytes (number constants and
      two-byte keywords, whose payload may contain any byte — ':' NUL '"' REM DATA included) and closed
      string literals (any bytes but '"' and NUL — REM and DATA bytes included), not starting with DATA;
    * REM statements running to the end of their line.
  Spec: `allItems p`, the flattened list of items; `Item.sval` (quotes stripped / text trimmed).
  A READ history is a list of variable kinds (`true` = string variable).  Numeric READs are covered for
  items that are strings of decimal digits or empty (`Item.isNum`) and, for the error case, for items that
  cannot start a number (`Item.nonNum`); the conversion of the literal text to a number is C04/C07's subject.
-/
namespace PcbV.C22
open PcbV PcbV.DataRead PcbV.Gen.DataTokens

/-- **read_order.** For every well-formed program layout and every sequence of READ variables (strings
    anywhere, numeric variables on digit-string or empty items) not longer than the item list, READ
    started at the initial pointer assigns exactly the items of the flattened list, in order, without error.
    (Hence the k-th variable read receives the k-th item.) -/
theorem read_order (p : Prog) (hwf : progWf p = true) (ts : List Bool) (hc : CompatAll ts (allItems p)) :
    (readVars true (renderProg p) 0 ts).vals = List.zipWith specVal ts (allItems p) ∧
    (readVars true (renderProg p) 0 ts).err = none := by
  obtain ⟨c', hr, -⟩ := start_run p hwf ts hc
  rw [hr]
  exact ⟨rfl, rfl⟩

/-- `read_order` read off at index k -/
theorem read_kth (p : Prog) (hwf : progWf p = true) (ts : List Bool) (hc : CompatAll ts (allItems p))
    (k : Nat) (hk : k < ts.length) (hk' : k < (allItems p).length) :
    (readVars true (renderProg p) 0 ts).vals[k]? = some (specVal ts[k] (allItems p)[k]) := by
  rw [(read_order p hwf ts hc).1]
  simp [List.getElem?_zipWith, hk, hk']

/-- the payload of an unclosed quoted item `"text` at the end of a line is exactly the bytes between the
    opening quote and the end of the line (nothing cut, nothing added), wherever it stands in the program -/
theorem read_open_quoted (p : Prog) (hwf : progWf p = true) (ts : List Bool) (hc : CompatAll ts (allItems p))
    (k : Nat) (hk : k < ts.length) (hk' : k < (allItems p).length) (l t : Bytes)
    (hit : (allItems p)[k] = .opn l t) (hs : ts[k] = true) :
    (Item.opn l t).render = l ++ QUOTE :: t ∧
    (readVars true (renderProg p) 0 ts).vals[k]? = some (.str t) := by
  refine ⟨rfl, ?_⟩
  rw [read_kth p hwf ts hc k hk hk', hit, hs]
  rfl

/-- **read_targets_left_to_right.**  A READ statement over scalar and array-element targets (subscript =
    scalar variable + constant) delivers the items strictly left to right: the final store is the fold of
    `assign` over (target, item) pairs, each subscript being evaluated in the store that already holds the
    items of the earlier targets of the same statement. -/
theorem read_targets_left_to_right (p : Prog) (hwf : progWf p = true) (conv : Bytes → Nat) (st : Store)
    (tgs : List (Bool × Target)) (hc : CompatAll (tgs.map (·.1)) (allItems p)) :
    (readAssign true (renderProg p) conv 0 st tgs).1 =
      (List.zip (tgs.map (·.2)) (List.zipWith specVal (tgs.map (·.1)) (allItems p))).foldl
        (fun s x => assign conv s x.1 x.2) st ∧
    (readAssign true (renderProg p) conv 0 st tgs).2.1 = none := by
  obtain ⟨c', hr, -⟩ := start_run p hwf (tgs.map (·.1)) hc
  rw [readAssign_of_readVars _ conv tgs 0 st _ _ hr]
  exact ⟨rfl, rfl⟩

/-- `READ N, A(N+off)`: the element is selected by the value of N that this very statement has just read -/
theorem read_index_then_element (p : Prog) (hwf : progWf p = true) (conv : Bytes → Nat) (st : Store)
    (n a off : Nat) (i1 i2 : Item) (rest : List Item) (hit : allItems p = i1 :: i2 :: rest)
    (h1 : i1.isNum = true) (h2 : i2.isNum = true) :
    let out := readAssign true (renderProg p) conv 0 st [(false, .scalar n), (false, .elem a n off)]
    out.1.scal n = .num i1.sval ∧ out.1.arr a (conv i1.sval + off) = .num i2.sval ∧ out.2.1 = none := by
  have hc : CompatAll ([(false, Target.scalar n), (false, Target.elem a n off)].map (·.1)) (allItems p) := by
    rw [hit]; exact ⟨by simpa [Compat] using h1, by simpa [Compat] using h2, trivial⟩
  obtain ⟨hst, herr⟩ := read_targets_left_to_right p hwf conv st _ hc
  simp only [hst, herr, hit]
  simp [specVal, assign, put, slotOf, subscript]

/-- **restore_spec.** RESTORE (whatever the pointer was) sets the pointer so that the following READs
    return the items from the first one on. -/
theorem restore_spec (p : Prog) (hwf : progWf p = true) (tbl : List (Nat × Nat)) (ts : List Bool)
    (hc : CompatAll ts (allItems p)) :
    ∃ pos, restore tbl none = .ok pos ∧
      (readVars true (renderProg p) pos ts).vals = List.zipWith specVal ts (allItems p) ∧
      (readVars true (renderProg p) pos ts).err = none :=
  ⟨0, rfl, read_order p hwf ts hc⟩

/-- **out_of_data.** After any successful run of READs, the next READ (either kind) raises Out of DATA —
    at the READ statement, nothing assigned, pointer unchanged — exactly when all items have been consumed. -/
theorem out_of_data (p : Prog) (hwf : progWf p = true) (ts : List Bool) (hc : CompatAll ts (allItems p))
    (t : Bool) :
    let pos := (readVars true (renderProg p) 0 ts).pos
    (readEntry true (renderProg p) pos t = .err Gen.E.out_of_data none none ↔ ts.length = (allItems p).length) ∧
    (ts.length = (allItems p).length →
      readVars true (renderProg p) pos [t] = ⟨[], some (Gen.E.out_of_data, none), pos⟩) := by
  obtain ⟨c', hr, hw', hs', hi'⟩ := start_run p hwf ts hc
  have hlen : ts.length ≤ (allItems p).length := by
    clear hr hi'
    generalize allItems p = l at hc
    induction ts generalizing l with
    | nil => simp
    | cons t ts ih =>
      cases l with
      | nil => exact hc.elim
      | cons i l => simpa using ih l hc.2
  have he := readEntry_cursor (renderProg p) c' hw' hs' t
  have hni := next_items c'
  have hiff : readEntry true (renderProg p) (posOf (renderProg p) c'.render) t
      = .err Gen.E.out_of_data none none ↔ ts.length = (allItems p).length := by
    cases hn : c'.next with
    | none =>
      rw [hn] at he hni
      simp only at he hni
      rw [hi'] at hni
      have : (allItems p).length - ts.length = 0 := by
        have := congrArg List.length hni; simpa using this
      exact ⟨fun _ => by omega, fun _ => he⟩
    | some v =>
      obtain ⟨it, c1⟩ := v
      rw [hn] at he hni
      simp only at he hni
      rw [hi'] at hni
      have : (allItems p).length - ts.length = c1.items.length + 1 := by
        have := congrArg List.length hni; simpa using this
      constructor
      · intro h; rw [he] at h; exact absurd h (readItem_ne_ood _ _ _ _)
      · intro h; omega
  simp only [hr]
  refine ⟨hiff, fun h => ?_⟩
  simp [readVars, hiff.mpr h]

/-- **syntax_error_on_data_line** (partial: the error *position*; see below for the gap).
    After any successful run of READs, if the next item cannot start a number (a quoted string, or unquoted
    text not beginning with a digit, sign, point or `&`), READ into a numeric variable raises Syntax error;
    the error position is the byte that introduces the offending item — the DATA token or the comma in front
    of it, i.e. a byte of the DATA statement that holds the item, which `ERL` maps to that statement's line —
    the variable has received 0 (empty literal), and the data pointer has not moved, so a string READ still
    returns the same item.
    Gap to the full statement: `ERL = lineOf table epos` equals the line number of that DATA line is proved
    only as the table lemma `erl_of_position` (for a line table sorted by offset and line number); the
    identification of the table segments with the program layout is checked by the correspondence run. -/
theorem syntax_error_on_data_line_partial (p : Prog) (hwf : progWf p = true) (ts : List Bool)
    (hc : CompatAll ts (allItems p)) (it : Item) (hit : (allItems p)[ts.length]? = some it)
    (hbad : it.nonNum = true) :
    let code := renderProg p
    let pos := (readVars true code 0 ts).pos
    ∃ (pre tail : Bytes) (b : Nat), code = pre ++ b :: (it.render ++ tail) ∧ (b = tData ∨ b = COMMA) ∧
      readVars true code pos [false] = ⟨[.num []], some (Gen.E.stx, some (pre.length : Int)), pos⟩ ∧
      (readVars true code pos [true]).vals = [.str it.sval] := by
  obtain ⟨c', hr, hw', hs', hi'⟩ := start_run p hwf ts hc
  have hni := next_items c'
  cases hn : c'.next with
  | none =>
    rw [hn] at hni
    simp only at hni
    rw [hi'] at hni
    rw [← List.head?_drop, hni] at hit
    simp at hit
  | some v =>
    obtain ⟨it', c1⟩ := v
    rw [hn] at hni
    simp only at hni
    rw [hi'] at hni
    rw [← List.head?_drop, hni] at hit
    simp only [List.head?_cons, Option.some.injEq] at hit
    subst hit
    obtain ⟨hitwf, hc1wf, hfit⟩ := next_wf c' hw' it' c1 hn
    obtain ⟨pre, b, hsplit, hb⟩ := next_split c' it' c1 hn
    obtain ⟨q, hq⟩ := hs'
    have hcode : renderProg p = (q ++ pre) ++ b :: (it'.render ++ c1.render) := by
      rw [← hq, hsplit]; simp
    have hpos : ((posOf (renderProg p) (it'.render ++ c1.render) : Nat) : Int) - 1 = ((q ++ pre).length : Int) := by
      rw [hcode]
      simp only [posOf, List.length_append, List.length_cons]
      omega
    refine ⟨q ++ pre, c1.render, b, hcode, hb, ?_, ?_⟩
    · simp only [hr]
      have he := readEntry_cursor (renderProg p) c' hw' ⟨q, hq⟩ false
      rw [hn] at he
      simp only at he
      rw [readItem_bad _ _ _ _ hitwf hbad, hpos] at he
      simp [readVars, he]
    · simp only [hr]
      have he := readEntry_cursor (renderProg p) c' hw' ⟨q, hq⟩ true
      rw [hn] at he
      simp only at he
      rw [readItem_str true _ _ _ _ hitwf (cursor_delim c1) hfit] at he
      simp [readVars, he]

/-- **restore_line.** `RESTORE n` (n a possible line number), on the line table of the layout:
    it fails with Undefined line number exactly when no line has number n; otherwise the pointer is set to
    the start of (the first) line n, and the following READs return the items of the DATA statements from
    that line on (`allItems` of the program from line n: the first DATA at or after line n comes first). -/
theorem restore_line (p : Prog) (hwf : progWf p = true) (n : Nat) (hn : n < 65536) :
    (restore (lineTable 0 p) (some n) = .error Gen.E.undefined_line_number ↔ ∀ x ∈ p, x.1.lineNo ≠ some n) ∧
    (∀ off, restore (lineTable 0 p) (some n) = .ok off →
      ∃ p1 sep st p2, p = p1 ++ (sep, st) :: p2 ∧ sep.lineNo = some n ∧ (∀ x ∈ p1, x.1.lineNo ≠ some n) ∧
        off = (renderStmts p1).length ∧
        ∀ ts, CompatAll ts (allItems ((sep, st) :: p2)) →
          (readVars true (renderProg p) off ts).vals = List.zipWith specVal ts (allItems ((sep, st) :: p2)) ∧
          (readVars true (renderProg p) off ts).err = none) := by
  constructor
  · constructor
    · intro h x hx hxn
      have := lookup_lineTable_isSome p 0 n ⟨x, hx, hxn⟩
      unfold restore at h
      cases hl : (lineTable 0 p).lookup n with
      | none => simp [hl] at this
      | some o => simp [hl] at h
    · intro h
      simp only [restore, lookup_lineTable_none p 0 n hn h]
  · intro off h
    unfold restore at h
    cases hl : (lineTable 0 p).lookup n with
    | none => simp [hl] at h
    | some o =>
      simp only [hl] at h
      injection h with h
      subst h
      obtain ⟨p1, sep, st, p2, hp, hs, ho, hfirst⟩ := lookup_lineTable p 0 n o hn hl
      refine ⟨p1, sep, st, p2, hp, hs, hfirst, by omega, ?_⟩
      intro ts hc
      have hq : progWf ((sep, st) :: p2) = true := progWf_append_right p1 _ (by rw [← hp]; exact hwf)
      have h0 : (⟨[], (sep, st) :: p2⟩ : Cursor).render = renderProg ((sep, st) :: p2) := by
        simp [Cursor.render, renderMore]
      have h1 : (⟨[], (sep, st) :: p2⟩ : Cursor).items = allItems ((sep, st) :: p2) := by simp [Cursor.items]
      have hcode : renderProg p = renderStmts p1 ++ renderProg ((sep, st) :: p2) := by
        rw [hp, renderProg_append]
      have := readVars_cursor (renderProg p) ts ⟨[], (sep, st) :: p2⟩ (by simp [Cursor.wf, hq, itemsOk])
        (by rw [h0, hcode]; exact List.suffix_append _ _) (by rw [h1]; exact hc)
      rw [h0, h1] at this
      obtain ⟨c', hr, -⟩ := this
      have hpos : posOf (renderProg p) (renderProg ((sep, st) :: p2)) = o := by
        rw [hcode]; simp [posOf]; omega
      rw [hpos] at hr
      rw [hr]
      exact ⟨rfl, rfl⟩

/-- `ERL` for an error position: in a line table whose earlier entries have smaller line numbers and
    whose later entries start behind the position, a position at or behind the start of line `L` is
    reported as line `L`.  (With `syntax_error_on_data_line_partial`: the DATA token / comma lies in the
    DATA statement's line, behind that line's NUL and before the next line's.) -/
theorem erl_of_position (A B : List (Nat × Nat)) (L oL : Nat) (epos : Int)
    (hA : ∀ e ∈ A, e.1 < L) (hB : ∀ e ∈ B, epos < (e.2 : Int)) (hL : (oL : Int) ≤ epos) (hpos : 0 < epos) :
    erl (A ++ (L, oL) :: B) epos = (L : Int) := by
  unfold erl
  have h0 : (epos == 0) = false := by simp; omega
  have h1 : (epos == -1) = false := by simp; omega
  simp only [h0, h1, Bool.false_eq_true, if_false]
  unfold lineOf
  rw [List.foldl_append, List.foldl_cons]
  have hlt := lineOf_fold_lt A epos (L : Int) (-1) (by omega) (fun e he => by exact_mod_cast hA e he)
  rw [if_pos ⟨hL, hlt⟩]
  exact lineOf_fold_after B epos _ hB

/-! ### the code before the two fixes (`fixed = false`) violates the property -/

/-- `10 DATA 1 / 20 DATA abc / 30 READ A: READ B`: the second READ (pointer 8, behind `1`) raised the
    Syntax error at position 7 = the last byte of line 10, so ERL was 10 although the bad item is on line 20;
    the fixed code reports position 13 (the DATA token of line 20), ERL 20. -/
theorem syntax_error_erl_old_counterexample :
    let code : Bytes := [0,118,18,10,0,132,32,49, 0,128,18,20,0,132,32,97,98,99, 0,141,18,30,0,135,32,65,58,32,135,32,66, 0,0,0]
    let tbl : List (Nat × Nat) := [(10, 0), (20, 8), (30, 18), (65536, 31)]
    readEntry false code 8 false = .err 2 (some (.num [])) (some 7) ∧ erl tbl 7 = 10 ∧
    readEntry true code 8 false = .err 2 (some (.num [])) (some 13) ∧ erl tbl 13 = 20 := by
  decide

/-- `10 DATA abc / 30 READ A`: from the initial pointer the old code attributed the error to position -1,
    i.e. ERL = 65535 and no line in the message. -/
theorem syntax_error_noline_old_counterexample :
    let code : Bytes := [0,120,18,10,0,132,32,97,98,99, 0,128,18,30,0,135,32,65, 0,0,0]
    let tbl : List (Nat × Nat) := [(10, 0), (30, 10), (65536, 18)]
    readEntry false code 0 false = .err 2 (some (.num [])) (some (-1)) ∧ erl tbl (-1) = 65535 ∧
    readEntry true code 0 false = .err 2 (some (.num [])) (some 5) ∧ erl tbl 5 = 10 := by
  decide

/-- `10 PRINT "\x8f": DATA 5`: the byte of the REM token inside a string literal switched the old scanner
    into comment mode, hiding the DATA statement behind it: Out of DATA instead of 5. -/
theorem rem_byte_in_string_old_counterexample :
    let code : Bytes := [0,125,18,10,0,145,32,34,143,34,58,32,132,32,53, 0,0,0]
    readEntry false code 0 false = .err 4 none none ∧
    readEntry true code 0 false = .ok (.num [53]) 15 := by
  decide

def digitsVal (w : Bytes) : Nat := w.foldl (fun acc c => acc * 10 + (c - 48)) 0

/-- `10 DATA 3,30 / 20 READ N, A(N)` with N = 9 before: a READ whose variable list is parsed completely
    before the first item is assigned (`readAssignEager`, not the code) stores 30 in A(9); the code's loop
    (`readAssign`) stores it in A(3). -/
theorem eager_var_list_counterexample :
    let prog : Prog := [(.line 1 1 10 0, .data [32] (.unq [] [51] []) [.unq [] [51, 48] []]),
                        (.line 1 1 20 0, .other [.plain 135, .plain 32, .plain 78])]
    let st : Store := ⟨fun _ => .num [57], fun _ _ => .num []⟩
    let tgs : List (Bool × Target) := [(false, .scalar 0), (false, .elem 0 0 0)]
    (readAssignEager true (renderProg prog) digitsVal 0 st tgs).1.arr 0 9 = .num [51, 48] ∧
    (readAssignEager true (renderProg prog) digitsVal 0 st tgs).1.arr 0 3 = .num [] ∧
    (readAssign true (renderProg prog) digitsVal 0 st tgs).1.arr 0 3 = .num [51, 48] ∧
    (readAssign true (renderProg prog) digitsVal 0 st tgs).1.arr 0 9 = .num [] := by
  decide

/-! ### non-vacuity: a concrete layout satisfies the hypotheses, and the theorems compute on it -/

/-- `10 Q$="\x8f:":DATA 5,"a,:b" , c d  ,` / `20 X=58:DATA ` / `30 REM x` -/
def sample : Prog :=
  [(.line 125 18 10 0, .other [.plain 81, .plain 36, .plain 231, .str [143, 58]]),
   (.colon, .data [] (.unq [32] [53] []) [.quo [] [97, 44, 58, 98] [32], .unq [32] [99, 32, 100] [32, 32], .unq [] [] []]),
   (.line 140 18 20 0, .other [.plain 88, .plain 231, .tok 15 [58]]),
   (.colon, .data [] (.unq [32] [] []) []),
   (.line 150 18 30 0, .rem [] [32, 120]),
   (.line 160 18 40 0, .data [] (.unq [32] [55] []) [.opn [32, 32] [100, 58, 32, 44, 120, 32]])]   -- 40 DATA 7,  "d: ,x␠

example : progWf sample = true := by decide
example : (allItems sample).map Item.sval =
    [[53], [97, 44, 58, 98], [99, 32, 100], [], [], [55], [100, 58, 32, 44, 120, 32]] := by decide
/-- the unclosed quoted item at the end of line 40 is returned in full, trailing blank included -/
example : (readVars true (renderProg sample) 0 [false, true, true, false, true, false, true]).vals =
    [.num [53], .str [97, 44, 58, 98], .str [99, 32, 100], .num [], .str [], .num [55],
     .str [100, 58, 32, 44, 120, 32]] := by decide
example : CompatAll [false, true, true, false, true, false, true] (allItems sample) := by decide
example : CompatAll [false, true, true, false, true] (allItems sample) := by decide
example : (readVars true (renderProg sample) 0 [false, true, true, false, true]).vals =
    [.num [53], .str [97, 44, 58, 98], .str [99, 32, 100], .num [], .str []] := by decide
example : restore (lineTable 0 sample) (some 20) = .ok 32 := by decide
/-- the hypotheses of `refused_item_is_read_next` hold on the sample program with the fourth variable (a numeric one on
    a numeric item) refused; the refused READ reports Overflow and the next READ gets that fourth item -/
example : CompatAll ([false, true, true] ++ [false]) (allItems sample) ∧
    (readVarsR true (renderProg sample) 0 [(false, none), (true, none), (true, none), (false, some 6), (true, none)]).err
      = some (6, none) ∧
    (readVars true (renderProg sample)
      (readVarsR true (renderProg sample) 0 [(false, none), (true, none), (true, none), (false, some 6), (true, none)]).pos
      [false]).vals = [specVal false (allItems sample)[3]] := by decide
example : (readVars true (renderProg sample) 32 [true]).vals = [.str []] := by decide
example : restore (lineTable 0 sample) (some 25) = .error 8 := by decide
example : ((allItems sample)[1]?.map Item.nonNum) = some true := by decide
example : readVars true (renderProg sample) 16 [false] = ⟨[.num []], some (2, some 16), 16⟩ := by decide
example : erl (lineTable 0 sample) 16 = 10 := by decide

/-! ### a READ whose assignment is refused (Overflow into a `%` variable) does not consume the item -/

/-- without refusals `readVarsR` is `readVars` -/
theorem readVarsR_no_refusal (fixed : Bool) (code : Bytes) (pos : Nat) (ts : List Bool) :
    readVarsR fixed code pos (ts.map (fun t => (t, none))) = readVars fixed code pos ts := by
  induction ts generalizing pos with
  | nil => rfl
  | cons t ts ih =>
    simp only [List.map_cons, readVarsR, readVars]
    cases readEntry fixed code pos t with
    | ok v p => simp only [ih]
    | err e a ep => rfl

/-- **refused_read_keeps_item.**  If the variables `ts` are read without error and the next variable's item can be
    read but its assignment is refused with error `e`, the READ statement ends with `e` raised at the READ statement
    itself, the earlier variables hold exactly what a READ of `ts` alone delivers, and the data pointer is the
    pointer after `ts`: the refused item (and everything behind it) is still there for the next READ, which gets
    exactly what it would have got had the refused variable never been listed. -/
theorem refused_read_keeps_item (fixed : Bool) (code : Bytes) (pos : Nat) (ts : List Bool) (t : Bool) (e : Nat)
    (rest : List (Bool × Option Nat)) (v : Val) (p' : Nat)
    (hok : (readVars fixed code pos ts).err = none)
    (hitem : readEntry fixed code (readVars fixed code pos ts).pos t = .ok v p') :
    let out := readVarsR fixed code pos (ts.map (fun t => (t, none)) ++ (t, some e) :: rest)
    out.vals = (readVars fixed code pos ts).vals ∧ out.err = some (e, none) ∧
    out.pos = (readVars fixed code pos ts).pos ∧
    ∀ next : List Bool, readVars fixed code out.pos next = readVars fixed code (readVars fixed code pos ts).pos next := by
  induction ts generalizing pos with
  | nil =>
    simp only [readVars] at hitem
    simp [readVarsR, readVars, hitem]
  | cons t0 ts ih =>
    simp only [readVars] at hok hitem
    simp only [List.map_cons, List.cons_append, readVarsR, readVars]
    cases he : readEntry fixed code pos t0 with
    | ok v0 p0 =>
      rw [he] at hok hitem
      simp only at hok hitem
      have := ih p0 hok hitem
      simp only at this
      obtain ⟨h1, h2, h3, h4⟩ := this
      simp only [h1, h2, h3]
      exact ⟨trivial, trivial, trivial, fun _ => trivial⟩
    | err e0 a ep =>
      rw [he] at hok
      simp at hok

/-- a run of READs without error splits at any point: reading `ts ++ us` is reading `ts`, then `us` from where that ended -/
theorem readVars_append (fixed : Bool) (code : Bytes) (pos : Nat) (ts us : List Bool)
    (h : (readVars fixed code pos ts).err = none) :
    readVars fixed code pos (ts ++ us) =
      ⟨(readVars fixed code pos ts).vals ++ (readVars fixed code (readVars fixed code pos ts).pos us).vals,
       (readVars fixed code (readVars fixed code pos ts).pos us).err,
       (readVars fixed code (readVars fixed code pos ts).pos us).pos⟩ := by
  induction ts generalizing pos with
  | nil => simp [readVars]
  | cons t ts ih =>
    simp only [readVars] at h
    simp only [List.cons_append, readVars]
    cases he : readEntry fixed code pos t with
    | ok v p0 =>
      rw [he] at h
      simp only at h
      simp only [ih p0 h, List.cons_append]
    | err e0 a ep =>
      rw [he] at h
      simp at h

theorem compatAll_prefix : ∀ (ts us : List Bool) (its : List Item), CompatAll (ts ++ us) its → CompatAll ts its
  | [], _, _, _ => trivial
  | _ :: _, _, [], h => h
  | _ :: ts, us, _ :: its, h => ⟨h.1, compatAll_prefix ts us its h.2⟩

/-- **refused_item_is_read_next.**  On every well-formed program: if the READs so far took the first `ts.length` items
    and the next variable (compatible with its item) is refused by the store, then that READ assigns exactly the items
    before it and raises the store's error at the READ statement, and the READ after it still receives item number
    `ts.length` — the refused item is neither lost nor skipped. -/
theorem refused_item_is_read_next (p : Prog) (hwf : progWf p = true) (ts : List Bool) (t : Bool) (e : Nat)
    (rest : List (Bool × Option Nat)) (hc : CompatAll (ts ++ [t]) (allItems p)) :
    let out := readVarsR true (renderProg p) 0 (ts.map (fun t => (t, none)) ++ (t, some e) :: rest)
    out.vals = List.zipWith specVal ts (allItems p) ∧ out.err = some (e, none) ∧
    (readVars true (renderProg p) out.pos [t]).err = none ∧
    (List.zipWith specVal ts (allItems p)) ++ (readVars true (renderProg p) out.pos [t]).vals
      = List.zipWith specVal (ts ++ [t]) (allItems p) := by
  have h1 := read_order p hwf ts (compatAll_prefix ts [t] _ hc)
  have h2 := read_order p hwf (ts ++ [t]) hc
  rw [readVars_append true (renderProg p) 0 ts [t] h1.2] at h2
  simp only at h2
  -- the item of the refused variable can be read
  have hitem : ∃ v p', readEntry true (renderProg p) (readVars true (renderProg p) 0 ts).pos t = .ok v p' := by
    have := h2.2
    simp only [readVars] at this
    cases he : readEntry true (renderProg p) (readVars true (renderProg p) 0 ts).pos t with
    | ok v p' => exact ⟨v, p', rfl⟩
    | err e0 a ep => rw [he] at this; simp at this
  obtain ⟨v, p', hitem⟩ := hitem
  have h3 := refused_read_keeps_item true (renderProg p) 0 ts t e rest v p' h1.2 hitem
  simp only at h3
  obtain ⟨hv, he, hp, -⟩ := h3
  refine ⟨by rw [hv, h1.1], he, ?_, ?_⟩
  · rw [hp]; exact h2.2
  · rw [hp, ← h1.1]; exact h2.1

/-- non-vacuity, and the contrast with a successful READ, on a concrete program: `10 DATA 40000,7` —
    READ into a refused (`%`) variable leaves the pointer at 0 so that the next READ still gets `40000`;
    the same READ accepted moves on to `7`. -/
example :
    let code : Bytes := [0, 0, 0, 10, 0, 0x84, 32, 52, 48, 48, 48, 48, 44, 55, 0, 0, 0, 0]
    (readVarsR true code 0 [(false, some Gen.E.overflow)]).pos = 0 ∧
    (readVarsR true code 0 [(false, some Gen.E.overflow)]).err = some (6, none) ∧
    (readVars true code 0 [false]).vals = [.num [52, 48, 48, 48, 48]] ∧
    (readVars true code (readVars true code 0 [false]).pos [false]).vals = [.num [55]] := by decide +kernel

end PcbV.C22
