/-! Python's bitwise operators on unbounded ints (infinite two's complement), for the code translated
    by gen/py2lean.py.  `Int.negSucc n = -(n+1) = ~n`. Import-free. -/
namespace PcbV.PyInt

def andNot (a b : Nat) : Nat := Nat.bitwise (fun x y => x && !y) a b

/-- Python `a ^ b` -/
def xor : Int → Int → Int
  | .ofNat m, .ofNat n => .ofNat (m ^^^ n)
  | .ofNat m, .negSucc n => .negSucc (m ^^^ n)
  | .negSucc m, .ofNat n => .negSucc (m ^^^ n)
  | .negSucc m, .negSucc n => .ofNat (m ^^^ n)

/-- Python `a & b` -/
def land : Int → Int → Int
  | .ofNat m, .ofNat n => .ofNat (m &&& n)
  | .ofNat m, .negSucc n => .ofNat (andNot m n)
  | .negSucc m, .ofNat n => .ofNat (andNot n m)
  | .negSucc m, .negSucc n => .negSucc (m ||| n)

/-- Python `a | b` -/
def lor : Int → Int → Int
  | .ofNat m, .ofNat n => .ofNat (m ||| n)
  | .ofNat m, .negSucc n => .negSucc (andNot n m)
  | .negSucc m, .ofNat n => .negSucc (andNot m n)
  | .negSucc m, .negSucc n => .negSucc (m &&& n)

end PcbV.PyInt
