"""C28 — DOS file names map to host files consistently."""
import os
import random
import shutil
import struct
import tempfile

from vlib import basic

LEVEL = 'proof'
RULE = ('DOS base names built from shapes (legal 8.3 over all allowable characters, trunk length 0..13, extension '
        'length 0..5, dots in every position, several dots, trailing dots / blanks / tabs, leading blanks, characters '
        'outside the allowable set incl. wildcards, control and non-ASCII bytes, empty and all-blank names, "." and '
        '".."), each used under random capitalisations in histories of every statement that creates or opens a file: '
        'OPEN FOR OUTPUT / APPEND / INPUT, SAVE (tokenised, ,A, ,P), LIST ,"f", BSAVE, LOAD, RUN "f", CHAIN, MERGE, BLOAD, '
        'plus KILL (also wildcard masks), NAME, FILES [mask]; a deterministic matrix creating statement x name shape '
        '(no dot, dot, bare trailing dot, trailing blank, 8 characters) x every reading statement; on a native temp mount that starts empty or with host '
        'files (lower/mixed-case legal, long, non-ASCII, "+", hidden names); a case = one (directory, operation); '
        'non-trivial = the name is non-empty; plus random byte strings for dos_splitext / dos_normalise_name / '
        'dos_is_legal_name / dos_name_matches / _get_dos_name_defext / _get_dos_display_name')
EXPLANATION = ('theorems (PcbV.Props.C28) over every directory content, name and capitalisation: normalise idempotent; a '
               'legal name that matches no host file is created as its upper-case form; it is then found under every '
               'capitalisation (lookup, KILL set); default extension iff no dot; Bad file name exactly for the names the '
               'decidable predicate `illegal` describes; wildcard matcher equations; every legal FILES entry resolves '
               'to a file listed under that entry.  correspondence: after every statement of a history on a real '
               'Session the resolved host file (found through a unique marker in the file), the error number, the '
               'removed / renamed host files and the FILES columns are compared with the Lean model run on the '
               'os.listdir content before the statement (program statements SAVE / LIST ,"f" / BSAVE / LOAD / RUN / CHAIN / '
               'MERGE / BLOAD are run through the model with default extension BAS, OPEN with none, so a statement that '
               'passes the wrong file type to the disk device disagrees); module functions compared on random byte '
               'strings.  oracle: '
               'written from the statement with its own 8.3 legality predicate and wildcard matcher: upper-case host '
               'name for legal names, same host file under every capitalisation for open / load / kill / rename / '
               'files, .BAS iff no dot for program files, error 64 and an unchanged directory for illegal names, '
               'every visible host file listed, every listed entry opens the file it stands for')
TRUSTED_BASE = ['models PcbV.Model.DosNames (C27) and PcbV.Model.DosFiles: hand transcription of the name functions, '
                '_get_native_name, _get_dos_display_name, _filter_names, listdir, kill, rename of disk.py and the '
                'argument pre-checks of files.py; dos_name_matches is modelled as a matcher (the regular expression '
                'built by the code is not modelled; agreement is checked on random names and masks)',
                'the host directory is a parameter of the model (list of native names in os.listdir order)']
ASSUMPTIONS = ['POSIX host without Windows short names (get_short_pathname returns None); dot files are hidden',
               'names without drive letter and directory part (those are the subject of C27); flat mount directory '
               'with regular files only; no file is open while KILL / NAME run',
               'default code page 437; host names in NFC',
               'the names AUX, CON, NUL, PRN (diverted to devices by Files._get_device_param) are not used']

WS = b' \t\n\r\x0b\x0c'
# independent of disk.ALLOWABLE_CHARS on purpose: the characters MS-DOS allows in 8.3 names
ALLOWED = frozenset(bytearray(b"ABCDEFGHIJKLMNOPQRSTUVWXYZabcdefghijklmnopqrstuvwxyz0123456789 !#$%&'()-@^_`{}~"))
DEVICES = (b'AUX', b'CON', b'NUL', b'PRN')
BAS = b'BAS'
# statement kinds of a history step
CREATE_DATA = ('o', 'a')                    # OPEN FOR OUTPUT / APPEND
CREATE_PROG = ('s', 't', 'p', 'L', 'B')     # SAVE ,A / SAVE (tokenised) / SAVE ,P / LIST ,"f" / BSAVE: default extension BAS
CREATES = CREATE_DATA + CREATE_PROG
WRITE_NEW = ('o',) + CREATE_PROG            # the resolved file gets new content
READ_DATA = ('i',)                          # OPEN FOR INPUT
READ_PROG = ('l', 'R', 'C', 'm', 'b')       # LOAD / RUN "f" / CHAIN / MERGE / BLOAD: default extension BAS
READS = READ_DATA + READ_PROG
PROG_KINDS = CREATE_PROG + READ_PROG
# file formats (first byte) a reading statement can digest; on any other format it must still FIND the file
COMPAT = {'i': 'A', 'l': 'ATP', 'R': 'ATP', 'C': 'ATP', 'm': 'A', 'b': 'M'}
RESOLUTION_ERRORS = (52, 53, 64, 75, 76)
KNOWN_CAP = 3     # report each expected deviation class only a few times (the failure list is bounded)


def hx(b):
    return ''.join('%02x' % c for c in bytearray(b)) if b else '-'


def unhx(s):
    return b'' if s == '-' else bytes(bytearray(int(s[i:i + 2], 16) for i in range(0, len(s), 2)))


def show_name(u):
    return '.'.join(str(ord(c)) for c in u) if u else 'e'


def show_dir(names):
    return ','.join(show_name(n) for n in names) if names else '-'


def lit(b):
    """BASIC string expression for the bytes `b`"""
    parts, run = [], b''
    for c in bytearray(b):
        if 32 <= c < 127 and c != 34:
            run += bytes(bytearray([c]))
        else:
            if run:
                parts.append(b'"' + run + b'"')
                run = b''
            parts.append(b'CHR$(%d)' % c)
    if run:
        parts.append(b'"' + run + b'"')
    return b'+'.join(parts) if parts else b'""'


# ---------------------------------------------------------------------------------------------
# the oracle's own notion of names (from the property statement)

def canon(name, program):
    """trailing blanks do not count; program files get .BAS exactly when the name has no dot"""
    n = name.rstrip(WS)
    if program and n and b'.' not in n:
        n += b'.' + BAS
    return n


def strict_legal(n):
    if not n or n.count(b'.') > 1:
        return False
    t, _, e = n.partition(b'.')
    if not (1 <= len(t) <= 8 and len(e) <= 3):
        return False
    if not all(c in ALLOWED for c in bytearray(t + e)):
        return False
    return t == t.strip(b' ') and e == e.strip(b' ')


def dos_key(n):
    """the upper-case 8.3 form of a legal name ("AB." and "AB" are the same name)"""
    u = n.upper()
    return u[:-1] if u.endswith(b'.') else u


def truncate83(n):
    t, _, e = n.partition(b'.')
    return t[:8] + (b'.' + e[:3] if e[:3] else b'')


def classify(name, n):
    if not name:
        return 'empty'
    if name[:1] in (b' ', b'\t', b'\n', b'\r', b'\x0b', b'\x0c'):
        return 'leading-blank'
    if n in (b'.', b'..'):
        return 'dots'
    if strict_legal(n):
        return 'legal'
    if n[:1] == b'.' and strict_legal(truncate83(b'X' + n)):
        return 'empty-trunk'
    if strict_legal(truncate83(n)):
        return 'overlong'
    return 'bad'


def wm(name, mask):
    """wildcard match of one name part: ? = one character, * = any run"""
    if not mask:
        return not name
    c = mask[0:1]
    if c == b'*':
        return any(wm(name[i:], mask[1:]) for i in range(len(name) + 1))
    if not name:
        return False
    if c == b'?' or c == name[0:1]:
        return wm(name[1:], mask[1:])
    return False


def mask_match(key, mask):
    kt, _, ke = key.partition(b'.')
    mt, _, me = mask.upper().partition(b'.')
    return wm(kt, mt) and wm(ke, me)


def host_legal(u):
    """host name (text) that is a legal DOS name as it stands -> its bytes, else None"""
    try:
        b = u.encode('ascii')
    except UnicodeEncodeError:
        return None
    return b if strict_legal(b) else None


def hidden(u):
    return u.startswith(u'.')


# ---------------------------------------------------------------------------------------------
# the real interpreter on a temp mount

class World(object):

    def __init__(self):
        from pcbasic.basic.base import error
        self.dir = os.path.realpath(tempfile.mkdtemp(prefix='pcbv_c28_'))
        self.session = basic.new_session(devices={'C': self.dir}, current_device='C')
        self.msgs = {v: k for k, v in error.BASICError.messages.items()}
        self.counter = 0
        self.by_content = {}
        self.current_id = None

    def close(self):
        try:
            self.session.close()
        finally:
            shutil.rmtree(self.dir, ignore_errors=True)

    def ex(self, text):
        return basic.safe_exec(self.session, text)

    def reset(self, host_files):
        self.ex(b'CLOSE')
        for n in os.listdir(self.dir):
            os.remove(os.path.join(self.dir, n))
        self.counter = 0
        for u in host_files:
            self.counter += 1
            with open(os.path.join(self.dir, u), 'wb') as f:
                f.write(b'%d PRINT " REM M%d"\r\n' % (self.counter, self.counter))

    def snapshot(self):
        """{host name: (id of the file, size, format)}, in os.listdir order; the id is the marker in the first line of
        a text file, the first line number of a tokenised program, the saved word of a BSAVE file; protected
        programs are recognised by their content (recorded when the running step created them)"""
        snap = {}
        for n in os.listdir(self.dir):
            try:
                with open(os.path.join(self.dir, n), 'rb') as f:
                    data = f.read(4096)
            except EnvironmentError:
                data = b''
            first = data[:1]
            if first == b'\xff' and len(data) >= 5:
                fmt, ident = 'T', struct.unpack('<H', data[3:5])[0]
            elif first == b'\xfd' and len(data) >= 9:
                fmt, ident = 'M', struct.unpack('<H', data[7:9])[0]
            elif first == b'\xfe':
                fmt = 'P'
                # (APPEND to such a file removes the final EOF byte and adds text: match on the saved part)
                known = [c for c in self.by_content if data.startswith(c)]
                if not known and self.current_id is not None:
                    self.by_content[data[:-1] if data.endswith(b'\x1a') else data] = self.current_id
                    known = [c for c in self.by_content if data.startswith(c)]
                ident = self.by_content[max(known, key=len)] if known else None
            else:
                fmt, ident = 'A', marker_of(data[:60])
            snap[n] = (ident, os.path.getsize(os.path.join(self.dir, n)), fmt)
        return snap

    def error_of(self, out):
        if out.startswith(b'<<EXC'):
            return out.decode('latin-1')
        for line in out.replace(b'\n', b'\r').split(b'\r'):
            line = line.rstrip(b'\xff')
            if line in self.msgs:
                return self.msgs[line]
        return None

    def run_op(self, op):
        """execute one operation; -> dict(err, marker, listing)"""
        kind, a, b = op
        self.counter += 1
        k = self.counter
        res = {'err': None, 'marker': None, 'listing': None, 'id': k}
        if kind != 'F':
            self.ex(b'A$=' + lit(a))
        self.current_id = k
        line = b'%d PRINT " REM M%d"' % (k, k)
        if kind in ('o', 'a'):
            out = self.ex(b'OPEN A$ FOR %s AS 1:PRINT#1,"%d PRINT "+CHR$(34)+" REM M%d"+CHR$(34):CLOSE'
                          % (b'OUTPUT' if kind == 'o' else b'APPEND', k, k))
            self.ex(b'CLOSE')
        elif kind in ('s', 't', 'p', 'L'):
            self.ex(b'NEW')
            self.ex(line)
            self.ex(b'A$=' + lit(a))
            out = self.ex({'s': b'SAVE A$,A', 't': b'SAVE A$', 'p': b'SAVE A$,P', 'L': b'LIST ,A$'}[kind])
        elif kind == 'B':
            out = self.ex(b'DEF SEG=&HB800:POKE 0,%d:POKE 1,%d:BSAVE A$,0,2' % (k & 255, k >> 8))
            self.ex(b'DEF SEG')
        elif kind == 'i':
            out = self.ex(b'L$="":OPEN A$ FOR INPUT AS 1:LINE INPUT#1,L$:CLOSE:PRINT L$')
            self.ex(b'CLOSE')
            # a text line of ours only (a binary program file with appended text would show a later marker)
            res['marker'] = marker_of(out) if out.split(b' PRINT " REM M')[0].isdigit() else None
        elif kind in ('l', 'm'):
            self.ex(b'NEW')
            self.ex(b'A$=' + lit(a))
            out = self.ex(b'LOAD A$' if kind == 'l' else b'MERGE A$')
            if self.error_of(out) is None:
                res['marker'] = marker_of(self.ex(b'RUN'))
        elif kind in ('R', 'C'):
            self.ex(b'NEW')
            self.ex(b'A$=' + lit(a))
            out = self.ex(b'RUN A$' if kind == 'R' else b'CHAIN A$')
            res['marker'] = marker_of(out)
        elif kind == 'b':
            out = self.ex(b'DEF SEG=&HB800:POKE 0,0:POKE 1,0:BLOAD A$,0:X=PEEK(0)+256*PEEK(1):DEF SEG:'
                          b'PRINT " REM M";MID$(STR$(X),2)')
            self.ex(b'DEF SEG')
            res['marker'] = marker_of(out) or None
        elif kind == 'k':
            out = self.ex(b'KILL A$')
        elif kind == 'n':
            self.ex(b'B$=' + lit(b))
            out = self.ex(b'NAME A$ AS B$')
        elif kind == 'f':
            out = self.ex(b'FILES A$')
        elif kind == 'F':
            out = self.ex(b'FILES')
        else:
            raise ValueError(kind)
        res['err'] = self.error_of(out)
        if kind in ('f', 'F') and res['err'] is None:
            res['listing'] = parse_files(out)
        return res


def marker_of(text):
    """id of the first `<k> REM M<id>` in the text"""
    i = text.find(b' REM M')
    if i < 0:
        return None
    j = i + 6
    d = b''
    while j < len(text) and text[j:j + 1].isdigit():
        d += text[j:j + 1]
        j += 1
    return int(d) if d else None


def parse_files(out):
    """FILES output -> list of (kind, 12-byte column) or None when the layout is not understood"""
    lines = out.split(b'\r\n')
    entries = []
    for line in lines[1:]:
        line = line.rstrip(b'\n')
        if line.endswith(b' Bytes free'):
            break
        if not line:
            continue
        for j in range(0, len(line), 18):
            col = line[j:j + 18]
            if len(col) < 17:
                return None
            entries.append(('D' if col[12:17] == b'<DIR>' else 'F', col[:12]))
    return entries


def entry_name(col):
    """the DOS name a FILES column stands for"""
    t, e = col[:8].rstrip(b' '), col[9:12].rstrip(b' ')
    return t + (b'.' + e if e else b'')


def model_words(op):
    kind, a, b = op
    if kind in ('o', 'a'):
        return 'o %s -' % hx(a)
    if kind in CREATE_PROG:
        return 'o %s %s' % (hx(a), hx(BAS))
    if kind == 'i':
        return 'i %s -' % hx(a)
    if kind in READ_PROG:
        return 'i %s %s' % (hx(a), hx(BAS))
    if kind == 'k':
        return 'k %s' % hx(a)
    if kind == 'n':
        return 'n %s %s' % (hx(a), hx(b))
    if kind == 'f':
        return 'f %s' % hx(a)
    return 'F'


def impl_reply(op, res, before, after):
    """the implementation's behaviour in the model's reply format"""
    kind = op[0]
    tail = ' | ' + show_dir(sorted(after))
    err = res['err']
    if kind in READS and ((err is not None and err not in RESOLUTION_ERRORS) or (err is None and res['marker'] is None)):
        # the file was found but the statement cannot digest its format: the resolved name is not observable
        return None
    if err is not None:
        return ('err %s' % err) + tail
    if kind in CREATES:
        changed = [n for n in after if before.get(n) != after[n]]
        return 'ok ' + (show_name(changed[0]) if len(changed) == 1 else '?%d' % len(changed)) + tail
    if kind in READS:
        hit = [n for n in before if before[n][0] == res['marker'] and res['marker'] is not None]
        return 'ok ' + (show_name(hit[0]) if len(hit) == 1 else '?%d' % len(hit)) + tail
    if kind == 'k':
        return 'ok ' + show_dir(sorted(n for n in before if n not in after)) + tail
    if kind == 'n':
        gone = [n for n in before if n not in after]
        new = [n for n in after if n not in before]
        if len(gone) == 1 and len(new) == 1:
            return 'ok %s %s' % (show_name(gone[0]), show_name(new[0])) + tail
        return 'ok ?%d ?%d' % (len(gone), len(new)) + tail
    if res['listing'] is None:
        return 'ok ?' + tail
    return 'ok ' + (','.join(k + hx(c) for k, c in res['listing']) or '-') + tail


# ---------------------------------------------------------------------------------------------
# oracle

class Oracle(object):

    def __init__(self, ctx, world):
        self.ctx = ctx
        self.world = world
        self.known_seen = {}

    def report(self, key, case, what, known=False):
        if known:
            self.ctx.count('deviation ' + key)
            self.known_seen[key] = self.known_seen.get(key, 0) + 1
            if self.known_seen[key] > KNOWN_CAP:
                return
        self.ctx.fail(key, case, what)

    @staticmethod
    def keymap(host):
        """DOS key -> host names that are legal names with that key"""
        km = {}
        for u in host:
            b = host_legal(u)
            if b is not None:
                km.setdefault(dos_key(b), []).append(u)
        return km

    def asis(self, host, n):
        """host file spelled exactly like the name (as the documented long-name fallback matches it)"""
        cands = [n]
        if n.endswith(b'.') and b'.' not in n[:-1]:
            cands.append(n[:-1])
        for c in cands:
            try:
                u = c.decode('ascii')
            except UnicodeDecodeError:
                u = c.decode('cp437')
            if u and u in host:
                return u
        return None

    def expect_legal(self, host, kind, n, new_id):
        """behaviour the statement demands for the legal name n: (err, changes {host name: id or None}, marker)
        or None when two host files carry the same DOS name"""
        key = dos_key(n)
        hits = self.keymap(host).get(key, [])
        if len(hits) > 1:
            return None
        if kind in CREATES or kind in READS:
            return self.expect_target(host, kind, hits[0] if hits else None, key.decode('ascii'), new_id)
        if kind == 'k':
            if hits and not hidden(hits[0]):
                return (None, {hits[0]: None}, None)
            return (53, {}, None)
        raise ValueError(kind)

    @staticmethod
    def expect_target(host, kind, u, newname, new_id):
        """expected (err, changes, marker) when the name resolves to the host file u (None: to no file)"""
        if kind in WRITE_NEW:
            return (None, {(u or newname): new_id}, None)
        if kind == 'a':
            return (None, {u: host[u][0]} if u else {newname: new_id}, None)
        if u is None:
            return (53, {}, None)
        if host[u][2] in COMPAT[kind] and host[u][0] is not None:
            return (None, {}, host[u][0])
        # the statement cannot digest this file format; it must still have found the file
        return ('found', {}, None)

    @staticmethod
    def observed(res, before, after):
        changes = {}
        for n in after:
            if n not in before or before[n] != after[n]:
                changes[n] = after[n][0]
        for n in before:
            if n not in after:
                changes[n] = None
        return (res['err'], changes, res['marker'])

    @staticmethod
    def same(exp, obs, kind):
        if exp[0] == 'found':
            return obs[1] == {} and obs[0] not in (52, 53, 64)
        if exp[0] != obs[0]:
            return False
        if obs[0] is not None:
            return obs[1] == {}
        if exp[1] != obs[1]:
            return False
        return exp[2] == obs[2] if kind in READS else True

    def check(self, hist_case, op, res, before, after):
        kind, a, b = op
        case = dict(hist_case)
        obs = self.observed(res, before, after)
        desc = '%s %r%s' % (kind, a, (' %r' % b) if kind == 'n' else '')
        if isinstance(res['err'], str):
            self.report('host-exception:%s' % kind, case, '%s: %s escaped Session.execute' % (desc, res['err']))
            return
        if kind in CREATES or kind in READS:
            self.check_access(case, desc, kind, a, res, before, obs)
        elif kind == 'k':
            self.check_kill(case, desc, a, before, obs)
        elif kind == 'n':
            self.check_name(case, desc, a, b, before, obs)
        else:
            self.check_files(case, desc, kind, a, res, before, obs)

    # -- OPEN / SAVE / LOAD ---------------------------------------------------------------

    def check_access(self, case, desc, kind, a, res, before, obs):
        program = kind in PROG_KINDS
        n = canon(a, program)
        cls = classify(a, n)
        self.ctx.count('oracle %s %s' % ('create' if kind in CREATES else 'read', cls))
        if cls == 'legal':
            exp = self.expect_legal(before, kind, n, res['id'])
            if exp is None:
                self.ctx.count('oracle skipped: host collision')
                return
            if not self.same(exp, obs, kind):
                self.report('legal-name:%s' % kind, case, '%s on %r: expected (err, host changes, marker) %r, observed %r'
                            % (desc, sorted(before), exp, obs))
            elif kind in CREATES and obs[1]:
                created = [u for u in obs[1] if u not in before]
                for u in created:
                    if u != u.upper() or len(u) > 12:
                        self.report('legal-name:not-upper', case, '%s created host file %r' % (desc, u))
            return
        # illegal by the statement: Bad file name, nothing changes
        if obs[0] == 64 and not obs[1]:
            return
        if cls == 'empty' and obs[0] == 52 and not obs[1]:
            return self.report('empty-name-bad-file-number', case, '%s: error 52 instead of 64' % desc, known=True)
        if cls == 'leading-blank' and obs[0] == 53 and not obs[1]:
            return self.report('leading-blank-file-not-found', case, '%s: error 53 instead of 64' % desc, known=True)
        if cls == 'dots' and obs[0] == 53 and not obs[1]:
            return self.report('dot-name-file-not-found', case, '%s: error 53 instead of 64' % desc, known=True)
        if cls in ('overlong', 'bad', 'empty-trunk'):
            u = self.asis(before, n)
            if u is not None:
                exp = self.expect_target(before, kind, u, u, res['id'])
                if self.same(exp, obs, kind):
                    return self.report('illegal-name-asis-match', case,
                                       '%s: the host file spelled exactly like the illegal name is used' % desc, known=True)
        if cls == 'overlong':
            exp = self.expect_legal(before, kind, truncate83(n), res['id'])
            if exp is None:
                return
            if self.same(exp, obs, kind):
                return self.report('overlong-name-truncated', case,
                                   '%s: the over-long name is cut to %r instead of raising Bad file name'
                                   % (desc, truncate83(n)), known=True)
        if cls == 'empty-trunk':
            u = truncate83(b'X' + n)[1:].upper().decode('ascii')
            if set(obs[1]) <= {u} and (obs[0] in (None, 53) or (kind in READ_PROG and obs[0] != 64)):
                return self.report('empty-trunk-accepted', case, '%s: a name without name part is accepted (host %r)'
                                   % (desc, u), known=True)
        self.report('illegal-name:%s:%s' % (cls, kind), case,
                    '%s on %r: expected error 64 and no change, observed %r' % (desc, sorted(before), obs))

    # -- KILL -----------------------------------------------------------------------------

    def check_kill(self, case, desc, a, before, obs):
        m = a.rstrip(WS)
        wild = (b'*' in m) or (b'?' in m)
        cls = 'wild' if wild else classify(a, m)
        self.ctx.count('oracle kill %s' % cls)
        km = self.keymap(before)
        if any(len(v) > 1 for v in km.values()):
            self.ctx.count('oracle skipped: host collision')
            return
        if cls == 'legal':
            exp = self.expect_legal(before, 'k', m, None)
        elif cls == 'wild':
            gone = {v[0]: None for k, v in km.items() if mask_match(k, m) and not hidden(v[0])}
            exp = (None, gone, None) if gone else (53, {}, None)
        elif cls == 'empty':
            exp = (64, {}, None)
        else:
            # not a legal name: nothing may be removed and an error is raised
            if obs[0] in (53, 64) and not obs[1]:
                return
            if cls == 'overlong' and self.asis(before, m) is None:
                exp2 = self.expect_legal(before, 'k', truncate83(m), None)
                if exp2 is not None and self.same(exp2, obs, 'k'):
                    return self.report('overlong-name-truncated', case, '%s: over-long name cut to 8.3' % desc, known=True)
            return self.report('illegal-name:%s:k' % cls, case, '%s on %r: expected an error and no change, observed %r'
                               % (desc, sorted(before), obs))
        if not self.same(exp, obs, 'k'):
            self.report('kill:%s' % cls, case, '%s on %r: expected (err, removed) %r, observed %r'
                        % (desc, sorted(before), exp[:2], obs[:2]))

    # -- NAME -----------------------------------------------------------------------------

    def check_name(self, case, desc, a, b, before, obs):
        no, nn = canon(a, False), canon(b, False)
        co, cn = classify(a, no), classify(b, nn)
        self.ctx.count('oracle name %s/%s' % (co, cn))
        km = self.keymap(before)
        if any(len(v) > 1 for v in km.values()):
            self.ctx.count('oracle skipped: host collision')
            return
        # whatever happens, only the two named files may be involved
        if co == 'legal' and cn == 'legal':
            old = km.get(dos_key(no), [])
            new = km.get(dos_key(nn), [])
            if not old:
                exp = (53, {}, None)
            elif new:
                exp = (58, {}, None)
            else:
                exp = (None, {old[0]: None, dos_key(nn).decode('ascii'): before[old[0]][0]}, None)
            if not self.same(exp, obs, 'n'):
                self.report('name:legal', case, '%s on %r: expected (err, changes) %r, observed %r'
                            % (desc, sorted(before), exp[:2], obs[:2]))
            return
        if co == 'legal' and km.get(dos_key(no)) and cn == 'bad' and self.asis(before, nn) is None:
            if not (obs[0] == 64 and not obs[1]):
                self.report('illegal-name:bad:n', case, '%s: expected error 64 and no change, observed %r' % (desc, obs[:2]))
            return
        if co == 'legal' and not km.get(dos_key(no)):
            if not (obs[0] == 53 and not obs[1]):
                self.report('name:missing', case, '%s: expected error 53, observed %r' % (desc, obs[:2]))
            return
        # other combinations: at most one file disappears and one appears, content kept
        gone = [u for u, v in obs[1].items() if v is None]
        new = [u for u, v in obs[1].items() if v is not None]
        if obs[0] is not None and obs[1]:
            self.report('name:error-with-change', case, '%s: error %r but directory changed %r' % (desc, obs[0], obs[1]))
        elif obs[0] is None and not (len(gone) == 1 and len(new) == 1 and obs[1][new[0]] == before[gone[0]][0]):
            self.report('name:odd-change', case, '%s: directory change %r' % (desc, obs[1]))

    # -- FILES ----------------------------------------------------------------------------

    def check_files(self, case, desc, kind, a, res, before, obs):
        if obs[1]:
            self.report('files:changed-directory', case, '%s changed the directory: %r' % (desc, obs[1]))
            return
        m = b'*.*' if kind == 'F' else a.rstrip(WS)
        self.ctx.count('oracle files %s' % ('all' if m == b'*.*' else 'mask'))
        if kind == 'f' and not a:
            if obs[0] != 64:
                self.report('files:empty-mask', case, '%s: expected error 64, observed %r' % (desc, obs[0]))
            return
        km = self.keymap(before)
        if any(len(v) > 1 for v in km.values()):
            self.ctx.count('oracle skipped: host collision')
            return
        if obs[0] is None and res['listing'] is None:
            self.report('files:layout', case, '%s: output not in 18-character columns' % desc)
            return
        listed = [entry_name(c) for k, c in (res['listing'] or []) if k == 'F']
        want = sorted(k for k, v in km.items() if not hidden(v[0]) and mask_match(k, m))
        got_legal = sorted(e for e in listed if strict_legal(e) and e == e.upper())
        if m in (b'.', b'..'):
            return
        if want != got_legal:
            self.report('files:legal-entries', case, '%s on %r: legal files expected %r, listed %r'
                        % (desc, sorted(before), want, got_legal))
            return
        if m == b'*.*':
            visible = [u for u in before if not hidden(u)]
            if len(listed) != len(visible):
                self.report('files:not-all-visible-listed', case, '%s on %r: %d file entries for %d visible host files'
                            % (desc, sorted(before), len(listed), len(visible)))
                return
        # every listed entry opens the file it stands for (sample of the entries)
        rng = self.ctx.rng
        for e in rng.sample(listed, min(len(listed), 2)):
            cap = random_case(rng, e)
            fmt = before[km[e][0]][2] if e in km else 'A'
            if fmt == 'A':
                r2 = self.world.run_op(('i', cap, None))
            else:
                # a program / memory image: read it with RUN "f" / BLOAD (a trailing dot keeps the bare name)
                r2 = self.world.run_op(('b' if fmt == 'M' else 'R', cap if b'.' in cap else cap + b'.', None))
            if e in km and r2['err'] is None and r2['marker'] == before[km[e][0]][0]:
                self.ctx.count('oracle files entry opened')
                continue
            odd = not strict_legal(e) or e != e.upper()
            if e not in km and odd and r2['err'] is None and r2['marker'] is not None:
                self.ctx.count('oracle files entry (not a DOS name) opened as-is')
                continue
            if e not in km and odd:
                self.report('files-entry-not-a-legal-name', case,
                            '%s lists %r for a host file whose name is not a DOS name; OPEN %r gives error %r'
                            % (desc, e, cap, r2['err']), known=True)
                continue
            self.report('files:entry-does-not-open', case, '%s lists %r; OPEN %r FOR INPUT gives error %r marker %r'
                        % (desc, e, cap, r2['err'], r2['marker']))


# ---------------------------------------------------------------------------------------------
# generators

LETTERS = b'ABCDEFGHIJKLMNOPQRSTUVWXYZabcdefghijklmnopqrstuvwxyz'
ALLOW_LIST = bytes(bytearray(sorted(ALLOWED)))
BAD_BYTES = b'+,;=[]*?<>|"\x7f\x80\x9a\xe1\xff\x00\x01\x07\x1a\x1f.'


def random_case(rng, b):
    return bytes(bytearray((c ^ 32) if (65 <= (c & ~32) <= 90 and rng.random() < 0.5) else c for c in bytearray(b)))


def rand_part(rng, k, alphabet):
    return bytes(bytearray(rng.choice(bytearray(alphabet)) for _ in range(k)))


def legal_part(rng, k):
    """k allowable characters without a blank at either end"""
    if k == 0:
        return b''
    alpha = LETTERS + b'0123456789' if rng.random() < 0.6 else ALLOW_LIST
    while True:
        p = rand_part(rng, k, alpha)
        if p == p.strip(b' '):
            return p


def base_name(rng):
    r = rng.random()
    if r < 0.50:
        # legal 8.3
        t = legal_part(rng, rng.choice([1, 1, 2, 3, 5, 7, 8, 8]))
        e = legal_part(rng, rng.choice([0, 0, 1, 2, 3, 3]))
        n = t + (b'.' + e if e or rng.random() < 0.15 else b'')
    elif r < 0.62:
        # lengths around the limits
        t = legal_part(rng, rng.choice([0, 8, 9, 10, 12, 13]))
        e = legal_part(rng, rng.choice([0, 3, 4, 5]))
        n = t + (b'.' + e if e or rng.random() < 0.3 else b'')
    elif r < 0.72:
        # dots in every position
        s = bytearray(legal_part(rng, rng.randrange(1, 10)))
        for _ in range(rng.choice([1, 1, 2, 3])):
            s.insert(rng.randrange(len(s) + 1), 46)
        n = bytes(s)
    elif r < 0.84:
        # a character outside the allowable set somewhere
        s = bytearray(legal_part(rng, rng.randrange(1, 8)) + rng.choice([b'', b'.' + legal_part(rng, rng.randrange(1, 4))]))
        s.insert(rng.randrange(len(s) + 1), rng.choice(bytearray(BAD_BYTES)))
        n = bytes(s)
    elif r < 0.90:
        # blanks at the edges of the parts
        t = legal_part(rng, rng.randrange(1, 7))
        e = legal_part(rng, rng.randrange(0, 3))
        n = rng.choice([b' ' + t, t + b' .' + (e or b'X'), t + b'. ' + e, b'\t' + t, t + b'.' + e + b' ', b'  ' + t + b'.' + e])
    elif r < 0.95:
        n = rng.choice([b'', b' ', b'   ', b'.', b'..', b'...', b'. ', b'.. ', b'.' + legal_part(rng, 3), b'.BAS', b'A.',
                        b'A..', b'\t', b'.A.', b'A. .'])
    else:
        n = rand_part(rng, rng.randrange(1, 14), bytes(bytearray(range(256))))
    n = n.replace(b':', b'x').replace(b'/', b'x').replace(b'\\', b'x')
    if n.rstrip(WS).upper() in DEVICES or n.upper() in DEVICES:
        n = b'Q' + n
    return n


def decorate(rng, n):
    n = random_case(rng, n)
    r = rng.random()
    if r < 0.10:
        n += rng.choice([b' ', b'  ', b'\t', b' \t '])
    return n


HOST_POOL = [u'lower.txt', u'MixEd.Bas', u'noext', u'UPPER.DAT', u'prog.bas', u'a b.c d', u'x.y', u'LongFileName.txt',
             u'longprogram.bas', u'Read.Me.txt', u'x+y', u'.hidden', u'.hid.txt', u'\xc4\xd6.TXT', u'中.txt',
             u'trail.', u'TOOLONGEXT.html', u'ab .txt', u'Z', u'12345678.123', u"!#$%&'()", u'-@^_`{}~', u'LONGFILE.TXT',
             u'name[1].txt', u'a,b']


def host_files(rng):
    """host names without two legal names of the same DOS key"""
    k = rng.choice([0, 0, 2, 4, 7, 10])
    out, keys = [], set()
    for u in rng.sample(HOST_POOL, min(k, len(HOST_POOL))):
        b = host_legal(u)
        if b is not None:
            if dos_key(b) in keys:
                continue
            keys.add(dos_key(b))
        out.append(u)
    return out


def gen_history(rng, nops):
    seeds = host_files(rng)
    pool = [base_name(rng) for _ in range(rng.randrange(2, 6))]
    for u in seeds:
        if rng.random() < 0.5:
            try:
                pool.append(u.encode('ascii'))
            except UnicodeEncodeError:
                pool.append(u.encode('cp437', 'replace'))
    # program-file twins: NAME and NAME.BAS
    if rng.random() < 0.5:
        t = legal_part(rng, rng.randrange(1, 8))
        pool += [t, t + b'.BAS', t + b'.']
    ops = []
    for _ in range(nops):
        r = rng.random()
        a = decorate(rng, rng.choice(pool))
        if r < 0.20:
            ops.append((rng.choice('ooa'), a, None))
        elif r < 0.33:
            ops.append((rng.choice('sstpLLB'), a, None))
        elif r < 0.45:
            ops.append(('i', a, None))
        elif r < 0.56:
            ops.append((rng.choice('llRRCmb'), a, None))
        elif r < 0.70:
            if rng.random() < 0.3:
                a = wild_mask(rng, rng.choice(pool))
            ops.append(('k', a, None))
        elif r < 0.82:
            ops.append(('n', a, decorate(rng, rng.choice(pool) if rng.random() < 0.6 else base_name(rng))))
        elif r < 0.92:
            if rng.random() < 0.4:
                a = wild_mask(rng, rng.choice(pool))
            ops.append(('f', a, None))
        else:
            ops.append(('F', None, None))
    ops = [(k, a, b) for (k, a, b) in ops if not (k == 'n' and (not a or not b))]
    return seeds, ops


def wild_mask(rng, n):
    s = bytearray(n.upper() if rng.random() < 0.5 else n)
    r = rng.random()
    if r < 0.2:
        return rng.choice([b'*.*', b'*', b'*.', b'?*.*', b'*.???', b'????????.???', b'*.BAS', b'*.bas', b'*.?*'])
    for _ in range(rng.choice([1, 1, 2])):
        if not s:
            break
        i = rng.randrange(len(s))
        if rng.random() < 0.5:
            s[i] = 63
        else:
            s[i:rng.randrange(i, len(s) + 1)] = b'*'
    return bytes(s).replace(b':', b'x').replace(b'/', b'x').replace(b'\\', b'x')


# ---------------------------------------------------------------------------------------------
# histories: correspondence + oracle

def run_history(ctx, world, oracle, seeds, ops, cases, impls, lines):
    world.reset(seeds)
    hist_case = {'seeds': seeds, 'ops': []}
    for op in ops:
        hist_case['ops'].append([op[0], hx(op[1] or b''), hx(op[2] or b'')])
        before = world.snapshot()
        res = world.run_op(op)
        after = world.snapshot()
        ctx.count('op ' + op[0])
        ctx.count('result ' + ('ok' if res['err'] is None else 'err %s' % res['err']))
        if op[1]:
            ctx.case((op[0], op[1], op[2], tuple(sorted(before))))
        reply = impl_reply(op, res, before, after)
        if reply is None:
            ctx.count('correspondence skipped: file found, format not readable by the statement')
        else:
            cases.append({'seeds': seeds, 'ops': list(hist_case['ops'])})
            impls.append(reply)
            lines.append('step %s %s' % (show_dir(list(before)), model_words(op)))
        oracle.check({'seeds': seeds, 'ops': list(hist_case['ops'])}, op, res, before, after)


def histories(ctx, n_hist, nops):
    world = World()
    oracle = Oracle(ctx, world)
    cases, impls, lines = [], [], []
    try:
        for h in range(n_hist):
            seeds, ops = gen_history(ctx.rng, nops)
            run_history(ctx, world, oracle, seeds, ops, cases, impls, lines)
            if h == 0 and lines:
                ctx.sample({'line': lines[-1], 'impl': impls[-1]})
    finally:
        world.close()
    ctx.compare(cases, impls, lines, 'history step')
    for l, i in list(zip(lines, impls))[5:400:80]:
        ctx.sample({'line': l, 'impl': i})


# ---------------------------------------------------------------------------------------------
# module functions on random byte strings

def rand_bytes(rng):
    r = rng.random()
    k = rng.choice([0, 1, 2, 3, 4, 8, 9, 12, 13, 16])
    if r < 0.4:
        return rand_part(rng, k, LETTERS + b'0123456789.. *?')
    if r < 0.7:
        return rand_part(rng, k, ALLOW_LIST + b'....**??')
    return rand_part(rng, k, bytes(bytearray(range(256))))


def functions(ctx, n):
    from pcbasic.basic.devices import disk
    rng = ctx.rng
    world = World()
    try:
        dev = world.session._impl.files.get_device(b'C:')
        cases, impls, lines = [], [], []

        def add(line, out):
            cases.append(line)
            lines.append(line)
            impls.append(out)

        for _ in range(n):
            s = rand_bytes(rng) if rng.random() < 0.6 else decorate(rng, base_name(rng))
            ctx.case(('fn', s))
            norm = disk.dos_normalise_name(s)
            add('norm ' + hx(s), 'ok ' + hx(norm))
            add('legal ' + hx(s), 'ok %d' % bool(disk.dos_is_legal_name(s)))
            t, e = disk.dos_splitext(s)
            add('split ' + hx(s), 'ok %s %s' % (hx(t), hx(e)))
            x = rng.choice([b'', BAS, b'bas', b'X'])
            dx = dev._get_dos_name_defext(s, x)
            add('defext %s %s' % (hx(s), hx(x)), 'ok ' + hx(dx))
            # oracle: idempotent; default extension exactly when there is no dot
            if disk.dos_normalise_name(norm) != norm:
                ctx.fail('normalise-not-idempotent', {'fn': 'norm', 'arg': hx(s)}, 'normalise(%r) = %r, again %r'
                         % (s, norm, disk.dos_normalise_name(norm)))
            st = s.rstrip(WS)
            want = st + (b'.' + x if x and b'.' not in st else b'')
            if dx != want:
                ctx.fail('defext-function', {'fn': 'defext', 'arg': hx(s), 'ext': hx(x)}, '_get_dos_name_defext(%r, %r) = %r'
                         % (s, x, dx))
            if strict_legal(s) and not disk.dos_is_legal_name(s):
                ctx.fail('legal-name-rejected', {'fn': 'legal', 'arg': hx(s)}, 'dos_is_legal_name(%r) is False' % s)
            if strict_legal(s) and norm != dos_key(s):
                ctx.fail('legal-name-normalise', {'fn': 'norm', 'arg': hx(s)}, 'dos_normalise_name(%r) = %r' % (s, norm))
            # wildcard matcher
            nm = rand_part(rng, rng.randrange(0, 9), b'ABCabc12 .\n' if rng.random() < 0.2 else b'ABCabc12')
            r = rng.random()
            if r < 0.5:
                mk = bytes(wild_mask(rng, nm)) if nm else rng.choice([b'', b'*', b'?'])
            else:
                mk = rand_part(rng, rng.randrange(0, 7), b'ABCabc12*?*?')
            got = bool(disk.dos_name_matches(nm, mk))
            add('match %s %s' % (hx(nm), hx(mk)), 'ok %d' % got)
            ctx.count('match %s' % got)
            if b'\n' not in nm and got != wm(nm.upper(), mk.upper()):
                ctx.fail('wildcard-match', {'fn': 'match', 'arg': hx(nm), 'mask': hx(mk)},
                         'dos_name_matches(%r, %r) = %r' % (nm, mk, got))
            # display names
            if rng.random() < 0.5:
                u = rng.choice(HOST_POOL)
            else:
                u = ''.join(rng.choice(u'abcXYZ019 .+\xe9\xc4α中~_-') for _ in range(rng.randrange(1, 15)))
            u = u.replace(u'/', u'_')
            add('disp ' + show_name(u), 'ok ' + hx(dev._get_dos_display_name(world.dir, u)))
        ctx.compare(cases, impls, lines, 'function')
        for l, i in list(zip(lines, impls))[:10:2]:
            ctx.sample({'line': l, 'impl': i})
    finally:
        world.close()


def fixed_histories(ctx):
    """the shapes the statement names, always run"""
    world = World()
    oracle = Oracle(ctx, world)
    cases, impls, lines = [], [], []
    H = [
        ([], [('o', b'abc.txt', None), ('i', b'ABC.TXT', None), ('i', b'AbC.tXt', None), ('F', None, None),
              ('n', b'aBc.TxT', b'new.dat'), ('i', b'NEW.DAT', None), ('k', b'New.Dat', None), ('F', None, None)]),
        ([], [('s', b'prog', None), ('l', b'PROG', None), ('l', b'prog.bas', None), ('s', b'prog.', None),
              ('l', b'PROG.', None), ('s', b'p.x', None), ('l', b'P.X', None), ('F', None, None), ('k', b'PROG.BAS', None),
              ('l', b'prog', None)]),
        ([], [('o', b'ab ', None), ('i', b'AB', None), ('k', b'Ab ', None), ('o', b'ab.', None), ('k', b'AB', None),
              ('o', b'ab', None), ('f', b'AB ', None), ('f', b'ab.', None), ('k', b'ab.', None)]),
        ([], [('o', b'LongFileName.text', None), ('o', b'.txt', None), ('o', b' a', None), ('o', b'a.b.c', None),
              ('o', b'a*b', None), ('o', b'', None), ('o', b'.', None), ('o', b'a+b', None), ('o', b'A\x80', None),
              ('F', None, None)]),
        ([u'lower.txt', u'LongFileName.txt', u'x+y', u'.hidden', u'\xc4\xd6.TXT'],
         [('F', None, None), ('i', b'LOWER.TXT', None), ('o', b'Lower.Txt', None), ('k', b'LOWER.txt', None),
          ('i', b'LongFileName.txt', None), ('i', b'longfilename.txt', None), ('f', b'*.txt', None), ('k', b'*.*', None),
          ('F', None, None)]),
        ([], [('L', b'LiStEd', None), ('L', b'dotted.txt', None), ('L', b'nodot.', None), ('F', None, None),
              ('f', b'*.BAS', None), ('l', b'listed', None), ('R', b'LISTED.bas', None), ('m', b'Listed', None),
              ('t', b'tok', None), ('p', b'prot', None), ('B', b'mem', None), ('b', b'MEM', None), ('C', b'TOK', None),
              ('R', b'Prot.Bas', None), ('k', b'LISTED.bas', None), ('k', b'tok.BAS', None), ('F', None, None)]),
        ([u'abc.txt'], [('n', b'ABC.TXT', b'abc.txt'), ('n', b'ABC.TXT', b'Abc.Dat'), ('o', b'ABC.DAT', None),
                        ('a', b'abc.dat', None), ('i', b'ABC.dat', None)]),
    ]
    try:
        for seeds, ops in H:
            run_history(ctx, world, oracle, seeds, ops, cases, impls, lines)
    finally:
        world.close()
    ctx.compare(cases, impls, lines, 'fixed history step')
    ctx.sample({'line': lines[0], 'impl': impls[0]})


def statement_matrix(ctx):
    """every statement that creates a file x name shape (no dot / dot / bare trailing dot / trailing blank / 8 characters),
    followed by every statement that opens a file for reading, FILES and KILL, each under its own capitalisation:
    the exact host name created (.BAS exactly for program statements and dot-less names) and mutual reachability"""
    rng = ctx.rng
    world = World()
    oracle = Oracle(ctx, world)
    cases, impls, lines = [], [], []
    try:
        for c in CREATES:
            for shape in range(5):
                t = legal_part(rng, 8 if shape == 4 else rng.randrange(1, 8))
                name = [t, t + b'.' + legal_part(rng, rng.randrange(1, 4)), t + b'.', t + b' ', t][shape]
                if name.rstrip(WS).upper() in DEVICES:
                    name = b'Q' + name[1:]
                full = canon(name, c in CREATE_PROG)
                other = t if shape in (1, 2) else t + b'.'       # the same trunk with the other treatment of the extension
                ops = [(c, decorate(rng, name), None)]
                for r in READS:
                    ops.append((r, decorate(rng, name), None))
                ops.append(('f', b'*.BAS' if rng.random() < 0.5 else b'*.bas', None))
                ops.append(('F', None, None))
                ops.append((rng.choice(CREATE_PROG), decorate(rng, other), None))
                ops.append((rng.choice(READ_PROG), decorate(rng, other), None))
                ops.append(('n', decorate(rng, full), decorate(rng, b'N' + t[:7])))
                ops.append((rng.choice('lRC'), decorate(rng, b'N' + t[:7] + b'.'), None))
                ops.append(('k', decorate(rng, b'N' + t[:7]), None))
                ops.append(('F', None, None))
                run_history(ctx, world, oracle, [], ops, cases, impls, lines)
    finally:
        world.close()
    ctx.compare(cases, impls, lines, 'statement matrix step')
    ctx.sample({'line': lines[0], 'impl': impls[0]})


def run(ctx):
    statement_matrix(ctx)
    fixed_histories(ctx)
    functions(ctx, 3000 if ctx.quick else 60000)
    if ctx.quick:
        histories(ctx, 160, 16)
    else:
        histories(ctx, 1000, 20)
        histories(ctx, 200, 60)


def replay(ctx, payload):
    case = payload.get('case', {})
    sub = Ctx2(ctx)
    if 'ops' in case:
        world = World()
        oracle = Oracle(sub, world)
        try:
            ops = [(k, unhx(a) if k != 'F' else None, unhx(b) if k == 'n' else None) for k, a, b in case['ops']]
            run_history(sub, world, oracle, case.get('seeds', []), ops, [], [], [])
        finally:
            world.close()
    else:
        sub.rng = random.Random(payload.get('seed', 0))
        run(sub)
    hits = [f for f in sub.failures if f['key'] == payload.get('key')]
    return hits[0]['what'] if hits else None


class Ctx2(object):
    """thin proxy so replay can reuse the run functions without touching the outer evidence"""
    def __init__(self, ctx):
        self.__dict__.update(ctx.__dict__)
        self._ctx = ctx
        self.failures = []
        self.disagreements = []

    def __getattr__(self, name):
        return getattr(self._ctx.__class__, name).__get__(self)
