import PcbV.Lemmas.HeapInv
/-
  Every primitive of the statement layer of `PcbV.Heap` preserves the invariant `Core`/`Strong`.
-/
namespace PcbV.Heap
open PcbV

theorem checkFree_inv (n err : Nat) (s : Heap) (h : Core s) :
    match checkFree n err s with
    | .ok s' => Core s' ∧ (s.current ≤ s.temp → s'.current ≤ s'.temp) ∧ SameShape s' s ∧ lowMem s' n = false
    | .error (_, s') => Strong s' ∧ SameShape s' s := by
  unfold checkFree
  by_cases hlow : lowMem s n = true
  · rw [if_pos hlow]
    obtain ⟨s1, h1⟩ := collect_total_lem s h.wf
    obtain ⟨hst, hsh⟩ := collect_strong s s1 h.wf h.nocode h.perm h1
    rw [h1]
    simp only
    by_cases hlow1 : lowMem s1 n = true
    · rw [if_pos hlow1]; exact ⟨hst, hsh⟩
    · rw [if_neg hlow1]; exact ⟨hst.core, fun _ => hst.bnd, hsh, by simpa using hlow1⟩
  · rw [if_neg hlow]
    exact ⟨h, fun x => x, ⟨rfl, rfl, rfl⟩, by simpa using hlow⟩

theorem strong_of_core {s : Heap} (h : Core s) (hb : s.current ≤ s.temp) : Strong s :=
  ⟨h.wf, h.nocode, h.perm, hb⟩

theorem strong_storeRaw_push {t : Heap} (h : Strong t) (b : Bytes) (hlow : lowMem t b.length = false) :
    Strong (push (storeRaw t b).1 (.own (storeRaw t b).2)) := by
  unfold lowMem used at hlow
  simp at hlow
  have hn : b.length ≤ t.current := by omega
  have hv : t.varStart ≤ t.current - b.length + 1 := by omega
  have hwf := h.wf.storeRaw_push b hn hv
  obtain ⟨f1, f2, f3, f4, f5, f6, f7, f8, f9, _⟩ := storeRaw_fields t b
  refine ⟨hwf, ?_, ?_, ?_⟩
  · intro l p hp h0
    show t.varStart ≤ p.addr
    cases l with
    | v l =>
      rw [getLoc_push_v, getLoc_storeRaw] at hp
      exact h.nocode _ p hp h0
    | s k =>
      rw [getLoc_push_s] at hp
      have hlen : (storeRaw t b).1.stack.length = t.stack.length := rfl
      rw [hlen] at hp
      by_cases h1 : k < t.stack.length
      · rw [if_pos h1, getLoc_storeRaw] at hp; exact h.nocode _ p hp h0
      · rw [if_neg h1] at hp
        by_cases h2 : k = t.stack.length
        · rw [if_pos h2] at hp; cases hp; rw [f3]; exact hv
        · rw [if_neg h2] at hp; cases hp
  · apply perm_of_subcells h.perm (t := push (storeRaw t b).1 (.own (storeRaw t b).2)) rfl rfl
    intro l p hp
    rw [getLoc_push_v, getLoc_storeRaw] at hp
    exact Or.inl ⟨l, hp⟩
  · show t.current - b.length ≤ t.temp
    have := h.bnd
    omega

/-- the names of the scalars and the names and sizes of the arrays -/
def VShape (t s : Heap) : Prop :=
  t.scalars.map (·.1) = s.scalars.map (·.1) ∧
  t.arrays.map (fun x => (x.1, x.2.length)) = s.arrays.map (fun x => (x.1, x.2.length))

theorem allocPush_inv (b : Bytes) (s : Heap) (h : Strong s) :
    match allocPush b s with
    | .ok s' => Strong s' ∧ VShape s' s
    | .error (_, s') => Strong s' ∧ VShape s' s := by
  unfold allocPush
  by_cases hlen : b.length > 255
  · rw [if_pos hlen]; exact ⟨h, rfl, rfl⟩
  · rw [if_neg hlen]
    have hc := checkFree_inv b.length Gen.E.out_of_string_space s h.core
    cases hcf : checkFree b.length Gen.E.out_of_string_space s with
    | error x =>
      obtain ⟨e, s1⟩ := x
      rw [hcf] at hc
      exact ⟨hc.1, hc.2.sc, hc.2.ar⟩
    | ok s1 =>
      rw [hcf] at hc
      obtain ⟨hcore, hb, hsh, hlow⟩ := hc
      exact ⟨strong_storeRaw_push (strong_of_core hcore (hb h.bnd)) b hlow, hsh.sc, hsh.ar⟩

/-! ### push / pop / clearing the stack -/

theorem getElem?_dropLast (l : List α) (k : Nat) (x : α) (h : l.dropLast[k]? = some x) : l[k]? = some x := by
  induction l generalizing k with
  | nil => simp at h
  | cons y r ih =>
    cases r with
    | nil => simp at h
    | cons z r' =>
      cases k with
      | zero => simpa using h
      | succ n => simp at h ⊢; exact ih n h

theorem cells_pop (s : Heap) (l : Loc) (p : Ptr) (h : getLoc (pop s) l = some p) : getLoc s l = some p := by
  cases l with
  | v l => cases l <;> exact h
  | s k =>
    simp only [getLoc, pop] at h ⊢
    cases hx : s.stack.dropLast[k]? with
    | none => rw [hx] at h; cases h
    | some it =>
      rw [hx] at h
      rw [getElem?_dropLast _ _ _ hx]; exact h

theorem strong_pop {s : Heap} (h : Strong s) : Strong (pop s) := by
  obtain ⟨hw, hn⟩ := wf_of_subcells h.wf h.nocode (t := pop s) rfl rfl rfl rfl
    (fun l p hp => Or.inl ⟨l, cells_pop s l p hp⟩)
  exact ⟨hw, hn, perm_of_subcells h.perm rfl rfl (fun l p hp => Or.inl ⟨l, cells_pop s (.v l) p hp⟩), h.bnd⟩

/-- the pointer of the top item is a cell (or empty) -/
theorem topItem_cell (s : Heap) :
    (itemPtr s (topItem s)).len = 0 ∨ ∃ l, getLoc s l = some (itemPtr s (topItem s)) := by
  unfold topItem
  cases hg : s.stack.getLast? with
  | none => left; rfl
  | some it =>
    simp only [Option.getD]
    cases it with
    | own q =>
      right
      refine ⟨.s (s.stack.length - 1), ?_⟩
      simp only [getLoc, itemPtr]
      rw [List.getLast?_eq_getElem?] at hg
      rw [hg]
    | ref l =>
      simp only [itemPtr]
      cases hv : getV s l with
      | none => left; rfl
      | some q => right; exact ⟨.v l, hv⟩

theorem cells_push (s : Heap) (it : Item) (l : Loc) (p : Ptr) (h : getLoc (push s it) l = some p) :
    getLoc s l = some p ∨ it = .own p := by
  cases l with
  | v l => left; rw [getLoc_push_v] at h; exact h
  | s k =>
    rw [getLoc_push_s] at h
    by_cases h1 : k < s.stack.length
    · rw [if_pos h1] at h; exact Or.inl h
    · rw [if_neg h1] at h
      by_cases h2 : k = s.stack.length
      · rw [if_pos h2] at h
        cases it with
        | own q => simp at h; right; rw [h]
        | ref m => simp at h
      · rw [if_neg h2] at h; cases h

theorem strong_push {s : Heap} (h : Strong s) (it : Item)
    (hit : ∀ p, it = .own p → p.len = 0 ∨ ∃ l, getLoc s l = some p) : Strong (push s it) := by
  have hc : ∀ l p, getLoc (push s it) l = some p → (∃ l', getLoc s l' = some p) ∨ p.len = 0 := by
    intro l p hp
    rcases cells_push s it l p hp with h1 | h1
    · exact Or.inl ⟨l, h1⟩
    · rcases hit p h1 with h2 | h2
      · exact Or.inr h2
      · exact Or.inl h2
  obtain ⟨hw, hn⟩ := wf_of_subcells h.wf h.nocode (t := push s it) rfl rfl rfl rfl hc
  refine ⟨hw, hn, perm_of_subcells h.perm rfl rfl (fun l p hp => ?_), h.bnd⟩
  rw [getLoc_push_v] at hp
  exact Or.inl ⟨l, hp⟩

theorem cells_nostack (s : Heap) (l : Loc) (p : Ptr) (h : getLoc { s with stack := [] } l = some p) :
    getLoc s l = some p := by
  cases l with
  | v l => cases l <;> exact h
  | s k => simp [getLoc] at h

theorem core_nostack {s : Heap} (h : Core s) : Core { s with stack := [] } := by
  obtain ⟨hw, hn⟩ := wf_of_subcells h.wf h.nocode (t := { s with stack := [] }) rfl rfl rfl rfl
    (fun l p hp => Or.inl ⟨l, cells_nostack s l p hp⟩)
  exact ⟨hw, hn, perm_of_subcells h.perm rfl rfl (fun l p hp => Or.inl ⟨l, cells_nostack s (.v l) p hp⟩), h.bnd⟩

/-! ### names, existence of a destination -/

def findName (name : Bytes) : List Bytes → Nat → Option Nat
  | [], _ => none
  | n :: r, i => if n = name then some i else findName name r (i + 1)

theorem findIdx_eq_findName (name : Bytes) (l : List (Bytes × α)) (n : Nat) :
    findIdx name l n = findName name (l.map (·.1)) n := by
  induction l generalizing n with
  | nil => rfl
  | cons x r ih => obtain ⟨k, v⟩ := x; simp only [findIdx, List.map, findName, ih]

theorem findName_append (name : Bytes) (l r : List Bytes) (n i : Nat) (h : findName name l n = some i) :
    findName name (l ++ r) n = some i := by
  induction l generalizing n with
  | nil => simp [findName] at h
  | cons x l' ih =>
    simp only [findName, List.cons_append] at h ⊢
    split
    · next hx => rw [if_pos hx] at h; exact h
    · next hx => rw [if_neg hx] at h; exact ih _ h

theorem findName_lt (name : Bytes) (l : List Bytes) (n i : Nat) (h : findName name l n = some i) :
    n ≤ i ∧ i - n < l.length := by
  induction l generalizing n with
  | nil => simp [findName] at h
  | cons x l' ih =>
    simp only [findName] at h
    split at h
    · cases h; simp
    · have := ih _ h
      simp only [List.length_cons]; omega

def nl (x : Bytes × List Ptr) : Bytes × Nat := (x.1, x.2.length)

/-- the names lists only grow at the end -/
def VExt (s s' : Heap) : Prop :=
  (∃ a, s'.scalars.map (·.1) = s.scalars.map (·.1) ++ a) ∧ (∃ b, s'.arrays.map nl = s.arrays.map nl ++ b)

theorem VExt.refl (s : Heap) : VExt s s := ⟨⟨[], by simp⟩, ⟨[], by simp⟩⟩

theorem VExt.trans {a b c : Heap} (h1 : VExt a b) (h2 : VExt b c) : VExt a c := by
  obtain ⟨⟨x1, e1⟩, ⟨y1, f1⟩⟩ := h1
  obtain ⟨⟨x2, e2⟩, ⟨y2, f2⟩⟩ := h2
  exact ⟨⟨x1 ++ x2, by rw [e2, e1, List.append_assoc]⟩, ⟨y1 ++ y2, by rw [f2, f1, List.append_assoc]⟩⟩

theorem VExt.of_shape {s s' : Heap} (h : VShape s' s) : VExt s s' :=
  ⟨⟨[], by rw [h.1]; simp⟩, ⟨[], by show s'.arrays.map nl = _; rw [show s'.arrays.map nl = s.arrays.map nl from h.2]; simp⟩⟩

theorem VExt.of_same {s s' : Heap} (h : SameShape s' s) : VExt s s' := VExt.of_shape ⟨h.sc, h.ar⟩

/-- the destination exists (scalar allocated / array dimensioned and the index in range) -/
def ExD (s : Heap) : Dst → Prop
  | .sc name => ∃ i, findName name (s.scalars.map (·.1)) 0 = some i
  | .el name i => ∃ a x, findName name ((s.arrays.map nl).map (·.1)) 0 = some a ∧ (s.arrays.map nl)[a]? = some x ∧ i < x.2

theorem ExD.ext {s s' : Heap} {d : Dst} (h : ExD s d) (he : VExt s s') : ExD s' d := by
  obtain ⟨⟨a, ea⟩, ⟨b, eb⟩⟩ := he
  cases d with
  | sc name =>
    obtain ⟨i, hi⟩ := h
    exact ⟨i, by rw [ea]; exact findName_append _ _ _ _ _ hi⟩
  | el name i =>
    obtain ⟨k, x, h1, h2, h3⟩ := h
    refine ⟨k, x, ?_, ?_, h3⟩
    · rw [eb, List.map_append]; exact findName_append _ _ _ _ _ h1
    · rw [eb]
      have : k < (s.arrays.map nl).length := by
        cases hlt : decide (k < (s.arrays.map nl).length) with
        | true => simpa using hlt
        | false =>
          have : (s.arrays.map nl).length ≤ k := by simpa using hlt
          rw [List.getElem?_eq_none this] at h2; cases h2
      rw [List.getElem?_append_left this]; exact h2

theorem arrays_names (s : Heap) : s.arrays.map (·.1) = (s.arrays.map nl).map (·.1) := by
  rw [List.map_map]; rfl

/-- operational meaning of `ExD` -/
theorem ExD.loc {s : Heap} {d : Dst} (h : ExD s d) : ∃ l p, dstLoc s d = some l ∧ getV s l = some p := by
  cases d with
  | sc name =>
    obtain ⟨i, hi⟩ := h
    have hlt := findName_lt _ _ _ _ hi
    simp only [List.length_map] at hlt
    have hi' : findIdx name s.scalars 0 = some i := by rw [findIdx_eq_findName]; exact hi
    have hx : ∃ x, s.scalars[i]? = some x := ⟨s.scalars[i]'(by omega), by simp [List.getElem?_eq_getElem (by omega : i < s.scalars.length)]⟩
    obtain ⟨x, hx⟩ := hx
    exact ⟨.sc i, x.2, by simp [dstLoc, hi'], by simp [getV, hx]⟩
  | el name i =>
    obtain ⟨a, x, h1, h2, h3⟩ := h
    have ha : findIdx name s.arrays 0 = some a := by rw [findIdx_eq_findName, arrays_names]; exact h1
    simp only [List.getElem?_map] at h2
    cases hy : s.arrays[a]? with
    | none => rw [hy] at h2; cases h2
    | some y =>
      rw [hy] at h2
      simp [nl] at h2
      have hlen : i < y.2.length := by rw [← h2] at h3; exact h3
      refine ⟨.el a i, y.2[i], by simp [dstLoc, ha], ?_⟩
      simp [getV, hy, List.getElem?_eq_getElem hlen]

theorem ExD.ensure_ok {s : Heap} {name : Bytes} (h : ExD s (.sc name)) : ensureScalar name s = .ok s := by
  obtain ⟨i, hi⟩ := h
  have hi' : findIdx name s.scalars 0 = some i := by rw [findIdx_eq_findName]; exact hi
  simp [ensureScalar, hi']

theorem ExD.checkDim_ok {s : Heap} {name : Bytes} {i : Nat} (h : ExD s (.el name i)) : checkDim name i s = .ok s := by
  obtain ⟨a, x, h1, h2, h3⟩ := h
  have ha : findIdx name s.arrays 0 = some a := by rw [findIdx_eq_findName, arrays_names]; exact h1
  simp only [List.getElem?_map] at h2
  cases hy : s.arrays[a]? with
  | none => rw [hy] at h2; cases h2
  | some y =>
    rw [hy] at h2
    simp [nl] at h2
    have hlen : i < y.2.length := by rw [← h2] at h3; exact h3
    simp [checkDim, ha, hy, hlen]

/-! ### allocating variables (cells with the null pointer are appended) -/

theorem core_sub {s t : Heap} (h : Core s)
    (h1 : t.varStart = s.varStart) (h2 : t.strs = s.strs) (h3 : t.current = s.current) (h4 : t.top = s.top)
    (h5 : t.temp = s.temp)
    (hc : ∀ l p, getLoc t l = some p → (∃ l', getLoc s l' = some p) ∨ p.len = 0)
    (hv : ∀ l p, getLoc t (.v l) = some p → (∃ l', getLoc s (.v l') = some p) ∨ p.len = 0) :
    Core t ∧ (s.current ≤ s.temp → Strong t) := by
  obtain ⟨hw, hn⟩ := wf_of_subcells h.wf h.nocode h1 h2 h3 h4 hc
  have hp := perm_of_subcells h.perm h1 h5 hv
  refine ⟨⟨hw, hn, hp, ?_⟩, fun hb => ⟨hw, hn, hp, by rw [h3, h5]; exact hb⟩⟩
  rcases h.bnd with he | hb
  · left; rw [h2]; exact he
  · right; rw [h3, h5]; exact hb

theorem stack_nil_of_shape {t s : Heap} (h : SameShape t s) (hs : s.stack = []) : t.stack = [] := by
  have := h.st
  rw [hs] at this
  simpa using this

theorem findName_append_self (name : Bytes) (l : List Bytes) (n : Nat) :
    ∃ i, findName name (l ++ [name]) n = some i := by
  induction l generalizing n with
  | nil => exact ⟨n, by simp [findName]⟩
  | cons x r ih =>
    simp only [List.cons_append, findName]
    split
    · exact ⟨n, rfl⟩
    · exact ih _

theorem cells_appendScalar (s : Heap) (sb : Nat) (name : Bytes) (l : Loc) (p : Ptr)
    (h : getLoc { s with scalBytes := sb, scalars := s.scalars ++ [(name, Ptr.null)] } l = some p) :
    getLoc s l = some p ∨ p.len = 0 := by
  cases l with
  | s k => exact Or.inl h
  | v l =>
    cases l with
    | el a i => exact Or.inl h
    | sc i =>
      simp only [getLoc, getV] at h ⊢
      by_cases hi : i < s.scalars.length
      · rw [List.getElem?_append_left hi] at h; exact Or.inl h
      · rw [List.getElem?_append_right (by omega)] at h
        cases hk : i - s.scalars.length with
        | zero => rw [hk] at h; simp at h; right; rw [← h]; rfl
        | succ m => rw [hk] at h; simp at h

theorem ensureScalar_inv (name : Bytes) (s : Heap) (h : Core s) :
    match ensureScalar name s with
    | .ok s' => Core s' ∧ (s.current ≤ s.temp → Strong s') ∧ VExt s s' ∧ ExD s' (.sc name) ∧
        (s.stack = [] → s'.stack = [])
    | .error (_, s') => Strong s' ∧ VExt s s' ∧ (s.stack = [] → s'.stack = []) := by
  unfold ensureScalar
  cases hf : findIdx name s.scalars 0 with
  | some i =>
    simp only
    exact ⟨h, fun hb => strong_of_core h hb, VExt.refl s, ⟨i, by rw [← findIdx_eq_findName]; exact hf⟩, fun x => x⟩
  | none =>
    simp only
    have hc := checkFree_inv (scalarSize name) Gen.E.out_of_memory s h
    cases hcf : checkFree (scalarSize name) Gen.E.out_of_memory s with
    | error x =>
      obtain ⟨e, s1⟩ := x
      rw [hcf] at hc
      exact ⟨hc.1, VExt.of_same hc.2, stack_nil_of_shape hc.2⟩
    | ok s1 =>
      rw [hcf] at hc
      obtain ⟨hcore, hb, hsh, _⟩ := hc
      simp only
      have hsub := core_sub hcore (t := { s1 with
          scalBytes := s1.scalBytes + scalarSize name
          scalars := s1.scalars ++ [(name, Ptr.null)] }) rfl rfl rfl rfl rfl
        (fun l p hp => (cells_appendScalar s1 _ name l p hp).elim (fun x => Or.inl ⟨l, x⟩) Or.inr)
        (fun l p hp => (cells_appendScalar s1 _ name (.v l) p hp).elim (fun x => Or.inl ⟨l, x⟩) Or.inr)
      refine ⟨hsub.1, fun x => hsub.2 (hb x), ?_, ?_, fun x => stack_nil_of_shape hsh x⟩
      · exact (VExt.of_same hsh).trans ⟨⟨[name], by simp⟩, ⟨[], by simp⟩⟩
      · obtain ⟨i, hi⟩ := findName_append_self name (s1.scalars.map (·.1)) 0
        exact ⟨i, by simpa using hi⟩

theorem cells_appendArray (s : Heap) (ab : Nat) (name : Bytes) (n : Nat) (l : Loc) (p : Ptr)
    (h : getLoc { s with arrBytes := ab, arrays := s.arrays ++ [(name, List.replicate n Ptr.null)] } l = some p) :
    getLoc s l = some p ∨ p.len = 0 := by
  cases l with
  | s k => exact Or.inl h
  | v l =>
    cases l with
    | sc i => exact Or.inl h
    | el a i =>
      simp only [getLoc, getV] at h ⊢
      by_cases hi : a < s.arrays.length
      · rw [List.getElem?_append_left hi] at h; exact Or.inl h
      · rw [List.getElem?_append_right (by omega)] at h
        cases hk : a - s.arrays.length with
        | zero =>
          rw [hk] at h
          simp only [List.getElem?_cons_zero, Option.bind] at h
          have hm : p ∈ List.replicate n Ptr.null := List.mem_of_getElem? h
          right; rw [(List.mem_replicate.mp hm).2]; rfl
        | succ m => rw [hk] at h; simp at h

theorem allocArray_inv (name : Bytes) (n : Nat) (s : Heap) (h : Core s) :
    match allocArray name n s with
    | .ok s' => Core s' ∧ (s.current ≤ s.temp → Strong s') ∧ VExt s s' ∧ (s.stack = [] → s'.stack = [])
    | .error (_, s') => Core s' ∧ (s.current ≤ s.temp → Strong s') ∧ VExt s s' ∧ (s.stack = [] → s'.stack = []) := by
  unfold allocArray
  cases hf : findIdx name s.arrays 0 with
  | some i => exact ⟨h, fun hb => strong_of_core h hb, VExt.refl s, fun x => x⟩
  | none =>
    simp only
    have hc := checkFree_inv (arraySize name n) Gen.E.out_of_memory s h
    cases hcf : checkFree (arraySize name n) Gen.E.out_of_memory s with
    | error x =>
      obtain ⟨e, s1⟩ := x
      rw [hcf] at hc
      exact ⟨hc.1.core, fun _ => hc.1, VExt.of_same hc.2, stack_nil_of_shape hc.2⟩
    | ok s1 =>
      rw [hcf] at hc
      obtain ⟨hcore, hb, hsh, _⟩ := hc
      simp only
      have hsub := core_sub hcore (t := { s1 with
          arrBytes := s1.arrBytes + arraySize name n
          arrays := s1.arrays ++ [(name, List.replicate (n + 1) Ptr.null)] }) rfl rfl rfl rfl rfl
        (fun l p hp => (cells_appendArray s1 _ name _ l p hp).elim (fun x => Or.inl ⟨l, x⟩) Or.inr)
        (fun l p hp => (cells_appendArray s1 _ name _ (.v l) p hp).elim (fun x => Or.inl ⟨l, x⟩) Or.inr)
      refine ⟨hsub.1, fun x => hsub.2 (hb x), ?_, fun x => stack_nil_of_shape hsh x⟩
      exact (VExt.of_same hsh).trans ⟨⟨[], by simp⟩, ⟨[nl (name, List.replicate (n + 1) Ptr.null)], by simp⟩⟩

theorem checkDim_inv (name : Bytes) (i : Nat) (s : Heap) (h : Core s) :
    match checkDim name i s with
    | .ok s' => Core s' ∧ (s.current ≤ s.temp → Strong s') ∧ VExt s s' ∧ ExD s' (.el name i) ∧
        (s.stack = [] → s'.stack = [])
    | .error (_, s') => Core s' ∧ (s.current ≤ s.temp → Strong s') ∧ VExt s s' ∧ (s.stack = [] → s'.stack = []) := by
  unfold checkDim
  have key : ∀ s1 : Heap, Core s1 → (s.current ≤ s.temp → Strong s1) → VExt s s1 → (s.stack = [] → s1.stack = []) →
      match (match findIdx name s1.arrays 0 with
        | none => (.error (crash, s1) : HR)
        | some a => if i < ((s1.arrays[a]?).map (fun (x : Bytes × List Ptr) => x.2.length)).getD 0 then .ok s1
                    else .error (Gen.E.subscript_out_of_range, s1)) with
      | .ok s' => Core s' ∧ (s.current ≤ s.temp → Strong s') ∧ VExt s s' ∧ ExD s' (.el name i) ∧
          (s.stack = [] → s'.stack = [])
      | .error (_, s') => Core s' ∧ (s.current ≤ s.temp → Strong s') ∧ VExt s s' ∧ (s.stack = [] → s'.stack = []) := by
    intro s1 c1 c2 c3 c4
    cases hf : findIdx name s1.arrays 0 with
    | none => exact ⟨c1, c2, c3, c4⟩
    | some a =>
      simp only
      by_cases hi : i < ((s1.arrays[a]?).map (fun (x : Bytes × List Ptr) => x.2.length)).getD 0
      · rw [if_pos hi]
        refine ⟨c1, c2, c3, ?_, c4⟩
        cases hy : s1.arrays[a]? with
        | none => rw [hy] at hi; simp at hi
        | some y =>
          rw [hy] at hi; simp at hi
          refine ⟨a, nl y, ?_, by simp [hy], hi⟩
          rw [← arrays_names, ← findIdx_eq_findName]; exact hf
      · rw [if_neg hi]; exact ⟨c1, c2, c3, c4⟩
  cases hf : findIdx name s.arrays 0 with
  | some a0 =>
    simp only
    exact key s h (fun hb => strong_of_core h hb) (VExt.refl s) (fun x => x)
  | none =>
    simp only
    have ha := allocArray_inv name 10 s h
    cases hal : allocArray name 10 s with
    | error x => obtain ⟨e, s1⟩ := x; rw [hal] at ha; exact ha
    | ok s1 =>
      rw [hal] at ha
      exact key s1 ha.1 ha.2.1 ha.2.2.1 ha.2.2.2

end PcbV.Heap
