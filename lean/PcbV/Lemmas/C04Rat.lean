import PcbV.Lemmas.C04Norm
import Mathlib.Tactic.Linarith
import Mathlib.Tactic.Positivity
import Mathlib.Algebra.Order.Field.Basic
import Mathlib.Algebra.Order.Field.Rat
import Mathlib.Tactic.Ring
import Mathlib.Tactic.NormNum
/-
  C04 lemmas, part 2: the exact rational value of a denormalised triple (exponent, mantissa, sign)
  as `_normalise` reads it, the value of a packed result, and the rounding theorem of `_normalise`
  in rational numbers.
-/
namespace PcbV.Mbf.C04
open PcbV PcbV.Mbf

/-- ±1 -/
def sgn (neg : Bool) : Rat := if neg then -1 else 1

/-- 2^z for an integer z -/
def p2 (z : Int) : Rat := (2 : Rat) ^ z

theorem p2_pos (z : Int) : 0 < p2 z := by unfold p2; exact zpow_pos (by norm_num) z

theorem p2_add (a b : Int) : p2 (a + b) = p2 a * p2 b := by
  unfold p2; exact zpow_add₀ (by norm_num) a b

theorem p2_nat (k : Nat) : p2 (k : Int) = (2 : Rat) ^ k := by
  unfold p2; exact zpow_natCast 2 k

theorem p2_mono {a b : Int} (h : a ≤ b) : p2 a ≤ p2 b := by
  unfold p2; exact zpow_le_zpow_right₀ (by norm_num) h

theorem p2_8 (a : Int) : p2 a = 256 * p2 (a - 8) := by
  have : a = (8 : Nat) + (a - 8) := by omega
  conv_lhs => rw [this, p2_add, p2_nat]
  norm_num

theorem p2_1 (a : Int) : p2 (a + 1) = 2 * p2 a := by
  have : a + 1 = (1 : Nat) + a := by omega
  rw [this, p2_add, p2_nat]; norm_num

theorem pow2_eq_p2 (k : Int) : pow2 k = p2 k := by
  unfold pow2 p2
  split
  · next h =>
    conv_rhs => rw [← Int.toNat_of_nonneg h]
    rw [zpow_natCast]
  · next h =>
    have h' : 0 ≤ -k := by omega
    have : k = -((-k).toNat : Int) := by rw [Int.toNat_of_nonneg h']; omega
    conv_rhs => rw [this]
    rw [zpow_neg, zpow_natCast, one_div]

/-- magnitude a denormalised pair stands for: man · 2^(exp − bias − 8) -/
def dmag (f : Fmt) (exp : Int) (man : Nat) : Rat := (man : Rat) * p2 (exp - f.bias - 8)

/-- signed value of a denormalised triple -/
def dval (f : Fmt) (d : Den) : Rat := sgn d.neg * dmag f d.exp d.man

theorem dmag_shift (f : Fmt) (exp : Int) (man k : Nat) :
    dmag f (exp - k) (man * 2 ^ k) = dmag f exp man := by
  unfold dmag
  have : exp - f.bias - 8 = (k : Int) + (exp - k - f.bias - 8) := by omega
  rw [this, p2_add, p2_nat]; push_cast; ring

/-- value of a stored non-zero pattern: sign · mantissa-with-implied-bit · 2^(e − bias) -/
theorem val_nonzero (f : Fmt) (x : F) (he : x.e ≠ 0) :
    val f x = sgn (isNeg f x) * (manOf f x : Rat) * p2 ((x.e : Int) - f.bias) := by
  unfold val sgn
  rw [if_neg he, pow2_eq_p2]

/-- the denormalised form of a stored non-zero value has exactly its value -/
theorem dval_denorm (f : Fmt) (h : f.WF) (x : F) (he : x.e ≠ 0) : dval f (denorm f x) = val f x := by
  obtain ⟨hm, hexp, hneg⟩ := denorm_man f h x
  rw [val_nonzero f x he]
  unfold dval dmag
  rw [hm, hexp, hneg, p2_8 ((x.e : Int) - f.bias)]
  push_cast; ring

/-- packing a mantissa in [S, 2S) with a sign: stored bytes are in range, sign and mantissa read back -/
theorem packMan_props (f : Fmt) (h : f.WF) (R : Nat) (neg : Bool) (e : Nat)
    (h1 : f.signMask ≤ R) (h2 : R < 2 * f.signMask) :
    packMan f R neg < 2 ^ f.w ∧ isNeg f ⟨packMan f R neg, e⟩ = neg ∧ manOf f ⟨packMan f R neg, e⟩ = R := by
  obtain ⟨hS, hm, hpm, _, _, hw, _⟩ := wf_S f h
  have hp : packMan f R neg = if neg then R else R - f.signMask := by
    unfold packMan
    cases neg
    · simp only [Bool.false_eq_true, if_false]
      rw [hpm, Nat.mod_eq_sub_mod h1, Nat.mod_eq_of_lt (by omega)]
    · simp only [if_true]; rw [hm]; exact Nat.mod_eq_of_lt h2
  have hlt : packMan f R neg < 2 ^ f.w := by rw [hp]; cases neg <;> simp <;> omega
  have hn : isNeg f ⟨packMan f R neg, e⟩ = neg := by
    rw [isNeg_iff f h _ hlt, hp]
    cases neg <;> simp <;> omega
  refine ⟨hlt, hn, ?_⟩
  unfold manOf
  rw [hn, hp]
  cases neg <;> simp <;> omega

theorem val_packed (f : Fmt) (h : f.WF) (R : Nat) (neg : Bool) (e : Nat) (he : e ≠ 0)
    (h1 : f.signMask ≤ R) (h2 : R < 2 * f.signMask) :
    val f ⟨packMan f R neg, e⟩ = sgn neg * (R : Rat) * p2 ((e : Int) - f.bias) := by
  obtain ⟨_, hn, hm⟩ := packMan_props f h R neg e h1 h2
  rw [val_nonzero f _ he, hn, hm]

/-- `_normalise` in rational numbers: there is a mantissa `R` in [S, 2S) and an exponent `E` such that
    R·2^(E−bias) is within half a unit 2^(E−bias) of the exact input (and within a quarter when the
    rounding carried into the next binade, where R = S), and the outcome is `_check_limits` of (R, E). -/
theorem normalise_round (f : Fmt) (h : f.WF) (exp : Int) (man : Nat) (neg : Bool)
    (hm0 : 0 < man) (hm : man < f.denUpper) (he : 0 < exp) :
    ∃ (R : Nat) (E : Int), f.signMask ≤ R ∧ R < 2 * f.signMask ∧
      |(R : Rat) * p2 (E - f.bias) - dmag f exp man| ≤ p2 (E - f.bias) / 2 ∧
      dmag f exp man < (2 * f.signMask : Nat) * p2 (E - f.bias) ∧
      ((f.signMask : Rat) - 1 / 4) * p2 (E - f.bias) ≤ dmag f exp man ∧
      normalise f exp man neg = checkLimits f (packMan f R neg) E neg := by
  obtain ⟨hS, _, _, hdm, hdu, _, _, _⟩ := wf_S f h
  obtain ⟨k, R, c, _, hc, hl, hu, _, hR1, hR2, h0, h1, hn⟩ := normalise_spec f h exp man neg hm0 hm he
  refine ⟨R, exp - k + c, hR1, hR2, ?_, ?_, ?_, hn⟩ <;> rw [← dmag_shift f exp man k]
  all_goals
    generalize man * 2 ^ k = M at *
    unfold dmag
    have hu0 := p2_pos (exp - k - f.bias - 8)
    have b3 : (M : Rat) < 512 * f.signMask := by rw [hdu] at hu; exact_mod_cast hu
    have b4 : (256 * f.signMask : Rat) ≤ M + 1 := by
      have : 256 * f.signMask ≤ M + 1 := by omega
      exact_mod_cast this
    rcases Nat.lt_or_ge c 1 with hc0 | hc1
  all_goals first
    | (have hc0' : c = 0 := by omega
       subst hc0'
       obtain ⟨a1, a2, _⟩ := h0 rfl
       have hp : p2 (exp - k + (0 : Nat) - f.bias) = 256 * p2 (exp - k - f.bias - 8) := by
         rw [p2_8]; congr 2; omega
       rw [hp]
       generalize p2 (exp - k - f.bias - 8) = u at *
       have b1 : (256 * R : Rat) ≤ M + 128 := by exact_mod_cast a1
       have b2 : (M : Rat) ≤ 256 * R + 128 := by exact_mod_cast a2
       have t1 := mul_nonneg (sub_nonneg.2 b1) hu0.le
       have t2 := mul_nonneg (sub_nonneg.2 b2) hu0.le
       have t3 := mul_pos (sub_pos.2 b3) hu0
       have t4 := mul_nonneg (sub_nonneg.2 b4) hu0.le
       first
         | (rw [abs_le]; constructor <;> linarith)
         | (push_cast; linarith)
         | linarith)
    | (have hc1' : c = 1 := by omega
       subst hc1'
       obtain ⟨a1, a2⟩ := h1 rfl
       have hp : p2 (exp - k + (1 : Nat) - f.bias) = 512 * p2 (exp - k - f.bias - 8) := by
         have e1 : exp - k + (1 : Nat) - f.bias = (exp - k - f.bias) + 1 := by omega
         rw [e1, p2_1, p2_8 (exp - k - f.bias)]; ring
       rw [hp]
       try rw [a1]
       generalize p2 (exp - k - f.bias - 8) = u at *
       have b1 : (512 * f.signMask : Rat) ≤ M + 128 := by rw [hdu] at a2; exact_mod_cast a2
       have t1 := mul_nonneg (sub_nonneg.2 b1) hu0.le
       have t3 := mul_pos (sub_pos.2 b3) hu0
       have hSq : (0 : Rat) < f.signMask := by exact_mod_cast (show 0 < f.signMask by omega)
       have t5 := mul_pos hSq hu0
       first
         | (rw [abs_le]; constructor <;> linarith)
         | (push_cast; linarith)
         | linarith)


theorem p2_lt {a b : Int} (h : p2 a < p2 b) : a < b := by
  by_contra hn
  exact absurd (p2_mono (show b ≤ a by omega)) (not_le.2 h)

theorem signMask_p2 (f : Fmt) (h : f.WF) : (f.signMask : Rat) = p2 ((f.w : Int) - 1) := by
  obtain ⟨h8, _, _, _, _, hs, _, _⟩ := h
  rw [hs]
  have : (f.w : Int) - 1 = ((f.w - 1 : Nat) : Int) := by omega
  rw [this, p2_nat]; push_cast; rfl

/-- 2S · 2^(z − bias) = 2^(z − 128): the top of the binade with exponent byte z -/
theorem twoS_p2 (f : Fmt) (h : f.WF) (z : Int) :
    (2 * f.signMask : Rat) * p2 (z - f.bias) = p2 (z - 128) := by
  have hb : f.bias = 128 + f.w := h.2.1
  rw [signMask_p2 f h]
  have e1 : (2 : Rat) * p2 ((f.w : Int) - 1) = p2 (f.w : Int) := by
    have : (f.w : Int) = ((f.w : Int) - 1) + 1 := by omega
    conv_rhs => rw [this, p2_1]
  rw [e1, ← p2_add]
  congr 1; rw [hb]; push_cast; omega

theorem sgn_xor (a b : Bool) : sgn (a != b) = sgn a * sgn b := by
  cases a <;> cases b <;> simp [sgn]

theorem abs_sgn_mul (n : Bool) (q : Rat) : |sgn n * q| = |q| := by
  cases n <;> simp [sgn]

theorem dmag_nonneg (f : Fmt) (e : Int) (m : Nat) : 0 ≤ dmag f e m := by
  unfold dmag; exact mul_nonneg (Nat.cast_nonneg _) (p2_pos _).le

/-- outcomes of `_check_limits` -/
theorem checkLimits_ok (f : Fmt) (m : Nat) (E : Int) (neg : Bool) (z : F)
    (hz : checkLimits f m E neg = .ok z) :
    E ≤ 255 ∧ (z.e ≠ 0 → 0 < E ∧ z = ⟨m, E.toNat⟩) ∧ (z.e = 0 → E ≤ 0) := by
  unfold checkLimits at hz
  split at hz
  · cases hz
  · split at hz
    · injection hz with hz; subst hz; simp; omega
    · injection hz with hz; subst hz
      refine ⟨by omega, fun _ => ⟨by omega, rfl⟩, fun h0 => ?_⟩
      simp only [] at h0; omega

theorem checkLimits_error (f : Fmt) (m : Nat) (E : Int) (neg : Bool) (c : Nat) (v : F)
    (hz : checkLimits f m E neg = .error (c, v)) :
    256 ≤ E ∧ c = overflow ∧ v = (if neg then f.negMax else f.posMax) := by
  unfold checkLimits at hz
  split at hz
  · injection hz with hz; injection hz with h1 h2
    exact ⟨by omega, h1.symm, h2.symm⟩
  · split at hz <;> cases hz

/-- |x·y| in the reading of `_normalise`: the exact product of the mantissas at the product exponent -/
theorem val_mul_eq (f : Fmt) (x y : F) (hxe : x.e ≠ 0) (hye : y.e ≠ 0) :
    val f x * val f y = sgn (isNeg f x != isNeg f y) *
      dmag f ((x.e : Int) + y.e - f.bias - 8) (65536 * (manOf f x * manOf f y)) := by
  rw [val_nonzero f x hxe, val_nonzero f y hye, sgn_xor]
  unfold dmag
  rw [p2_8 ((x.e : Int) - f.bias), p2_8 ((y.e : Int) - f.bias)]
  have : (x.e : Int) + y.e - f.bias - 8 - f.bias - 8 = ((x.e : Int) - f.bias - 8) + ((y.e : Int) - f.bias - 8) := by
    omega
  rw [this, p2_add]
  push_cast; ring

/-- `imul` (any early-exit threshold) in rational numbers: either the canonical zero is delivered
    (early exit, or the product is below 2^-131), or the product was rounded to a mantissa `R` at an
    exponent `E` within 5/8 of 2^(E−bias), and the outcome is `_check_limits` of (R, E). -/
theorem imulThr_round (f : Fmt) (h : f.WF) (thr : Int) (x y : F) (hx : F.Valid f x) (hy : F.Valid f y)
    (hxe : x.e ≠ 0) (hye : y.e ≠ 0) :
    (imulThr thr f x y = .ok zero ∧
      ((x.e : Int) + y.e - f.bias - 8 < thr ∨ |val f x * val f y| < p2 (-128))) ∨
    ∃ (R : Nat) (E : Int), f.signMask ≤ R ∧ R < 2 * f.signMask ∧
      |(R : Rat) * p2 (E - f.bias) - abs (val f x * val f y)| ≤ 5 / 8 * p2 (E - f.bias) ∧
      |val f x * val f y| < (2 * f.signMask : Nat) * p2 (E - f.bias) ∧
      ((f.signMask : Rat) - 1 / 4) * p2 (E - f.bias) ≤ |val f x * val f y| ∧
      imulThr thr f x y = checkLimits f (packMan f R (isNeg f x != isNeg f y)) E (isNeg f x != isNeg f y) := by
  obtain ⟨hS, _, _, hdm, hdu, _, _, _⟩ := wf_S f h
  obtain ⟨j, m', hlo, hhi, hle, hlt, hst⟩ := imulThr_struct f h thr x y hx hy hxe hye
  rw [val_mul_eq f x y hxe hye, abs_sgn_mul, abs_of_nonneg (dmag_nonneg _ _ _)]
  generalize hle' : (x.e : Int) + y.e - f.bias - 8 = lexp at *
  generalize 65536 * (manOf f x * manOf f y) = P at *
  generalize (isNeg f x != isNeg f y) = lneg at *
  -- truncation: dmag (lexp+j) m' ≤ dmag lexp P < dmag (lexp+j) m' + 2 units
  have hu0 := p2_pos (lexp + j - f.bias - 8)
  have hD : dmag f lexp P = (P : Rat) * p2 (lexp - f.bias - 8) := rfl
  have hsplit : p2 (lexp + j - f.bias - 8) = (2 : Rat) ^ j * p2 (lexp - f.bias - 8) := by
    have : lexp + j - f.bias - 8 = (j : Int) + (lexp - f.bias - 8) := by omega
    rw [this, p2_add, p2_nat]
  have hv0 := p2_pos (lexp - f.bias - 8)
  have c1 : (m' : Rat) * p2 (lexp + j - f.bias - 8) ≤ dmag f lexp P := by
    rw [hD, hsplit, ← mul_assoc]
    have : ((m' * 2 ^ j : Nat) : Rat) ≤ P := by exact_mod_cast hle
    push_cast at this
    exact mul_le_mul_of_nonneg_right this hv0.le
  have c2 : dmag f lexp P < ((m' : Rat) + 2) * p2 (lexp + j - f.bias - 8) := by
    rw [hD, hsplit, ← mul_assoc]
    have : (P : Rat) < ((m' + 2) * 2 ^ j : Nat) := by exact_mod_cast hlt
    push_cast at this
    exact mul_lt_mul_of_pos_right this hv0
  have hlo' : (16 * f.signMask : Rat) ≤ m' := by exact_mod_cast hlo
  have hhi' : (m' : Rat) ≤ 32 * f.signMask := by exact_mod_cast hhi
  have hSq : (128 : Rat) ≤ f.signMask := by exact_mod_cast hS
  by_cases hthr : lexp < thr
  · left; rw [hst, if_pos hthr]; exact ⟨rfl, Or.inl hthr⟩
  rw [if_neg hthr] at hst
  by_cases hpos : 0 < lexp + j
  · right
    obtain ⟨R, E, hR1, hR2, hab, hup, hdn, hn⟩ :=
      normalise_round f h (lexp + j) m' lneg (by omega) (by omega) hpos
    refine ⟨R, E, hR1, hR2, ?_, ?_, ?_, by rw [hst, hn]⟩ <;> unfold dmag at hab hup hdn
    all_goals
      have hE0 := p2_pos (E - f.bias)
      have hR1' : (f.signMask : Rat) ≤ R := by exact_mod_cast hR1
      have hR2' : (R : Rat) + 1 ≤ 2 * f.signMask := by exact_mod_cast hR2
      -- 8 units of the truncated mantissa are below one unit of the result
      have h8 : 8 * p2 (lexp + j - f.bias - 8) < p2 (E - f.bias) := by
        have t1 := mul_le_mul_of_nonneg_right hlo' hu0.le
        have t2 := mul_pos (lt_of_lt_of_le (by norm_num : (0 : Rat) < 128) hSq) hu0
        have t3 := mul_pos (lt_of_lt_of_le (by norm_num : (0 : Rat) < 128) hSq) hE0
        push_cast at hup
        -- 16 S u ≤ m' u < 2 S pE
        have : (f.signMask : Rat) * (8 * p2 (lexp + j - f.bias - 8)) < f.signMask * p2 (E - f.bias) := by linarith
        exact lt_of_mul_lt_mul_left this (by linarith)
      have h8' : 16 * p2 (lexp + j - f.bias - 8) ≤ p2 (E - f.bias) := by
        have e8 : 8 * p2 (lexp + j - f.bias - 8) = p2 (lexp + j - f.bias - 5) := by
          have : lexp + j - f.bias - 5 = ((3 : Nat) : Int) + (lexp + j - f.bias - 8) := by omega
          rw [this, p2_add, p2_nat]; norm_num
        rw [e8] at h8
        have := p2_lt h8
        have e16 : 16 * p2 (lexp + j - f.bias - 8) = p2 (lexp + j - f.bias - 4) := by
          have : lexp + j - f.bias - 4 = ((4 : Nat) : Int) + (lexp + j - f.bias - 8) := by omega
          rw [this, p2_add, p2_nat]; norm_num
        rw [e16]; exact p2_mono (by omega)
      rw [abs_le] at hab
      obtain ⟨hab1, hab2⟩ := hab
      have tR := mul_le_mul_of_nonneg_right hR2' hE0.le
    · rw [abs_le]; constructor <;> linarith
    · push_cast; linarith
    · linarith
  · left
    have hn : normalise f (lexp + j) m' lneg = .ok zero := by
      unfold normalise; rw [if_pos (Or.inr (by omega))]
    refine ⟨by rw [hst, hn], Or.inr ?_⟩
    -- below (32S+2)·2^(−bias−8) < 2S·2^(−bias) = 2^-128
    have hmono : p2 (lexp + j - f.bias - 8) ≤ p2 (0 - f.bias - 8) := p2_mono (by omega)
    have e8 : p2 (0 - (f.bias : Int)) = 256 * p2 (0 - f.bias - 8) := p2_8 _
    have := twoS_p2 f h 0
    rw [show (0 : Int) - 128 = -128 by rfl] at this
    rw [← this, e8]
    have hw0 := p2_pos (0 - (f.bias : Int) - 8)
    have t1 : ((m' : Rat) + 2) * p2 (lexp + j - f.bias - 8) ≤ (32 * f.signMask + 2) * p2 (0 - f.bias - 8) :=
      mul_le_mul (by linarith) hmono hu0.le (by linarith)
    have t2 := mul_pos (show (0 : Rat) < 480 * f.signMask - 2 by linarith) hw0
    linarith

/-- a non-zero outcome of `_check_limits` on a packed mantissa: its exact value -/
theorem round_outcome (f : Fmt) (h : f.WF) (R : Nat) (E : Int) (neg : Bool) (z : F)
    (h1 : f.signMask ≤ R) (h2 : R < 2 * f.signMask)
    (hz : checkLimits f (packMan f R neg) E neg = .ok z) (hze : z.e ≠ 0) :
    val f z = sgn neg * (R : Rat) * p2 (E - f.bias) ∧ (z.e : Int) = E ∧ F.Valid f z ∧
      isNeg f z = neg ∧ manOf f z = R := by
  obtain ⟨hE, hnz, _⟩ := checkLimits_ok f _ E neg z hz
  obtain ⟨hpos, hzeq⟩ := hnz hze
  have hEn : ((E.toNat : Nat) : Int) = E := Int.toNat_of_nonneg (by omega)
  have hne : E.toNat ≠ 0 := by omega
  obtain ⟨p1, p2', p3⟩ := packMan_props f h R neg E.toNat h1 h2
  subst hzeq
  refine ⟨?_, hEn, ⟨p1, by simp only []; omega⟩, p2', p3⟩
  rw [val_packed f h R neg _ hne h1 h2, hEn]

/-- any outcome `.ok z` of `_check_limits` on a packed mantissa is a stored value -/
theorem checkLimits_valid (f : Fmt) (h : f.WF) (a : Nat) (E : Int) (neg : Bool) (z : F)
    (hz : checkLimits f (packMan f a neg) E neg = .ok z) : F.Valid f z := by
  obtain ⟨_, hm, hpm, _, _, hw, _⟩ := wf_S f h
  have hp : packMan f a neg < 2 ^ f.w := by
    unfold packMan
    split
    · rw [hm, hw]; exact Nat.mod_lt _ (by omega)
    · rw [hpm, hw]; have := Nat.mod_lt a (show 0 < f.signMask by omega); omega
  unfold checkLimits at hz
  split at hz
  · cases hz
  · split at hz
    · injection hz with hz; subst hz; exact ⟨hp, by show (0:Nat) < 256; omega⟩
    · injection hz with hz; subst hz; exact ⟨hp, by simp only []; omega⟩

/-- exact value of the aligned sum handed to `_normalise` -/
theorem dval_addDen_aligned (f : Fmt) (h : f.WF) (e : Int) (A B : Nat) (na nb : Bool) (he : e ≠ 0)
    (hA1 : f.signMask ≤ A) (hA2 : A < 2 * f.signMask) (hB1 : f.signMask ≤ B) (hB2 : B < 2 * f.signMask) :
    dval f (addDen f ⟨e, 256 * A, na⟩ ⟨e, 256 * B, nb⟩) =
      dval f ⟨e, 256 * A, na⟩ + dval f ⟨e, 256 * B, nb⟩ ∧
    (addDen f ⟨e, 256 * A, na⟩ ⟨e, 256 * B, nb⟩).man < f.denUpper ∧
    e ≤ (addDen f ⟨e, 256 * A, na⟩ ⟨e, 256 * B, nb⟩).exp := by
  obtain ⟨hS, _, _, hdm, hdu, _, _, _⟩ := wf_S f h
  rw [addDen_aligned f h e A B na nb he hA1 hA2 hB1 hB2]
  by_cases hs : na = nb
  · subst hs
    simp only [if_true]
    refine ⟨?_, by show _ < f.denUpper; omega, by show e ≤ _; omega⟩
    unfold dval dmag
    simp only []
    have : e + 1 - f.bias - 8 = (e - f.bias - 8) + 1 := by omega
    rw [this, p2_1]; push_cast; ring
  · simp only [hs, if_false]
    by_cases hgt : A > B
    · simp only [hgt, if_true]
      refine ⟨?_, by show _ < f.denUpper; omega, by show e ≤ _; omega⟩
      unfold dval dmag
      simp only []
      have : nb = !na := by cases na <;> cases nb <;> simp_all
      subst this
      rw [Nat.cast_mul, Nat.cast_sub (by omega)]
      cases na <;> simp [sgn] <;> ring
    · simp only [hgt, if_false]
      refine ⟨?_, by show _ < f.denUpper; omega, by show e ≤ _; omega⟩
      unfold dval dmag
      simp only []
      have : nb = !na := by cases na <;> cases nb <;> simp_all
      subst this
      rw [Nat.cast_mul, Nat.cast_sub (by omega)]
      cases na <;> simp [sgn] <;> ring

/-- the product of two stored non-zero values: sign (xor of the sign bits) times magnitude -/
theorem mul_sign (f : Fmt) (x y : F) (hxe : x.e ≠ 0) (hye : y.e ≠ 0) :
    val f x * val f y = sgn (isNeg f x != isNeg f y) * abs (val f x * val f y) := by
  rw [val_mul_eq f x y hxe hye, abs_sgn_mul, abs_of_nonneg (dmag_nonneg _ _ _)]

end PcbV.Mbf.C04
