import PcbV.Lemmas.UserFnFrame
/-
  Writing kept values into variables (`writeVar`, `writeAll`: the binding loop and the restore loop
  of `UserFunction._evaluate`).
-/
namespace PcbV.UserFn
open PcbV PcbV.Heap

/-- `h'` differs from `h` only in pointer values of scalar cells and in the temporaries boundary -/
structure Wr (h h' : Heap) : Prop where
  strs : h'.strs = h.strs
  vs : h'.varStart = h.varStart
  cs : h'.codeStart = h.codeStart
  code : h'.code = h.code
  cur : h'.current = h.current
  tot : h'.total = h.total
  stk : h'.stackSize = h.stackSize
  stack : h'.stack = h.stack
  arrays : h'.arrays = h.arrays
  names : h'.scalars.map (·.1) = h.scalars.map (·.1)

theorem Wr.refl (h : Heap) : Wr h h := ⟨rfl, rfl, rfl, rfl, rfl, rfl, rfl, rfl, rfl, rfl⟩

theorem Wr.trans {a b c : Heap} (h1 : Wr a b) (h2 : Wr b c) : Wr a c :=
  ⟨h2.strs.trans h1.strs, h2.vs.trans h1.vs, h2.cs.trans h1.cs, h2.code.trans h1.code, h2.cur.trans h1.cur,
   h2.tot.trans h1.tot, h2.stk.trans h1.stk, h2.stack.trans h1.stack, h2.arrays.trans h1.arrays,
   h2.names.trans h1.names⟩

theorem Wr.deref {h h' : Heap} (w : Wr h h') (p : Ptr) : deref h' p = deref h p :=
  deref_congr h h' p w.vs w.cs w.code w.strs

theorem Wr.findIdx_eq {h h' : Heap} (w : Wr h h') (name : Bytes) :
    findIdx name h'.scalars 0 = findIdx name h.scalars 0 := by
  rw [findIdx_eq_findName, findIdx_eq_findName, w.names]

theorem Wr.getLoc_s {h h' : Heap} (w : Wr h h') (k : Nat) : getLoc h' (.s k) = getLoc h (.s k) := by
  simp [getLoc, w.stack]

theorem Wr.getLoc_el {h h' : Heap} (w : Wr h h') (a i : Nat) : getLoc h' (.v (.el a i)) = getLoc h (.v (.el a i)) := by
  simp [getLoc, getV, w.arrays]

theorem Wr.live {h h' : Heap} (w : Wr h h') (p : Ptr) (hl : Live h p) : Live h' p := by
  intro h0 hv
  rw [w.vs] at hv
  rw [w.strs]
  exact hl h0 hv

theorem Wr.slotHas {h h' : Heap} (w : Wr h h') {k : Nat} {b : Bytes} (hs : SlotHas h k b) : SlotHas h' k b := by
  obtain ⟨p, hp, hd⟩ := hs
  exact ⟨p, by rw [w.getLoc_s]; exact hp, by rw [w.deref]; exact hd⟩

theorem fixTemps_wr (h : Heap) : Wr h (fixTemps h) ∧ (fixTemps h).scalars = h.scalars :=
  ⟨⟨rfl, rfl, rfl, rfl, rfl, rfl, rfl, rfl, rfl, rfl⟩, rfl⟩

theorem setV_sc_wr (h : Heap) (i : Nat) (q : Ptr) :
    Wr h (setV h (.sc i) q) ∧ ∀ j, j ≠ i → (setV h (.sc i) q).scalars[j]? = h.scalars[j]? := by
  cases hx : h.scalars[i]? with
  | none =>
    have : setV h (.sc i) q = h := by simp only [setV, hx]
    rw [this]
    exact ⟨Wr.refl h, fun _ _ => rfl⟩
  | some x =>
    have : setV h (.sc i) q = { h with scalars := setAt h.scalars i (x.1, q) } := by simp only [setV, hx]
    rw [this]
    refine ⟨⟨rfl, rfl, rfl, rfl, rfl, rfl, rfl, rfl, rfl, ?_⟩, ?_⟩
    · exact map_setAt _ _ _ _ _ hx rfl
    · intro j hj
      exact getElem?_setAt_ne _ _ _ _ (fun e => hj e.symm)

/-- writing a live pointer into a scalar cell keeps the heap well-formed -/
theorem setV_sc_wf (h : Heap) (hw : WF h) (i : Nat) (q : Ptr) (hq : Live h q) : WF (setV h (.sc i) q) := by
  obtain ⟨w, _⟩ := setV_sc_wr h i q
  refine ⟨?_, ?_⟩
  · have ht : (setV h (.sc i) q).top = h.top := top_congr _ _ w.tot w.stk
    rw [w.cur, ht, w.strs]
    exact hw.blocks
  · intro l p hp
    apply w.live
    by_cases hl : l = .v (.sc i)
    · subst hl
      cases hg : getLoc h (.v (.sc i)) with
      | none =>
        -- the cell does not exist: nothing was written
        have : h.scalars[i]? = none := by
          simp only [getLoc, getV] at hg
          cases hx : h.scalars[i]? with
          | none => rfl
          | some x => simp [hx] at hg
        simp only [getLoc, getV, setV, this] at hp
        simp [this] at hp
      | some p0 =>
        have := getV_setV_same h (.sc i) q p0 hg
        have hp' : getV (setV h (.sc i) q) (.sc i) = some p := hp
        rw [this] at hp'
        cases hp'
        exact hq
    · have : getLoc (setV h (.sc i) q) l = getLoc h l := getLoc_setLoc_ne h (.v (.sc i)) l q (fun e => hl e.symm)
      rw [this] at hp
      exact hw.live l p hp

theorem slotPtr_congr (h h' : Heap) (h1 : h'.stack = h.stack) (h2 : h'.scalars = h.scalars) (h3 : h'.arrays = h.arrays)
    (k : Nat) : slotPtr h' k = slotPtr h k := by
  unfold slotPtr
  rw [h1]
  cases (h.stack[k]?).getD (.own Ptr.null) with
  | own p => rfl
  | ref l => cases l <;> simp [itemPtr, getV, h2, h3]

/-- one write -/
theorem writeVar_facts (fix : Bool) (name : Bytes) (v : Slot) (s : St) (hw : WF s.h) :
    WF (writeVar fix name v s).h ∧ Wr s.h (writeVar fix name v s).h ∧ (writeVar fix name v s).busy = s.busy ∧
    (∀ j, (∀ k, v = .str k → findIdx name s.h.scalars 0 ≠ some j) →
        (writeVar fix name v s).h.scalars[j]? = s.h.scalars[j]?) ∧
    (∀ k, v = .str k → (writeVar fix name v s).nums = s.nums) ∧
    (∀ q, v = .num q → writeVar fix name v s = setNum s name q) ∧
    (∀ k i, v = .str k → findIdx name s.h.scalars 0 = some i →
        getV (writeVar fix name v s).h (.sc i) = some (slotPtr s.h k)) := by
  cases v with
  | num q =>
    have hwv : writeVar fix name (.num q) s = setNum s name q := rfl
    rw [hwv]
    refine ⟨hw, Wr.refl _, rfl, fun _ _ => rfl, ?_, ?_, ?_⟩
    · intro k hk; cases hk
    · intro q' hq'; cases hq'; rfl
    · intro k i hk; cases hk
  | str k =>
    -- the heap after fix_temporaries
    have hfix : ∃ h0, (if fix then fixTemps s.h else s.h) = h0 ∧ Wr s.h h0 ∧ h0.scalars = s.h.scalars ∧ WF h0 := by
      cases fix with
      | true =>
        refine ⟨fixTemps s.h, rfl, (fixTemps_wr s.h).1, rfl, ⟨hw.blocks, fun l p hp => ?_⟩⟩
        exact hw.live l p ((getLoc_congr _ s.h rfl rfl rfl l).symm.trans hp)
      | false => exact ⟨s.h, rfl, Wr.refl _, rfl, hw⟩
    obtain ⟨h0, e0, w0, sc0, wf0⟩ := hfix
    have hwv : writeVar fix name (.str k) s =
        match cellOf h0 name with
        | some l => { s with h := setV h0 l (slotPtr h0 k) }
        | none => s := by
      show (match cellOf (if fix then fixTemps s.h else s.h) name with
            | some l => { s with h := setV (if fix then fixTemps s.h else s.h) l
                                       (slotPtr (if fix then fixTemps s.h else s.h) k) }
            | none => s) = _
      rw [e0]
    rw [hwv]
    have hfi : findIdx name h0.scalars 0 = findIdx name s.h.scalars 0 := w0.findIdx_eq name
    have hsp : slotPtr h0 k = slotPtr s.h k := slotPtr_congr s.h h0 w0.stack sc0 w0.arrays k
    cases hf : findIdx name s.h.scalars 0 with
    | none =>
      have hc : cellOf h0 name = none := by simp only [cellOf, hfi, hf, Option.map]
      rw [hc]
      refine ⟨hw, Wr.refl _, rfl, fun _ _ => rfl, fun _ _ => rfl, ?_, ?_⟩
      · intro q hq; cases hq
      · intro k' i _ hi; cases hi
    | some i =>
      have hc : cellOf h0 name = some (.sc i) := by simp only [cellOf, hfi, hf, Option.map]
      rw [hc]
      obtain ⟨w1, hne⟩ := setV_sc_wr h0 i (slotPtr h0 k)
      refine ⟨setV_sc_wf h0 wf0 i _ (live_slotPtr h0 wf0 k), w0.trans w1, rfl, ?_, fun _ _ => rfl, ?_, ?_⟩
      · intro j hj
        have : j ≠ i := fun e => hj k rfl (by rw [e])
        show (setV h0 (.sc i) (slotPtr h0 k)).scalars[j]? = _
        rw [hne j this, sc0]
      · intro q hq; cases hq
      · intro k' i' hk hi
        cases hk
        cases hi
        obtain ⟨p0, hp0⟩ := findIdx_cell h0 name i (by rw [hfi]; exact hf)
        rw [← hsp]
        exact getV_setV_same h0 (.sc i) _ p0 hp0

/-- the loop: what it does not touch -/
theorem writeAll_frame (fix : Bool) (L : List (Bytes × Slot)) (s : St) (hw : WF s.h) :
    WF (writeAll fix L s).h ∧ Wr s.h (writeAll fix L s).h ∧ (writeAll fix L s).busy = s.busy ∧
    (∀ j, (∀ x ∈ L, ∀ k, x.2 = .str k → findIdx x.1 s.h.scalars 0 ≠ some j) →
        (writeAll fix L s).h.scalars[j]? = s.h.scalars[j]?) ∧
    (∀ m, (∀ x ∈ L, ∀ q, x.2 = .num q → x.1 ≠ m) → getNum (writeAll fix L s) m = getNum s m) := by
  induction L generalizing s with
  | nil => exact ⟨hw, Wr.refl _, rfl, fun _ _ => rfl, fun _ _ => rfl⟩
  | cons x r ih =>
    obtain ⟨name, v⟩ := x
    simp only [writeAll]
    obtain ⟨f1, f2, f3, f4, f5, f6, _⟩ := writeVar_facts fix name v s hw
    obtain ⟨g1, g2, g3, g4, g5⟩ := ih (writeVar fix name v s) f1
    refine ⟨g1, f2.trans g2, g3.trans f3, ?_, ?_⟩
    · intro j hj
      rw [g4 j, f4 j]
      · intro k hk
        exact hj (name, v) (List.mem_cons_self ..) k hk
      · intro y hy k hk
        rw [f2.findIdx_eq]
        exact hj y (List.mem_cons_of_mem _ hy) k hk
    · intro m hm
      rw [g5 m (fun y hy q hq => hm y (List.mem_cons_of_mem _ hy) q hq)]
      cases v with
      | str k => simp [getNum, f5 k rfl]
      | num q =>
        rw [f6 q rfl]
        exact getNum_setNum_ne s name m q (hm (name, .num q) (List.mem_cons_self ..) q rfl)

/-- what an entry promises to write -/
def WriteEntry (s : St) (val : Bytes → Bytes) (nval : Bytes → Int) (x : Bytes × Slot) : Prop :=
  match x.2 with
  | .str k => SlotHas s.h k (val x.1) ∧ ∃ i, findIdx x.1 s.h.scalars 0 = some i
  | .num q => q = nval x.1

/-- what the variable of an entry reads afterwards -/
def Written (t : St) (val : Bytes → Bytes) (nval : Bytes → Int) (x : Bytes × Slot) : Prop :=
  match x.2 with
  | .str _ => readH t.h x.1 = val x.1
  | .num _ => getNum t x.1 = nval x.1

theorem findIdx_inj (h : Heap) (a b : Bytes) (i : Nat) (ha : findIdx a h.scalars 0 = some i)
    (hb : findIdx b h.scalars 0 = some i) : a = b := by
  rw [findIdx_eq_findName] at ha hb
  have h1 := (findName_bounds _ _ _ _ ha).2
  have h2 := (findName_bounds _ _ _ _ hb).2
  rw [h1] at h2
  cases h2
  rfl

/-- the loop: when all entries of one name carry the same value, every written variable reads it -/
theorem writeAll_values (fix : Bool) (val : Bytes → Bytes) (nval : Bytes → Int) (L : List (Bytes × Slot))
    (s : St) (hw : WF s.h) (hL : ∀ x ∈ L, WriteEntry s val nval x) :
    ∀ x ∈ L, Written (writeAll fix L s) val nval x := by
  induction L generalizing s with
  | nil => intro x hx; cases hx
  | cons x r ih =>
    obtain ⟨name, v⟩ := x
    simp only [writeAll]
    obtain ⟨f1, f2, f3, f4, f5, f6, f7⟩ := writeVar_facts fix name v s hw
    have hr : ∀ y ∈ r, WriteEntry (writeVar fix name v s) val nval y := by
      intro y hy
      have := hL y (List.mem_cons_of_mem _ hy)
      obtain ⟨n', v'⟩ := y
      cases v' with
      | num q => exact this
      | str k =>
        obtain ⟨a, i, b⟩ := this
        exact ⟨f2.slotHas a, i, by rw [f2.findIdx_eq]; exact b⟩
    have hrest := ih (writeVar fix name v s) f1 hr
    obtain ⟨g1, g2, g3, g4, g5⟩ := writeAll_frame fix r (writeVar fix name v s) f1
    intro y hy
    cases hy with
    | tail _ hy => exact hrest y hy
    | head =>
      have hx := hL (name, v) (List.mem_cons_self ..)
      cases v with
      | num q =>
        show getNum _ name = nval name
        by_cases hex : ∃ y ∈ r, ∃ q', y.2 = .num q' ∧ y.1 = name
        · obtain ⟨y, hy, q', h1, h2⟩ := hex
          have := hrest y hy
          obtain ⟨n', v'⟩ := y
          cases h1
          cases h2
          exact this
        · rw [g5 name (fun y hy q' hq' he => hex ⟨y, hy, q', hq', he⟩), f6 q rfl, getNum_setNum_same]
          exact hx
      | str k =>
        show readH _ name = val name
        obtain ⟨hsl, i, hi⟩ := hx
        by_cases hex : ∃ y ∈ r, ∃ k', y.2 = .str k' ∧ findIdx y.1 s.h.scalars 0 = some i
        · obtain ⟨y, hy, k', h1, h2⟩ := hex
          have := hrest y hy
          obtain ⟨n', v'⟩ := y
          cases h1
          have : n' = name := findIdx_inj s.h n' name i h2 hi
          subst this
          assumption
        · have hcell : (writeAll fix r (writeVar fix name (.str k) s)).h.scalars[i]?
              = (writeVar fix name (.str k) s).h.scalars[i]? := by
            apply g4 i
            intro y hy k' hk' he
            rw [f2.findIdx_eq] at he
            exact hex ⟨y, hy, k', hk', he⟩
          have hgv : getV (writeAll fix r (writeVar fix name (.str k) s)).h (.sc i) = some (slotPtr s.h k) := by
            have := f7 k i rfl hi
            simp only [getV] at this ⊢
            rw [hcell]
            exact this
          obtain ⟨p, hp, hd⟩ := hsl
          have hfi : findIdx name (writeAll fix r (writeVar fix name (.str k) s)).h.scalars 0 = some i := by
            rw [g2.findIdx_eq, f2.findIdx_eq]; exact hi
          simp only [readH, hfi, hgv, Option.getD]
          rw [g2.deref, f2.deref, slotPtr_of_getLoc s.h k p hp]
          exact hd

end PcbV.UserFn
