import PcbV.Model.Heap
namespace PcbV.Drv.C10
open PcbV PcbV.Heap

def parseDst (t : String) : Option Dst :=
  match t.toList with
  | 's' :: r => (ofHex (String.ofList r)).map Dst.sc
  | 'e' :: r =>
    match (String.ofList r).splitOn "." with
    | [h, i] => match ofHex h, i.toNat? with
                | some n, some i => some (Dst.el n i)
                | _, _ => none
    | _ => none
  | _ => none

/-- prefix notation: L<hex> | V<dst> | R<n>.<c> | F | C expr expr -/
def parseExpr : Nat → List String → Option (Expr × List String)
  | 0, _ => none
  | _, [] => none
  | fuel + 1, t :: rest =>
    match t.toList with
    | 'L' :: r => (ofHex (String.ofList r)).map (fun b => (Expr.lit b, rest))
    | 'V' :: r => (parseDst (String.ofList r)).map (fun d => (Expr.var d, rest))
    | 'R' :: r =>
      match (String.ofList r).splitOn "." with
      | [n, c] => match n.toNat?, c.toNat? with
                  | some n, some c => some (Expr.rep n c, rest)
                  | _, _ => none
      | _ => none
    | ['F'] => some (Expr.frestr, rest)
    | ['C'] =>
      match parseExpr fuel rest with
      | some (a, rest1) =>
        match parseExpr fuel rest1 with
        | some (b, rest2) => some (Expr.cat a b, rest2)
        | none => none
      | none => none
    | _ => none

def parseE (t : String) : Option Expr :=
  let toks := t.splitOn ","
  match parseExpr (toks.length + 1) toks with
  | some (e, []) => some e
  | _ => none

def parseOp (t : String) : Option Op :=
  match t.splitOn ":" with
  | ["let", d, e] => do let d ← parseDst d; let e ← parseE e; pure (Op.letE d e)
  | ["mid", d, st, n, e] => do
      let d ← parseDst d; let st ← st.toNat?; let e ← parseE e
      if n == "-" then pure (Op.mid d st none e) else do let n ← n.toNat?; pure (Op.mid d st (some n) e)
  | ["lset", d, r, e] => do let d ← parseDst d; let e ← parseE e; pure (Op.lset d (r == "1") e)
  | ["swap", a, b] => do let a ← parseDst a; let b ← parseDst b; pure (Op.swap a b)
  | ["erase", n] => (ofHex n).map Op.erase
  | ["dim", n, k] => do let n ← ofHex n; let k ← k.toNat?; pure (Op.dim n k)
  | ["frs"] => some Op.freStr
  | ["fr0"] => some Op.fre0
  | ["clear", n] => n.toNat?.map Op.clear
  | ["num", n] => n.toNat?.map Op.allocNum
  | ["code", d, l, a] => do let d ← parseDst d; let l ← l.toNat?; let a ← a.toNat?; pure (Op.letCode d l a)
  | _ => none

def allSome : List (Option α) → Option (List α)
  | [] => some []
  | none :: _ => none
  | some x :: xs => (allSome xs).map (x :: ·)

def hmod : Nat := 2305843009213693951
def hstep (h x : Nat) : Nat := (h * 1000003 + x + 1) % hmod
def hbytes (h : Nat) (b : Bytes) : Nat := b.foldl hstep (hstep h b.length)

/-- digest of the values of the observed variables -/
def digest (s : Heap) (scs : List Bytes) (ars : List (Bytes × Nat)) : Nat :=
  let h := scs.foldl (fun h n => hbytes h (readDst s (.sc n))) 7
  ars.foldl (fun h a => (List.range a.2).foldl (fun h i =>
    match findIdx a.1 s.arrays 0 with
    | some _ => hbytes h (readDst s (.el a.1 i))
    | none => hstep h 999) h) h

def showOut : Outcome → String
  | .ok => "k"
  | .val n => "v" ++ toString n
  | .err e => "e" ++ toString e

def runHist (s : Heap) (scs : List Bytes) (ars : List (Bytes × Nat)) : List Op → List String → List String
  | [], acc => acc.reverse
  | op :: r, acc =>
    let so := step s op
    runHist so.1 scs ars r ((showOut so.2 ++ "/" ++ toString (digest so.1 scs ars)) :: acc)

def parseCode (t : String) : Option (List (Nat × Bytes)) :=
  if t == "-" then some [] else
  allSome ((t.splitOn ",").map (fun x =>
    match x.splitOn "=" with
    | [a, h] => match a.toNat?, ofHex h with
                | some a, some b => some (a, b)
                | _, _ => none
    | _ => none))

def parseArs (t : String) : Option (List (Bytes × Nat)) :=
  if t == "-" then some [] else
  allSome ((t.splitOn ",").map (fun x =>
    match x.splitOn "." with
    | [h, n] => match ofHex h, n.toNat? with
                | some b, some n => some (b, n)
                | _, _ => none
    | _ => none))

def parseScs (t : String) : Option (List Bytes) :=
  if t == "-" then some [] else allSome ((t.splitOn ",").map ofHex)

def showPtrs (s : Heap) : String :=
  joinWith "," (s.scalars.map (fun x => toHex x.1 ++ "=" ++ toString x.2.len ++ "@" ++ toString x.2.addr))
  ++ " | " ++ joinWith "," (s.arrays.map (fun x => toHex x.1 ++ "=" ++
      joinWith "+" (x.2.map (fun p => toString p.len ++ "@" ++ toString p.addr))))
  ++ " | " ++ joinWith "," (s.strs.map (fun x => toString x.1 ++ "#" ++ toString x.2.length))

def handle : List String → String
  | [cmd, cs, vs, tot, stk, code, scs, ars, ops] =>
    match cs.toNat?, vs.toNat?, tot.toNat?, stk.toNat?, parseCode code, parseScs scs, parseArs ars,
          allSome ((ops.splitOn ";").map parseOp) with
    | some cs, some vs, some tot, some stk, some code, some scs, some ars, some ops =>
      let s0 := init cs vs tot stk code
      if cmd == "hist" then "ok " ++ joinWith ";" (runHist s0 scs ars ops [])
      else if cmd == "dump" then
        let s := run s0 ops
        "ok cur=" ++ toString s.current ++ " temp=" ++ toString s.temp ++ " free=" ++ toString (free s)
          ++ " used=" ++ toString (used s) ++ " " ++ showPtrs s
          ++ " vals=" ++ joinWith "," (scs.map (fun n => toHex (readDst s (.sc n))))
      else "bad-op"
    | _, _, _, _, _, _, _, _ => "bad-op"
  | _ => "bad-op"

end PcbV.Drv.C10
