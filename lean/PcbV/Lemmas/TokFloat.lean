import PcbV.Lemmas.TokNum
/-
  Lemmas for C17: the lexical part of `_read_dec` on non-integer literals (decimal point, E / D
  exponent with sign, `!` / `#` suffix): the scanner reads exactly the literal, so that the number token
  depends on the text only through the codec parameter `readFloat`.
-/
namespace PcbV.TokL
open PcbV PcbV.Gen PcbV.Gen.Tokens PcbV.Tok PcbV.Lst

/-- a literal body every character of which `_read_dec` takes in a continue branch: digits, one point
    before any exponent, one E or D followed by a digit or sign, a sign directly behind E / D
    (upper case, no blanks); `last` is the previous character -/
def decBody : Bool → Bool → Option Nat → Bytes → Bool
  | _, _, _, [] => true
  | he, hp, last, c :: cs =>
    if c == 46 then !hp && !he && decBody he true (some c) cs
    else if c == 69 || c == 68 then
      !he && (match cs with
              | n :: _ => isDigit n || n == 43 || n == 45
              | [] => false) && decBody true hp (some c) cs
    else if c == 45 || c == 43 then (last == some 69 || last == some 68) && decBody he hp (some c) cs
    else isDigit c && decBody he hp (some c) cs

def hasExp (b : Bytes) : Bool := b.any (fun c => c == 69 || c == 68)
def hasPoint (b : Bytes) : Bool := b.any (· == 46)

theorem readDecGo_body : ∀ (b : Bytes) (he hp : Bool) (w cr R : Bytes),
    decBody he hp w.getLast? b = true →
    readDecGo he hp w cr (b ++ R) = readDecGo (he || hasExp b) (hp || hasPoint b) (w ++ b) (b.reverse ++ cr) R := by
  intro b
  induction b with
  | nil => intro he hp w cr R _; simp [hasExp, hasPoint]
  | cons c b ih =>
    intro he hp w cr R h
    unfold decBody at h
    rw [List.cons_append]
    by_cases h46 : c = 46
    · subst h46
      simp only [beq_self_eq_true, if_true, Bool.and_eq_true, Bool.not_eq_true'] at h
      obtain ⟨⟨h1, h2⟩, h3⟩ := h
      subst h1; subst h2
      have h3' : decBody false true (w ++ [46]).getLast? b = true := by simpa using h3
      have := ih false true (w ++ [46]) (46 :: cr) R h3'
      conv => lhs; unfold readDecGo
      have hu : upper 46 = 46 := by decide
      simp only [hu, beq_self_eq_true, Bool.not_false, Bool.and_self, if_true, this]
      simp [hasExp, hasPoint]
    · have e46 : (c == 46) = false := by simpa using h46
      simp only [e46, Bool.false_eq_true, if_false] at h
      by_cases hed : c = 69 ∨ c = 68
      · have eed : (c == 69 || c == 68) = true := by simpa using hed
        simp only [eed, if_true, Bool.and_eq_true, Bool.not_eq_true'] at h
        obtain ⟨⟨h1, h2⟩, h3⟩ := h
        subst h1
        have hu : upper c = c := by rcases hed with rfl | rfl <;> decide
        have h3' : decBody true hp (w ++ [c]).getLast? b = true := by simpa using h3
        have := ih true hp (w ++ [c]) (c :: cr) R h3'
        cases b with
        | nil => simp at h2
        | cons n b' =>
          simp only [Bool.or_eq_true, beq_iff_eq] at h2
          have hn : (upper n == 76 || upper n == 81) = false := by
            rcases h2 with (h2 | h2) | h2
            · have hun := (isDigit_facts h2).1
              have hr : 48 ≤ n ∧ n ≤ 57 := by simpa [isDigit] using h2
              rw [hun]; simp; omega
            · subst h2; decide
            · subst h2; decide
          rw [List.cons_append] at this ⊢
          conv => lhs; unfold readDecGo
          simp only [hu, e46, Bool.false_and, Bool.false_eq_true, if_false, eed, Bool.not_false, Bool.and_self,
            if_true, hn, Bool.and_false, this]
          simp [hasExp, hasPoint, eed, e46]
      · have eed : (c == 69 || c == 68) = false := by simpa using hed
        simp only [eed, Bool.false_eq_true, if_false] at h
        by_cases hsg : c = 45 ∨ c = 43
        · have esg : (c == 45 || c == 43) = true := by simpa using hsg
          simp only [esg, if_true, Bool.and_eq_true] at h
          obtain ⟨h1, h3⟩ := h
          have hu : upper c = c := by rcases hsg with rfl | rfl <;> decide
          have h3' : decBody he hp (w ++ [c]).getLast? b = true := by simpa using h3
          have := ih he hp (w ++ [c]) (c :: cr) R h3'
          cases hw : w.getLast? with
          | none => simp [hw] at h1
          | some l =>
            have hl : (l == 69 || l == 68) = true := by simpa [hw] using h1
            conv => lhs; unfold readDecGo
            simp only [hu, e46, Bool.false_and, Bool.false_eq_true, if_false, eed, esg, hw, hl, Bool.and_self, if_true,
              this]
            simp [hasExp, hasPoint, eed, e46]
        · have esg : (c == 45 || c == 43) = false := by simpa using hsg
          simp only [esg, Bool.false_eq_true, if_false, Bool.and_eq_true] at h
          obtain ⟨hd, h3⟩ := h
          have hu : upper c = c := (isDigit_facts hd).1
          have h3' : decBody he hp (w ++ [c]).getLast? b = true := by simpa using h3
          have := ih he hp (w ++ [c]) (c :: cr) R h3'
          conv => lhs; unfold readDecGo
          simp only [hu, e46, Bool.false_and, Bool.false_eq_true, if_false, eed, esg, hd, Bool.true_or, if_true, this]
          simp [hasExp, hasPoint, eed, e46]

/-- general stop: after a word that does not end in E / D, a follower outside the continuation set ends the scan -/
theorem readDecGo_stop' (he hp : Bool) (w cr rest : Bytes) (l : Nat) (hl : w.getLast? = some l) (h69 : l ≠ 69)
    (h68 : l ≠ 68) (hf : decFollowOK rest = true) : readDecGo he hp w cr rest = (w, cr, rest) := by
  cases rest with
  | nil => simp [readDecGo]
  | cons c cs =>
    simp only [decFollowOK, Bool.not_eq_true', Bool.or_eq_false_iff, beq_eq_false_iff_ne] at hf
    obtain ⟨⟨⟨⟨⟨⟨⟨⟨⟨⟨f1, f2⟩, f3⟩, f4⟩, f5⟩, f6⟩, f7⟩, f8⟩, f9⟩, f10⟩, f11⟩ := hf
    unfold readDecGo
    simp [f1, f2, f3, f4, f5, f6, f7, f8, f9, f10, f11, hl, h69, h68]

theorem readDecGo_suffix (hp : Bool) (w cr R : Bytes) (x : Nat) (hx : x = 33 ∨ x = 35) :
    readDecGo false hp w cr (x :: R) = (w ++ [x], x :: cr, R) := by
  unfold readDecGo
  rcases hx with rfl | rfl <;> simp [upper, isLower, isDigit, isBlank]

/-- characters of a literal body are not blank -/
theorem decBody_noblank : ∀ (b : Bytes) (he hp : Bool) (last : Option Nat), decBody he hp last b = true →
    ∀ c ∈ b, isBlank c = false := by
  intro b
  induction b with
  | nil => intro _ _ _ _ c hc; simp at hc
  | cons x b ih =>
    intro he hp last h c hc
    unfold decBody at h
    have hx : isBlank x = false ∧ ∃ he' hp', decBody he' hp' (some x) b = true := by
      by_cases h46 : x = 46
      · subst h46; simp only [beq_self_eq_true, if_true, Bool.and_eq_true] at h
        exact ⟨by decide, _, _, h.2⟩
      · have e46 : (x == 46) = false := by simpa using h46
        simp only [e46, Bool.false_eq_true, if_false] at h
        by_cases hed : x = 69 ∨ x = 68
        · have eed : (x == 69 || x == 68) = true := by simpa using hed
          simp only [eed, if_true, Bool.and_eq_true] at h
          exact ⟨by rcases hed with rfl | rfl <;> decide, _, _, h.2⟩
        · have eed : (x == 69 || x == 68) = false := by simpa using hed
          simp only [eed, Bool.false_eq_true, if_false] at h
          by_cases hsg : x = 45 ∨ x = 43
          · have esg : (x == 45 || x == 43) = true := by simpa using hsg
            simp only [esg, if_true, Bool.and_eq_true] at h
            exact ⟨by rcases hsg with rfl | rfl <;> decide, _, _, h.2⟩
          · have esg : (x == 45 || x == 43) = false := by simpa using hsg
            simp only [esg, Bool.false_eq_true, if_false, Bool.and_eq_true] at h
            exact ⟨(isDigit_facts h.1).2.2.2.2.2.2.1, _, _, h.2⟩
    rcases List.mem_cons.mp hc with rfl | hc
    · exact hx.1
    · obtain ⟨he', hp', h'⟩ := hx.2
      exact ih he' hp' _ h' c hc

/-- shape of a non-integer literal as the lister prints it: body, optionally `!` / `#` behind a body
    without exponent; not ending in E / D -/
def floatText (txt : Bytes) : Bool :=
  match txt.getLast? with
  | none => false
  | some l =>
    if l == 33 || l == 35 then
      !txt.dropLast.isEmpty && decBody false false none txt.dropLast && !hasExp txt.dropLast
    else l != 69 && l != 68 && decBody false false none txt

/-- `_read_dec` reads exactly a literal of that shape (a suffixed literal whatever follows, an unsuffixed one
    if the follower does not continue a number) -/
theorem readDec_floatText (txt R : Bytes) (h : floatText txt = true)
    (hf : (match txt.getLast? with
           | some l => l == 33 || l == 35
           | none => false) = true ∨ decFollowOK R = true) :
    readDec (txt ++ R) = (txt, R) := by
  unfold floatText at h
  cases hl : txt.getLast? with
  | none => simp [hl] at h
  | some l =>
    simp only [hl] at h hf
    obtain ⟨ys, rfl⟩ := List.getLast?_eq_some_iff.mp hl
    simp only [List.dropLast_concat] at h
    by_cases hs : l = 33 ∨ l = 35
    · have es : (l == 33 || l == 35) = true := by simpa using hs
      simp only [es, if_true, Bool.and_eq_true, Bool.not_eq_true'] at h
      obtain ⟨⟨_, hb⟩, he⟩ := h
      have hnb := decBody_noblank _ _ _ _ hb
      have hlb : isBlank l = false := by rcases hs with rfl | rfl <;> decide
      have hall : ∀ c ∈ ys ++ [l], isBlank c = false := by
        intro c hc
        rcases List.mem_append.mp hc with hc | hc
        · exact hnb c hc
        · simp at hc; subst hc; exact hlb
      unfold readDec
      have e : ys ++ [l] ++ R = ys ++ (l :: R) := by simp
      rw [e, readDecGo_body ys false false [] [] (l :: R) (by simpa using hb)]
      simp only [Bool.false_or, he, List.nil_append]
      rw [readDecGo_suffix _ _ _ _ l hs]
      simp [rstripBlanks_id _ hall, dropWhile_none isBlank _ hall]
    · have es : (l == 33 || l == 35) = false := by simpa using hs
      simp only [es, Bool.false_eq_true, if_false, Bool.and_eq_true, bne_iff_ne, ne_eq, false_or] at h hf
      obtain ⟨⟨h69, h68⟩, hb⟩ := h
      have hall := decBody_noblank _ _ _ _ hb
      unfold readDec
      rw [readDecGo_body (ys ++ [l]) false false [] [] R (by simpa using hb)]
      simp only [List.nil_append, List.append_nil]
      rw [readDecGo_stop' _ _ (ys ++ [l]) _ R l hl h69 h68 hf]
      simp [rstripBlanks_id _ hall, dropWhile_none isBlank _ hall]

end PcbV.TokL
