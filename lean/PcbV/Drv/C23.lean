import PcbV.Model.ClearChain
/-
  Driver for C23.  One request = one pre-state + one operation:
    <op> <mem> <deftype> <base> <scalars> <arrays> <fns> <interp> <files> <commonScalars> <commonArrays>
  op        clear:<mem|->:<stack|->  |  new  |  run:<line|->  |  chain:<merge><all>:<jump|->:<size|x>:<l1.l2…|->
            (size x = the file does not exist; the lines are those of the program after LOAD/MERGE)
  mem       total,stack,codeStart,progSize,garbageBytes,line1.line2…   (lines of the current program)
  deftype   26 sigils;  base  - | 0 | 1 | 0d (set by DIM)
  scalars   name=val;…   names hex; val = hex bytes of a number, S<hex> string in string space,
            L<hex> string literal inside the program text (or FIELD buffer), E = empty string computed at
            run time (zero length, same address as the string stored just before it)
  arrays    name=d1.d2=cell,cell,…;…
  fns       names hex, comma separated;  interp  gosub,for,while,onerr,errnum,errpos,math,events,data,seed,runmode
  Reply     ok|err <n> followed by the dump of the state after the operation.
-/
namespace PcbV.Drv.C23
open PcbV PcbV.ClearChain
open PcbV.Heap (Ptr)

def splitList (s sep : String) : List String := if s == "-" then [] else s.splitOn sep

def natsOf (s sep : String) : Option (List Nat) := (splitList s sep).mapM String.toNat?

def namesOf (s : String) : Option (List Bytes) := (splitList s ",").mapM ofHex

def optNat (s : String) : Option (Option Nat) := if s == "-" then some none else s.toNat?.map some

structure Build where
  strs : List (Nat × Bytes)
  current : Nat
  code : List (Nat × Bytes)
  nextCode : Nat

def parseCell (t : String) (b : Build) : Option (Cell × Build) :=
  match t.toList with
  | 'S' :: r => do
    let v ← ofHex (String.ofList r)
    if v.isEmpty then pure (.str ⟨0, 0⟩, b) else
    let cur := b.current - v.length
    pure (.str ⟨v.length, cur + 1⟩, { b with strs := (cur + 1, v) :: b.strs, current := cur })
  | ['E'] =>
    -- an empty string computed at run time: zero length, address of the string allocated just before it
    pure (.str ⟨0, b.current + 1⟩, b)
  | 'L' :: r => do
    let v ← ofHex (String.ofList r)
    pure (.str ⟨v.length, b.nextCode⟩, { b with code := (b.nextCode, v) :: b.code, nextCode := b.nextCode + 1 })
  | _ => do
    let v ← ofHex t
    pure (.num v, b)

def parseCells : List String → Build → Option (List Cell × Build)
  | [], b => some ([], b)
  | t :: r, b => do
    let (c, b1) ← parseCell t b
    let (cs, b2) ← parseCells r b1
    pure (c :: cs, b2)

def parseScalars : List String → Build → Option (List (Bytes × Cell) × Build)
  | [], b => some ([], b)
  | t :: r, b =>
    match t.splitOn "=" with
    | [n, v] => do
      let n ← ofHex n
      let (c, b1) ← parseCell v b
      let (rest, b2) ← parseScalars r b1
      pure ((n, c) :: rest, b2)
    | _ => none

def parseArrays : List String → Build → Option (List (Bytes × Arr) × Build)
  | [], b => some ([], b)
  | t :: r, b =>
    match t.splitOn "=" with
    | [n, d, cs] => do
      let n ← ofHex n
      let d ← natsOf d "."
      let (cells, b1) ← parseCells (splitList cs ",") b
      let (rest, b2) ← parseArrays r b1
      pure ((n, (d, cells)) :: rest, b2)
    | _ => none

def parseBase (s : String) : Option (Option Nat × Bool) :=
  match s with
  | "-" => some (none, false)
  | "0" => some (some 0, false)
  | "1" => some (some 1, false)
  | "0d" => some (some 0, true)
  | _ => none

def seedStep (s : Nat) : Nat := (s * 214013 + 2531011) % 16777216

def seedAfter : Nat → Nat → Nat
  | 0, s => s
  | n + 1, s => seedAfter n (seedStep s)

def mkState (mem dt base scal arr fns interp files : String) : Option St := do
  let mw := mem.splitOn ","
  match mw with
  | [total, stack, cs, ps, garbage, lines] =>
    let total ← total.toNat?
    let stack ← stack.toNat?
    let cs ← cs.toNat?
    let ps ← ps.toNat?
    let garbage ← garbage.toNat?
    let lines ← natsOf lines "."
    let (b, byDim) ← parseBase base
    let b0 : Build := ⟨[], total - stack - 2, [], 1⟩
    let (scalars, b1) ← parseScalars (splitList scal ";") b0
    let (arrays, b2) ← parseArrays (splitList arr ";") b1
    let fns ← namesOf fns
    let iw ← natsOf interp ","
    let files ← files.toNat?
    match iw with
    | [g, f, w, oe, en, ep, mr, ev, dp, rs, rm] =>
      let m : Mem :=
        { total := total, stackSize := stack, codeStart := cs, progSize := ps, code := b2.code,
          deftype := dt.toList.map Char.toNat, base := b, baseByDim := byDim,
          scalars := scalars, scalBytes := sumSizes (fun x => scalarSize x.1) scalars,
          arrays := arrays, arrBytes := sumSizes (fun x => arraySize (b.getD 0) x.1 x.2.1) arrays,
          strs := b2.strs, current := b2.current - garbage, temp := b2.current - garbage,
          fieldsSet := false, allowCollect := true }
      let it : Interp :=
        { gosub := List.replicate g 1, forS := List.replicate f 1, whileS := List.replicate w 1,
          onError := if oe = 0 then none else some oe, errHandle := en != 0, errResume := if en != 0 then some ep else none,
          errNum := en, errPos := ep, mathRaise := mr != 0,
          evGosub := (List.range ev).map (fun i => (i, 9100)), evEnabled := List.range ev,
          suspendAll := en != 0, stopPos := none, dataPos := dp, runMode := rm != 0, tron := false }
      pure { mem := m, fns := fns, seed := seedAfter rs initSeed, it := it,
             files := List.range files, prog := lines.map (fun n => (n, [])),
             strig := false, sound := 0, draw := 0 }
    | _ => none
  | _ => none

def showCell (m : Mem) : Cell → String
  | .num b => toHex b
  | .str p => "S" ++ toHex (deref m p)

def dumpScalar (m : Mem) (name : Bytes) : String :=
  toHex name ++ "=" ++
    match m.scalars.lookup name with
    | some c => showCell m c
    | none => if name.getLast? = some strSigil then "S-" else toHex (List.replicate (sizeBytes name) 0)

def dumpArray (m : Mem) (name : Bytes) : String :=
  toHex name ++ "=" ++
    match m.arrays.lookup name with
    | none => "-"
    | some (dims, cells) => ".".intercalate (dims.map toString) ++ "=" ++ ",".intercalate (cells.map (showCell m))

def orDash (s : String) : String := if s.isEmpty then "-" else s

/-- `errNum`: a failed statement leaves its error number in ERR -/
def dump (pre s : St) (errNum : Nat := s.it.errNum) : String :=
  let m := s.mem
  -- DEF FN records (first name byte ≥ 0x80) are not variables BASIC can read
  let visible := (pre.mem.scalars.map (·.1)).eraseDups.filter (fun n => n.head?.getD 0 < 128)
  let sc := orDash (";".intercalate (visible.map (dumpScalar m)))
  let ar := orDash (";".intercalate ((pre.mem.arrays.map (·.1)).eraseDups.map (dumpArray m)))
  -- what a probe can see: a base set implicitly by DIM vanishes with the last array
  let base := match m.base with
    | none => "-"
    | some b => if m.baseByDim && m.arrays.isEmpty then "-" else toString b
  " sc=" ++ sc ++ " ar=" ++ ar ++
  " dt=" ++ String.ofList (m.deftype.map Char.ofNat) ++
  " base=" ++ base ++
  " fn=" ++ orDash (",".intercalate (s.fns.map toHex)) ++
  " st=" ++ toString s.it.gosub.length ++ "," ++ toString s.it.forS.length ++ "," ++ toString s.it.whileS.length ++
  " oe=" ++ (match s.it.onError with | none => "0" | some n => toString n) ++
  " err=" ++ toString errNum ++
  " mr=" ++ showBool s.it.mathRaise ++
  " ev=" ++ toString (s.it.evGosub.length + s.it.evEnabled.length) ++
  " dp=" ++ (if s.it.dataPos = 0 then "0" else "1") ++
  " rnd=" ++ showBool (s.seed == initSeed) ++
  " files=" ++ toString s.files.length ++
  " fre=" ++ toString (free m) ++
  " gc=" ++ showBool m.allowCollect

def handle : List String → String
  | [op, mem, dt, base, scal, arr, fns, interp, files, cS, cA] =>
    match mkState mem dt base scal arr fns interp files, namesOf cS, namesOf cA with
    | some s, some cS, some cA =>
      match op.splitOn ":" with
      | ["clear", ms, ss] =>
        match optNat ms, optNat ss with
        | some ms, some ss =>
          match clearStmt ms ss s with
          | .ok s' => "ok" ++ dump s s'
          | .error e => "err " ++ toString e
        | _, _ => "bad-op"
      | ["new"] => "ok" ++ dump s (newStmt s)
      | ["run", l] =>
        match optNat l with
        | some l =>
          match runStmt l s with
          | .ok s' => "ok" ++ dump s s'
          | .error (e, s') => "err " ++ toString e ++ dump s s' e
        | none => "bad-op"
      | ["chain", flags, j, size, lines] =>
        match optNat j, natsOf lines "." with
        | some j, some lines =>
          let merge := flags.toList.head? == some '1'
          let all := flags.toList.drop 1 == ['1']
          let file := if size == "x" then none else size.toNat?.map (fun n => (lines.map (fun l => (l, ([] : Bytes))), n))
          if size != "x" && file.isNone then "bad-op" else
          match chainStmt merge all cS.eraseDups cA.eraseDups file j s with
          | .ok s' => "ok" ++ dump s s'
          | .error (e, s') => "err " ++ toString e ++ dump s s' e
        | _, _ => "bad-op"
      | _ => "bad-op"
    | _, _, _ => "bad-op"
  | _ => "bad-op"

end PcbV.Drv.C23
