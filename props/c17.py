"""C17 — Tokenising and listing are consistent."""
import binascii
from fractions import Fraction

from vlib import basic

LEVEL = 'proof'
RULE = ('lines from a statement grammar (every keyword of the dialect table, expressions, PRINT/IF/FOR/ON/OPEN/FIELD/'
        'DEF FN/graphics forms, jump numbers, strings, REM / \' comments, DATA) with canonical separators; number '
        'literals of every token class (one-byte constants, byte, integer, &H, &O, single, double; exactly representable, '
        '<= 7 / 16 digits); each (dialect, line) is one case, non-trivial = the line holds at least one keyword and one '
        'literal; plus respelled variants (random case, ?, GO TO, other spellings of the same literal), spacing variants, '
        'multi-line programs entered in random order with overwrites and deletions and LISTed in a Session, junk byte lines')
EXPLANATION = ('theorems (PcbV.Props.C17): keyword tables are bijections per dialect and recognition is case-blind; token '
               'class and list/re-read round trip of every integer literal shape (constants, byte, int, &H, &O, jump '
               'numbers); lexical scan of point/exponent/suffix literals; round trip tokenise(list(t)) = t '
               '(roundtrip_statement / roundtrip_line / roundtrip_line_zero) over the item grammar: blanks incl. TAB, '
               'strings with arbitrary bytes (closed or open), separators, operators, all keywords (:ELSE, WHILE+, two-byte), '
               'names, raw digits, number literals, jump-number lists and ranges, DATA, REM / \' comments; respelled text '
               '(case, ?, GO TO) normalises to the same tokens; counterexample theorems for what does not round-trip '
               '(lead bytes in strings, LF, text-only changes); parametric in the float conversion pair; correspondence: '
               'Tokeniser.tokenise_line and Lister.detokenise_line of the three dialects against the Lean models on all '
               'generated lines; oracle: independent token walker + exact Fraction values of MBF payloads, text identity '
               'list(tokenise(canon)) = canon, bytewise re-entry, case/spelling invariance, Session LIST histories, table '
               'bijection on the real dicts, no host exception')
TRUSTED_BASE = ['models PcbV.Model.Tokenise / PcbV.Model.Lister are hand transcriptions of tokeniser.py, lister.py and the '
                'codestream.py readers; float text<->MBF conversion is a parameter of the models (property C07), '
                'instantiated in the correspondence run by the real Values.from_repr / to_str; the round-trip theorems need '
                'of it only that the pair inverts on the literal (the lexical scan is proved)']
ASSUMPTIONS = ['strings, comments and DATA of the grammar hold no control characters 00..1F (the lister prints number-token '
               'lead bytes as numbers even inside them, documented GW-BASIC behaviour)']

DIALECTS = ('advanced', 'pcjr', 'tandy')


def hx(b):
    return binascii.hexlify(bytes(b)).decode() or '-'


# ---------------------------------------------------------------------------------------------
# implementation adapter

class Impl(object):
    def __init__(self):
        from pcbasic.basic.base import error, codestream
        from pcbasic.basic.converter import tokeniser
        self.error, self.codestream, self.tokmod = error, codestream, tokeniser
        self.sessions = {d: basic.new_session(syntax=d) for d in DIALECTS}

    def close(self):
        for s in self.sessions.values():
            try:
                s.close()
            except Exception:
                pass

    def tok(self, d, line):
        """('ok', bytes) | ('err', n) | ('exc', name)"""
        try:
            return ('ok', self.sessions[d]._impl.tokeniser.tokenise_line(bytes(line)).read())
        except self.error.BASICError as e:
            return ('err', e.err)
        except Exception as e:
            return ('exc', type(e).__name__)

    def lst(self, d, body):
        """body = line record without its leading NUL.  ('ok', n, text) | ('end',) | ('exc', name)"""
        ts = self.codestream.TokenisedStream()
        ts.write(bytes(body))
        ts.seek(0)
        try:
            n, text, _ = self.sessions[d]._impl.lister.detokenise_line(ts)
        except self.error.BASICError as e:
            return ('err', e.err)
        except Exception as e:
            return ('exc', type(e).__name__)
        if n == -1:
            return ('end',)
        return ('ok', n, bytes(text))

    # float conversion tables handed to the model (the model's Codec parameter)
    def read_table(self, d, line):
        vals = self.sessions[d]._impl.values
        tbl = {}
        for i, c in enumerate(bytearray(line)):
            if 48 <= c <= 57 or c == 46:
                try:
                    w = self.tokmod.PlainTextStream(bytes(line[i:])).read_number()
                    if w and w not in tbl:
                        tbl[w] = vals.from_repr(w, allow_nonnum=False).to_token()
                except Exception:
                    pass
        return tbl

    def show_table(self, d, body):
        vals = self.sessions[d]._impl.values
        tbl = {}
        b = bytes(body)
        for i, c in enumerate(bytearray(b)):
            n = 4 if c == 0x1d else 8 if c == 0x1f else 0
            if n and len(b) - i - 1 >= n:
                k = b[i:i + 1 + n]
                if k not in tbl:
                    try:
                        tbl[k] = bytes(vals.from_bytes(k[1:]).to_str(leading_space=False, type_sign=True))
                    except Exception:
                        pass
        return tbl


def tbl_arg(tbl):
    return ','.join('%s=%s' % (hx(k), hx(v)) for k, v in sorted(tbl.items()) if k) or '-'


def fmt_tok(r):
    return 'ok ' + hx(r[1]) if r[0] == 'ok' else ('err %d' % r[1] if r[0] == 'err' else 'exc ' + r[1])


def fmt_lst(r):
    if r[0] == 'ok':
        return 'ok %d %s' % (r[1], hx(r[2]))
    if r[0] == 'end':
        return 'ok end'
    return 'err %d' % r[1] if r[0] == 'err' else 'exc ' + r[1]


# ---------------------------------------------------------------------------------------------
# independent reading of a token line (from the documented token format, not from the model)

PAYLOAD = {0x0b: 2, 0x0c: 2, 0x0d: 2, 0x0e: 2, 0x0f: 1, 0x1c: 2, 0x1d: 4, 0x1f: 8}


def mbf_value(b):
    """exact value of a 4- or 8-byte Microsoft Binary Format number"""
    b = bytearray(b)
    if b[-1] == 0:
        return Fraction(0)
    w = 8 * (len(b) - 1)
    m = int.from_bytes(bytes(b[:-1]), 'little')
    neg = bool(m >> (w - 1))
    man = m | (1 << (w - 1))
    v = Fraction(man) * Fraction(2) ** (b[-1] - 128 - w)
    return -v if neg else v


def walk(tokens):
    """Split a tokenised line into items: ('head', n) ('num', cls, value) ('kw', bytes) ('str', bytes) ('rem', bytes)
    ('data', bytes) ('ch', byte).  Raises ValueError on a malformed stream."""
    t = bytes(tokens)
    items = []
    if t[:1] == b'\0':
        if len(t) < 5:
            raise ValueError('short header')
        items.append(('head', t[3] + 256 * t[4]))
        i = 5
    elif t[:1] == b':':
        items.append(('head', None))
        i = 1
    else:
        raise ValueError('no header')
    n = len(t)
    while i < n:
        c = t[i]
        if c == 0:
            raise ValueError('NUL inside line')
        if c == 0x22:
            j = t.find(b'"', i + 1)
            j = n if j < 0 else j + 1
            items.append(('str', t[i:j]))
            i = j
        elif c in PAYLOAD:
            k = PAYLOAD[c]
            p = t[i + 1:i + 1 + k]
            if len(p) < k:
                raise ValueError('truncated number token')
            v = int.from_bytes(p, 'little') if k <= 2 else mbf_value(p)
            cls = {0x0b: 'oct', 0x0c: 'hex', 0x0d: 'jumpproc', 0x0e: 'jump', 0x0f: 'byte', 0x1c: 'int', 0x1d: 'single',
                   0x1f: 'double'}[c]
            items.append(('num', cls, v))
            i += 1 + k
        elif 0x11 <= c <= 0x1b:
            items.append(('num', 'digit', c - 0x11))
            i += 1
        elif c in (0xfd, 0xfe, 0xff):
            items.append(('kw', t[i:i + 2]))
            i += 2
        elif c == 0x8f:
            items.append(('kw', t[i:i + 1]))
            if t[i + 1:i + 2] == b'\xd9':
                items.append(('kw', b'\xd9'))
                i += 1
            items.append(('rem', t[i + 1:]))
            i = n
        elif c == 0x84:
            items.append(('kw', t[i:i + 1]))
            j, q = i + 1, False
            while j < n and (q or t[j] != 0x3a):
                if t[j] == 0x22:
                    q = not q
                j += 1
            items.append(('data', t[i + 1:j]))
            i = j
        elif c >= 0x80:
            items.append(('kw', t[i:i + 1]))
            i += 1
        else:
            items.append(('ch', c))
            i += 1
    return items


def literals(items):
    return [(x[1], x[2]) for x in items if x[0] == 'num']


def drop_blanks(items):
    return [x for x in items if x != ('ch', 0x20)]


# ---------------------------------------------------------------------------------------------
# canonical text of an exactly representable float literal (GW-BASIC number printing rules)

def sig_digits(v):
    k = 0
    while (v * 10 ** k).denominator != 1:
        k += 1
    return len(str(int(v * 10 ** k)).rstrip('0'))


def canon_float(v, double):
    """v > 0 Fraction with a finite decimal expansion of at most 7 / 16 significant digits"""
    digs = 16 if double else 7
    k = 0
    while (v * 10 ** k).denominator != 1:
        k += 1
    m = str(int(v * 10 ** k))
    e10 = len(m) - 1 - k
    ds = m.rstrip('0')
    assert len(ds) <= digs, (v, ds)
    if e10 > digs - 1 or len(ds) - e10 > digs + 1:
        s = ds[0] + ('.' + ds[1:] if len(ds) > 1 else '') + ('D' if double else 'E')
        s += ('-' if e10 < 0 else '+') + '%02d' % abs(e10)
        return s.encode()
    if e10 + 1 >= len(ds):
        s = ds + '0' * (e10 + 1 - len(ds))
        return (s + ('#' if double else '!')).encode()
    if e10 + 1 > 0:
        s = ds[:e10 + 1] + '.' + ds[e10 + 1:]
    else:
        s = '.' + '0' * (-e10 - 1) + ds
    return (s + ('#' if double else '')).encode()


# ---------------------------------------------------------------------------------------------
# generator: a line is a list of parts
#   ('k', text)  keyword / fixed upper-case text whose letter case may vary
#   ('i', text)  identifier (case may vary)
#   ('x', text)  fixed text (blanks, punctuation, raw digits)
#   ('s', text)  string literal incl. quotes (verbatim)
#   ('c', text)  comment / DATA body (verbatim)
#   ('n', cls, value, canon, [spellings])  number literal
#   ('j', n)     jump number

SPECIAL_KW = {b'REM', b"'", b'DATA', b'ELSE', b'THEN', b'TO', b'STEP', b'FN', b'USR', b'SPC(', b'TAB(', b'GOTO', b'GOSUB',
              b'WHILE', b'USING', b'NOT', b'AND', b'OR', b'XOR', b'EQV', b'IMP', b'MOD', b'OFF', b'ERL', b'ERR',
              b'RESTORE', b'RETURN', b'RESUME', b'RUN', b'LIST', b'LLIST', b'DELETE', b'EDIT', b'RENUM', b'AUTO',
              b'+', b'-', b'*', b'/', b'\\', b'^', b'=', b'<', b'>'}
NUM_FUNCS = [b'ABS', b'INT', b'SQR', b'RND', b'SIN', b'LOG', b'EXP', b'COS', b'TAN', b'ATN', b'FRE', b'INP', b'POS',
             b'PEEK', b'LPOS', b'CINT', b'CSNG', b'CDBL', b'FIX', b'PEN', b'STICK', b'STRIG', b'EOF', b'LOC', b'LOF',
             b'SGN', b'POINT', b'VARPTR', b'EXTERR', b'PMAP', b'SCREEN', b'TIMER', b'ERDEV']
NUM_OF_STR = [b'LEN', b'VAL', b'ASC', b'CVI', b'CVS', b'CVD']
STR_FUNCS = [b'LEFT$', b'RIGHT$', b'MID$', b'STRING$']
STR_OF_NUM = [b'STR$', b'CHR$', b'SPACE$', b'OCT$', b'HEX$', b'MKI$', b'MKS$', b'MKD$']
NUM_VARS0 = [b'CSRLIN', b'ERR', b'TIMER', b'ERDEV']
STR_VARS0 = [b'INKEY$', b'DATE$', b'TIME$']
WORD_OPS = [b'AND', b'OR', b'XOR', b'EQV', b'IMP', b'MOD']
SYM_OPS = [b'+', b'-', b'*', b'/', b'\\', b'^', b'=', b'<', b'>', b'<=', b'>=', b'<>']
JUMP_WORDS = [b'GOTO', b'GOSUB', b'RESTORE', b'RESUME', b'RUN', b'RETURN']


class Gen(object):
    def __init__(self, rng, dialect, keywords):
        self.r = rng
        self.d = dialect
        self.kwset = set(keywords)
        self.generic = sorted(k for k in keywords if k not in SPECIAL_KW and k[-1:] not in b'$(' and k.isalpha())

    # -- lexical atoms
    def ident(self, sigil=None):
        r = self.r
        while True:
            n = r.choice((1, 1, 2, 2, 3, 5, 8))
            w = bytes([r.choice(b'ABCDEFGHIJKLMNOPQRSTUVWXYZ')]) + bytes(
                r.choice(b'ABCDEFGHIJKLMNOPQRSTUVWXYZ0123456789.') for _ in range(n - 1))
            s = sigil if sigil is not None else r.choice((b'', b'', b'%', b'!', b'#'))
            if self.ok_ident(w, s):
                return [('i', w)] + ([('x', s)] if s else [])

    def ok_ident(self, w, s):
        # a name must not be, start as, or (with its sigil) be a keyword, nor start with FN / USR / GO
        if w[:2] in (b'FN', b'GO') or w[:3] == b'USR':
            return False
        for k in range(1, len(w) + 1):
            if w[:k] in self.kwset and (k == len(w)):
                return False
        return (w + s) not in self.kwset and w not in self.kwset

    def string(self):
        r = self.r
        n = r.choice((0, 1, 1, 2, 3, 5, 9, 14))
        pool = (b' !#$%&\'()*+,-./0123456789:;<=>?@ABCDEFGHIJKLMNOPQRSTUVWXYZ[\\]^_`abcdefghijklmnopqrstuvwxyz{|}~'
                + bytes(range(0x80, 0x100)))
        kind = r.random()
        if kind < 0.15:
            body = r.choice([b'REM', b"'", b'PRINT 1', b'10 GOTO 20', b'DATA', b':ELSE', b'1E5', b'&HFF', b'GO TO', b' ', b'?'])
        else:
            body = bytes(r.choice(pool) for _ in range(n))
        return [('s', b'"' + body + b'"')]

    def number(self, cls=None):
        r = self.r
        cls = cls or r.choice(('digit', 'byte', 'int', 'hex', 'oct', 'single', 'double'))
        if cls == 'digit':
            n = r.randrange(10)
            return [('n', cls, n, b'%d' % n, [b'%d' % n, b'0%d' % n, b'%d%%' % n])]
        if cls == 'byte':
            n = r.choice((10, 11, 99, 100, 127, 128, 254, 255, r.randrange(10, 256)))
            return [('n', cls, n, b'%d' % n, [b'%d' % n, b'00%d' % n, b'%d%%' % n])]
        if cls == 'int':
            n = r.choice((256, 257, 511, 512, 1000, 9999, 10000, 32766, 32767, r.randrange(256, 32768)))
            return [('n', cls, n, b'%d' % n, [b'%d' % n, b'0%d' % n, b'%d%%' % n])]
        if cls == 'hex':
            n = r.choice((0, 1, 9, 10, 15, 16, 255, 256, 0x7fff, 0x8000, 0xffff, 0xabcd, r.randrange(65536)))
            return [('n', cls, n, b'&H%X' % n, [b'&H%X' % n, b'&h%x' % n, b'&H0%X' % n, b'&h%X' % n])]
        if cls == 'oct':
            n = r.choice((0, 1, 7, 8, 63, 64, 0o77777, 0o100000, 0o177777, r.randrange(65536)))
            o = b'%o' % n
            sp = [b'&O' + o, b'&o' + o, b'&' + o, b'&O0' + o]
            if len(o) > 1:
                sp.append(b'&O' + o[:1] + b' ' + o[1:])
                sp.append(b'&' + o[:-1] + b' ' + o[-1:])
            return [('n', cls, n, b'&O' + o, sp)]
        double = cls == 'double'
        digs = 16 if double else 7
        kind = r.random()
        if kind < 0.3:
            # integer valued
            lo_, hi_ = (32768, 10 ** 7 - 1) if not double else (1, 10 ** 16 - 1)
            if double and r.random() < 0.5:
                lo_ = 10 ** 7
            n = r.choice((lo_, hi_, r.randrange(lo_, hi_ + 1), 10 ** r.randrange(len(str(lo_)), digs)))
            n = min(max(n, lo_), hi_)
            if not double and n >= 1 << 24:
                n &= ~((1 << (n.bit_length() - 24)) - 1)
            if double and n >= 1 << 56:
                n &= ~((1 << (n.bit_length() - 56)) - 1)
            v = Fraction(n)
            s = b'%d' % n
            if double:
                sp = [s + b'#', s + b'.#', s + b'D0', s + b'd+0']
                if len(s) > 7:
                    sp.append(s)
            else:
                sp = [s + b'!', s, s + b'.', s + b'.0', s + b'E0', s + b'e+0'] if len(s) <= 7 else [s + b'!']
        elif kind < 0.75:
            # dyadic fraction
            m = r.randrange(1, 8)
            whole = r.choice((0, 0, 1, 2, 10, 123, r.randrange(1000)))
            v = Fraction(whole) + Fraction(r.randrange(1, 1 << m), 1 << m)
            while sig_digits(v) > digs:
                m = r.randrange(1, 4)
                v = Fraction(r.randrange(100)) + Fraction(r.randrange(1, 1 << m), 1 << m)
            t = canon_float(v, double)
            t = t.rstrip(b'#')
            plain = t if (b'E' not in t and b'D' not in t) else None
            if plain is None:
                return self.number(cls)
            full = (b'0' + plain) if plain[:1] == b'.' else plain
            if double:
                sp = [plain + b'#', full + b'#', full + b'0#', full + b'D0', full + b'd+00']
            else:
                sp = [plain, full, full + b'0', plain + b'!', full + b'E0', full + b'e+00', b'0' + full]
        else:
            # power-of-ten scaled: mantissa * 10^e, exact in the binary format
            e = r.randrange(digs, 11 if not double else 24)
            mant = r.choice((1, 2, 5, 25, 125, 3, 15, 1024))
            while (mant * 5 ** e).bit_length() > (24 if not double else 56):
                mant, e = 1, e - 1
            v = Fraction(mant * 10 ** e)
            ms = (b'%d' % mant).rstrip(b'0') or b'0'
            e += len(b'%d' % mant) - len(ms)
            mm = int(ms)
            X = b'D' if double else b'E'
            sp = [b'%d%s%d' % (mm, X, e), b'%d%s+%d' % (mm, X.lower(), e), b'%d.0%s%d' % (mm, X, e)]
            if not double and len(str(int(v))) > 7:
                pass
        canon = canon_float(v, double)
        if canon not in sp:
            sp.append(canon)
        # the statement speaks of literals written with at most 7 / 16 digits
        sp = [w for w in sp if sum(1 for ch in w.upper().split(b'E')[0].split(b'D')[0].lstrip(b'0.') if 48 <= ch <= 57) <= digs]
        return [('n', cls, v, canon, sp)]

    def jump(self):
        return [('j', self.r.choice((0, 1, 9, 10, 100, 255, 256, 6552, 6553, 9999, 10000, 32767, 32768, 65529,
                                     self.r.randrange(65530))))]

    # -- expressions
    def X(self, s):
        return [('x', s)]

    def K(self, s):
        return [('k', s)]

    def args(self, n, depth):
        out = []
        for k in range(n):
            if k:
                out += self.X(self.r.choice((b',', b',', b', ')))
            out += self.expr(depth)
        return out

    def expr(self, depth=2, kind=None):
        r = self.r
        kind = kind or r.choice(('num', 'num', 'num', 'str'))
        if kind == 'str':
            c = r.random()
            if depth <= 0 or c < 0.4:
                return self.string() if r.random() < 0.6 else self.ident(b'$')
            if c < 0.55:
                return self.expr(depth - 1, 'str') + self.X(b'+') + self.expr(depth - 1, 'str')
            if c < 0.7:
                f = r.choice(STR_FUNCS)
                return self.K(f) + self.X(b'(') + self.expr(depth - 1, 'str') + self.X(b',') + self.expr(depth - 1, 'num') \
                    + self.X(b')')
            if c < 0.9:
                return self.K(r.choice(STR_OF_NUM)) + self.X(b'(') + self.expr(depth - 1, 'num') + self.X(b')')
            return self.K(r.choice(STR_VARS0))
        c = r.random()
        if depth <= 0 or c < 0.35:
            return self.number() if r.random() < 0.7 else self.ident()
        if c < 0.5:
            op = r.choice(SYM_OPS)
            return self.expr(depth - 1, 'num') + self.X(op) + self.expr(depth - 1, 'num')
        if c < 0.6:
            return self.expr(depth - 1, 'num') + self.X(b' ') + self.K(r.choice(WORD_OPS)) + self.X(b' ') \
                + self.expr(depth - 1, 'num')
        if c < 0.66:
            return self.X(b'(') + self.expr(depth - 1, 'num') + self.X(b')')
        if c < 0.72:
            return self.X(b'-') + self.expr(depth - 1, 'num')
        if c < 0.77:
            return self.K(b'NOT') + self.X(b' ') + self.expr(depth - 1, 'num')
        if c < 0.87:
            return self.K(r.choice(NUM_FUNCS)) + self.X(b'(') + self.args(r.choice((1, 1, 2)), depth - 1) + self.X(b')')
        if c < 0.91:
            return self.K(r.choice(NUM_OF_STR)) + self.X(b'(') + self.expr(depth - 1, 'str') + self.X(b')')
        if c < 0.94:
            return self.K(b'FN') + self.ident(b'') + self.X(b'(') + self.args(r.choice((1, 2)), depth - 1) + self.X(b')')
        if c < 0.96:
            dg = r.choice((None, 0, 9))
            return self.K(b'USR') + ([('n', 'digit', dg, b'%d' % dg, [b'%d' % dg])] if dg is not None else []) + self.X(b'(') + self.expr(depth - 1, 'num') \
                + self.X(b')')
        if c < 0.98:
            return self.K(r.choice(NUM_VARS0))
        return self.ident(b'') + self.X(b'(') + self.args(r.choice((1, 2)), depth - 1) + self.X(b')')

    def var(self):
        return self.ident() if self.r.random() < 0.7 else self.ident(b'$')

    # -- statements (simple = may follow THEN / ELSE)
    def simple(self):
        r = self.r
        X, K, E = self.X, self.K, self.expr
        c = r.randrange(30)
        if c == 0:
            return K(b'LET') + X(b' ') + self.ident() + X(b'=') + E(2, 'num')
        if c <= 3:
            return self.ident() + X(b'=') + E(2, 'num')
        if c == 4:
            return self.ident(b'$') + X(b'=') + E(2, 'str')
        if c <= 7:
            out = K(b'PRINT')
            n = r.randrange(4)
            ch = r.random() < 0.15
            us = r.random() < 0.15
            if n or ch or us:
                out += X(b' ')
            if ch:
                out += X(b'#') + self.number('digit') + X(b',')
            if us:
                out += K(b'USING') + X(b' ') + self.string() + X(b';')
            for k in range(n):
                if k:
                    out += X(r.choice((b';', b',', b'; ')))
                q = r.random()
                if q < 0.1:
                    out += K(b'SPC(') + E(1, 'num') + X(b')')
                elif q < 0.2:
                    out += K(b'TAB(') + E(1, 'num') + X(b')')
                else:
                    out += E(2)
            if n and r.random() < 0.2:
                out += X(b';')
            return out
        if c == 8:
            return K(r.choice((b'GOTO', b'GOSUB'))) + X(b' ') + self.jump()
        if c == 9:
            w = r.choice((b'RESTORE', b'RESUME', b'RUN', b'RETURN'))
            return K(w) + (X(b' ') + self.jump() if r.random() < 0.7 else [])
        if c == 10:
            out = K(b'ON') + X(b' ') + E(1, 'num') + X(b' ') + K(r.choice((b'GOTO', b'GOSUB'))) + X(b' ')
            for k in range(r.randrange(1, 5)):
                if k:
                    out += X(r.choice((b',', b', ')))
                out += self.jump()
            return out
        if c == 11:
            return K(b'ON') + X(b' ') + K(b'ERROR') + X(b' ') + K(b'GOTO') + X(b' ') + self.jump()
        if c == 12:
            return K(b'IF') + X(b' ') + K(b'ERL') + X(b'=') + self.jump() + X(b' ') + K(b'THEN') + X(b' ') \
                + K(b'RESUME') + X(b' ') + self.jump()
        if c == 13:
            return K(b'FOR') + X(b' ') + self.ident(b'') + X(b'=') + E(1, 'num') + X(b' ') + K(b'TO') + X(b' ') \
                + E(1, 'num') + (X(b' ') + K(b'STEP') + X(b' ') + E(1, 'num') if r.random() < 0.5 else [])
        if c == 14:
            return K(b'NEXT') + (X(b' ') + self.ident(b'') if r.random() < 0.7 else [])
        if c == 15:
            return K(b'WHILE') + X(b' ') + E(2, 'num') if r.random() < 0.7 else K(b'WEND')
        if c == 16:
            return K(b'DIM') + X(b' ') + self.var() + X(b'(') + self.args(r.choice((1, 2)), 0) + X(b')')
        if c == 17:
            return K(b'DEF') + X(b' ') + K(b'FN') + self.ident(b'') + X(b'(') + self.ident(b'') + X(b')=') + E(2, 'num')
        if c == 18:
            out = K(b'OPEN') + X(b' ') + self.string() + X(b' ') + K(b'FOR') + X(b' ') \
                + K(r.choice((b'INPUT', b'OUTPUT', b'APPEND', b'RANDOM'))) + X(b' ') + K(b'AS') + X(b' #') \
                + self.number('digit')
            if r.random() < 0.4:
                out += X(b' ') + K(b'LEN') + X(b'=') + self.number()
            return out
        if c == 19:
            return K(b'FIELD') + X(b' #') + self.number('digit') + X(b',') + self.number('byte') + X(b' ') + K(b'AS') \
                + X(b' ') + self.ident(b'$')
        if c == 20:
            w = r.choice((b'GET', b'PUT', b'CLOSE', b'INPUT', b'WRITE'))
            out = K(w) + X(b' #') + self.number('digit')
            if w != b'CLOSE':
                out += X(b',') + (self.number() if w in (b'GET', b'PUT') else self.var())
            return out
        if c == 21:
            w = r.choice((b'LINE', b'PSET', b'PRESET', b'CIRCLE', b'PAINT'))
            out = K(w) + X(b' (') + E(1, 'num') + X(b',') + E(1, 'num') + X(b')')
            if w == b'LINE':
                out += X(b'-(') + E(1, 'num') + X(b',') + E(1, 'num') + X(b')')
            if r.random() < 0.6:
                out += X(b',') + E(1, 'num')
                if w == b'LINE' and r.random() < 0.5:
                    out += X(b',') + K(r.choice((b'B', b'BF')))
            return out
        if c == 22:
            w = r.choice((b'KEY', b'PEN', b'STRIG', b'PLAY', b'TIMER', b'COM', b'KEY', b'STRIG'))
            arg = X(b'(') + self.number('digit') + X(b')') if r.random() < 0.4 else []
            return K(w) + arg + X(b' ') + K(r.choice((b'ON', b'OFF', b'STOP')))
        if c == 23:
            q = r.randrange(5)
            if q == 0:
                return K(b'OPTION') + X(b' ') + K(b'BASE') + X(b' ' + r.choice((b'0', b'1')))
            if q == 1:
                return K(b'DEF') + X(b' ') + K(b'SEG') + (X(b'=') + E(1, 'num') if r.random() < 0.7 else [])
            if q == 2:
                return K(r.choice((b'DEFINT', b'DEFSNG', b'DEFDBL', b'DEFSTR'))) + X(b' ') + K(b'A') + X(b'-') + K(b'Z')
            if q == 3:
                return K(b'NAME') + X(b' ') + self.string() + X(b' ') + K(b'AS') + X(b' ') + self.string()
            return K(b'MID$') + X(b'(') + self.ident(b'$') + X(b',') + E(1, 'num') + X(b')=') + E(1, 'str')
        if c == 24:
            return K(b'LINE') + X(b' ') + K(b'INPUT') + X(b' ') + self.string() + X(b';') + self.ident(b'$')
        if c == 25 and self.d != 'advanced':
            return K(r.choice((b'NOISE', b'TERM'))) + X(b' ') + self.args(r.randrange(1, 4), 1)
        if c == 26:
            w = r.choice((b'LIST', b'DELETE', b'LLIST'))
            return K(w) + X(b' ') + self.jump() + X(b'-') + self.jump()
        # generic: any plain keyword of the dialect with expression arguments
        w = r.choice(self.generic)
        n = r.randrange(4)
        return K(w) + (X(b' ') + self.args(n, 1) if n else [])

    def statement(self):
        r = self.r
        X, K, E = self.X, self.K, self.expr
        c = r.random()
        if c < 0.62:
            return self.simple()
        if c < 0.75:
            out = K(b'IF') + X(b' ') + E(2, 'num') + X(b' ')
            if r.random() < 0.2:
                return out + K(b'GOTO') + X(b' ') + self.jump()
            out += K(b'THEN') + X(b' ') + (self.jump() if r.random() < 0.5 else self.simple())
            if r.random() < 0.5:
                out += X(b' ') + K(b'ELSE') + X(b' ') + (self.jump() if r.random() < 0.5 else self.simple())
            return out
        if c < 0.83:
            body = self.comment_text()
            return K(b'REM') + [('c', body)]
        if c < 0.9:
            return [('x', b"'"), ('c', self.comment_text(lead=False))]
        # DATA
        out = K(b'DATA') + X(b' ')
        items = []
        for _ in range(r.randrange(1, 5)):
            q = r.random()
            if q < 0.3:
                items.append(b'%d' % r.randrange(-100, 40000))
            elif q < 0.5:
                items.append(b'"' + bytes(r.choice(b'abc XYZ:,;01\x80\xfe') for _ in range(r.randrange(6))) + b'"')
            elif q < 0.6:
                items.append(r.choice((b'1.5E+10', b'&HFF', b'rem', b"it's", b'GOTO 10', b'print', b' spaced  out ')))
            else:
                items.append(bytes(r.choice(b'abcdefgXYZ 0123456789.+-') for _ in range(r.randrange(1, 7))))
        return out + [('c', b','.join(items))]

    def comment_text(self, lead=True):
        r = self.r
        pool = (b' !"#$%&\'()*+,-./0123456789:;<=>?@ABCDEFGHIJKLMNOPQRSTUVWXYZ[\\]^_`abcdefghijklmnopqrstuvwxyz{|}~'
                + bytes(range(0x80, 0x100)))
        if r.random() < 0.2:
            body = r.choice([b'PRINT 1:GOTO 10', b'1E5 &HFF 32768', b'"unclosed', b"rem 'x", b'ELSE', b'DATA 1,2'])
        else:
            body = bytes(r.choice(pool) for _ in range(r.choice((0, 1, 3, 8, 20))))
        if lead and body:
            body = b' ' + body
        return body

    def line(self):
        """(line number, parts of the body)"""
        r = self.r
        n = r.choice((0, 1, 9, 10, 100, 255, 256, 1000, 6552, 6553, 9999, 10000, 32767, 32768, 65529, r.randrange(65530)))
        parts = []
        k = r.choice((1, 1, 1, 2, 2, 3))
        for i in range(k):
            st = self.statement()
            if i:
                # a statement beginning with ' needs no colon; other statements are joined by ':'
                after_data = any(p == ('k', b'DATA') for p in prev)
                parts += self.X(b':') if (st[0] != ('x', b"'") or after_data) else self.X(r.choice((b'', b' ')))
            parts += st
            prev = st
            if st[0] in (('k', b'REM'), ('x', b"'")):
                break
        return n, parts


def render(parts, mode, rng=None):
    """mode 'canon' | 'case' (random letter case, other spellings of literals, ?, GO TO)"""
    out = []
    for p in parts:
        t = p[0]
        if t in ('x', 's', 'c'):
            out.append(p[1])
        elif t in ('k', 'i'):
            w = p[1]
            if mode == 'case':
                q = rng.random()
                if t == 'k' and w == b'PRINT' and q < 0.3:
                    w = b'?'
                elif t == 'k' and w == b'GOTO' and q < 0.3:
                    w = rng.choice((b'GO TO', b'go to', b'Go To'))
                elif t == 'k' and w == b'GOSUB' and q < 0.3:
                    w = rng.choice((b'GO SUB', b'go sub'))
                elif q < 0.5:
                    w = w.lower()
                elif q < 0.8:
                    w = bytes(c | 0x20 if (65 <= c <= 90 and rng.random() < 0.5) else c for c in w)
            out.append(w)
        elif t == 'n':
            out.append(p[3] if mode == 'canon' else rng.choice(p[4]))
        elif t == 'j':
            out.append(b'%d' % p[1])
    return b''.join(out)


def expected_literals(parts):
    out = []
    for p in parts:
        if p[0] == 'n':
            out.append((p[1], p[2]))
        elif p[0] == 'j':
            out.append(('jump', p[1]))
    return out


def lit_key(l):
    return [(c, str(v)) for c, v in l]


# ---------------------------------------------------------------------------------------------
# the check

def model_tok(ctx, impl, cases, old='0'):
    """cases: list of (dialect, line bytes); returns the implementation results"""
    outs, lines = [], []
    for d, line in cases:
        r = impl.tok(d, line)
        outs.append(r)
        lines.append('tok %s %s %s %s' % (old, d, hx(line), tbl_arg(impl.read_table(d, line))))
    ctx.compare([[d, hx(l)] for d, l in cases], [fmt_tok(r) for r in outs], lines, 'tokenise_line')
    return outs


def model_lst(ctx, impl, cases, old='0'):
    """cases: list of (dialect, body bytes = record without the leading NUL)"""
    outs, lines = [], []
    for d, body in cases:
        r = impl.lst(d, body)
        outs.append(r)
        lines.append('lst %s %s %s %s' % (old, d, hx(body), tbl_arg(impl.show_table(d, body))))
    ctx.compare([[d, hx(b)] for d, b in cases], [fmt_lst(r) for r in outs], lines, 'detokenise_line')
    return outs


def check_tables(ctx, impl):
    """keyword table bijection and case-blind recognition on the real tables"""
    from pcbasic.basic.base import tokens as tk
    for d in DIALECTS:
        kd = tk.TokenKeywordDict(d)
        k2w, w2k = kd.to_keyword, kd.to_token
        ctx.case(('table', d))
        ctx.count('table-entries:%s' % d, len(k2w))
        if len(set(k2w.values())) != len(k2w) or len(w2k) != len(k2w):
            ctx.fail('table-not-injective:%s' % d, {'kind': 'table', 'dialect': d}, 'two tokens share a keyword')
        for k, w in k2w.items():
            if w2k.get(w) != k:
                ctx.fail('table-not-inverse:%s' % d, {'kind': 'table', 'dialect': d}, 'to_token[to_keyword[%r]] != token' % k)
        has = (b'NOISE' in w2k, b'TERM' in w2k)
        if has != ((d != 'advanced'),) * 2:
            ctx.fail('table-dialect:%s' % d, {'kind': 'table', 'dialect': d}, 'NOISE/TERM presence %r' % (has,))
        # every keyword, in three letter cases, alone on a line: tokenises to its token, lists back as the keyword
        cases = []
        for k, w in sorted(k2w.items()):
            if w in (b"'",):
                continue
            for var in (w, w.lower(), bytes(c | 0x20 if (65 <= c <= 90 and i % 2) else c for i, c in enumerate(w))):
                cases.append((d, b'10 ' + var, k, w))
        outs = model_tok(ctx, impl, [(d, l) for d, l, _, _ in cases])
        lcases = []
        for (dd, line, k, w), r in zip(cases, outs):
            ctx.case(('kw', d, line))
            ctx.count('keyword-lines')
            exp = {b'ELSE': b':' + k, b'WHILE': k + b'\xe9'}.get(w, k)
            if r[0] != 'ok' or r[1][5:5 + len(exp)] != exp:
                ctx.fail('keyword-case:%s:%s' % (d, w.decode('latin-1')), {'kind': 'line', 'dialect': d, 'line': hx(line)},
                         'keyword %r typed as %r gives %r, expected token %r' % (w, line, r, exp))
            elif w not in (b'ELSE', b'REM', b'DATA'):
                lcases.append((d, r[1][1:], w))
        louts = model_lst(ctx, impl, [(d, b) for d, b, _ in lcases])
        for (dd, body, w), r in zip(lcases, louts):
            if r[0] != 'ok' or r[2] != b'10 ' + w:
                ctx.fail('keyword-list:%s:%s' % (d, w.decode('latin-1')), {'kind': 'body', 'dialect': d, 'body': hx(body)},
                         'token of %r lists as %r' % (w, r))


def check_line(ctx, impl, d, lineno, parts, rng, results):
    """all oracle checks for one generated line; `results` collects (dialect, line) for the model comparison"""
    canon = b'%d ' % lineno + render(parts, 'canon')
    if len(canon) > 250:
        return None
    exp = expected_literals(parts)
    case = {'kind': 'line', 'dialect': d, 'line': hx(canon)}
    r = impl.tok(d, canon)
    results['tok'].append((d, canon))
    ctx.case((d, canon))
    for p in parts:
        if p[0] == 'n':
            ctx.count('literal:' + p[1])
        elif p[0] == 'j':
            ctx.count('literal:jump')
        elif p[0] == 'k':
            results['kw'].add((d, p[1]))
    if r[0] != 'ok':
        ctx.fail('tokenise-fails:%s' % r[0], case, 'canonical line %r: %r' % (canon, r))
        return None
    t = r[1]
    # literals keep value and type
    try:
        items = walk(t)
    except ValueError as e:
        ctx.fail('token-stream-malformed', case, '%r -> %r: %s' % (canon, t, e))
        return None
    got = literals(items)
    if items[0] != ('head', lineno):
        ctx.fail('line-number', case, '%r -> header %r' % (canon, items[0]))
    if got != exp:
        ctx.fail('literal-class-or-value', case, 'line %r: literal tokens %r, expected %r' % (canon, lit_key(got), lit_key(exp)))
    # listing gives the canonical text back
    lr = impl.lst(d, t[1:])
    results['lst'].append((d, t[1:]))
    if lr[0] != 'ok':
        ctx.fail('list-fails:%s' % lr[0], case, 'tokens of %r: %r' % (canon, lr))
        return None
    # (a blank behind an octal literal belongs to the literal and is not kept: no text identity there)
    oct_blank = any(p[0] == 'n' and p[1] == 'oct' and q[0] == 'x' and q[1][:1] == b' ' for p, q in zip(parts, parts[1:]))
    if oct_blank:
        ctx.count('octal-literal-followed-by-blank')
    if lr[1] != lineno or (lr[2] != canon and not oct_blank):
        ctx.fail('list-differs', case, 'tokenise+list of %r gives %r' % (canon, lr[2]))
    # the listing re-enters as the identical tokenised line
    r2 = impl.tok(d, lr[2])
    if r2 != r:
        ctx.fail('reentry-differs', case, 'list(t)=%r re-enters as %r, t=%r' % (lr[2], r2, t))
    # respelled variant: same tokens
    var = b'%d ' % lineno + render(parts, 'case', rng)
    if var != canon:
        ctx.count('variant-lines')
        rv = impl.tok(d, var)
        results['tok'].append((d, var))
        if rv[0] == 'exc':
            ctx.fail('host-exception:tokenise', {'kind': 'line', 'dialect': d, 'line': hx(var)}, '%r: %r' % (var, rv))
        elif rv != r:
            ctx.fail('respelling-changes-tokens', {'kind': 'pair', 'dialect': d, 'line': hx(canon), 'variant': hx(var)},
                     '%r gives %r, canonical %r gives %r' % (var, rv, canon, r))
    # spacing variant: blanks dropped/doubled around separators: literals kept, stable after one listing
    sp = spacing_variant(canon, rng)
    if sp is not None:
        check_stable(ctx, impl, d, sp, exp, results)
    return t


def spacing_variant(canon, rng):
    """double some blanks of the canonical text outside strings/comments/DATA (safe: blanks are kept as typed)"""
    out = bytearray()
    q = False
    stop = False
    i = 0
    up = canon.upper()
    changed = False
    while i < len(canon):
        c = canon[i]
        if not stop:
            if c == 0x22:
                q = not q
            elif not q and (c == 0x27 or up[i:i + 3] == b'REM' or up[i:i + 4] == b'DATA'):
                stop = True
        out.append(c)
        if c == 0x20 and not q and not stop and i > 6 and rng.random() < 0.4:
            # not between digits (blanks inside a number join it) and not inside GO TO
            nxt = canon[i + 1:i + 2]
            prv = canon[i - 1:i]
            if not (nxt.isdigit() or nxt in b'.&' or prv.isdigit()):
                out.append(0x20)
                changed = True
        i += 1
    return bytes(out) if changed else None


def check_stable(ctx, impl, d, line, exp, results):
    case = {'kind': 'line', 'dialect': d, 'line': hx(line)}
    ctx.count('spacing-variants')
    r0 = impl.tok(d, line)
    results['tok'].append((d, line))
    if r0[0] != 'ok':
        ctx.fail('tokenise-fails:%s' % r0[0], case, '%r: %r' % (line, r0))
        return
    try:
        got = literals(walk(r0[1]))
    except ValueError as e:
        ctx.fail('token-stream-malformed', case, '%r -> %r: %s' % (line, r0[1], e))
        return
    if exp is not None and got != exp:
        ctx.fail('literal-class-or-value', case, 'line %r: literal tokens %r, expected %r' % (line, lit_key(got), lit_key(exp)))
    l0 = impl.lst(d, r0[1][1:])
    results['lst'].append((d, r0[1][1:]))
    if l0[0] != 'ok':
        ctx.fail('list-fails:%s' % l0[0], case, '%r' % (l0,))
        return
    r1 = impl.tok(d, l0[2])
    if r1 != r0:
        ctx.fail('reentry-differs', case, 'line %r: t=%r lists as %r which re-enters as %r' % (line, r0[1], l0[2], r1))


JUNK_SEEDS = [b'10 REM \x1d', b'10 PRINT "\x1f"', b'10 \x0f', b'10 A=\x1c\x01', b'10 \x0b\x01', b'10 \x0c', b'10 \x0e\x05',
              b'10 \x0d', b'10 REM \x1d\x01\x02\x03', b'10 "\x1f1234567', b'10 PRINT &O1 2', b'10 PRINT &o 1 7', b'10 ? &1 2 3',
              b'10 PRINT &H', b'10 PRINT &', b'10 PRINT &HG', b'10 PRINT &O8', b'10 PRINT &HFFFFF', b'10 PRINT &O777777',
              b'10 PRINT 1E', b'10 PRINT 1E+', b'10 PRINT .', b'10 PRINT 1..2', b'10 PRINT 1E5E5', b'10 PRINT 1 2 3',
              b'10 PRINT 12 ERL', b'10 PRINT 1 %', b'10 PRINT 1\x1c2', b'10 PRINT 1E99', b'10 PRINT 1D400', b'10 GO TO',
              b'10 GO  TOX', b'10 GO SUBX', b'10 GOTO 65530', b'10 GOTO 1 2 3 4 5 6', b'10 GOTO .', b'10 GOTO 1.5',
              b'ELSE', b'10 ELSE', b'10 1ELSE', b'10 WHILE+', b'10 :REM\'', b'10 X\xd9', b'10 \xa1', b'10 \xe9WHILE\xe9',
              b'10 \xfe', b'10 \xff\xff', b'10 A\x7fB', b'10 \x0a', b'10 A\nB', b'10 \tA', b'10\tA', b'  ', b'', b'1', b'65535',
              b'99999 A', b'0  A', b'0 A', b'1 2 A', b'10 A\x00B', b'10 A\rB', b'10 "abc\x00def"', b'10 DATA "a:b":PRINT',
              b'10 DATA a"b:c', b'10 \'x\x00y', b'10 STRING$(', b'10 MID$X', b'10 FNX', b'10 USRGO TO 5', b'10 SPC(1)5',
              b'10 TAB(TAB(1))5', b'10 ERL=10:ERL 10', b'10 IF ERL=10THEN20ELSE30', b'10 FOR I=1TO10STEP2', b'A=1', b'?1']


def junk_line(rng):
    r = rng.random()
    if r < 0.35:
        base = bytearray(rng.choice(JUNK_SEEDS))
        for _ in range(rng.randrange(1, 4)):
            q = rng.random()
            pos = rng.randrange(len(base) + 1)
            if q < 0.5:
                base.insert(pos, rng.choice(b'\x0b\x0c\x0d\x0e\x0f\x10\x11\x1b\x1c\x1d\x1e\x1f"\':& .0159EDedLQ!#%-+,()\x00\r\t\n\x7f\x80\xfd\xfe\xff'))
            elif base and q < 0.7:
                del base[min(pos, len(base) - 1)]
            else:
                base[pos:pos] = rng.choice((b'GO TO', b'go  to', b'GO SUB', b'&O1 7', b'&h', b'ELSE', b'REM', b'DATA', b'1E', b'THEN',
                                            b'WHILE', b'FN', b'USR', b'SPC(', b'TAB(', b'ERL', b'PRINT', b'?'))
        return bytes(base)
    if r < 0.7:
        pool = b'0123456789.&HOEDed+-!#%" \':,;()=<>?ABGOTSUXLQ\x00\r\t\n\x0b\x0c\x0e\x0f\x1c\x1d\x1f\x11\x80\x8f\xa1\xb1\xd9\xe9\xfe\xff'
        return b'%d ' % rng.randrange(70000) + bytes(rng.choice(pool) for _ in range(rng.randrange(1, 25)))
    return bytes(rng.randrange(256) for _ in range(rng.randrange(1, 30)))


def check_junk(ctx, impl, d, line, results):
    """arbitrary bytes: no host exception from tokenise / list, and (fixed point) list(tokenise) never raises"""
    case = {'kind': 'junk', 'dialect': d, 'line': hx(line)}
    ctx.count('junk-lines')
    r = impl.tok(d, line)
    results['tok'].append((d, line))
    if r[0] == 'exc':
        ctx.fail('host-exception:tokenise', case, 'tokenise_line(%r) raised %s' % (line, r[1]))
        return
    if r[0] != 'ok' or not r[1]:
        ctx.count('junk-basic-error' if r[0] == 'err' else 'junk-empty')
        return
    body = r[1][1:] if r[1][:1] == b'\0' else b'\xc0\xde\x0a\x00' + r[1]
    lr = impl.lst(d, body)
    results['lst'].append((d, body))
    if lr[0] == 'exc':
        ctx.fail('host-exception:list', case, 'listing the tokens of %r (%r) raised %s' % (line, r[1], lr[1]))


def check_session(ctx, impl_unused, d, gen, rng, nlines):
    """multi-step history: enter lines in random order with overwrites and deletions, LIST, re-enter the
    listing into a fresh session, compare the stored programs"""
    case_lines = []
    s = basic.new_session(syntax=d)
    prog = {}
    try:
        steps = []
        for _ in range(nlines):
            n, parts = gen.line()
            text = render(parts, 'canon')
            if any(c < 0x20 or c > 0x7e for c in text) or len(text) > 200 or n == 0:
                continue
            steps.append((n, text))
        # overwrite and delete some
        extra = []
        for n, text in steps:
            q = rng.random()
            if q < 0.2:
                extra.append((n, None))
            elif q < 0.4:
                n2, parts = gen.line()
                t2 = render(parts, 'canon')
                if all(0x20 <= c <= 0x7e for c in t2) and len(t2) <= 200:
                    extra.append((n, t2))
        order = steps[:]
        rng.shuffle(order)
        for n, text in order + extra:
            cmd = b'%d' % n if text is None else b'%d %s' % (n, text)
            case_lines.append(hx(cmd))
            out = basic.safe_exec(s, cmd)
            if out.startswith(b'<<EXC'):
                ctx.fail('host-exception:session', {'kind': 'session', 'dialect': d, 'lines': case_lines},
                         'entering %r: %r' % (cmd, out))
                return
            if out.startswith(b'<<EXC'):
                pass
            if text is None:
                prog.pop(n, None)
            elif not out:
                prog[n] = text
            else:
                # a BASIC error on entry (e.g. Overflow is not expected for canonical lines)
                ctx.fail('session-entry-error', {'kind': 'session', 'dialect': d, 'lines': case_lines},
                         'entering %r printed %r' % (cmd, out))
                return
        ctx.case(('session', d, tuple(case_lines)))
        ctx.count('session-histories')
        ctx.count('session-lines', len(prog))
        case = {'kind': 'session', 'dialect': d, 'lines': case_lines}
        listing = basic.safe_exec(s, b'LIST')
        want = b''.join(b'%d %s\r\n' % (n, prog[n]) for n in sorted(prog))
        if listing != want:
            got = listing.split(b'\r\n')
            exp = want.split(b'\r\n')
            bad = [(g, e) for g, e in zip(got, exp) if g != e][:2] or [(len(got), len(exp))]
            ctx.fail('session-list-differs', case, 'LIST differs from the lines entered: %r' % (bad,))
            return
        code1 = bytes(s._impl.program.bytecode.getvalue())
        s2 = basic.new_session(syntax=d)
        try:
            for l in listing.split(b'\r\n'):
                if l:
                    out = basic.safe_exec(s2, l)
                    if out:
                        ctx.fail('session-reentry-error', case, 're-entering listed line %r printed %r' % (l, out))
                        return
            code2 = bytes(s2._impl.program.bytecode.getvalue())
            relist = basic.safe_exec(s2, b'LIST')
        finally:
            s2.close()
        if relist != listing:
            ctx.fail('session-relist-differs', case, 'second-generation LIST differs')
        c1 = strip_links(code1)
        c2 = strip_links(code2)
        if c1 != c2:
            ctx.fail('session-program-differs', case, 'stored program after re-entering the listing differs: %r vs %r'
                     % (c1[:80], c2[:80]))
    finally:
        s.close()


def strip_links(code):
    """line records of a stored program as (line number, body) — walks the program by its NUL-separated records
    using the token payload lengths; the link addresses are ignored"""
    out = []
    i = 0
    b = bytes(code)
    while i + 5 <= len(b) and b[i] == 0 and b[i + 1:i + 3] != b'\0\0':
        n = b[i + 3] + 256 * b[i + 4]
        j = i + 5
        while j < len(b) and b[j] != 0:
            c = b[j]
            j += 1 + PAYLOAD.get(c, 1 if c in (0xfd, 0xfe, 0xff) else 0)
        out.append((n, b[i + 5:j]))
        i = j
    return out


def run(ctx):
    rng = ctx.rng
    impl = Impl()
    try:
        from pcbasic.basic.base import tokens as tk
        check_tables(ctx, impl)
        n_lines = 1000 if ctx.quick else 8000
        n_junk = 1200 if ctx.quick else 15000
        n_hist = 6 if ctx.quick else 60
        for d in DIALECTS:
            gen = Gen(rng, d, list(tk.TokenKeywordDict(d).to_keyword.values()))
            results = {'tok': [], 'lst': [], 'kw': set()}
            for i in range(n_lines):
                n, parts = gen.line()
                check_line(ctx, impl, d, n, parts, rng, results)
                if i < 4:
                    ctx.sample({'dialect': d, 'line': (b'%d ' % n + render(parts, 'canon')).decode('latin-1')})
            for line in JUNK_SEEDS:
                check_junk(ctx, impl, d, line, results)
            for _ in range(n_junk):
                check_junk(ctx, impl, d, junk_line(rng), results)
            ctx.count('keywords-used:%s' % d, len(results['kw']))
            # correspondence with the Lean models on everything that was run
            tok_cases = list(dict.fromkeys(results['tok']))
            lst_cases = list(dict.fromkeys(results['lst']))
            model_tok(ctx, impl, tok_cases)
            model_lst(ctx, impl, lst_cases)
            ctx.count('model-tokenise-cases', len(tok_cases))
            ctx.count('model-list-cases', len(lst_cases))
            for _ in range(n_hist):
                check_session(ctx, impl, d, gen, rng, rng.choice((3, 6, 10)))
    finally:
        impl.close()


def replay(ctx, payload):
    case = payload.get('case', {})
    kind = case.get('kind')
    impl = Impl()
    try:
        d = case.get('dialect', 'advanced')
        if kind in ('line', 'junk', 'pair'):
            line = binascii.unhexlify(case['line']) if case['line'] != '-' else b''
            r = impl.tok(d, line)
            if r[0] == 'exc':
                return 'tokenise_line(%r) raises %s' % (line, r[1])
            if r[0] != 'ok' or not r[1]:
                return None if kind == 'junk' else 'tokenise_line(%r) gives %r' % (line, r)
            body = r[1][1:] if r[1][:1] == b'\0' else b'\xc0\xde\x0a\x00' + r[1]
            lr = impl.lst(d, body)
            if lr[0] == 'exc':
                return 'listing the tokens of %r raises %s' % (line, lr[1])
            if kind == 'junk':
                return None
            if kind == 'pair':
                var = binascii.unhexlify(case['variant'])
                rv = impl.tok(d, var)
                return None if rv == r else '%r and %r tokenise differently' % (line, var)
            if lr[0] != 'ok':
                return 'list gives %r' % (lr,)
            r2 = impl.tok(d, lr[2])
            if r2 != r:
                return 'list(tokenise(%r)) = %r re-enters as different tokens' % (line, lr[2])
            if payload.get('key') == 'list-differs' and lr[2] != line:
                return 'list(tokenise(%r)) = %r' % (line, lr[2])
            if payload.get('key') == 'literal-class-or-value':
                return 'literal tokens of %r: %r (see "what")' % (line, lit_key(literals(walk(r[1]))))
            return None
        if kind == 'body':
            body = binascii.unhexlify(case['body'])
            lr = impl.lst(d, body)
            return None if lr[0] == 'ok' else 'list gives %r' % (lr,)
        if kind == 'session':
            s = basic.new_session(syntax=d)
            try:
                for h in case['lines']:
                    cmd = binascii.unhexlify(h)
                    out = basic.safe_exec(s, cmd)
                    if out and not cmd.isdigit():
                        return 'entering %r printed %r' % (cmd, out)
                listing = basic.safe_exec(s, b'LIST')
                s2 = basic.new_session(syntax=d)
                try:
                    for l in listing.split(b'\r\n'):
                        if l and basic.safe_exec(s2, l):
                            return 're-entering %r fails' % l
                    if basic.safe_exec(s2, b'LIST') != listing:
                        return 'second-generation LIST differs'
                    if strip_links(s._impl.program.bytecode.getvalue()) != strip_links(s2._impl.program.bytecode.getvalue()):
                        return 'stored programs differ'
                finally:
                    s2.close()
            finally:
                s.close()
            return None
        if kind == 'table':
            ctx2 = ctx
            before = len(ctx2.failures)
            check_tables(ctx2, impl)
            return 'keyword table check fails' if len(ctx2.failures) > before else None
    finally:
        impl.close()
    return None
