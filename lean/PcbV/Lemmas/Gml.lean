import PcbV.Model.Gml
/-
  PcbV.Lemmas.Gml — invariants of the DRAW loop (PcbV.Model.Gml) used by the C33 theorems.
-/
namespace PcbV.Gml
open PcbV PcbV.Gen PcbV.Mml

/-! ### the statement's account of move lists -/

theorem finalPos_append (p : Int × Int) (a b : List Move) :
    finalPos p (a ++ b) = finalPos (finalPos p a) b := by
  simp [finalPos, List.foldl_append]

theorem segsOf_append (p : Int × Int) (a b : List Move) :
    segsOf p (a ++ b) = segsOf p a ++ segsOf (finalPos p a) b := by
  induction a generalizing p with
  | nil => simp [segsOf, finalPos]
  | cons m ms ih =>
    simp only [List.cons_append, segsOf, ih, List.append_assoc]
    rfl

theorem pos_of_cur {pen : Pen} {p : Int × Int} (h : pen.cur = some p) : pen.pos = p := by
  simp [Pen.pos, h]

/-! ### one command -/

theorem doMove_spec {pen pen' : Pen} {m : Move} {fl' : Flags} {evs : List Ev} {ms : List Move}
    {p : Int × Int} (hc : pen.cur = some p) (h : doMove pen m = .ok pen' fl' evs ms) :
    pen'.cur = some (finalPos p ms) ∧ evs.filter Ev.isSeg = segsOf p ms ∧ fl' = Flags.init ∧
      pen'.last = pen.last ∧ pen'.attr = pen.attr ∧ ms = [m] := by
  unfold doMove at h
  rw [pos_of_cur hc] at h
  dsimp only at h
  cases ht : m.target p with
  | none => rw [ht] at h; cases h
  | some q =>
    rw [ht] at h
    injection h with h1 h2 h3 h4
    subst h1; subst h2; subst h3; subst h4
    refine ⟨?_, ?_, rfl, rfl, rfl, rfl⟩
    · by_cases hg : m.goback <;> simp [finalPos, Move.next, hg, ht]
    · by_cases hp : m.plot <;> simp [segsOf, hp, ht, Ev.isSeg]

/-- what one command does to the position and which segments it draws -/
theorem exec_spec {P : Params} {pen pen' : Pen} {fl fl' : Flags} {cmd : Cmd} {evs : List Ev}
    {ms : List Move} {p : Int × Int} (hc : pen.cur = some p)
    (h : exec P pen fl cmd = .ok pen' fl' evs ms) :
    pen'.cur = some (finalPos p ms) ∧ evs.filter Ev.isSeg = segsOf p ms := by
  cases cmd with
  | move c k =>
    simp only [exec] at h
    exact ⟨(doMove_spec hc h).1, (doMove_spec hc h).2.1⟩
  | moveBy x y =>
    simp only [exec] at h
    exact ⟨(doMove_spec hc h).1, (doMove_spec hc h).2.1⟩
  | moveTo x y =>
    simp only [exec] at h
    exact ⟨(doMove_spec hc h).1, (doMove_spec hc h).2.1⟩
  | paint f b =>
    simp only [exec] at h
    split at h
    · cases h
    · injection h with h1 h2 h3 h4
      subst h1; subst h3; subst h4
      constructor
      · split <;> simp [finalPos, hc]
      · split <;> simp [segsOf, Ev.isSeg]
  | noPlot => simp only [exec] at h; injection h with h1 h2 h3 h4; subst h1; subst h3; subst h4; simp [finalPos, segsOf, hc]
  | goBack => simp only [exec] at h; injection h with h1 h2 h3 h4; subst h1; subst h3; subst h4; simp [finalPos, segsOf, hc]
  | sub s => simp only [exec] at h; injection h with h1 h2 h3 h4; subst h1; subst h3; subst h4; simp [finalPos, segsOf, hc]
  | colour k => simp only [exec] at h; injection h with h1 h2 h3 h4; subst h1; subst h3; subst h4; simp [finalPos, segsOf, hc]
  | scale k => simp only [exec] at h; injection h with h1 h2 h3 h4; subst h1; subst h3; subst h4; simp [finalPos, segsOf, hc]
  | angle d => simp only [exec] at h; injection h with h1 h2 h3 h4; subst h1; subst h3; subst h4; simp [finalPos, segsOf, hc]

/-- B: same pen, nothing drawn -/
theorem doMove_b (pen : Pen) (rel : Bool) (dx dy sc an col : Int) (g : Bool) :
    match doMove pen ⟨rel, dx, dy, sc, an, col, false, g⟩, doMove pen ⟨rel, dx, dy, sc, an, col, true, g⟩ with
    | .ok p1 f1 e1 _, .ok p2 f2 _ _ => p1 = p2 ∧ f1 = Flags.init ∧ f2 = Flags.init ∧ e1 = []
    | .unsupported, .unsupported => True
    | _, _ => False := by
  have ht : (⟨rel, dx, dy, sc, an, col, false, g⟩ : Move).target pen.pos =
      (⟨rel, dx, dy, sc, an, col, true, g⟩ : Move).target pen.pos := rfl
  unfold doMove
  dsimp only
  rw [ht]
  cases (Move.target ⟨rel, dx, dy, sc, an, col, true, g⟩ pen.pos) <;> simp

/-- N: the pen stays, the same segment is drawn -/
theorem doMove_n (pen : Pen) (rel : Bool) (dx dy sc an col : Int) (pl : Bool) :
    match doMove pen ⟨rel, dx, dy, sc, an, col, pl, true⟩, doMove pen ⟨rel, dx, dy, sc, an, col, pl, false⟩ with
    | .ok p1 f1 e1 _, .ok _ _ e2 _ => p1.pos = pen.pos ∧ f1 = Flags.init ∧ e1 = e2
    | .unsupported, .unsupported => True
    | _, _ => False := by
  have ht : (⟨rel, dx, dy, sc, an, col, pl, true⟩ : Move).target pen.pos =
      (⟨rel, dx, dy, sc, an, col, pl, false⟩ : Move).target pen.pos := rfl
  unfold doMove
  dsimp only
  rw [ht]
  cases (Move.target ⟨rel, dx, dy, sc, an, col, pl, false⟩ pen.pos) <;> simp [Pen.pos]

/-! ### the loop -/

theorem enter_cur (pen : Pen) : (enter pen).cur = some pen.pos := rfl

theorem leave_cur (P : Params) (pen : Pen) : (leave P pen).cur = pen.cur := by
  unfold leave; split <;> rfl

/-- position and segments of a whole `_draw` call, whatever its status -/
theorem loop_spec (P : Params) (env : Env) (f depth : Nat) (pen : Pen) (fl : Flags) (s : Bytes)
    (p : Int × Int) (hc : pen.cur = some p) :
    (loop P env f depth pen fl s).pen.cur = some (finalPos p (loop P env f depth pen fl s).moves) ∧
    (loop P env f depth pen fl s).evs.filter Ev.isSeg = segsOf p (loop P env f depth pen fl s).moves := by
  induction f generalizing depth pen fl s p with
  | zero => simp [loop, finalPos, segsOf, hc]
  | succ f ih =>
    unfold loop
    split
    · simp [finalPos, segsOf, hc]
    · simp [finalPos, segsOf, hc]
    · -- X substring
      rename_i sub r _
      split
      · simp [finalPos, segsOf, hc]
      · have h1 := ih (depth + 1) (enter pen) Flags.init sub p (by rw [enter_cur, pos_of_cur hc])
        dsimp only
        split
        · have h2 := ih depth (leave P (loop P env f (depth + 1) (enter pen) Flags.init sub).pen) fl r
            (finalPos p (loop P env f (depth + 1) (enter pen) Flags.init sub).moves)
            (by rw [leave_cur]; exact h1.1)
          refine ⟨?_, ?_⟩
          · simp only [finalPos_append]; exact h2.1
          · simp only [List.filter_append, segsOf_append, h1.2, h2.2]
        · exact h1
    · -- any other command
      rename_i cmd r _ _
      split
      · simp [finalPos, segsOf, hc]
      · simp [finalPos, segsOf, hc]
      · rename_i pen' fl' evs ms hex
        have h1 := exec_spec hc hex
        have h2 := ih depth pen' fl' r (finalPos p ms) h1.1
        refine ⟨?_, ?_⟩
        · simp only [finalPos_append]; exact h2.1
        · simp only [List.filter_append, segsOf_append, h1.2, h2.2]

/-! ### attributes stay in the mode's range (repaired code) -/

theorem clampAttr_range (n k : Int) (hn : 0 < n) : 0 ≤ clampAttr n k ∧ clampAttr n k < n := by
  unfold clampAttr; omega

def Ev.attrOk (n : Int) (e : Ev) : Prop := 0 ≤ e.attr ∧ e.attr < n

theorem exec_attr {P : Params} {pen pen' : Pen} {fl fl' : Flags} {cmd : Cmd} {evs : List Ev}
    {ms : List Move} (hP : P.clampAttr = true) (hn : 0 < P.numAttr)
    (ha : 0 ≤ pen.attr ∧ pen.attr < P.numAttr)
    (h : exec P pen fl cmd = .ok pen' fl' evs ms) :
    (0 ≤ pen'.attr ∧ pen'.attr < P.numAttr) ∧ ∀ e ∈ evs, Ev.attrOk P.numAttr e := by
  have hmove : ∀ m : Move, m.attr = pen.attr → doMove pen m = .ok pen' fl' evs ms →
      (0 ≤ pen'.attr ∧ pen'.attr < P.numAttr) ∧ ∀ e ∈ evs, Ev.attrOk P.numAttr e := by
    intro m hm hd
    unfold doMove at hd
    dsimp only at hd
    cases ht : m.target pen.pos with
    | none => rw [ht] at hd; cases hd
    | some q =>
      rw [ht] at hd
      injection hd with h1 h2 h3 h4
      subst h1; subst h3
      refine ⟨ha, ?_⟩
      intro e he
      by_cases hp : m.plot
      · simp [hp] at he; subst he; simpa [Ev.attrOk, Ev.attr, hm] using ha
      · simp [hp] at he
  cases cmd with
  | move c k => simp only [exec] at h; exact hmove _ rfl h
  | moveBy x y => simp only [exec] at h; exact hmove _ rfl h
  | moveTo x y => simp only [exec] at h; exact hmove _ rfl h
  | paint f b =>
    simp only [exec] at h
    split at h
    · cases h
    · injection h with h1 h2 h3 h4
      subst h1; subst h3
      constructor
      · split <;> exact ha
      · intro e he
        split at he
        · simp at he; subst he
          simpa [Ev.attrOk, Ev.attr] using clampAttr_range P.numAttr f hn
        · simp at he
  | colour k =>
    simp only [exec, hP, if_true] at h
    injection h with h1 h2 h3 h4
    subst h1; subst h3
    exact ⟨clampAttr_range P.numAttr k hn, by simp⟩
  | noPlot => simp only [exec] at h; injection h with h1 h2 h3 h4; subst h1; subst h3; exact ⟨ha, by simp⟩
  | goBack => simp only [exec] at h; injection h with h1 h2 h3 h4; subst h1; subst h3; exact ⟨ha, by simp⟩
  | sub s => simp only [exec] at h; injection h with h1 h2 h3 h4; subst h1; subst h3; exact ⟨ha, by simp⟩
  | scale k => simp only [exec] at h; injection h with h1 h2 h3 h4; subst h1; subst h3; exact ⟨ha, by simp⟩
  | angle d => simp only [exec] at h; injection h with h1 h2 h3 h4; subst h1; subst h3; exact ⟨ha, by simp⟩

theorem leave_attr (P : Params) (pen : Pen) : (leave P pen).attr = pen.attr := by
  unfold leave; split <;> rfl

theorem loop_attr (P : Params) (env : Env) (hP : P.clampAttr = true) (hn : 0 < P.numAttr)
    (f depth : Nat) (pen : Pen) (fl : Flags) (s : Bytes) (ha : 0 ≤ pen.attr ∧ pen.attr < P.numAttr) :
    (0 ≤ (loop P env f depth pen fl s).pen.attr ∧ (loop P env f depth pen fl s).pen.attr < P.numAttr) ∧
    ∀ e ∈ (loop P env f depth pen fl s).evs, Ev.attrOk P.numAttr e := by
  induction f generalizing depth pen fl s with
  | zero => simp [loop, ha]
  | succ f ih =>
    unfold loop
    split
    · simp [ha]
    · simp [ha]
    · rename_i sub r _
      split
      · simp [ha]
      · have h1 := ih (depth + 1) (enter pen) Flags.init sub ha
        dsimp only
        split
        · have h2 := ih depth (leave P (loop P env f (depth + 1) (enter pen) Flags.init sub).pen) fl r
            (by rw [leave_attr]; exact h1.1)
          refine ⟨h2.1, ?_⟩
          intro e he
          rcases List.mem_append.mp he with he | he
          · exact h1.2 e he
          · exact h2.2 e he
        · exact h1
    · rename_i cmd r _ _
      split
      · simp [ha]
      · simp [ha]
      · rename_i pen' fl' evs ms hex
        have h1 := exec_attr hP hn ha hex
        have h2 := ih depth pen' fl' r h1.1
        refine ⟨h2.1, ?_⟩
        intro e he
        rcases List.mem_append.mp he with he | he
        · exact h1.2 e he
        · exact h2.2 e he

/-! ### missing numbers -/

/-- a numeric argument is missing: after blanks and an optional sign the text neither is a digit
    nor starts a variable reference with `=` -/
def numberMissing (r : Bytes) : Bool :=
  let s1 := match skipBlank r with
    | 45 :: t => t
    | 43 :: t => t
    | s0 => s0
  match s1 with
  | [] => true
  | c :: _ => !(c == 61) && !isDigit c

theorem parseNumber_missing (env : Env) (r : Bytes) (h : numberMissing r = true) :
    parseNumber env none r = .error E.ifc := by
  unfold numberMissing at h
  unfold parseNumber
  generalize skipBlank r = s0 at h
  cases s0 with
  | nil => simp [Except.map]
  | cons a t =>
    by_cases h45 : a = 45
    · subst h45
      cases t with
      | nil => simp [Except.map]
      | cons c t' => simp at h; simp [h.1, h.2, Except.map]
    · by_cases h43 : a = 43
      · subst h43
        cases t with
        | nil => simp [Except.map]
        | cons c t' => simp at h; simp [h.1, h.2, Except.map]
      · have h' : (!(a == 61) && !isDigit a) = true := by
          split at h
          · simp_all
          · simp_all
          · rename_i heq; simp at h; rename_i x; simp_all
        simp at h'
        dsimp only
        split
        · rename_i heq; simp at heq; omega
        · rename_i heq; simp at heq; omega
        · simp [h'.1, h'.2, Except.map]

theorem skipBlank_idem (s : Bytes) : skipBlank (skipBlank s) = skipBlank s := by
  induction s with
  | nil => rfl
  | cons a t ih => by_cases ha : (a == 32) = true <;> simp [skipBlank, ha, ih]

theorem number_missing (env : Env) (lo hi : Int) (r : Bytes) (h : numberMissing r = true) :
    number env lo hi r = .error E.ifc := by
  simp [number, parseNumber_missing env r h]

/-- a variable store in which `A$ = "XA$;"` -/
def envSelf : Env :=
  { var := fun n idx => if n = [65, 36] ∧ idx = [] then .ok (.str [88, 65, 36, 59]) else .error E.ifc,
    ptr := fun _ => .error E.ifc }

theorem parse_self : parseCmd envSelf [88, 65, 36, 59] = .ok (some (.sub [88, 65, 36, 59], [])) := by
  decide

end PcbV.Gml
