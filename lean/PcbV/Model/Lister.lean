import PcbV.Basic
import PcbV.Gen.Tokens
import PcbV.Model.Tokenise
/-
  PcbV.Model.Lister — pcbasic/basic/converter/lister.py (Lister.detokenise_line,
  detokenise_compound_statement, _detokenise_keyword_into, _detokenise_number) over byte lists.

  * The stream is the list of bytes still to be read; the text written so far is the accumulator
    `out` (the code inspects and rewrites its tail: blank before a keyword, `:REM'` → `'`,
    `WHILE+`, `:ELSE`).
  * Number tokens: one-byte constants, T_BYTE, T_INT, T_UINT(_PROC), &H, &O are modelled here;
    the MBF → decimal text of T_SINGLE / T_DOUBLE is the parameter `Codec.showFloat` (property C07).
  * `old := true` selects the unrepaired `_detokenise_number`, which handed a payload cut short by the
    end of the stream to `Values.from_bytes` / `ord` / `struct.unpack` (host exception); the repaired
    code passes such a lead byte through unchanged.
-/
namespace PcbV.Lst
open PcbV PcbV.Gen PcbV.Gen.Tokens PcbV.Tok

/-- digits of `n` in base `b`, least significant first (fuel = an upper bound of the digit count) -/
def digitsRev (b : Nat) : Nat → Nat → List Nat
  | 0, _ => []
  | f + 1, n => if n < b then [n] else (n % b) :: digitsRev b f (n / b)

def digitChar (d : Nat) : Nat := if d < 10 then 48 + d else 55 + d

/-- `b'%d' % n`, `b'%X' % n`, `b'%o' % n` for n ≥ 0 -/
def showBase (b n : Nat) : Bytes := ((digitsRev b (n + 1) n).reverse).map digitChar

def le16 (trail : Bytes) : Nat := trail.getD 0 0 + 256 * trail.getD 1 0

/-- `Integer.to_str` (signed) -/
def showInt16 (v : Nat) : Bytes := if v ≥ 32768 then 45 :: showBase 10 (65536 - v) else showBase 10 v

/-- `_detokenise_number`: (text, rest) -/
def listNumber (old : Bool) (cd : Codec) (lead : Nat) (rest : Bytes) : Except Nat (Bytes × Bytes) :=
  if rest.length < plusBytes lead then (if old then .error hostExc else .ok ([lead], rest))
  else
    let trail := rest.take (plusBytes lead)
    let r := rest.drop (plusBytes lead)
    if lead == tTOCT then .ok (38 :: 79 :: showBase 8 (le16 trail), r)
    else if lead == tTHEX then .ok (38 :: 72 :: showBase 16 (le16 trail), r)
    else if lead == tTBYTE then .ok (showBase 10 (trail.getD 0 0), r)
    else if tC0 ≤ lead ∧ lead ≤ tC10 then .ok (showBase 10 (lead - tC0), r)
    else if lineNumberLeads.contains lead then .ok (showBase 10 (le16 trail), r)
    else if lead == tTINT then .ok (showInt16 (le16 trail), r)
    else if lead == tTSINGLE || lead == tTDOUBLE then
      match cd.showFloat (lead :: trail) with
      | some txt => .ok (txt, r)
      | none => .error missing
    else .ok ([], r)

/-- bytes after which no blank is put behind a keyword (besides END_LINE, OPERATOR, O_REM) -/
def noSpaceAfter : List Nat := [34, 44, 59, 32, 58, 40, 41, 36, 37, 33, 35, 95, 64, 126, 124, 96]

def followsNoSpace (next : Option Nat) : Bool :=
  match next with
  | none => true
  | some n => n == 0 || operatorToks.contains n || n == tOREM || noSpaceAfter.contains n

/-- `output and output[-1:] in ALPHANUMERIC` -/
def lastIsAlnum (out : Bytes) : Bool :=
  match out.getLast? with
  | some l => isAlnum l
  | none => false

/-- `_detokenise_keyword_into`: (new output, rest, token-is-a-comment-token) -/
def listKeyword (t : Table) (lead : Nat) (out rest : Bytes) : Bytes × Bytes × Bool :=
  let found : Option (Bytes × Bytes × Bytes) :=
    match toKeyword t [lead] with
    | some kw => some ([lead], kw, rest)
    | none =>
      match rest with
      | n :: rest' =>
        match toKeyword t [lead, n] with
        | some kw => some ([lead, n], kw, rest')
        | none => none
      | [] => none
  match found with
  | none => (out ++ [lead], rest, false)
  | some (tok, kw, r) =>
    let isOp := tok.length == 1 && operatorToks.contains (tok.getD 0 0)
    let out1 :=
      if !isOp && lastIsAlnum out
         && !(kwFn.isSuffixOf out) && !(kwUsr.isSuffixOf out) then out ++ [32] else out
    let next := r.head?
    let remq := tok == [tREM] && next == some tOREM && out1.getLast? == some 58
    let r2 := if remq then r.drop 1 else r
    let out2 :=
      if remq then out1.dropLast ++ kwOrem
      else if tok == [tOPLUS] && kwWhile.isSuffixOf out1 then out1
      else if tok == [tELSE] then (if out1.isEmpty then out1 ++ kw.drop 1 else out1.dropLast ++ kw)
      else out1 ++ kw
    let isComment := tok == [tREM] || tok == [tOREM]
    let quiet := isOp || isComment || tok == [tTAB] || tok == [tSPC] || tok == [tUSR] || tok == [tFN]
    let out3 := if !quiet && !followsNoSpace next then out2 ++ [32] else out2
    (out3, r2, isComment)

/-- `detokenise_compound_statement` (before the final `output[:255]`) -/
def listLoop (old : Bool) (t : Table) (cd : Codec) : Nat → Bool → Bool → Bytes → Bytes → Except Nat Bytes
  | 0, _, _, out, _ => .ok out
  | _ + 1, _, _, out, [] => .ok out
  | f + 1, lit, com, out, s :: rest =>
    if s == 0 then .ok out
    else if s == 34 then listLoop old t cd f (!lit) com (out ++ [s]) rest
    else if numberLeads.contains s || lineNumberLeads.contains s then
      match listNumber old cd s rest with
      | .ok (txt, r) => listLoop old t cd f lit com (out ++ txt) r
      | .error e => .error e
    else if com || lit || (decide (32 ≤ s ∧ s ≤ 126)) then listLoop old t cd f lit com (out ++ [s]) rest
    else if s == 10 then listLoop old t cd f lit com (out ++ [10, 13]) rest
    else if s ≤ 9 then listLoop old t cd f lit com (out ++ [s]) rest
    else
      let k := listKeyword t s out rest
      listLoop old t cd f lit k.2.2 k.1 k.2.1

def listStatement (old : Bool) (t : Table) (cd : Codec) (inp : Bytes) : Except Nat Bytes :=
  match listLoop old t cd (inp.length + 1) false false [] inp with
  | .ok out => .ok (out.take 255)
  | .error e => .error e

/-- `detokenise_line` on a stream positioned behind the leading NUL of a line record:
    `none` = end of program / truncated; else (line number, text) -/
def detokLine (old : Bool) (t : Table) (cd : Codec) (inp : Bytes) : Except Nat (Option (Nat × Bytes)) :=
  if inp.length < 4 ∨ (inp.getD 0 0 = 0 ∧ inp.getD 1 0 = 0) then .ok none
  else
    let n := inp.getD 2 0 + 256 * inp.getD 3 0
    let body := inp.drop 4
    let body := if n == 0 && body.head? == some 32 then body.drop 1 else body
    let linum := showBase 10 n ++ (if body.head? == some 9 then [] else [32])
    match listStatement old t cd body with
    | .ok txt => .ok (some (n, linum ++ txt))
    | .error e => .error e

end PcbV.Lst
