"""Generate lean/PcbV/Gen/DosFiles.lean: data the DOS-name/listing model (C28) depends on in addition to
Gen/DosTables.lean (tables_c27.py: ALLOWABLE_CHARS, DOS device names, code page)."""
from gen_tables import generator, HEADER, lean_list, lean_bytes


@generator('DosFiles')
def gen_dos_files():
    import sys
    import pcbasic.basic.codepage  # noqa
    codepage = sys.modules['pcbasic.basic.codepage']
    from pcbasic.basic.devices import disk, files
    cp = codepage.Codepage(None, True)
    # Codepage(None).unicode_to_bytes(<one code point>, errors='replace') for every code point the default
    # code page produces and for all of ASCII; any other code point gives b'?' (checked on a sample below)
    points = set(range(128))
    for i in range(256):
        points.update(ord(c) for c in cp.bytes_to_unicode(bytes(bytearray([i])), box_protect=False))
    pairs = []
    for u in sorted(points):
        b = cp.unicode_to_bytes(chr(u), errors='replace')
        assert len(b) == 1, (u, b)
        pairs.append((u, bytearray(b)[0]))
    for u in (0x100, 0x3b1 + 0x1000, 0x4e2d, 0x1f600):
        if u not in points:
            assert cp.unicode_to_bytes(chr(u), errors='replace') == b'?', u
    out = [HEADER, 'namespace PcbV.Gen.DosFiles\n']
    out.append('/-- (code point, byte) of Codepage(None).unicode_to_bytes(errors=\'replace\'); other code points give 63 -/')
    out.append('def fromUni : List (Nat × Nat) := [%s]\n' % ', '.join('(%d, %d)' % p for p in pairs))
    out.append('/-- the default-extension file types of DiskDevice.open (set(filetype) & set(b"MPBA")) -/')
    out.append('def defextTypes : List Nat := %s\n' % lean_bytes(b'MPBA'))
    out.append('/-- files.DOS_DEVICE_FILES (names that Files._get_device_param diverts to devices) -/')
    out.append('def deviceFiles : List (List Nat) := [%s]\n'
               % ', '.join(lean_bytes(x) for x in files.DOS_DEVICE_FILES))
    out.append('/-- disk.ALLOWABLE_CHARS, sorted (same table as DosTables.allowable) -/')
    out.append('def allowableChars : List Nat := %s\n'
               % lean_list(sorted(bytearray(bytes(bytearray(disk.ALLOWABLE_CHARS))))))
    out.append('end PcbV.Gen.DosFiles\n')
    return '\n'.join(out)
