import PcbV.Lemmas.Geometry
import PcbV.Lemmas.SpriteRT
/-
  C31 — drawing primitives have their specified geometry.

  The model is `PcbV.Model.Draw` / `PcbV.Model.Viewport` (C30: each primitive as the list of
  `graph_view[...] = attr` calls of the real code, `applyOps` = their effect on the pixel matrix of the page)
  and `PcbV.Model.Sprite` (sprite builders, `get_`, `put_`, `point_`).  "Unclipped screen" is the unset
  viewport `View.full W H` with all coordinates on the screen; `W`, `H` are arbitrary.
-/
namespace PcbV.C31
open PcbV PcbV.Viewport PcbV.Draw PcbV.ViewportLemmas PcbV.Geometry PcbV.Sprite PcbV.SpriteRT

/-! ### PSET, POINT -/

/-- PSET sets exactly one pixel: the page afterwards differs from the page before in the cell (x, y) only,
    which holds the attribute -/
theorem pset_one_pixel (W H : Int) (pg : Page) (attr : Nat) (x y : Int)
    (hx : 0 ≤ x ∧ x < W) (hy : 0 ≤ y ∧ y < H) (cx cy : Int) :
    applyOps (View.full W H) attr pg (Draw.pset x y) cx cy = if cx = x ∧ cy = y then attr else pg cx cy := by
  rw [applyOps_eq]
  have h := writes_pixels_full W H (by omega) (by omega) [(x, y)]
    (by intro p hp; simp only [List.mem_singleton] at hp; subst hp; exact ⟨hx.1, hx.2, hy.1, hy.2⟩) cx cy
  have e : Draw.pset x y = pixels [(x, y)] := rfl
  rw [e]
  by_cases hc : cx = x ∧ cy = y
  · rw [if_pos hc, if_pos (h.mpr (by simp [hc.1, hc.2]))]
  · rw [if_neg hc, if_neg]
    intro hw
    have := h.mp hw
    simp only [List.mem_singleton, Prod.mk.injEq] at this
    exact hc this

/-- POINT then returns that attribute -/
theorem point_reads_it (W H : Int) (pg : Page) (attr : Nat) (x y : Int)
    (hx : 0 ≤ x ∧ x < W) (hy : 0 ≤ y ∧ y < H) :
    point (View.full W H) (applyOps (View.full W H) attr pg (Draw.pset x y)) x y = attr := by
  have ox : (View.full W H).offX = 0 := by simp [View.offX, View.full]
  have oy : (View.full W H).offY = 0 := by simp [View.offY, View.full]
  have eW : (View.full W H).W = W := rfl
  have eH : (View.full W H).H = H := rfl
  unfold point
  rw [eW, eH, if_neg (by omega), ox, oy, Int.add_zero, Int.add_zero, pset_one_pixel W H pg attr x y hx hy]
  simp

/-- POINT of any other cell still returns what was there (and -1 outside the screen) -/
theorem point_elsewhere (W H : Int) (pg : Page) (attr : Nat) (x y x' y' : Int)
    (hx : 0 ≤ x ∧ x < W) (hy : 0 ≤ y ∧ y < H) (hne : ¬ (x' = x ∧ y' = y)) :
    point (View.full W H) (applyOps (View.full W H) attr pg (Draw.pset x y)) x' y' =
      point (View.full W H) pg x' y' := by
  have ox : (View.full W H).offX = 0 := by simp [View.offX, View.full]
  have oy : (View.full W H).offY = 0 := by simp [View.offY, View.full]
  unfold point
  rw [ox, oy, Int.add_zero, Int.add_zero, pset_one_pixel W H pg attr x y hx hy, if_neg hne]

/-! ### LINE -/

/-- a solid LINE between two points of the screen issues single-pixel assignments to a list `pts` of
    exactly `max(|dx|,|dy|)+1` distinct cells, successive ones 8-neighbours, running from one end point to
    the other (from the second to the first when the end point swap of `_draw_line` applies), all inside
    the bounding box; the page changes in exactly these cells.  The steep transposition is inside
    `drawLine`; the statement is about the resulting screen cells. -/
theorem line_count (W H x0 y0 x1 y1 : Int)
    (hx0 : 0 ≤ x0 ∧ x0 < W) (hx1 : 0 ≤ x1 ∧ x1 < W) (hy0 : 0 ≤ y0 ∧ y0 < H) (hy1 : 0 ≤ y1 ∧ y1 < H) :
    ∃ pts : List (Int × Int),
      drawLine (View.full W H) x0 y0 x1 y1 = pixels pts ∧
      pts.length = max (x1 - x0).natAbs (y1 - y0).natAbs + 1 ∧
      pts.Nodup ∧ chain8 pts ∧
      ((pts.head? = some (x0, y0) ∧ pts.getLast? = some (x1, y1)) ∨
       (pts.head? = some (x1, y1) ∧ pts.getLast? = some (x0, y0))) ∧
      (∀ p ∈ pts, min x0 x1 ≤ p.1 ∧ p.1 ≤ max x0 x1 ∧ min y0 y1 ≤ p.2 ∧ p.2 ≤ max y0 y1) ∧
      ∀ (pg : Page) (attr : Nat) (cx cy : Int),
        applyOps (View.full W H) attr pg (drawLine (View.full W H) x0 y0 x1 y1) cx cy =
          if (cx, cy) ∈ pts then attr else pg cx cy := by
  have hd := drawLine_full W H x0 y0 x1 y1 0xffff (by omega) (by omega) (by omega) (by omega)
  have page : ∀ pts : List (Int × Int),
      drawLine (View.full W H) x0 y0 x1 y1 = pixels pts →
      (∀ p ∈ pts, min x0 x1 ≤ p.1 ∧ p.1 ≤ max x0 x1 ∧ min y0 y1 ≤ p.2 ∧ p.2 ≤ max y0 y1) →
      ∀ (pg : Page) (attr : Nat) (cx cy : Int),
        applyOps (View.full W H) attr pg (drawLine (View.full W H) x0 y0 x1 y1) cx cy =
          if (cx, cy) ∈ pts then attr else pg cx cy := by
    intro pts he hin pg attr cx cy
    rw [applyOps_eq, he]
    have h := writes_pixels_full W H (by omega) (by omega) pts
      (by intro p hp; have := hin p hp; omega) cx cy
    by_cases hm : (cx, cy) ∈ pts
    · rw [if_pos hm, if_pos (h.mpr hm)]
    · rw [if_neg hm, if_neg (fun hw => hm (h.mp hw))]
  by_cases hsw : y1 ≤ y0
  · rw [if_pos hsw] at hd
    obtain ⟨pts, he, hl, hh, hla, hc, hn, hin⟩ := lineFrom_solid x1 y1 x0 y0
    have he' : drawLine (View.full W H) x0 y0 x1 y1 = pixels pts := hd.trans he
    have hin' : ∀ p ∈ pts, min x0 x1 ≤ p.1 ∧ p.1 ≤ max x0 x1 ∧ min y0 y1 ≤ p.2 ∧ p.2 ≤ max y0 y1 := by
      intro p hp; have := hin p hp; omega
    exact ⟨pts, he', by rw [hl]; omega, hn, hc, Or.inr ⟨hh, hla⟩, hin', page pts he' hin'⟩
  · rw [if_neg hsw] at hd
    obtain ⟨pts, he, hl, hh, hla, hc, hn, hin⟩ := lineFrom_solid x0 y0 x1 y1
    have he' : drawLine (View.full W H) x0 y0 x1 y1 = pixels pts := hd.trans he
    exact ⟨pts, he', hl, hn, hc, Or.inl ⟨hh, hla⟩, hin, page pts he' hin⟩

/-! ### LINE ,B and LINE ,BF -/

/-- LINE ,B with corners on the screen, in any order, changes exactly the cells of the rectangle outline -/
theorem box_outline_exact (W H x0 y0 x1 y1 : Int) (pg : Page) (attr : Nat)
    (hx0 : 0 ≤ x0 ∧ x0 < W) (hx1 : 0 ≤ x1 ∧ x1 < W) (hy0 : 0 ≤ y0 ∧ y0 < H) (hy1 : 0 ≤ y1 ∧ y1 < H)
    (cx cy : Int) :
    applyOps (View.full W H) attr pg (drawBox (View.full W H) x0 y0 x1 y1) cx cy =
      if onFrame x0 y0 x1 y1 cx cy then attr else pg cx cy := by
  rw [applyOps_eq, drawBox_full W H x0 y0 x1 y1 (by omega) (by omega) (by omega) (by omega)]
  have h := writes_pixels_full W H (by omega) (by omega) (boxPts x0 y0 x1 y1)
    (by
      intro p hp
      have := (mem_boxPts x0 y0 x1 y1 p.1 p.2).mp hp
      unfold onFrame at this
      omega) cx cy
  rw [mem_boxPts] at h
  by_cases hm : onFrame x0 y0 x1 y1 cx cy
  · rw [if_pos hm, if_pos (h.mpr hm)]
  · rw [if_neg hm, if_neg (fun hw => hm (h.mp hw))]

/-- LINE ,BF fills exactly the rectangle -/
theorem box_filled_exact (W H x0 y0 x1 y1 : Int) (pg : Page) (attr : Nat)
    (hx0 : 0 ≤ x0 ∧ x0 < W) (hx1 : 0 ≤ x1 ∧ x1 < W) (hy0 : 0 ≤ y0 ∧ y0 < H) (hy1 : 0 ≤ y1 ∧ y1 < H)
    (cx cy : Int) :
    applyOps (View.full W H) attr pg (drawBoxFilled (View.full W H) x0 y0 x1 y1) cx cy =
      if inBox x0 y0 x1 y1 cx cy then attr else pg cx cy := by
  rw [applyOps_eq]
  have h := written_boxFilled_full W H x0 y0 x1 y1 cx cy (by omega) (by omega) (by omega) (by omega)
  by_cases hm : inBox x0 y0 x1 y1 cx cy
  · rw [if_pos hm, if_pos (h.mpr hm)]
  · rw [if_neg hm, if_neg (fun hw => hm (h.mp hw))]

/-! ### sprites -/

/-- `unpack (pack s) = s` for each sprite builder (packed pixels of 1, 2, 4 bits; 1 to 4 colour planes;
    the Tandy SCREEN 6 wrapper) and every rectangular sprite whose attributes are below `2^bpp` -/
theorem sprite_roundtrip (b : Builder) (hb : supported b) (s : Rows) (w : Nat) (h : b.admits s w) :
    b.unpack (b.pack s) = s := by
  simpa using builder_rt b hb s w h []

/-- … also when the record is followed by other bytes, as in an array larger than the record -/
theorem sprite_roundtrip_in_array (b : Builder) (hb : supported b) (s : Rows) (w : Nat) (h : b.admits s w)
    (tail : Bytes) : b.unpack (b.pack s ++ tail) = s :=
  builder_rt b hb s w h tail

/-- the attribute bound is needed: a wider attribute is cut to `bpp` bits -/
theorem sprite_roundtrip_needs_attribute_bound :
    (Builder.packed 2).unpack ((Builder.packed 2).pack [[5]]) = [[1]] ∧
    (Builder.planed 2).unpack ((Builder.planed 2).pack [[5]]) = [[1]] := by decide

/-- GET followed by PUT ,PSET at the same place leaves the page unchanged (any corner order in GET; screen
    of at most 16383 × 65535 pixels so that the size record fits 16 bits; page attributes below `2^bpp`);
    `tail` is whatever the array holds behind the record -/
theorem get_put_pset_identity (b : Builder) (hb : supported b) (W H : Int)
    (hW : W ≤ 16383) (hH : H ≤ 65535) (pg : Page) (hpg : ∀ x y, pg x y < 2 ^ b.bpp)
    (xa ya xb yb : Int) (arrLen : Nat) (arr : Bytes)
    (hget : getStmt b (View.full W H) pg xa ya xb yb arrLen = .ok arr) (tail : Bytes) :
    putStmt b (View.full W H) pg (min xa xb) (min ya yb) (arr ++ tail) .pset = .ok pg := by
  have ox : (View.full W H).offX = 0 := by simp [View.offX, View.full]
  have oy : (View.full W H).offY = 0 := by simp [View.offY, View.full]
  have hbpp := supported_bpp b hb
  have hwf : b.widthFactor = 1 ∨ b.widthFactor = 2 := by cases b <;> simp [Builder.widthFactor]
  unfold getStmt at hget
  simp only [] at hget
  split at hget
  · cases hget
  split at hget
  · cases hget
  split at hget
  · cases hget
  rename_i hc0 hc1 _
  simp only [Decidable.not_not] at hc0 hc1
  have hc0' := hc0
  have hc1' := hc1
  simp only [View.contains, View.xmin, View.xmax, View.ymin, View.ymax, View.full, View.width, View.height,
    Bool.false_eq_true, if_false, decide_eq_true_eq] at hc0' hc1'
  injection hget with harr
  rw [ox, oy, Int.add_zero, Int.add_zero] at harr
  -- the sprite fetched
  generalize hwN : (min xa xb + ↑b.widthFactor * (max xa xb - min xa xb + 1) - 1 - min xa xb + 1).toNat = wN at harr
  generalize hhN : (max ya yb - min ya yb + 1).toNat = hN at harr
  have hwpos : 0 < wN := by rcases hwf with h | h <;> rw [h] at hwN <;> omega
  have hhpos : 0 < hN := by omega
  have hwle : (wN : Int) ≤ W := by rcases hwf with h | h <;> rw [h] at hwN hc1' <;> omega
  have hadm : b.admits (getRect pg (min xa xb) (min ya yb) wN hN) wN := by
    have hr := getRect_rect pg (min xa xb) (min ya yb) wN hN hwpos hhpos
    refine ⟨hwpos, hr.hpos, ?_, hr.rows, getRect_bound pg _ _ wN hN _ (hpg), ?_⟩
    · have : (getRect pg (min xa xb) (min ya yb) wN hN).length = hN := getRect_height pg _ _ wN hN
      rw [this]; omega
    · match b, hbpp, hwf, hwN with
      | .packed bpp, hbpp, _, _ =>
        simp only [Builder.bpp] at hbpp
        show wN * bpp < 65536
        have : wN * bpp ≤ wN * 4 := Nat.mul_le_mul_left _ hbpp.2
        omega
      | .planed _, _, _, _ => show wN < 65536; omega
      | .tandy6 _, _, _, hwN =>
        show wN < 65536 ∧ wN % 2 = 0
        simp only [Builder.widthFactor] at hwN
        omega
  have hrt := sprite_roundtrip_in_array b hb _ _ hadm tail
  unfold putStmt
  rw [← harr, hrt]
  simp only []
  rw [(getRect_rect pg (min xa xb) (min ya yb) wN hN hwpos hhpos).width, getRect_height]
  have e1 : min xa xb + (wN : Int) - 1 = min xa xb + ↑b.widthFactor * (max xa xb - min xa xb + 1) - 1 := by
    rcases hwf with h | h <;> rw [h] at hwN ⊢ <;> omega
  have e2 : min ya yb + (hN : Int) - 1 = max ya yb := by omega
  rw [e1, e2, if_neg (not_not.mpr hc0), if_neg (not_not.mpr hc1), ox, oy, Int.add_zero, Int.add_zero,
    put_get_same b.bpp pg _ _ wN hN hwpos hhpos]

/-! ### histories: PUT paints what the array holds now -/

/-- a refused statement changes neither the page nor any array -/
theorem refused_changes_nothing (b : Builder) (v : View) (s : GState) (st : GStmt) (e : Nat)
    (h : gstep b v s st = .error e) : grun b v s [st] = s := by
  simp [grun, h]

/-- GET into an array, then any number of statements that are refused (a GET into the same array whose record
    does not fit it, a GET or PUT off the screen, …), then PUT ,PSET of the array at the place of the GET:
    the page is the page before the GET, and the arrays are as the GET left them -/
theorem get_refused_put_identity (b : Builder) (hb : supported b) (W H : Int)
    (hW : W ≤ 16383) (hH : H ≤ 65535) (s s1 : GState) (hpg : ∀ x y, s.pg x y < 2 ^ b.bpp)
    (a : Nat) (xa ya xb yb : Int)
    (hget : gstep b (View.full W H) s (.get a xa ya xb yb) = .ok s1)
    (mid : List GStmt) (hmid : ∀ st ∈ mid, ∃ e, gstep b (View.full W H) s1 st = .error e) :
    grun b (View.full W H) s1 (mid ++ [.put a (min xa xb) (min ya yb) .pset]) = { s1 with pg := s.pg } ∧
    s1.pg = s.pg := by
  -- the refused statements
  have hrun : ∀ (l : List GStmt) (rest : List GStmt), (∀ st ∈ l, ∃ e, gstep b (View.full W H) s1 st = .error e) →
      grun b (View.full W H) s1 (l ++ rest) = grun b (View.full W H) s1 rest := by
    intro l
    induction l with
    | nil => intro rest _; rfl
    | cons st l ih =>
      intro rest hl
      obtain ⟨e, he⟩ := hl st List.mem_cons_self
      show grun b (View.full W H) s1 (st :: (l ++ rest)) = _
      simp only [grun, he]
      exact ih rest (fun x hx => hl x (List.mem_cons_of_mem _ hx))
  rw [hrun mid _ hmid]
  -- the GET
  simp only [gstep] at hget
  split at hget
  · cases hget
  rename_i packed hpk
  injection hget with hs1
  subst hs1
  have hput := get_put_pset_identity b hb W H hW hH s.pg hpg xa ya xb yb _ packed hpk
    ((s.arrs a).drop packed.length)
  refine ⟨?_, rfl⟩
  simp only [grun, gstep, GState.setArr, if_true, writePrefix, hput]

/-- after the array has been given other bytes (assignment, API, ERASE + DIM), PUT paints the picture
    those bytes encode: the result is `putStmt` of the new bytes, whatever an earlier GET fetched -/
theorem put_after_store (b : Builder) (v : View) (s : GState) (a : Nat) (bytes : Bytes) (x0 y0 : Int) (op : PutOp) :
    (grun b v s [.store a bytes, .put a x0 y0 op]).pg =
      match putStmt b v s.pg x0 y0 bytes op with
      | .ok pg => pg
      | .error _ => s.pg := by
  simp only [grun, gstep, GState.setArr, if_true]
  cases putStmt b v s.pg x0 y0 bytes op <;> rfl

/-- PUT with XOR applied twice at the same place restores the page: every builder, every array, every
    viewport (the second PUT fits because the first did) -/
theorem xor_twice (b : Builder) (v : View) (pg pg1 : Page) (x0 y0 : Int) (arr : Bytes)
    (h1 : putStmt b v pg x0 y0 arr .xor = .ok pg1) :
    putStmt b v pg1 x0 y0 arr .xor = .ok pg := by
  unfold putStmt at h1 ⊢
  simp only [] at h1 ⊢
  split at h1
  · cases h1
  split at h1
  · cases h1
  rename_i hc0 hc1
  injection h1 with h1
  rw [if_neg hc0, if_neg hc1, ← h1, putRect_xor_twice]

/-- the other three operations, cell by cell (PSET copies, PRESET inverts within `bpp` bits, AND / OR
    combine with the screen), outside the sprite rectangle nothing changes -/
theorem put_cells (op : PutOp) (bpp : Nat) (pg : Page) (x0 y0 : Int) (s : Rows) (x y : Int) :
    putRect op bpp pg x0 y0 s x y =
      if x0 ≤ x ∧ x < x0 + width s ∧ y0 ≤ y ∧ y < y0 + height s then
        op.cell bpp (pg x y) (cellAt s (x - x0).toNat (y - y0).toNat)
      else pg x y := rfl

/-! ### coordinate forms -/

/-- a STEP second corner (LINE, LINE B/BF, GET) is an offset from the first corner, wherever the previous
    statement left the graphics cursor, and the cursor ends on the second corner -/
theorem step_second_corner_relative_to_first (last : Int × Int) (x0 y0 dx dy : Int) (st : Bool) (fx fy : Int) :
    getCorners last x0 y0 ⟨true, dx, dy⟩ = ((x0, y0), (x0 + dx, y0 + dy), (x0 + dx, y0 + dy)) ∧
    lineCorners last (some ⟨false, x0, y0⟩) ⟨true, dx, dy⟩ = ((x0, y0), (x0 + dx, y0 + dy), (x0 + dx, y0 + dy)) ∧
    (lineCorners last (some ⟨st, fx, fy⟩) ⟨true, dx, dy⟩).2.1 =
      ((lineCorners last (some ⟨st, fx, fy⟩) ⟨true, dx, dy⟩).1.1 + dx,
       (lineCorners last (some ⟨st, fx, fy⟩) ⟨true, dx, dy⟩).1.2 + dy) := by
  refine ⟨rfl, rfl, rfl⟩

/-- an omitted first corner is the cursor; a STEP first corner or single point is an offset from the cursor -/
theorem step_first_relative_to_cursor (last : Int × Int) (dx dy x1 y1 : Int) :
    (lineCorners last none ⟨false, x1, y1⟩).1 = last ∧
    (lineCorners last (some ⟨true, dx, dy⟩) ⟨false, x1, y1⟩).1 = (last.1 + dx, last.2 + dy) ∧
    pointStmt last ⟨true, dx, dy⟩ = ((last.1 + dx, last.2 + dy), (last.1 + dx, last.2 + dy)) := by
  refine ⟨rfl, rfl, rfl⟩

/-- without the store of the first corner between the two corners of GET the rectangle depends on the
    previous cursor (the seeded change C31e): cursor (2,3), `GET (10,10)-STEP(7,5)` fetches up to (9,8) -/
theorem get_without_cursor_store_counterexample :
    (getCornersNoStore (2, 3) 10 10 ⟨true, 7, 5⟩).2.1 = (9, 8) ∧
    (getCorners (2, 3) 10 10 ⟨true, 7, 5⟩).2.1 = (17, 15) := by decide

/-! ### the hypotheses are satisfiable -/

example : (Builder.packed 2).admits [[1, 2, 3], [0, 3, 1]] 3 := by
  refine ⟨by decide, by decide, by decide, by decide, by decide, ?_⟩
  show 3 * 2 < 65536
  decide

example : (Builder.tandy6 2).admits [[1, 2, 3, 0], [0, 3, 1, 1]] 4 := by
  refine ⟨by decide, by decide, by decide, by decide, by decide, ?_⟩
  show 4 < 65536 ∧ 4 % 2 = 0
  decide

example : supported (.packed 1) ∧ supported (.packed 4) ∧ supported (.planed 4) ∧ supported (.tandy6 2) := by
  refine ⟨Or.inl rfl, Or.inr (Or.inr rfl), Or.inr (Or.inr (Or.inr rfl)), Or.inr (Or.inl rfl)⟩

/-- a GET that succeeds (hypothesis of `get_put_pset_identity`) -/
example : ∃ arr, getStmt (.planed 4) (View.full 320 200) (fun x y => ((x + 2 * y) % 16).toNat) 12 9 5 7 100 = .ok arr :=
  ⟨_, rfl⟩

/-- a steep line drawn towards the top left: 6 cells, from the second end point to the first -/
example : drawLine (View.full 320 200) 5 9 3 4 =
    pixels [(3, 4), (3, 5), (4, 6), (4, 7), (5, 8), (5, 9)] := by decide

example : (Builder.packed 2).pack [[1, 2, 3], [0, 3, 1]] = [6, 0, 2, 0, 0x6c, 0x34] := by decide

end PcbV.C31
