/-
  PcbV.Model.DosFiles — the file-level part of pcbasic/basic/devices/disk.py on ONE directory:
    dos_name_matches (wildcards, transcribed as a matcher, not via regex), DiskDevice._get_dos_display_name,
    _filter_names, listdir (FILES), kill, rename, open (name resolution + creation), with the pre-checks of
    files.py (Files.open / kill_ / files_ / name_) for names WITHOUT drive letter and directory part.
  The host directory is a PARAMETER: `Dir`, the list of native names in `os.listdir` order
  (regular files only; no sub-directories).  Name resolution itself is PcbV.DosNames.nativeName (C27 model),
  instantiated with the file system `dirFS d`.
-/
import PcbV.Model.DosNames
import PcbV.Gen.DosFiles
namespace PcbV.DosFiles
open PcbV PcbV.Gen PcbV.Gen.DosTables PcbV.DosNames

/-- the host directory: native names of its regular files (code points), in `os.listdir` order -/
abbrev Dir := List HostName

/-- the mount root in split form (`''.split('/')`) -/
def root : HostPath := [[]]

/-- the file system that consists of the root directory with the regular files `d` -/
def dirFS (d : Dir) : FS :=
  { isDir := fun p => p == root
    isFile := fun p => match p with
      | [n] => !n.isEmpty && d.contains n
      | _ => false
    listdir := fun p => if p == root then some d else none }

/-! ### dos_name_matches -/

/-- `.*` followed by the rest `k` of the expression: `k` is tried at every suffix reachable over bytes other than LF -/
def starAux (k : Bytes → Bool) : Bytes → Bool
  | [] => k []
  | c :: n' => k (c :: n') || (c != 10 && starAux k n')

/-- the matcher the regular expression of `dos_name_matches` denotes; mask first.
    `?` → `.` (exactly one byte other than LF), `*` → `.*` (any run of bytes other than LF),
    any other byte → itself (`re.escape`); anchored at both ends (`\A … \Z`). -/
def wmatch : Bytes → Bytes → Bool
  | [], n => n.isEmpty
  | m :: ms, n =>
    if m = 63 then
      match n with
      | [] => false
      | c :: n' => c != 10 && wmatch ms n'
    else if m = 42 then starAux (fun n' => wmatch ms n') n
    else
      match n with
      | [] => false
      | c :: n' => c == m && wmatch ms n'

/-- `dos_name_matches(name, mask)` -/
def nameMatches (name mask : Bytes) : Bool := wmatch (upper mask) (upper name)

/-- trunk and extension of a display name against the two halves of a mask -/
def maskMatches (mask : Bytes) (disp : Bytes) : Bool :=
  nameMatches (splitext disp).1 (splitext mask).1 && nameMatches (splitext disp).2 (splitext mask).2

/-! ### display names -/

/-- `codepage.unicode_to_bytes(name, errors='replace')` for the default code page, code point by code point
    (assumption: the host name is in NFC and has no NUL-prefixed e-ASCII pairs) -/
def toBytes (n : HostName) : Bytes :=
  n.map (fun u => match DosFiles.fromUni.lookup u with
    | some b => b
    | none => if u < 128 then u else 63)

/-- `DiskDevice._get_dos_display_name` on a host without short names (`get_short_pathname` → None) -/
def displayName (n : HostName) : Bytes :=
  if n.all (· < 128) && isLegal n then normalise n else
  let te := splitext (toBytes n)
  let t := if te.1.length > 8 then te.1.take 7 ++ [43] else te.1
  let e := if te.2.length > 3 then te.2.take 2 ++ [43] else te.2
  t ++ (if !e.isEmpty || t.isEmpty then [46] else []) ++ e

/-- `compat.is_hidden` (POSIX): dot files -/
def hidden (n : HostName) : Bool := n.head? == some 46 && !isDots n

/-- order of `sorted()` on (trunk, ext) tuples of bytes -/
def pairLe (a b : Bytes × Bytes) : Bool :=
  if a.1 == b.1 then lexLe a.2 b.2 else lexLe a.1 b.1

/-- `DiskDevice._filter_names` -/
def filterNames (names : List HostName) (mask : Bytes) : List (Bytes × Bytes) :=
  let mask := if mask.isEmpty then [42, 46, 42] else mask
  (((names.map displayName).filter (maskMatches mask)).map splitext).mergeSort pairLe

/-- `dos_mask.rstrip() or dos_mask` (the C28 repair of kill / listdir: trailing whitespace of a mask is ignored,
    as `_get_dos_name_defext` ignores it in a name) -/
def maskStrip (mask : Bytes) : Bytes := if (rstrip mask).isEmpty then mask else rstrip mask

/-- `DiskDevice.listdir` before the repair, for a mask without directory part: (directory entries, file entries) -/
def listdirOld (d : Dir) (mask : Bytes) : List (Bytes × Bytes) × List (Bytes × Bytes) :=
  if isDots mask then ([([], [])], [])
  else (filterNames [[46], [46, 46]] mask, filterNames (d.filter (fun n => !hidden n)) mask)

/-- `DiskDevice.listdir` (repaired code) -/
def listdir (d : Dir) (mask : Bytes) : List (Bytes × Bytes) × List (Bytes × Bytes) :=
  listdirOld d (maskStrip mask)

/-- `Files.files_` + `listdir`: `none` = FILES without argument -/
def filesWith (ld : Dir → Bytes → List (Bytes × Bytes) × List (Bytes × Bytes)) (d : Dir) (mask : Option Bytes) :
    R (List (Bytes × Bytes) × List (Bytes × Bytes)) :=
  match mask with
  | some [] => .error E.bad_file_name
  | _ =>
    let r := ld d (mask.getD [])
    if r.1.isEmpty && r.2.isEmpty then .error E.file_not_found else .ok r

def files (d : Dir) (mask : Option Bytes) := filesWith listdir d mask
def filesOld (d : Dir) (mask : Option Bytes) := filesWith listdirOld d mask

/-! ### KILL -/

/-- `dict[k] = v` on an insertion-ordered dict -/
def dictSet (l : List (Bytes × HostName)) (k : Bytes) (v : HostName) : List (Bytes × HostName) :=
  match l with
  | [] => [(k, v)]
  | (k', v') :: r => if k' == k then (k, v) :: r else (k', v') :: dictSet r k v

/-- `{display(n): n for n in files}` -/
def displayDict (d : Dir) : List (Bytes × HostName) :=
  d.foldl (fun acc n => dictSet acc (displayName n) n) []

/-- the native names `DiskDevice.kill` removes -/
def killSet (d : Dir) (mask : Bytes) : List HostName :=
  ((displayDict d).filter (fun kv => maskMatches mask kv.1 && isLegal kv.1 && !hidden kv.2)).map (·.2)

/-- `Files.kill_` + `DiskDevice.kill` before the repair (no file is open): the removed native names -/
def killOld (d : Dir) (mask : Bytes) : R (List HostName) :=
  if mask.isEmpty then .error E.bad_file_name else
  let k := killSet d mask
  if k.isEmpty then .error E.file_not_found else .ok k

/-- `Files.kill_` + `DiskDevice.kill` (repaired code) -/
def kill (d : Dir) (mask : Bytes) : R (List HostName) :=
  if mask.isEmpty then .error E.bad_file_name else
  let k := killSet d (maskStrip mask)
  if k.isEmpty then .error E.file_not_found else .ok k

def afterKill (d : Dir) (mask : Bytes) : Dir :=
  match kill d mask with
  | .ok k => d.filter (fun n => !k.contains n)
  | .error _ => d

/-! ### OPEN / SAVE / LOAD -/

/-- name resolution of a file statement in the root directory -/
def lookup (d : Dir) (name defext : Bytes) (create : Bool) : R HostName :=
  nativeName (dirFS d) root name defext false create

/-- `Files.open` + `DiskDevice.open` for a name without device and directory part:
    the native file that is opened (created when it does not exist and `create`) -/
def openFile (d : Dir) (name defext : Bytes) (create : Bool) : R HostName :=
  if name.isEmpty then .error E.bad_file_number else lookup d name defext create

def afterOpen (d : Dir) (name defext : Bytes) (create : Bool) : Dir :=
  match openFile d name defext create with
  | .ok c => if d.contains c then d else d ++ [c]
  | .error _ => d

/-! ### NAME -/

/-- `Files.name_` + `DiskDevice.rename` for non-empty names without device and directory part (no file is open):
    (old native name, new native name) -/
def rename (d : Dir) (old new : Bytes) : R (HostName × HostName) :=
  match lookup d old [] false with
  | .error n => .error n
  | .ok o =>
    match lookup d new [] true with
    | .error n => .error n
    | .ok c => if d.contains c then .error E.file_already_exists else .ok (o, c)

def afterRename (d : Dir) (old new : Bytes) : Dir :=
  match rename d old new with
  | .ok oc => (d.filter (· != oc.1)) ++ [oc.2]
  | .error _ => d

/-! ### histories -/

inductive Op where
  | create (name defext : Bytes)      -- OPEN FOR OUTPUT/APPEND/RANDOM (defext = []), SAVE/BSAVE (defext = BAS)
  | read (name defext : Bytes)        -- OPEN FOR INPUT (defext = []), LOAD/MERGE/CHAIN/RUN/BLOAD (defext = BAS)
  | kill (mask : Bytes)
  | rename (old new : Bytes)
  | files (mask : Option Bytes)
deriving DecidableEq

def step (d : Dir) : Op → Dir
  | .create n x => afterOpen d n x true
  | .read _ _ => d
  | .kill m => afterKill d m
  | .rename o n => afterRename d o n
  | .files _ => d

def run (d : Dir) (ops : List Op) : Dir := ops.foldl step d

end PcbV.DosFiles
