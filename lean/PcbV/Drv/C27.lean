import PcbV.Model.Paths
namespace PcbV.Drv.C27
open PcbV PcbV.DosNames PcbV.Paths

def showName (c : HostName) : String :=
  if c.isEmpty then "e" else ".".intercalate (c.map toString)

def showPath (p : HostPath) : String :=
  if p.isEmpty then "-" else "/".intercalate (p.map showName)

def parseName (s : String) : Option HostName :=
  if s == "e" then some [] else (s.splitOn ".").mapM (·.toNat?)

def parsePath (s : String) : Option HostPath :=
  if s == "-" then some [] else (s.splitOn "/").mapM parseName

/-- "D<path>,F<path>,…" or "-" → (dirs, files) -/
def parseTree (s : String) : Option (List HostPath × List HostPath) :=
  if s == "-" then some ([], []) else
  (s.splitOn ",").foldlM (fun (acc : List HostPath × List HostPath) e =>
    match e.toList with
    | 'D' :: r => (parsePath (String.ofList r)).map (fun p => (acc.1 ++ [p], acc.2))
    | 'F' :: r => (parsePath (String.ofList r)).map (fun p => (acc.1, acc.2 ++ [p]))
    | _ => none) ([], [])

def showRP (r : R HostPath) : String := showR showPath r

def bit (s : String) : Bool := s == "1"

/-- one operation of a history; returns (reply, new cwd) -/
def doOp (old : Bool) (fs : FS) (mounted : Bool) (cwd : HostPath) (op : String) : String × HostPath :=
  match op.splitOn "," with
  | ["cd", a] =>
    match ofHex a with
    | some a =>
      let r := if old then reldirOld fs mounted cwd a else reldir fs mounted cwd a
      (showRP r, match r with | .ok p => p | .error _ => cwd)
    | none => ("bad-op", cwd)
  | ["rd", a] =>
    match ofHex a with
    | some a => (showRP (if old then reldirOld fs mounted cwd a else reldir fs mounted cwd a), cwd)
    | none => ("bad-op", cwd)
  | ["ab", d, c, a, x] =>
    match ofHex a, ofHex x with
    | some a, some x =>
      let r := if old then abspathOld fs mounted cwd a x (bit d) (bit c) else abspath fs mounted cwd a x (bit d) (bit c)
      (showR (fun (uq : Nat × HostPath) => "^" ++ toString uq.1 ++ " " ++ showPath uq.2) r, cwd)
    | _, _ => ("bad-op", cwd)
  | ["pm", a] =>
    match ofHex a with
    | some a =>
      (showR (fun (dm : HostPath × Bytes) => showPath dm.1 ++ " " ++ toHex dm.2) (splitPathmask fs mounted cwd a), cwd)
    | none => ("bad-op", cwd)
  | _ => ("bad-op", cwd)

def runHist (old : Bool) (fs : FS) (mounted : Bool) : List String → HostPath → List String → List String
  | [], _, acc => acc.reverse
  | op :: rest, cwd, acc =>
    let rc := doOp old fs mounted cwd op
    runHist old fs mounted rest rc.2 (rc.1 :: acc)

def handle : List String → String
  | ["np", a] =>
    match ofHex a with
    | some a => "ok " ++ toHex (normpath a)
    | none => "bad-op"
  | ["sp", a] =>
    match ofHex a with
    | some a => let ht := ntsplit a; "ok " ++ toHex ht.1 ++ " " ++ toHex ht.2
    | none => "bad-op"
  | ["dv", ver, cur, a] =>
    match ofHex cur, ofHex a with
    | some cur, some a =>
      showR (fun (ls : Nat × Bytes) => toString ls.1 ++ " " ++ toHex ls.2)
        (if ver == "old" then diskDeviceAndPathOld cur a else diskDeviceAndPath cur a)
    | _, _ => "bad-op"
  | ["nn", tree, path, name, defext, d, c] =>
    match parseTree tree, parsePath path, ofHex name, ofHex defext with
    | some t, some p, some n, some x =>
      showR showName (nativeName (treeFS t.1 t.2) p n x (bit d) (bit c))
    | _, _, _, _ => "bad-op"
  | ["hist", ver, m, tree, ops] =>
    match parseTree tree with
    | some t =>
      "|".intercalate (runHist (ver == "old") (treeFS t.1 t.2) (m == "m") (ops.splitOn ";") [[]] [])
    | none => "bad-op"
  | _ => "bad-op"

end PcbV.Drv.C27
