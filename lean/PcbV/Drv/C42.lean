import PcbV.Model.Play
import PcbV.Model.PlayVoices
namespace PcbV.Drv.C42
open PcbV PcbV.Gen PcbV.Mml PcbV.Play PcbV.PlayVoices

/-- a variable of the test session: full name (with sigil) and value -/
inductive Binding where
  | num (name : Bytes) (v : Int)
  | str (name : Bytes) (v : Bytes)
  | arr (name : Bytes) (vs : List Int)

def parseInt (s : String) : Option Int :=
  if s.startsWith "-" then (s.drop 1).toNat?.map (fun n => -(n : Int)) else s.toNat?.map (fun n => (n : Int))

def parseInts (s : String) : Option (List Int) :=
  if s == "-" then some [] else (s.splitOn ",").mapM parseInt

def parseBinding (s : String) : Option Binding :=
  match s.splitOn ":" with
  | [n, "n", v] => do let n ← ofHex n; let v ← parseInt v; pure (.num n v)
  | [n, "s", v] => do let n ← ofHex n; let v ← ofHex v; pure (.str n v)
  | [n, "a", v] => do let n ← ofHex n; let v ← parseInts v; pure (.arr n v)
  | _ => none

def parseBindings (s : String) : Option (List Binding) :=
  if s == "-" then some [] else (s.splitOn ";").mapM parseBinding

/-- `Memory.complete_name` with the default DEFSNG table -/
def complete (name : Bytes) : Bytes :=
  match name.getLast? with
  | some c => if isSigil c then name else name ++ [33]
  | none => name

def lookupScalar (bs : List Binding) (name : Bytes) : R Val :=
  match bs.find? (fun b => match b with
      | .num n _ => n == name | .str n _ => n == name | .arr _ _ => false) with
  | some (.num _ v) => .ok (.num v)
  | some (.str _ v) => .ok (.str v)
  | _ => if name.getLast? == some 36 then .ok (.str []) else .ok (.num 0)

def lookupArray (bs : List Binding) (name : Bytes) (idx : List Int) : R Val :=
  match bs.find? (fun b => match b with | .arr n _ => n == name | _ => false) with
  | some (.arr _ vs) =>
    match idx with
    | [i] => if 0 ≤ i ∧ i.toNat < vs.length then .ok (.num (vs.getD i.toNat 0))
             else .error E.subscript_out_of_range
    | _ => .error E.subscript_out_of_range
  | _ => .error E.subscript_out_of_range   -- the harness only refers to DIMmed arrays

def mkEnv (bs : List Binding) (vol : Bool := false) : Env :=
  { var := fun name idx =>
      let name := complete name
      if idx.isEmpty then lookupScalar bs name else lookupArray bs name idx,
    ptr := fun _ => .error E.ifc,
    volumeCmd := vol }

def showFrac (n d : Nat) : String :=
  let g := Nat.gcd n d
  if g == 0 then "0/0" else toString (n / g) ++ "/" ++ toString (d / g)

def showRaw (r : Raw) : String :=
  (match r.note with | some i => "i" ++ toString i | none => "r") ++ ":" ++ showFrac r.num r.den
    ++ ":" ++ toString r.volume

def showStatus : Status → String
  | .ok => "ok"
  | .err e => "err" ++ toString e
  | .outOfFuel => "hang"

def showState (ps : PlayState) : String :=
  ",".intercalate [toString ps.octave, toString ps.length, toString ps.tempo, toString ps.fill.eighths,
    toString ps.volume, showBool ps.foreground]

def runAll (lim : Limits) (env : Env) (fuel : Nat) : PlayState → List Bytes → List String → PlayState × List String
  | ps, [], acc => (ps, acc.reverse)
  | ps, s :: rest, acc =>
    let o := play lim env fuel ps s
    let evs := (o.evs.flatMap flatten).map showRaw
    runAll lim env fuel o.ps rest (("/".intercalate (showStatus o.status :: evs)) :: acc)

def showRawV (r : Raw) : String := "v" ++ toString r.voice ++ ":" ++ showRaw r

/-- statements of a three-voice history: voices joined by `+`, `-` for an empty string -/
def parseVoices (s : String) : Option (List Bytes) := (s.splitOn "+").mapM ofHex

def runAllM (lim : Limits) (env : Env) (fuel : Nat) :
    List PlayState → Bool → List (List Bytes) → List String → List PlayState × Bool × List String
  | pss, fg, [], acc => (pss, fg, acc.reverse)
  | pss, fg, strs :: rest, acc =>
    let o := mplay lim env fuel pss fg strs
    let evs := (o.evs.flatMap flatten).map showRawV
    runAllM lim env fuel (o.vs.map (·.ps)) o.fg rest (("/".intercalate (showStatus o.status :: evs)) :: acc)

def handle : List String → String
  | ["mplay", fuel, binds, stmts] =>
    match fuel.toNat?, parseBindings binds, (stmts.splitOn ",").mapM parseVoices with
    | some fuel, some bs, some ss =>
      let (pss, fg, outs) := runAllM limits (mkEnv bs true) fuel [initState, initState, initState] true ss []
      "ok " ++ ";".intercalate outs ++ " " ++
        "|".intercalate (pss.map (fun ps => showState { ps with foreground := fg }))
    | _, _, _ => "bad-op"
  | ["play", fuel, binds, mmls] =>
    match fuel.toNat?, parseBindings binds, (mmls.splitOn ",").mapM ofHex with
    | some fuel, some bs, some ss =>
      let (ps, outs) := runAll limits (mkEnv bs) fuel initState ss []
      "ok " ++ ";".intercalate outs ++ " " ++ showState ps
    | _, _, _ => "bad-op"
  | ["limit"] => "ok " ++ toString limits.maxNesting
  | _ => "bad-op"

end PcbV.Drv.C42
