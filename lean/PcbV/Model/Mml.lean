import PcbV.Basic
import PcbV.Gen.Errors
/-
  PcbV.Model.Mml — executable model of pcbasic/basic/mlparser.py (class MLParser, used by PLAY and
  DRAW) and of the CodeStream helpers it uses (codestream.py: skip_blank, skip_blank_read_if,
  read_name, require_read).

  The stream is the list of bytes still to be read; every function returns the bytes that remain.
  `skip_blank` leaves the position *behind* the blanks (it reads them and seeks back one character),
  the model does the same.  The only blank of the macro languages is the space (`blanks = b' '`).
  The variable store is a parameter (`Env`).
-/
namespace PcbV.Mml
open PcbV PcbV.Gen

/-- a BASIC value as the macro-language parser sees it: a number already converted with `to_int()`,
    or a string -/
inductive Val where
  | num (i : Int)
  | str (b : Bytes)
  deriving DecidableEq, Repr

/-- the variable store: `var name indices` is `Memory.view_or_create_variable` (the name is what
    `read_name` returns: upper-cased, at most 40 characters plus an optional sigil; completing it with
    the default sigil is the store's business), `ptr b` is `Memory.get_value_for_varptrstr` on the
    three bytes following `=` / `X` when the first of them is ≤ 8; `volumeCmd` is not part of the
    store: it is the one syntax option the PLAY command parser looks at -/
structure Env where
  var : Bytes → List Int → R Val
  ptr : Bytes → R Val
  /-- syntax option seen by the PLAY parser: the `V` (volume) command is accepted
      (`self._multivoice and self._sound_on or self._multivoice == 'tandy'`) -/
  volumeCmd : Bool := false

def isDigit (c : Nat) : Bool := decide (48 ≤ c) && decide (c ≤ 57)
def isUpper (c : Nat) : Bool := decide (65 ≤ c) && decide (c ≤ 90)
def isLower (c : Nat) : Bool := decide (97 ≤ c) && decide (c ≤ 122)
def isLetter (c : Nat) : Bool := isUpper c || isLower c
/-- tokens.NAME_CHARS = letters + digits + `.` -/
def isNameChar (c : Nat) : Bool := isLetter c || isDigit c || c == 46
/-- tokens.SIGILS = `#`, `!`, `%`, `$` -/
def isSigil (c : Nat) : Bool := c == 35 || c == 33 || c == 37 || c == 36
/-- `bytes.upper()` on one byte (ASCII only) -/
def upper (c : Nat) : Nat := if isLower c then c - 32 else c

/-- `CodeStream.skip_blank` (position after the blanks) -/
def skipBlank : Bytes → Bytes
  | [] => []
  | c :: r => if c == 32 then skipBlank r else c :: r

/-- `MLParser._parse_literal`, and the same loop in `Sound.play_` for note lengths:
    `while self.skip_blank() in DIGITS: digits.append(self.read(1))`; blanks between (and after)
    the digits are consumed.  `acc` is the value of the digits read so far. -/
def literal (acc : Nat) : Bytes → Nat × Bytes
  | [] => (acc, [])
  | c :: r =>
    if c == 32 then literal acc r
    else if isDigit c then literal (acc * 10 + (c - 48)) r
    else (acc, c :: r)

/-- `while mmls.skip_blank_read_if((b'.',))`: number of dots, blanks skipped -/
def dots : Bytes → Nat × Bytes
  | [] => (0, [])
  | c :: r =>
    if c == 32 then dots r
    else if c == 46 then let (n, r') := dots r; (n + 1, r')
    else (0, c :: r)

def spanName : Bytes → Bytes × Bytes
  | [] => ([], [])
  | c :: r => if isNameChar c then let (a, b) := spanName r; (c :: a, b) else ([], c :: r)

/-- `CodeStream.read_name`; empty name = no name at this position -/
def readName (s : Bytes) : Bytes × Bytes :=
  match skipBlank s with
  | [] => ([], [])
  | d :: r =>
    if !isLetter d then ([], d :: r) else
    let (nm, rest) := spanName (d :: r)
    let nm40 := (nm.take 40).map upper
    match rest with
    | [] => (nm40, [])
    | c :: r' => if isSigil c then (nm40 ++ [c], r') else (nm40, c :: r')

/-- `CodeStream.require_read(in_range, err)` for one-byte alternatives -/
def requireRead (alts : List Nat) (err : Nat) (s : Bytes) : R Bytes :=
  match skipBlank s with
  | [] => .error err
  | c :: r => if alts.contains c then .ok r else .error err

/-- error number the model uses for "a host exception escapes" (old code only) -/
def hostException : Nat := 0

/-- `values.pass_number(v).to_int()` -/
def numOfVal : Val → R Int
  | .num i => .ok i
  | .str _ => .error E.type_mismatch

/-- `values.pass_string(v).to_str()` -/
def strOfVal : Val → R Bytes
  | .str b => .ok b
  | .num _ => .error E.type_mismatch

/-- array index from a variable in `_parse_indices` (fixed code: `pass_number(...).to_int()`) -/
def idxOfVal : Val → R Int := numOfVal

/-- the same in the unrepaired code: `self._parse_variable().to_int()` – a `String` has no
    `to_int`, the AttributeError escapes -/
def idxOfValOld : Val → R Int
  | .num i => .ok i
  | .str _ => .error hostException

mutual
/-- `MLParser._parse_variable` (with `_parse_indices` inlined); the fuel bounds the nesting of
    variable indices, `s.length + 1` is always enough -/
def parseVariable (env : Env) : Nat → Bytes → R (Val × Bytes)
  | 0, _ => .error E.ifc
  | f + 1, s =>
    let (name, s1) := readName s
    if name.isEmpty then .error E.ifc else
    match skipBlank s1 with
    | [] => (env.var name []).map (fun v => (v, []))
    | c :: r =>
      if c == 91 || c == 40 then
        match indexLoop env f r [] with
        | .error e => .error e
        | .ok (idx, s2) => (env.var name idx).map (fun v => (v, s2))
      else (env.var name []).map (fun v => (v, c :: r))

/-- the `while True` loop of `_parse_indices` followed by `require_read((b']', b')'))` -/
def indexLoop (env : Env) : Nat → Bytes → List Int → R (List Int × Bytes)
  | 0, _, _ => .error E.ifc
  | f + 1, s, acc =>
    let s1 := skipBlank s
    let one : R (Int × Bytes) :=
      match s1 with
      | [] => (parseVariable env f s1).bind (fun (v, s2) => (idxOfVal v).map (fun i => (i, s2)))
      | c :: _ =>
        if isDigit c then let (n, s2) := literal 0 s1; .ok ((n : Int), s2)
        else (parseVariable env f s1).bind (fun (v, s2) => (idxOfVal v).map (fun i => (i, s2)))
    match one with
    | .error e => .error e
    | .ok (i, s2) =>
      match skipBlank s2 with
      | 44 :: r => indexLoop env f r (acc ++ [i])
      | s3 => (requireRead [93, 41] E.stx s3).map (fun r => (acc ++ [i], r))
end

/-- `MLParser.parse_number(default)` -/
def parseNumber (env : Env) (default : Option Int) (s : Bytes) : R (Int × Bytes) :=
  let s0 := skipBlank s
  -- sign: read one character, no blanks are skipped after it; a sign cancels the default
  let (neg, dflt, s1) : Bool × Option Int × Bytes :=
    match s0 with
    | 45 :: r => (true, none, r)
    | 43 :: r => (false, none, r)
    | _ => (false, default, s0)
  let res : R (Int × Bytes) :=
    match s1 with
    | 61 :: r =>
      match r with
      | [] => .error E.ifc
      | c :: _ =>
        if c > 8 then
          match parseVariable env (r.length + 1) r with
          | .error e => .error e
          | .ok (v, r2) =>
            match numOfVal v with
            | .error e => .error e
            | .ok i => (requireRead [59] E.ifc r2).map (fun r3 => (i, r3))
        else
          match env.ptr (r.take 3) with
          | .error e => .error e
          | .ok v => (numOfVal v).map (fun i => (i, r.drop 3))
    | c :: _ =>
      if isDigit c then let (n, r) := literal 0 s1; .ok ((n : Int), r)
      else match dflt with
        | some d => .ok (d, s1)
        | none => .error E.ifc
    | [] =>
      match dflt with
      | some d => .ok (d, s1)
      | none => .error E.ifc
  res.map (fun (v, r) => (if neg then -v else v, r))

/-- `MLParser.parse_string()` -/
def parseString (env : Env) (s : Bytes) : R (Bytes × Bytes) :=
  match skipBlank s with
  | [] => .error E.ifc
  | c :: r =>
    if c > 8 then
      match parseVariable env (r.length + 2) (c :: r) with
      | .error e => .error e
      | .ok (v, r2) =>
        -- require_read comes before pass_string
        match requireRead [59] E.ifc r2 with
        | .error e => .error e
        | .ok r3 => (strOfVal v).map (fun b => (b, r3))
    else
      match env.ptr ((c :: r).take 3) with
      | .error e => .error e
      | .ok v => (strOfVal v).map (fun b => (b, (c :: r).drop 3))

end PcbV.Mml
